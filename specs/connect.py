"""CBlock.connect / input_signature / get_conf (block.py): the data finalisation starts from and the two descriptions of it (C15)."""
import z3
from pyvc.sorts import *
from pyvc.values import *
from pyvc.state import declare_fields, View
from pyvc.contract import contract, CONTRACTS, Param
from pyvc.engine import Raise, NEXT
from pyvc import calls
from specs.common import *
from specs.frozen import frozen
from specs.c02 import is_iterator

declare_fields(inputs=Map(STR, VAL), circuit=Ref('Circuit'))
Q = 'edzed.block:CBlock.'
OV = OptOf(Val)
US = StringVal('_')

multiple = lambda v: Or(Val.is_T(v), And(Val.is_Opq(v), is_iterator(v)))        # block._is_multiple (contract: C02)


def as_tuple(v, r):
    """r is tuple(v) for a sequence v: a tuple with the same items in the same order"""
    j = Int('j!at')
    return And(Val.is_T(r), tup_is_tuple(Val.tk(r)), tup_len(Val.tk(r)) == tup_len(Val.tk(v)),
               ForAll([j], Implies(And(0 <= j, j < tup_len(Val.tk(v))), tup_item(Val.tk(r), j) == tup_item(Val.tk(v), j))))


def saved(v, r):
    """what connect() keeps for a named input given as v: a group becomes a tuple, anything else is kept as it is"""
    return If(Val.is_T(v), as_tuple(v, r), r == v)


@contract('CBlock.connect', qual=Q + 'connect', modifies=('inputs',), self_cls='CBlock')
def _connect(c):
    me = c.z('self')
    args = c.arg('args'); kw = c.arg('kwargs').arr
    aarr, an = seq_of(args, c.S.st)
    circ = c.pre('circuit', me)
    k, j = Const('k!cn', StringSort()), Int('j!cn')
    ins0, ins1 = c.pre('inputs', me), c.post('inputs', me)
    nonempty0 = Exists([k], OV.is_Some(ins0[k]))
    no_kw = ForAll([k], Not(Opt.is_Some(kw[k])))
    some_multiple = Exists([j], And(0 <= j, j < an, multiple(asel(aarr, j))))
    c.requires('error_is_an_exception_or_none', Or(c.pre('_error', circ) == Val.VNone, Val.is_Obj(c.pre('_error', circ))))
    c.requires('no_iterator_given_for_a_group', ForAll([k], Not(And(Opt.is_Some(kw[k]), Val.is_Opq(Opt.v(kw[k])), is_iterator(Opt.v(kw[k]))))))   # deprecated usage
    # ---- refusals: nothing is stored (unchanged) -------------------------------------------------------------------------------------------
    c.raises('EdzedInvalidState', when=Or(frozen(c.S, circ), nonempty0), iff=True, label='finalized_or_connected_before')
    c.raises('ValueError', when=Or(And(an == 0, no_kw), Opt.is_Some(kw[US]), some_multiple), iff=True,
             label='nothing_given_or_reserved_name_or_a_group_among_the_unnamed_inputs')
    # ---- normal return: exactly what was given is stored ---------------------------------------------------------------------------------
    c.ensures('returns_the_block', c.rv == Val.Obj(me))
    c.ensures('was_not_connected_before_and_not_frozen', And(Not(nonempty0), Not(frozen(c.S, circ))))
    u = OV.v(ins1[US])
    c.ensures('unnamed_inputs_form_the_group_named_underscore',
              If(an > 0, And(OV.is_Some(ins1[US]), Val.is_T(u), tup_is_tuple(Val.tk(u)), tup_len(Val.tk(u)) == an,
                             ForAll([j], Implies(And(0 <= j, j < an), tup_item(Val.tk(u), j) == asel(aarr, j)))),
                 Not(OV.is_Some(ins1[US]))))
    c.ensures('named_inputs_are_saved_under_their_names__groups_as_tuples',
              ForAll([k], Implies(k != US, And(OV.is_Some(ins1[k]) == Opt.is_Some(kw[k]),
                                               Implies(Opt.is_Some(kw[k]), saved(Opt.v(kw[k]), OV.v(ins1[k])))))))
    # quantifier-free instance at an arbitrary (fixed) name: what decides a refutation
    k0 = Const('k0!cn', StringSort())
    c.ensures('named_input_saved@k0', Implies(k0 != US, And(OV.is_Some(ins1[k0]) == Opt.is_Some(kw[k0]),
                                                             Implies(And(Opt.is_Some(kw[k0]), Not(Val.is_T(Opt.v(kw[k0])))), OV.v(ins1[k0]) == Opt.v(kw[k0])))))


def inv_connect_args(lc):
    """for inp in args: no group among the unnamed inputs seen so far; nothing stored yet"""
    me = as_kind(lc.pre.args['self'], Ref())
    j = Int('j!ia')
    return [('no_group_among_the_visited', ForAll([j], Implies(And(0 <= j, j < lc.i), Not(multiple(asel(lc.arr, j)))))),
            ('nothing_stored_yet', lc.st.f('inputs', me) == lc.entry.f('inputs', me))]


def inv_connect_kwargs(lc):
    """for iname, inp in kwargs.items(): the visited names are stored, the others are as at loop entry"""
    me = as_kind(lc.pre.args['self'], Ref())
    kw = lc.pre.args['kwargs'].arr
    k = Const('k!ik', StringSort())
    ins, ins0 = lc.st.f('inputs', me), lc.entry.f('inputs', me)
    return [('visited_names_are_stored', ForAll([k], Implies(lc.done[k], And(OV.is_Some(ins[k]), saved(Opt.v(kw[k]), OV.v(ins[k])))))),
            ('other_names_are_untouched', ForAll([k], Implies(Not(lc.done[k]), ins[k] == ins0[k])))]


# ---- input_signature ---------------------------------------------------------------------------------------------------------------------------
is_group = lambda v: And(Val.is_T(v), tup_is_tuple(Val.tk(v)))          # connect() saves every group as a tuple
sig_value = lambda v: If(is_group(v), Val.I(tup_len(Val.tk(v))), Val.VNone)


@contract('CBlock.input_signature', qual=Q + 'input_signature', modifies=(), self_cls='CBlock')
def _input_signature(c):
    me = c.z('self')
    k = Const('k!is', StringSort())
    ins = c.pre('inputs', me)
    c.raises('EdzedInvalidState', when=Not(Exists([k], OV.is_Some(ins[k]))), iff=True, label='not_connected_yet')
    r = c.rv
    c.ensures('is_a_dict', Val.is_D(r))
    d = dict_c(Val.dk(r))
    c.ensures('one_entry_per_input_name', ForAll([k], Opt.is_Some(d[k]) == OV.is_Some(ins[k])))
    c.ensures('group_size_or_none', ForAll([k], Implies(OV.is_Some(ins[k]), Opt.v(d[k]) == sig_value(OV.v(ins[k])))))
    k0 = Const('k0!is', StringSort())
    c.ensures('entry@k0', And(Opt.is_Some(d[k0]) == OV.is_Some(ins[k0]), Implies(OV.is_Some(ins[k0]), Opt.v(d[k0]) == sig_value(OV.v(ins[k0])))))


def verify_connect(run):
    from specs import c02   # contract of _is_multiple
    run.verify('CBlock.connect', cls='CBlock', invariants={'for inp in args': inv_connect_args, 'for (iname, inp) in kwargs.items()': inv_connect_kwargs})
    run.verify('CBlock.input_signature', cls='CBlock')
