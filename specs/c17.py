"""C17 - an Input never outputs a value that its validators reject.  DESIGN section 3, C17."""
import z3
from pyvc.sorts import *
from pyvc.values import *
from pyvc.state import declare_fields
from pyvc.contract import contract, CONTRACTS
from pyvc.engine import Raise
from specs.common import *

declare_fields(_schema=VAL, _check=VAL, _allowed=VAL, sdata=DICT, _state=VAL, _expired=VAL)
Q = 'edzed.blocklib.sblocks2:'


# ---- the statement, as spec functions ---------------------------------------------------------------------
def member(allowed, v):
    """`v` is among `allowed` (a frozenset value)"""
    return And(hashable(v), fs_member(Val.fk(allowed), v))


def acc(S, me, v):
    allowed, check, schema = S.f('_allowed', me), S.f('_check', me), S.f('_schema', me)
    return And(Or(allowed == Val.VNone, member(allowed, v)),
               Or(check == Val.VNone, truthy(app(check, v))),
               Or(schema == Val.VNone, Not(app_raises(schema, v))))


def res(S, me, v):
    schema = S.f('_schema', me)
    return If(schema == Val.VNone, v, app(schema, v))


def valid_validation(S, me):
    """type invariant of the mix-in: `allowed` is None or a frozenset; `check` does not raise (assumption)"""
    return Or(S.f('_allowed', me) == Val.VNone, Val.is_FS(S.f('_allowed', me)))


def check_total(S, me, v):
    return Or(S.f('_check', me) == Val.VNone, Not(app_raises(S.f('_check', me), v)))


@contract('_Validation._validate', qual=Q + '_Validation._validate', modifies=(), self_cls='_Validation')
def _validate(c):
    me, v = c.z('self'), c.v('value')
    c.requires('valid', valid_validation(c.S, me))
    c.requires('check_does_not_raise', check_total(c.S, me, v))
    a = acc(c.S, me, v)
    c.raises('ValueError', when=Not(a), iff=True, label='rejected')
    c.ensures('accepted', a)
    c.ensures('result_is_schema_of_value', c.rv == res(c.S, me, v))
    if c.verifying:
        # order of consultation: allowed, then check, then schema; each at most once
        allowed, check, schema = c.pre('_allowed', me), c.pre('_check', me), c.pre('_schema', me)
        n_check = If(check == Val.VNone, 0, 1); n_schema = If(schema == Val.VNone, 0, 1)
        c.ensures('trace_check_then_schema', And(
            c.T.tn == n_check + n_schema,
            Implies(check != Val.VNone, c.T.tr[0] == rec('usercall', check, v)),
            Implies(schema != Val.VNone, c.T.tr[n_check] == rec('usercall', schema, v))))


@contract('Input._event_put', qual=Q + 'Input._event_put', modifies=DELIVERY, self_cls='Input')
def _input_put(c):
    me, v = c.z('self'), c.v('value')
    c.requires('valid', valid_validation(c.S, me))
    c.requires('check_does_not_raise', check_total(c.S, me, v))
    a = acc(c.S, me, v)
    r = res(c.S, me, v)
    p = c.pre('_output', me)
    c.ensures('true_iff_accepted', c.rv == Val.B(a))
    c.ensures('accepted_output_is_schema_of_value', Implies(a, And(r != Val.Undef, c.post('_output', me) == set_output_result(p, r))))
    c.ensures('rejected_changes_nothing', Implies(Not(a), c.post_whole('_output') == c.pre_whole('_output')))
    # a schema producing UNDEF is refused by set_output (ValueError inside the handler): nothing is output
    c.raises('ValueError', when=And(a, r == Val.Undef), label='schema_returned_undef')
    c.raises('DeliveryError', when=And(a, r != Val.Undef), unchanged=False,
             ensures=lambda post, exc: [post.f('_output', me) == set_output_result(p, r)])
    if c.verifying:
        c.ensures('set_output_only_if_accepted', Implies(Not(a), c.T.tn == 0))


def _opaque_super_init(fields, establishes=None):
    """`super().__init__(...)`: the constructors further up the MRO; opaque here, they set `fields` and establish
    what their own contracts say (`establishes`)"""
    def h(ex, e, st):
        st = st.copy(); st.emit(rec('super().__init__'))
        for f in fields: st.havoc_field(f)
        if establishes:
            from pyvc.state import View
            for f in establishes(ex, View(st), as_kind(st.env['self'], Ref(), st)): st.assume(f)
        return [(st, P_NONE)]
    return h


def _after_super_input(ex, S, me):
    # post of _Validation.__init__ (verified above) + assumption "check does not raise" for the values validated here
    return [valid_validation(S, me), check_total(S, me, S.f('initdef', me))]


def _after_super_inputexp(ex, S, me):
    st = S.st
    return [valid_validation(S, me), check_total(S, me, to_val(st.env['initdef'], st)), check_total(S, me, to_val(st.env['expired'], st))]


@contract('Input.__init__', qual=Q + 'Input.__init__', modifies=('_output', 'initdef', '_schema', '_check', '_allowed'), self_cls='Input')
def _input_init(c):
    me = c.z('self')
    # the constructors further up the MRO (opaque here) set the fields; afterwards the initdef is validated
    def bad(post, exc):
        return [post.f('initdef', me) != Val.Undef, Not(acc(post, me, post.f('initdef', me)))]
    c.raises('ValueError', ensures=bad, unchanged=False, label='invalid_initdef_refused')
    c.ensures('initdef_valid', Or(c.post('initdef', me) == Val.Undef, acc(c.T, me, c.post('initdef', me))))


@contract('Input.init_from_value', qual=Q + 'Input.init_from_value', modifies=DELIVERY, self_cls='Input')
def _input_ifv(c):
    me, v = c.z('self'), c.v('value')
    c.raises('DeliveryError', unchanged=False)
    if c.verifying:
        c.ensures('goes_through_put_event', And(c.T.tn == 1, c.T.tr[0] == rec('event', Val.Obj(me), S_('put'), kw=dict_of(value=v))))


@contract('_Validation.__init__', qual=Q + '_Validation.__init__', modifies=('_schema', '_check', '_allowed'), self_cls='_Validation')
def _validation_init(c):
    me = c.z('self')
    allowed = c.v('allowed')
    c.requires('allowed_is_iterable', Or(allowed == Val.VNone, Val.is_T(allowed), Val.is_FS(allowed)))
    c.ensures('schema_stored', c.post('_schema', me) == c.v('schema'))
    c.ensures('check_stored', c.post('_check', me) == c.v('check'))
    c.ensures('allowed_none_or_frozenset', If(allowed == Val.VNone, c.post('_allowed', me) == Val.VNone, Val.is_FS(c.post('_allowed', me))))
    c.ensures('invariant', valid_validation(c.T, me))


# ---- InputExp ----------------------------------------------------------------------------------------------
def ctx_data_get(ex, e, st):
    """fsm.fsm_event_data.get(): the (read-only) data of the event being handled -- ghost `ctx_data`"""
    return [(st, PDict(st.ghost['ctx_data']))]


@contract('InputExp.cond_put', qual=Q + 'InputExp.cond_put', modifies=('sdata',), self_cls='InputExp')
def _cond_put(c):
    me = c.z('self')
    data = c.S.g('ctx_data')
    cell = data[StringVal('value')]
    c.requires('valid', valid_validation(c.S, me))
    c.requires('put_carries_value', Opt.is_Some(cell))
    v = Opt.v(cell)
    c.requires('check_does_not_raise', check_total(c.S, me, v))
    a = acc(c.S, me, v)
    c.ensures('true_iff_accepted', c.rv == Val.B(a))
    c.ensures('accepted_value_stored', Implies(a, c.post('sdata', me) == Store(c.pre('sdata', me), StringVal('input'), Opt.Some(res(c.S, me, v)))))
    c.ensures('rejected_changes_nothing', Implies(Not(a), c.post_whole('sdata') == c.pre_whole('sdata')))


@contract('InputExp.calc_output', qual=Q + 'InputExp.calc_output', modifies=(), self_cls='InputExp')
def _calc_output(c):
    me = c.z('self')
    valid = py_eq(c.pre('_state', me), S_('valid'))
    cell = c.pre('sdata', me)[StringVal('input')]
    c.requires('valid_state_has_value', Implies(valid, Opt.is_Some(cell)))
    c.ensures('value_or_expired', c.rv == If(valid, Opt.v(cell), c.pre('_expired', me)))


@contract('InputExp.__init__', qual=Q + 'InputExp.__init__', modifies=('_output', 'initdef', '_schema', '_check', '_allowed', 'sdata', '_expired', '_state'),
          self_cls='InputExp')
def _inputexp_init(c):
    me, initdef, expired = c.z('self'), c.v('initdef'), c.v('expired')
    has = initdef != Val.Undef
    def bad(post, exc):
        return [Or(And(has, Not(acc(post, me, initdef))), Not(acc(post, me, expired)))]
    c.raises('ValueError', ensures=bad, unchanged=False, label='invalid_initdef_or_expired_refused')
    c.ensures('initdef_valid_and_stored', Implies(has, And(acc(c.T, me, initdef),
              c.post('sdata', me)[StringVal('input')] == Opt.Some(res(c.T, me, initdef)))))
    c.ensures('expired_valid_and_stored', And(acc(c.T, me, expired), c.post('_expired', me) == res(c.T, me, expired)))


def build(run):
    from edzed.blocklib import sblocks2
    UC = {'*value*': user_call}
    run.verify('_Validation._validate', cls='Input', calls=UC)
    run.verify('Input._event_put', cls='Input', calls=UC)
    run.verify('_Validation.__init__', cls='Input', calls={'super().__init__': _opaque_super_init([])})
    run.verify('Input.__init__', cls='Input',
               calls={'super().__init__': _opaque_super_init(['_output', 'initdef', '_schema', '_check', '_allowed'], _after_super_input),
                      '*value*': user_call})
    run.verify('Input.init_from_value', cls='Input')
    run.verify('InputExp.cond_put', cls='InputExp', calls={'fsm.fsm_event_data.get': ctx_data_get},
               ghost={'ctx_data': Const('ctx_data', DictS)})
    run.verify('InputExp.calc_output', cls='InputExp')
    run.verify('InputExp.__init__', cls='InputExp',
               calls={'super().__init__': _opaque_super_init(['_output', 'initdef', '_schema', '_check', '_allowed', 'sdata', '_state'],
                                                             _after_super_inputexp)})

    # ---- history invariant: the output of an Input is UNDEF or res(v) of an accepted v -----------------------
    # writers of the output inside the Input class (scan): only _event_put calls set_output
    import ast, inspect, textwrap
    tree = ast.parse(textwrap.dedent(inspect.getsource(sblocks2.Input)))
    owners = set()
    for fn in [n for n in ast.walk(tree) if isinstance(n, ast.FunctionDef)]:
        if any(isinstance(n, ast.Call) and isinstance(n.func, ast.Attribute) and n.func.attr == 'set_output' for n in ast.walk(fn)):
            owners.add(fn.name)
    run.scan('input_output_written_only_by_put', owners == {'_event_put'},
             f'set_output is called in class Input only from _event_put (found: {sorted(owners)})',
             replay=REPLAY_RESTORE)
    d = vars(sblocks2.Input)
    run.scan('restore_state_is_init_from_value', d.get('_restore_state') is d.get('init_from_value'),
             'Input._restore_state is Input.init_from_value: a restored value goes through the put event and its validation',
             replay=REPLAY_RESTORE)
    run.scan('handler_registered:put', sblocks2.Input._ct_handlers.get('put') is d.get('_event_put'),
             "Input._ct_handlers['put'] is the verified Input._event_put")
    run.scan('inputexp_cond_registered', sblocks2.InputExp._ct_methods['cond'].get('put') is vars(sblocks2.InputExp).get('cond_put'),
             "InputExp's condition for 'put' is the verified cond_put")
    mro = [k.__name__ for k in sblocks2.Input.__mro__]
    run.scan('validation_precedes_sblock', mro.index('_Validation') < mro.index('SBlock'), f'MRO {mro}')

    # lemma: an accepted put leaves an accepted value in the output (inductive step of the history invariant)
    run.assume("'check' does not raise; members of 'allowed' are hashable")
    run.assume('user callables (check, schema) are deterministic functions of their argument')
    run.assume('A-C02 (see C02)')
    run.trust('SBlock.set_output contract (C02); event() entry point (C11/C09/C06); FSM condition protocol (C03)')
    run.replayer('_Validation._validate', replay_validate)


REPLAY_RESTORE = r'''
import sys, asyncio, edzed
edzed.reset_circuit()
inp = edzed.Input('inp', allowed=['a', 'b'], initdef='a', persistent=True)
circ = edzed.get_circuit()
circ.set_persistent_data({inp.key: 'forbidden', 'edzed-stop-time': 0.0})
class FakeTask:
    def done(self): return False
    def cancel(self): pass
circ._simtask = FakeTask(); circ.sblock_queue = asyncio.Queue(); circ._check_persistent_data(); circ.finalize()
circ.init_sblock(inp, full=True)
print('output after restoring a rejected value:', inp.output)
sys.exit(1 if inp.output == 'forbidden' else 0)
'''


def replay_validate(run, ob, model):
    """the only counter-models of _validate that materialise directly are 'unhashable value with allowed given'"""
    meta = ob.meta or {}
    if 'TypeError' not in str(meta.get('exit', '')) and 'TypeError' not in ob.name: return None
    return r'''
import sys, asyncio, edzed
edzed.reset_circuit()
inp = edzed.Input('inp', allowed=[1, 2, 3], initdef=1)
circ = edzed.get_circuit()
class FakeTask:
    def done(self): return False
    def cancel(self): pass
circ._simtask = FakeTask(); circ.sblock_queue = asyncio.Queue(); circ.finalize()
circ.init_sblock(inp, full=True)
try:
    r = inp.event('put', value=[1, 2])       # an unhashable value
except Exception as err:
    print('put of an unhashable value raised', type(err).__name__, err, '; circuit error:', repr(circ.error)); sys.exit(1)
print('returned', r); sys.exit(0 if r is False and inp.output == 1 else 1)
'''
