"""OutputAsync (sblocks2): queueing of put events, the output task, the three control strategies, stop (C12, C08)."""
import ast
import z3
from pyvc.sorts import *
from pyvc.values import *
from pyvc.state import declare_fields, View
from pyvc.contract import contract, CONTRACTS, Param
from pyvc.engine import Raise, NEXT
from pyvc import calls
from specs.common import *
from specs import event_send              # contract of Event.send
from specs import event_entry             # contract of Task.cancel
from specs import outputfunc              # shared field declarations (_f_args, _on_success, ...)
from specs.outputfunc import keys_present

declare_fields(_coro=VAL, _guard_time=REAL, _queue=Ref('DataQueue'), _ctrl_task=VAL, _ctrl_coro=STR, stop_timeout=REAL,
               dq_items=Seq('val'), dq_head=INT)
Q = 'edzed.blocklib.sblocks2:OutputAsync.'
ME_TASK = Int('this_task')                # the task executing the coroutine under verification


# ---- the data queue (asyncio.Queue holding the put data and the None sentinel): FIFO, unbounded -------------------------------------------------
def q_items(S, q): return S.f('dq_items', q)          # (arr, n): everything ever put; the entries from dq_head on are waiting
def q_head(S, q): return S.f('dq_head', q)


@contract('DataQueue.put_nowait', modifies=('dq_items',), result=None, sig=([Param('self', Ref()), Param('item', VAL)], None, None),
          trusted='asyncio.Queue.put_nowait (unbounded queue: never raises, appends)',
          traced=lambda a, st: rec('put_nowait', to_val(a['self'], st), to_val(a['item'], st)))
def _dq_put(c):
    q, item = c.z('self'), c.v('item')
    arr, n = q_items(c.S, q); arr2, n2 = q_items(c.T, q)
    c.ensures('appended', And(n2 == n + 1, arr2 == Store(arr, n, item)))


def impose_queue_only_appended(S, T, q):
    """other tasks only append to the data queue (producers: _event_put and stop; the control task is the only consumer: scan)"""
    old_arr, old_n = S.f('dq_items', q)
    new_arr = fresh('dq_arr', SeqArr); extra = fresh('dq_extra', IntSort())
    j = Int('j!qa')
    T.st.heap['dq_items#items'] = Store(T.st.comp('dq_items#items', SeqArr), q, z3.Lambda([j], If(j < old_n, old_arr[j], If(Val.is_D(new_arr[j]), new_arr[j], Val.VNone))))      # producers: _event_put (dict), stop (dict / None)
    T.st.heap['dq_items#len'] = Store(T.st.comp('dq_items#len', IntSort()), q, old_n + If(extra > 0, extra, 0))
    T.st.heap['dq_head'] = Store(T.st.comp('dq_head', IntSort()), q, S.f('dq_head', q))


def queue_get(ex, st, q, me=None):
    """`await queue.get()` in the control task: other tasks run (they may append), then the oldest waiting item is taken"""
    post = env_for_ctrl(ex, st, q, me)
    arr, n = View(post).f('dq_items', q); h = View(post).f('dq_head', q)
    post.assume(h < n)                                  # get() returns only when an item is available
    post.write('dq_head', q, ZV('int', h + 1))
    post.ghost['taken'] = post.ghost.get('taken', IntVal(0)) + 1 if is_expr(post.ghost.get('taken')) else post.ghost.get('taken')
    return post, ZV('val', arr[h])


ENV_CTRL = ('_output', 'q_set', '_error', 'cancel_requested', 'task_done', 'task_cancelled', 'task_exception', 'init_steps_completed', 'dq_items')


def impose_ctrl_env(S, T, q, me=None):
    impose_error_write_once(S, T); impose_outputs_stay_defined(S, T); impose_queue_only_appended(S, T, q)
    if me is not None:
        # the output of an OutputAsync block is written only by the wrapper (scan): a whole number
        new = T.whole('_output')
        T.st.heap['_output'] = Store(new, me, If(Val.is_I(new[me]), new[me], S.whole('_output')[me]))
    tx = Int('t!sd3')
    for f in ('task_done', 'task_cancelled', 'task_exception'):
        new, old = T.whole(f), S.whole(f)
        T.st.heap[f] = z3.Lambda([tx], If(S.whole('task_done')[tx], old[tx], new[tx]))


def env_for_ctrl(ex, st, q, me=None):
    post = st.copy()
    for f in ENV_CTRL: post.havoc_field(f)
    S, T = View(st), View(post)
    impose_ctrl_env(S, T, q, me)
    if post.ghost.get('now') is not None:
        now = fresh('now', RealSort()); post.assume(now >= post.ghost['now']); post.ghost['now'] = now
    return post


# ---- OutputAsync._event_put ---------------------------------------------------------------------------------------------------------------------
@contract('OutputAsync._event_put', qual=Q + '_event_put', modifies=('dq_items',), self_cls='OutputAsync',
          traced=lambda a, st: rec('_event_put', to_val(a['self'], st), kw=a['data'].arr))
def _oa_put(c):
    me = c.z('self')
    q = c.pre('_queue', me)
    data = c.arg('data').arr
    arr, n = q_items(c.S, q); arr2, n2 = q_items(c.T, q)
    c.ensures('the_data_is_queued_once_behind_everything_queued_before', And(n2 == n + 1, Val.is_D(arr2[n]), dict_c(Val.dk(arr2[n])) == data,
              ForAll([Int('j!ep')], Implies(And(0 <= Int('j!ep'), Int('j!ep') < n), arr2[Int('j!ep')] == arr[Int('j!ep')]))))


def verify_put(run):
    run.verify('OutputAsync._event_put', cls='OutputAsync')


KINDS = {'success': '_on_success', 'cancel': '_on_cancel', 'error': '_on_error'}


def oa_config_parts(S, me):
    """class invariant established by OutputAsync.__init__, quantifier-free facts kept apart from the quantified ones"""
    j = Int('j!cf')
    A, nA = S.f('_f_args', me); K, nK = S.f('_f_kwargs', me)
    tuples = [S.f(f, me) for f in KINDS.values()]
    return [('configuration', And(nA >= 0, nK >= 0, S.f('_guard_time', me) >= 0, *[n >= 0 for arr, n in tuples])),
            ('configuration_names_and_events', And(ForAll([j], Implies(And(0 <= j, j < nA), Val.is_S(A[j]))), ForAll([j], Implies(And(0 <= j, j < nK), Val.is_S(K[j]))),
                                                   *[events_are_objects(arr, n) for arr, n in tuples]))]


def oa_config(S, me):
    return And(*[f for _, f in oa_config_parts(S, me)])


# ---- OutputAsync._output_coro --------------------------------------------------------------------------------------------------------------------


def await_user_coro(ex, node, st):
    """`await self._coro(*args, **kwargs)`: the user's coroutine runs (other tasks run meanwhile); it returns a value, fails, or is
    cancelled (by the control task, or by whoever cancels this output task)"""
    me = as_kind(st.env['self'], Ref(), st)
    fv = st.readz('_coro', me)
    a = to_val(st.env['args'], st); kw = st.env['kwargs']
    st = st.copy(); ex.emit(st, rec('coro', fv, a, kw=kw.arr if isinstance(kw, PDict) else EMPTY_DICT))
    outs = []
    for kind in ('success', 'cancel', 'error'):
        s2 = env_for_ctrl(ex, st, st.readz('_queue', me), me)
        s2.ghost['kind'] = kind; s2.ghost['t_result'] = s2.ghost['now']
        if kind == 'success':
            r = fresh('retval', Val); s2.ghost['retval'] = r
            outs.append((s2, ZV('val', r)))
        else:
            x = Val.Obj(fresh('exc', IntSort())); s2.ghost['exc'] = x; s2.label(f'coro:{kind}')
            outs.append((s2, Raise(PExc('CancelledError' if kind == 'cancel' else 'OtherException', val=x, where='callee'))))
    return outs


def await_plain_sleep(ex, node, st):
    """`await asyncio.sleep(d)` (not shielded): returns after d seconds, or is interrupted by a cancellation at any earlier moment"""
    me = as_kind(st.env['self'], Ref(), st)
    outs = []
    for s1, vals in ex.evs(node.args, st):
        d = as_kind(vals[0], REAL, s1)
        ok = env_for_ctrl(ex, s1, s1.readz('_queue', me), me); ok.assume(ok.ghost['now'] >= s1.ghost['now'] + d)
        outs.append((ok, P_NONE))
        ca = env_for_ctrl(ex, s1, s1.readz('_queue', me), me); ca.label('sleep:cancelled')
        outs.append((ca, Raise(PExc('CancelledError', val=Val.Obj(fresh('exc', IntSort())), where='callee'))))
    return outs


def await_guard_sleep(ex, node, st):
    """`await utils.shield_cancel(asyncio.sleep(g))` (contract of shield_cancel, proved below): returns or raises CancelledError only
    after the sleep has finished, i.e. not before g seconds have passed"""
    me = as_kind(st.env['self'], Ref(), st)
    g = st.readz('_guard_time', me)
    outs = []
    for cancelled in (False, True):
        s2 = env_for_ctrl(ex, st, st.readz('_queue', me), me)
        s2.assume(s2.ghost['now'] >= st.ghost['now'] + g)
        if cancelled:
            s2.label('guard:cancel_pending')
            outs.append((s2, Raise(PExc('CancelledError', val=Val.Obj(fresh('exc', IntSort())), where='callee'))))
        else:
            outs.append((s2, P_NONE))
    return outs


@contract('OutputAsync._output_coro', qual=Q + '_output_coro', params={'data': VAL}, modifies=ENV_CTRL, self_cls='OutputAsync',
          traced=lambda a, st: rec('_output_coro', to_val(a['self'], st), to_val(a['data'], st)))
def _output_coro(c):
    me, data = c.z('self'), c.v('data')
    c.requires('the_data_are_a_dict', Val.is_D(data))
    tuples = {k: c.pre(f, me) for k, f in KINDS.items()}
    A, nA = c.pre('_f_args', me); K, nK = c.pre('_f_kwargs', me)
    j = Int('j!oc')
    for lab_, f_ in oa_config_parts(c.S, me): c.requires(lab_, f_)
    q_ = c.pre('_queue', me)
    c.raises('DeliveryError', unchanged=False, label='delivery_of_a_result_event_failed', impose=lambda S, T: impose_ctrl_env(S, T, q_, me))
    if not c.verifying: impose_ctrl_env(c.S, c.T, q_, me)
    if not c.verifying:
        return
    g = c.pre('_guard_time', me)
    def expected(k, r, st):
        kind = st.ghost.get('kind')
        fn = z3.simplify(Rec.fn(r)).as_string()
        if kind is None and fn == 'coro':
            return [('the_coroutine_runs_first', And(k == 0, Rec.recv(r) == c.pre('_coro', me)))]
        base = 1
        if kind is None:
            # the data lack an item named in f_args/f_kwargs: the coroutine cannot be called; reported as an error of this run
            kind, base = 'error', 0
        arr, n = tuples[kind]
        goals = [('one_kind_of_result_event_in_the_configured_order', And(Rec.fn(r) == StringVal('send'), k >= base, k < n + base, Rec.recv(r) == arr[k - base],
                                                                         Rec.a0(r) == Val.Obj(me), Rec.kw(r)[StringVal('trigger')] == Opt.Some(S_(kind)))),
                 ('result_event_carries_the_original_data', Rec.kw(r)[StringVal('put')] == Opt.Some(data))]
        if kind == 'success': goals.append(('success_event_carries_the_result', Rec.kw(r)[StringVal('value')] == Opt.Some(st.ghost['retval'])))
        if kind == 'error' and base == 1: goals.append(('error_event_carries_the_error', Rec.kw(r)[StringVal('error')] == Opt.Some(st.ghost['exc'])))
        if kind == 'error' and base == 0:
            e = Opt.v(Rec.kw(r)[StringVal('error')])
            goals.append(('error_event_carries_the_error', And(Opt.is_Some(Rec.kw(r)[StringVal('error')]), Val.is_Obj(e), calls.inst_of(Val.ref(e), KeyError),
                                                               Not(And(keys_present(dict_c(Val.dk(data)), A, nA), keys_present(dict_c(Val.dk(data)), K, nK))))))
        return goals
    c.expect_trace(expected, None, normal_len=None, predicate=True)
    def finished(post):
        kind = post.g('kind')
        if kind is None:
            return [post.tn == tuples['error'][1], BoolVal(True)]      # the run could not start: one error event per destination
        n = tuples[kind][1]
        return [post.tn == 1 + n,                                      # exactly one event of that kind per configured destination
                Implies(g > 0, post.g('now') >= post.g('t_result') + g)]  # the guard time has passed in full
    fin = finished(c.T)
    for lab, f in zip(('every_accepted_put_gets_its_result_events', 'qf:guard_time_has_elapsed'), fin): c.ensures(lab, f)


def inv_result_sends(lc):
    return [('trace_position', lc.st.tn == (0 if lc.st.st.ghost.get('kind') is None else 1) + lc.i)]


def verify_output_coro(run):
    G = {'kind': None, 'retval': None, 'exc': None, 'now': z3.Real('now0'), 't_result': z3.Real('now0')}
    run.verify('OutputAsync._output_coro', cls='OutputAsync', ghost=G,
               invariants={'for ev in self._on_cancel': inv_result_sends, 'for ev in self._on_error': inv_result_sends,
                           'for ev in self._on_success': inv_result_sends},
               calls={'_args_as_string': lambda ex, e, st: [(st, ZV('str', fresh('argstr', StringSort())))]},
               hooks={'await': awaits({'self._coro(*args, **kwargs)': await_user_coro, 'utils.shield_cancel(*': await_guard_sleep,
                                       'asyncio.sleep(*': await_plain_sleep})})


# ---- OutputAsync._output_coro_wrapper: counts the active runs ----------------------------------------------------------------------------------------
WRAP_EFFECTS = tuple(dict.fromkeys(ENV_CTRL + DELIVERY))


@contract('OutputAsync._output_coro_wrapper', qual=Q + '_output_coro_wrapper', params={'data': VAL}, modifies=WRAP_EFFECTS, self_cls='OutputAsync',
          traced=lambda a, st: rec('_output_coro_wrapper', to_val(a['self'], st), to_val(a['data'], st)))
def _wrapper(c):
    me, data = c.z('self'), c.v('data')
    q = c.pre('_queue', me)
    c.requires('the_data_are_a_dict', Val.is_D(data))
    c.requires('output_is_the_run_counter', Val.is_I(c.pre('_output', me)))
    for lab_, f_ in oa_config_parts(c.S, me): c.requires(lab_, f_)
    c.raises('DeliveryError', unchanged=False, label='delivery_of_an_event_failed', impose=lambda S, T: impose_ctrl_env(S, T, q, me))
    c.raises('CancelledError', unchanged=False, label='cancelled_during_the_guard_time_or_the_run', impose=lambda S, T: impose_ctrl_env(S, T, q, me))
    if not c.verifying:
        impose_ctrl_env(c.S, c.T, q, me)
        c.ensures('time_passes', c.T.g('now') >= c.S.g('now')) if c.S.g('now') is not None else None
        return
    def expected(k, r, st):
        fn = z3.simplify(Rec.fn(r)).as_string()
        cur = st.readz('_output', me)
        if fn == 'set_output' and st.ghost['phase'] == 0:
            st.ghost['phase'] = 1
            return [('run_counter_incremented_first', And(k == 0, Rec.recv(r) == Val.Obj(me), Val.is_I(cur), Rec.a0(r) == Val.I(Val.i(cur) + 1)))]
        if fn == '_output_coro':
            goals = [('the_run_is_for_the_given_data', And(st.ghost['phase'] == 1, k == 1, Rec.recv(r) == Val.Obj(me), Rec.a0(r) == data))]
            st.ghost['phase'] = 2
            return goals
        if fn == 'set_output':
            goals = [('run_counter_decremented_last', And(st.ghost['phase'] == 2, k == 2, Rec.recv(r) == Val.Obj(me), Val.is_I(cur), Rec.a0(r) == Val.I(Val.i(cur) - 1)))]
            st.ghost['phase'] = 3
            return goals
        return [('no_other_call', BoolVal(False))]
    c.expect_trace(expected, 3, normal_len=3, predicate=True)
    # every exit after the increment passes through the decrement (finally)
    c.out.raises[1].ensures = lambda post, exc: [post.g('phase') == 3]
    c.out.raises[0].ensures = lambda post, exc: [Or(post.g('phase') == 3, post.g('phase') == 1)]     # (the increment itself failed to be delivered)


def await_output_coro(ex, node, st):
    """`await self._output_coro(data)` inside the wrapper: its contract; the run counter may be changed meanwhile by other runs
    (start mode), always by whole numbers"""
    outs = []
    me = as_kind(st.env['self'], Ref(), st)
    for s2, r in ex.ev(node, st):
        s2.assume(Val.is_I(s2.readz('_output', me)))
        outs.append((s2, r))
    return outs


def verify_wrapper(run):
    G = {'phase': 0, 'now': z3.Real('now0')}
    run.verify('OutputAsync._output_coro_wrapper', cls='OutputAsync', ghost=G,
               hooks={'await': awaits({'self._output_coro(data)': await_output_coro})})


# ---- the control strategies ----------------------------------------------------------------------------------------------------------------------------
@contract('DataQueue.qsize', modifies=(), result=INT, sig=([Param('self', Ref())], None, None), trusted='asyncio.Queue.qsize')
def _dq_qsize(c):
    q = c.z('self')
    c.returns(ZV('int', q_items(c.S, q)[1] - q_head(c.S, q)))


@contract('DataQueue.empty', modifies=(), result=BOOL, sig=([Param('self', Ref())], None, None), trusted='asyncio.Queue.empty')
def _dq_empty(c):
    q = c.z('self')
    c.returns(ZV('bool', q_items(c.S, q)[1] == q_head(c.S, q)))


@contract('DataQueue.get_nowait', modifies=('dq_head',), result=VAL, sig=([Param('self', Ref())], None, None), trusted='asyncio.Queue.get_nowait')
def _dq_get_nowait(c):
    q = c.z('self')
    arr, n = q_items(c.S, q); h = q_head(c.S, q)
    c.requires('an_item_is_waiting', h < n)
    c.returns(ZV('val', arr[h]))
    c.ensures('taken', c.post_whole('dq_head') == Store(c.pre_whole('dq_head'), q, h + 1))


def await_queue_get(ex, node, st):
    """`await <queue>.get()`"""
    outs = []
    for s1, qv in ex.ev(node.func.value, st):
        q = as_kind(qv, Ref(), s1)
        s2, item = queue_get(ex, s1, q, as_kind(s1.env['self'], Ref(), s1))
        outs.append((s2, item))
    return outs


def items_wf(S, q):
    """what the producers put into the queue (contracts of _event_put and stop): dicts, or the None sentinel"""
    j = Int('j!wf')
    arr, n = q_items(S, q)
    return And(n >= 0, q_head(S, q) >= 0, q_head(S, q) <= n, ForAll([j], Implies(And(0 <= j, j < n), Or(arr[j] == Val.VNone, Val.is_D(arr[j])))))


def ctrl_pre(c, me):
    q = c.pre('_queue', me)
    c.requires('queue_holds_put_data_and_sentinels', items_wf(c.S, q))
    for lab_, f_ in oa_config_parts(c.S, me): c.requires(lab_, f_)
    c.requires('output_is_the_run_counter', Val.is_I(c.pre('_output', me)))
    return q


@contract('OutputAsync._ctrl_wait', qual=Q + '_ctrl_wait', modifies=WRAP_EFFECTS + ('dq_head',), self_cls='OutputAsync')
def _ctrl_wait(c):
    me = c.z('self')
    q = ctrl_pre(c, me)
    c.raises('DeliveryError', unchanged=False, label='delivery_of_an_event_failed')
    c.raises('CancelledError', unchanged=False, label='the_control_task_was_cancelled')
    if not c.verifying: return
    h0 = q_head(c.S, q)
    def expected(k, r, st):
        arr, n = q_items(View(st), q)
        return [('one_run_per_queued_item_in_arrival_order', And(Rec.fn(r) == StringVal('_output_coro_wrapper'), Rec.recv(r) == Val.Obj(me),
                                                                 Rec.a0(r) == arr[h0 + k], q_head(View(st), q) == h0 + k + 1, arr[h0 + k] != Val.VNone))]
    c.expect_trace(expected, None, normal_len=None, predicate=True)
    arrT, nT = q_items(c.T, q)
    c.ensures('served_until_the_sentinel', And(q_head(c.T, q) == h0 + c.T.tn + 1, arrT[h0 + c.T.tn] == Val.VNone))


def inv_ctrl_wait(lc):
    me = as_kind(lc.pre.args['self'], Ref())
    q = lc.pre.f('_queue', me)
    st = lc.st
    h0 = q_head(lc.pre, q)
    return [('every_taken_item_was_run', q_head(st, q) == h0 + st.tn),
            ('queue', And(items_wf(st, q), st.f('_queue', me) == q)),
            ('counter', Val.is_I(st.f('_output', me))),
            ('configuration', oa_config(st, me))]


def verify_ctrl_wait(run):
    G = {'now': z3.Real('now0')}
    run.verify('OutputAsync._ctrl_wait', cls='OutputAsync', ghost=G, invariants={'while True': inv_ctrl_wait},
               hooks={'await': awaits({'self._queue.get()': await_queue_get, '*': lambda ex, node, st: ex.ev(node, st)})})


task_coro = Function('task_coro', IntSort(), Val)
wrapper_coro = Function('wrapper_coro', IntSort(), Val, Val)          # the coroutine object self._output_coro_wrapper(data)
wrapper_data = Function('wrapper_data', Val, Val)


def wrapper_coroutine_call(ex, e, st):
    """self._output_coro_wrapper(data) not awaited: only creates the coroutine object"""
    outs = []
    me = as_kind(st.env['self'], Ref(), st)
    for s1, dv in ex.ev(e.args[0], st):
        d = to_val(dv, s1); c = wrapper_coro(me, d)
        s1 = s1.copy(); s1.assume(wrapper_data(c) == d)
        outs.append((s1, ZV('val', c)))
    return outs


def oa_create_task(ex, e, st):
    outs = []
    for s1, cv in ex.ev(e.args[0], st):
        if isinstance(cv, Raise): outs.append((s1, cv)); continue
        s1 = s1.copy(); t = fresh('task', IntSort()); cz = to_val(cv, s1)
        s1.assume(task_coro(t) == cz, Not(s1.readz('task_done', t)), Not(s1.readz('cancel_requested', t)))
        ex.emit(s1, rec('create_task', Val.Obj(t), cz))
        outs.append((s1, ZV('val', Val.Obj(t))))
    return outs


def weakset_call(ex, e, st):
    return [(st, PSet(K(IntSort(), BoolVal(False)), 'ref'))]


def await_gather(ex, node, st):
    """asyncio.gather(*tasks, return_exceptions=True): returns when every task of the set is finished"""
    me = as_kind(st.env['self'], Ref(), st)
    tasks = as_kind(st.env['tasks'], REFSET, st)
    s2 = env_for_ctrl(ex, st, st.readz('_queue', me), me)
    t = Int('t!ga')
    s2.assume(ForAll([t], Implies(tasks[t], s2.comp('task_done', BoolSort())[t])))
    ca = env_for_ctrl(ex, st, st.readz('_queue', me), me); ca.label('gather:cancelled')
    outs = [(s2, P_NONE), (ca, Raise(PExc('CancelledError', val=Val.Obj(fresh('exc', IntSort())), where='callee')))]
    import ast as _ast
    collects = any(k.arg == 'return_exceptions' and isinstance(k.value, _ast.Constant) and k.value.value is True for k in getattr(node, 'keywords', []))
    if not collects:
        # without return_exceptions=True the first task that ends with an exception (an output task can: its set_output delivers on_output
        # events, and a destination may fail) makes gather() raise at once, while the other tasks are still running
        bad = env_for_ctrl(ex, st, st.readz('_queue', me), me); bad.label('gather:a_task_failed')
        outs.append((bad, Raise(PExc('OtherException', val=Val.Obj(fresh('exc', IntSort())), where='callee'))))
    return outs


@contract('OutputAsync._ctrl_start', qual=Q + '_ctrl_start', modifies=WRAP_EFFECTS + ('dq_head',), self_cls='OutputAsync')
def _ctrl_start(c):
    me = c.z('self')
    q = ctrl_pre(c, me)
    c.raises('CancelledError', unchanged=False, label='the_control_task_was_cancelled')
    if not c.verifying: return
    h0 = q_head(c.S, q)
    def expected(k, r, st):
        arr, n = q_items(View(st), q)
        return [('every_item_starts_its_own_run_at_once_in_arrival_order',
                 And(Rec.fn(r) == StringVal('create_task'), wrapper_data(Rec.a0(r)) == arr[h0 + k], Rec.a0(r) == wrapper_coro(me, arr[h0 + k]),
                     q_head(View(st), q) == h0 + k + 1, arr[h0 + k] != Val.VNone))]
    c.expect_trace(expected, None, normal_len=None, predicate=True)
    arrT, nT = q_items(c.T, q)
    t = Int('t!cs')
    c.ensures('served_until_the_sentinel', And(q_head(c.T, q) == h0 + c.T.tn + 1, arrT[h0 + c.T.tn] == Val.VNone))
    c.ensures('every_started_run_has_finished', ForAll([t], Implies(c.T.g('started_tasks')[t], c.post('task_done', t))))


def inv_ctrl_start(lc):
    me = as_kind(lc.pre.args['self'], Ref())
    q = lc.pre.f('_queue', me)
    st = lc.st
    h0 = q_head(lc.pre, q)
    tasks = as_kind(lc.local('tasks'), REFSET, st.st)
    return [('every_taken_item_got_a_run', q_head(st, q) == h0 + st.tn),
            ('queue', And(items_wf(st, q), st.f('_queue', me) == q)),
            ('started_tasks_are_remembered', st.st.ghost['started_tasks'] == tasks)]


def tasks_add(ex, e, st):
    """tasks.add(asyncio.create_task(...)): the new task joins the set (ghost copy `started_tasks`)"""
    outs = []
    for s1, tv in ex.ev(e.args[0], st):
        if isinstance(tv, Raise): outs.append((s1, tv)); continue
        s1 = s1.copy(); t = Val.ref(to_val(tv, s1))
        cur = as_kind(s1.env['tasks'], REFSET, s1)
        s1.env['tasks'] = PSet(Store(cur, t, BoolVal(True)), 'ref')
        s1.ghost['started_tasks'] = Store(s1.ghost['started_tasks'], t, BoolVal(True))
        outs.append((s1, P_NONE))
    return outs


def verify_ctrl_start(run):
    G = {'now': z3.Real('now0'), 'started_tasks': K(IntSort(), BoolVal(False))}
    run.verify('OutputAsync._ctrl_start', cls='OutputAsync', ghost=G, invariants={'while True': inv_ctrl_start},
               calls={'weakref.WeakSet': weakset_call, 'self._output_coro_wrapper': wrapper_coroutine_call, 'asyncio.create_task': oa_create_task,
                      'tasks.add': tasks_add},
               hooks={'await': awaits({'self._queue.get()': await_queue_get, 'asyncio.gather(*': await_gather})})


# ---- cancel mode ------------------------------------------------------------------------------------------------------------------------------------------
def cc_get(ex, node, st):
    """`await queue.get()` in _ctrl_cancel"""
    outs = []
    me = as_kind(st.env['self'], Ref(), st)
    for s1, qv in ex.ev(node.func.value, st):
        q = as_kind(qv, Ref(), s1)
        s2, item = queue_get(ex, s1, q, me)
        z = item.z
        s2.ghost['n_items'] = s2.ghost['n_items'] + If(z != Val.VNone, 1, 0)
        s2.ghost['latest'] = If(z != Val.VNone, z, s2.ghost['latest'])
        s2.ghost['newer_arrived'] = z != Val.VNone
        outs.append((s2, item))
    return outs


def cc_get_nowait(ex, e, st):
    """queue.get_nowait() in _ctrl_cancel: a newer item replaces the one held in `data`, which is then reported as cancelled"""
    me = as_kind(st.env['self'], Ref(), st)
    q = as_kind(st.env['queue'], Ref(), st)
    S = View(st)
    arr, n = q_items(S, q); h = q_head(S, q)
    ex.oblige('call:get_nowait/pre:an_item_is_waiting', st, h < n, kind='pre')
    nC = S.f('_on_cancel', me)[1]
    ex.oblige('discarded_item_was_reported_to_every_on_cancel_destination', st, Implies(st.ghost['seg_open'], st.tn == st.ghost['seg_start'] + nC), kind='trace')
    s2 = st.copy(); s2.write('dq_head', q, ZV('int', h + 1))
    z = arr[h]
    s2.ghost['n_items'] = s2.ghost['n_items'] + If(z != Val.VNone, 1, 0)
    s2.ghost['seg_open'] = z != Val.VNone
    s2.ghost['seg_start'] = s2.tn
    s2.ghost['discard_item'] = to_val(s2.env['data'], s2)
    s2.ghost['n_discards'] = s2.ghost['n_discards'] + If(z != Val.VNone, 1, 0)
    s2.ghost['latest'] = If(z != Val.VNone, z, s2.ghost['latest'])
    return [(s2, ZV('val', z))]


def cc_await_task(ex, node, st):
    """`await task`: the output task ends (it catches everything itself: contract of _output_coro)"""
    me = as_kind(st.env['self'], Ref(), st)
    t = Val.ref(to_val(st.env['task'], st))
    s2 = env_for_ctrl(ex, st, st.readz('_queue', me), me)
    s2.assume(s2.readz('task_done', t))
    ca = env_for_ctrl(ex, st, st.readz('_queue', me), me); ca.label('await_task:cancelled')
    return [(s2, P_NONE), (ca, Raise(PExc('CancelledError', val=Val.Obj(fresh('exc', IntSort())), where='callee')))]


@contract('OutputAsync._ctrl_cancel', qual=Q + '_ctrl_cancel', modifies=WRAP_EFFECTS + ('dq_head',), self_cls='OutputAsync')
def _ctrl_cancel(c):
    me = c.z('self')
    q = ctrl_pre(c, me)
    c.raises('DeliveryError', unchanged=False, label='delivery_of_an_event_failed')
    c.raises('CancelledError', unchanged=False, label='the_control_task_was_cancelled')
    if not c.verifying: return
    OC, nC = c.pre('_on_cancel', me)
    def expected(k, r, st):
        g = st.ghost
        fn = z3.simplify(Rec.fn(r)).as_string()
        if fn == 'cancel':
            return [('a_run_is_cancelled_only_because_a_newer_item_arrived',
                     And(Rec.recv(r) == g['cur_task'], g['cur_task'] != Val.VNone, g['newer_arrived']))]
        if fn == 'send':
            j = k - g['seg_start']
            return [('discarded_item_is_reported_as_cancelled_with_its_own_data',
                     And(g['seg_open'], j >= 0, j < nC, Rec.recv(r) == OC[j], Rec.a0(r) == Val.Obj(me),
                         Rec.kw(r)[StringVal('trigger')] == Opt.Some(S_('cancel')), Rec.kw(r)[StringVal('put')] == Opt.Some(g['discard_item'])))]
        if fn == 'create_task':
            goals = [('the_most_recent_item_gets_the_run', And(wrapper_data(Rec.a0(r)) == g['latest'], Rec.a0(r) == wrapper_coro(me, g['latest']), g['latest'] != Val.VNone)),
                     ('at_most_one_run_is_active', Or(g['cur_task'] == Val.VNone, st.readz('task_done', Val.ref(g['cur_task'])))),
                     ('discarded_item_was_reported_to_every_on_cancel_destination', Implies(g['seg_open'], k == g['seg_start'] + nC)),
                     ('every_item_taken_is_run_or_reported_as_cancelled', g['n_items'] == g['n_runs'] + g['n_discards'] + 1)]
            g['n_runs'] = g['n_runs'] + 1; g['seg_open'] = BoolVal(False); g['cur_task'] = Rec.recv(r); g['newer_arrived'] = BoolVal(False)
            return goals
        return [('no_other_call', BoolVal(False))]
    c.expect_trace(expected, None, normal_len=None, predicate=True)
    g = c.T.g
    c.ensures('every_item_taken_was_run_or_reported_as_cancelled', g('n_items') == g('n_runs') + g('n_discards'))
    c.ensures('the_last_run_has_finished', Or(g('cur_task') == Val.VNone, c.post('task_done', Val.ref(g('cur_task')))))


def _cc_common(lc):
    me = as_kind(lc.pre.args['self'], Ref())
    q = lc.pre.f('_queue', me)
    st = lc.st; g = st.st.ghost
    task = to_val(lc.local('task'), st.st)
    return me, q, st, g, task, [
        ('queue', And(items_wf(st, q), st.f('_queue', me) == q, as_kind(lc.local('queue'), Ref(), st.st) == q)),
        ('configuration', oa_config(st, me)),
        ('the_task_variable_is_the_current_run', And(task == g['cur_task'], Or(task == Val.VNone, Val.is_Obj(task))))]


def inv_cc_outer(lc):
    me, q, st, g, task, common = _cc_common(lc)
    stop = truth(lc.local('stop'), st.st)
    return common + [('every_item_taken_so_far_is_run_or_reported', g['n_items'] == g['n_runs'] + g['n_discards']),
                     ('no_report_in_progress', Not(g['seg_open']))]


def inv_cc_inner(lc):
    me, q, st, g, task, common = _cc_common(lc)
    data = to_val(lc.local('data'), st.st)
    nC = st.f('_on_cancel', me)[1]
    return common + [('one_item_is_held', And(g['n_items'] == g['n_runs'] + g['n_discards'] + 1, data == g['latest'], Val.is_D(data))),
                     ('previous_report_complete', Implies(g['seg_open'], st.tn == g['seg_start'] + nC)),
                     ('the_previous_run_has_ended', Or(task == Val.VNone, st.f('task_done', Val.ref(task)))),
                     ('not_stopping', Not(truth(lc.local('stop'), st.st)))]


def inv_cc_sends(lc):
    me, q, st, g, task, common = _cc_common(lc)
    e = lc.entry.st.ghost
    data = to_val(lc.local('data'), st.st); new_data = to_val(lc.local('new_data'), st.st)
    return common + [('report_position', And(g['seg_open'], st.tn == g['seg_start'] + lc.i, g['seg_start'] == e['seg_start'], g['discard_item'] == data)),
                     ('held_items', And(g['n_items'] == g['n_runs'] + g['n_discards'] + 1, new_data == g['latest'], Val.is_D(new_data), Val.is_D(data))),
                     ('the_previous_run_has_ended', Or(task == Val.VNone, st.f('task_done', Val.ref(task)))),
                     ('not_stopping', Not(truth(lc.local('stop'), st.st)))]


def verify_ctrl_cancel(run):
    none = Val.VNone
    G = {'now': z3.Real('now0'), 'n_items': IntVal(0), 'n_runs': IntVal(0), 'n_discards': IntVal(0), 'latest': none, 'cur_task': none,
         'newer_arrived': BoolVal(False), 'seg_open': BoolVal(False), 'seg_start': IntVal(0), 'discard_item': none}
    run.verify('OutputAsync._ctrl_cancel', cls='OutputAsync', ghost=G,
               invariants={'while True': inv_cc_outer, 'while not queue.empty()': inv_cc_inner, 'for ev in self._on_cancel': inv_cc_sends},
               calls={'queue.get_nowait': cc_get_nowait, 'self._output_coro_wrapper': wrapper_coroutine_call, 'asyncio.create_task': oa_create_task,
                      'task.done': lambda ex, e, st: [(st, ZV('bool', st.readz('task_done', Val.ref(to_val(st.env['task'], st)))))]},
               hooks={'await': awaits({'queue.get()': cc_get, 'task': cc_await_task})})


# ---- stop / stop_async / start -----------------------------------------------------------------------------------------------------------------------------
def oa_eq_hook(ex, st, l, r):
    """`self._ctrl_coro != self._ctrl_start`: the strategy kept in the field is a bound method of the block itself, identified by its name"""
    for a, b in ((l, r), (r, l)):
        if isinstance(a, PBound) and isinstance(b, ZV) and b.kind == 'str':
            return b.z == StringVal('method:' + a.name)
    return None


def super_stop(ex, e, st):
    st = st.copy(); ex.emit(st, rec('super.stop', to_val(st.env['self'], st)))
    return [(st, P_NONE)]


@contract('OutputAsync.stop', qual=Q + 'stop', modifies=('dq_items',), self_cls='OutputAsync')
def _oa_stop(c):
    me = c.z('self')
    q = c.pre('_queue', me)
    sd = c.pre('_stop_data', me)
    c.requires('stop_data_is_none_or_a_dict', Or(sd == Val.VNone, And(Val.is_D(sd), Not(Opt.is_Some(dict_c(Val.dk(sd))[StringVal('self')])))))
    c.requires('queue_holds_put_data_and_sentinels', items_wf(c.S, q))
    start_mode = c.pre('_ctrl_coro', me) == StringVal('method:_ctrl_start')
    queued = And(sd != Val.VNone, Not(start_mode))
    arr, n = q_items(c.S, q); arr2, n2 = q_items(c.T, q)
    j = Int('j!os')
    c.ensures('stop_data_then_the_sentinel_are_queued_last',
              And(n2 == n + If(queued, 2, 1), arr2[n2 - 1] == Val.VNone,
                  Implies(queued, And(Val.is_D(arr2[n]), dict_c(Val.dk(arr2[n])) == dict_c(Val.dk(sd)))),
                  ForAll([j], Implies(And(0 <= j, j < n), arr2[j] == arr[j]))))
    if c.verifying:
        def expected(k, r, st):
            fn = z3.simplify(Rec.fn(r)).as_string()
            g = st.ghost
            if fn == '_event_put':
                goals = [('stop_data_before_the_sentinel', BoolVal(not g['sentinel'] and not g['data_put']))]; g['data_put'] = True
                return goals
            if fn == 'put_nowait':
                goals = [('the_sentinel_after_the_stop_data', And(Rec.a0(r) == Val.VNone, BoolVal(not g['sentinel']), Implies(queued, BoolVal(g['data_put']))))]
                g['sentinel'] = True
                return goals
            if fn == 'super.stop': return [('the_inherited_stop_once', BoolVal(True))]       # (its position does not matter)
            return [('no_other_call', BoolVal(False))]
        c.expect_trace(expected, 3, normal_len=If(queued, 3, 2), predicate=True)


def await_ctrl_task(ex, node, st):
    me = as_kind(st.env['self'], Ref(), st)
    t = Val.ref(st.readz('_ctrl_task', me))
    outs = []
    for cls in (None, 'CancelledError', 'OtherException'):
        s2 = env_for_ctrl(ex, st, st.readz('_queue', me), me); s2.assume(s2.readz('task_done', t))
        s2.ghost['ctrl_awaited'] = True
        if cls is None: outs.append((s2, P_NONE))
        else:
            s2.label(f'ctrl_task:{cls}')
            outs.append((s2, Raise(PExc(cls, val=Val.Obj(fresh('exc', IntSort())), where='callee'))))
    return outs


def await_super_stop_async(ex, node, st):
    st = st.copy(); ex.emit(st, rec('super.stop_async', to_val(st.env['self'], st)))
    return [(st, P_NONE)]


@contract('OutputAsync.stop_async', qual=Q + 'stop_async', modifies=WRAP_EFFECTS, self_cls='OutputAsync')
def _oa_stop_async(c):
    me = c.z('self')
    sd = c.pre('_stop_data', me)
    c.requires('stop_data_is_none_or_a_dict', Or(sd == Val.VNone, Val.is_D(sd)))
    for lab_, f_ in oa_config_parts(c.S, me): c.requires(lab_, f_)
    c.requires('output_is_the_run_counter', Val.is_I(c.pre('_output', me)))
    start_mode = c.pre('_ctrl_coro', me) == StringVal('method:_ctrl_start')
    last_run = And(sd != Val.VNone, start_mode)
    c.raises('OtherException', unchanged=False, label='the_control_task_failed')
    c.raises('DeliveryError', unchanged=False, label='delivery_of_an_event_failed')
    c.raises('CancelledError', unchanged=False, label='cancelled_during_the_last_run')
    if c.verifying:
        def expected(k, r, st):
            fn = z3.simplify(Rec.fn(r)).as_string()
            if fn == '_output_coro_wrapper':
                return [('stop_data_processed_last_in_start_mode', And(k == 0, last_run, Rec.a0(r) == sd, BoolVal(st.ghost.get('ctrl_awaited') is True)))]
            if fn == 'super.stop_async':
                return [('inherited_cleanup_last', And(k == If(last_run, 1, 0), BoolVal(st.ghost.get('ctrl_awaited') is True)))]
            return [('no_other_call', BoolVal(False))]
        c.expect_trace(expected, 2, normal_len=If(last_run, 2, 1), predicate=True)


def create_monitored_task(ex, e, st):
    """self._create_monitored_task(coro, name=...) (contract: C09): a new task running the coroutine under the task monitor"""
    outs = []
    for s1, cv in ex.ev(e.args[0], st):
        if isinstance(cv, Raise): outs.append((s1, cv)); continue
        s1 = s1.copy(); t = fresh('task', IntSort())
        ex.emit(s1, rec('create_monitored_task', Val.Obj(t), to_val(cv, s1)))
        outs.append((s1, ZV('val', Val.Obj(t))))
    return outs


def ctrl_coro_call(ex, e, st):
    """self._ctrl_coro(): the coroutine object of the selected strategy"""
    me = as_kind(st.env['self'], Ref(), st)
    return [(st, ZV('val', Val.S(st.readz('_ctrl_coro', me))))]


def new_data_queue(ex, e, st):
    st = st.copy(); q = fresh('dqueue', IntSort())
    st.write('dq_items', q, PSeq(K(IntSort(), Val.VNone), IntVal(0), 'val', True))
    st.write('dq_head', q, ZV('int', IntVal(0)))
    return [(st, ZV('ref', q, 'DataQueue'))]


def super_start(ex, e, st):
    st = st.copy(); ex.emit(st, rec('super.start', to_val(st.env['self'], st)))
    return [(st, P_NONE)]


@contract('OutputAsync.start', qual=Q + 'start', modifies=('_queue', '_ctrl_task', 'dq_items', 'dq_head'), self_cls='OutputAsync')
def _oa_start(c):
    me = c.z('self')
    q = c.post('_queue', me)
    c.ensures('a_new_empty_queue', And(q_items(c.T, q)[1] == 0, q_head(c.T, q) == 0))
    if c.verifying:
        def expected(k, r, st):
            fn = z3.simplify(Rec.fn(r)).as_string()
            if fn == 'super.start': return [('inherited_start_once', BoolVal(True))]          # (its position does not matter)
            if fn == 'create_monitored_task':
                return [('one_monitored_control_task_running_the_selected_strategy', Rec.a0(r) == Val.S(c.pre('_ctrl_coro', me)))]
            return [('no_other_call', BoolVal(False))]
        c.expect_trace(expected, 2, normal_len=2, predicate=True)
        c.ensures('control_task_remembered', Val.is_Obj(c.post('_ctrl_task', me)))


def verify_stop_start(run):
    H = {'eq': oa_eq_hook}
    run.verify('OutputAsync.stop', cls='OutputAsync', calls={'super().stop': super_stop}, hooks=H, ghost={'sentinel': False, 'data_put': False})
    run.verify('OutputAsync.stop_async', cls='OutputAsync', ghost={'ctrl_awaited': False, 'now': z3.Real('now0')},
               hooks=dict(H, **{'await': awaits({'self._ctrl_task': await_ctrl_task, 'super().stop_async()': await_super_stop_async,
                                                   '*': lambda ex, node, st: ex.ev(node, st)})}))
    run.verify('OutputAsync.start', cls='OutputAsync',
               calls={'super().start': super_start, 'asyncio.Queue': new_data_queue, 'self._create_monitored_task': create_monitored_task,
                      'self._ctrl_coro': ctrl_coro_call})


# ---- OutputAsync.__init__ (the parts the other contracts rely on) ------------------------------------------------------------------------------------------
def opaque_helper(name, may_raise=None, result=None):
    def h(ex, e, st):
        outs = []
        for s1, vals in ex.evs(e.args, st):
            if isinstance(vals, Raise): outs.append((s1, vals)); continue
            outs.append((s1, result(ex, s1, vals) if result else P_NONE))
            if may_raise:
                b = s1.copy(); b.label(f'{name}:raises')
                outs.append((b, Raise(PExc(may_raise, val=Val.Obj(fresh('exc', IntSort())), where='callee'))))
        return outs
    return h


event_tuple_of = Function('event_tuple_of', Val, IntSort())       # block.event_tuple(x) (contract: C02): a tuple of events


def event_tuple_result(ex, st, vals):
    k = event_tuple_of(to_val(vals[0], st))
    j = Int('j!et')
    st.assume(tup_len(k) >= 0, ForAll([j], Implies(And(0 <= j, j < tup_len(k)), Val.is_Obj(tup_item(k, j)))))
    arr = z3.Lambda([j], tup_item(k, j))
    return PSeq(arr, tup_len(k), 'ref:Event')


time_period_of = Function('time_period_of', Val, RealSort())        # utils.time_period(x) for a valid x (contract: C19): seconds >= 0


def time_period_result(ex, st, vals):
    t = time_period_of(to_val(vals[0], st)); st.assume(t >= 0)
    return ZV('real', t)


def super_init(ex, e, st):
    """super().__init__(*args, **kwargs): AddonAsync/SBlock construction; sets stop_timeout (contract: AddonAsync.__init__), may raise"""
    me = as_kind(st.env['self'], Ref(), st)
    ok = st.copy(); ok.havoc_field('stop_timeout'); ex.emit(ok, rec('super.__init__', Val.Obj(me)))
    ok.assume(ok.readz('stop_timeout', me) >= 0)
    bad = st.copy(); bad.label('super.__init__:raises')
    return [(ok, P_NONE), (bad, Raise(PExc('OtherException', val=Val.Obj(fresh('exc', IntSort())), where='callee')))]


INIT_FIELDS = ('_on_success', '_on_cancel', '_on_error', '_guard_time', '_coro', '_ctrl_coro', '_f_args', '_f_kwargs', '_stop_data', 'stop_timeout')


@contract('OutputAsync.__init__', qual=Q + '__init__', modifies=INIT_FIELDS, self_cls='OutputAsync',
          params={'f_args': Seq('val'), 'f_kwargs': Seq('val')})
def _oa_init(c):
    me = c.z('self')
    mode = c.v('mode')
    c.requires('mode_is_a_string', Val.is_S(mode))
    c.raises('TypeError', unchanged=False, label='bad_argument_names')
    c.raises('ValueError', unchanged=False, label='bad_mode_or_guard_time')
    c.raises('OtherException', unchanged=False, label='inherited_constructor_failed')
    m = lambda *names: Or(*[mode == S_(n) for n in names])
    c.ensures('mode_selects_the_strategy', c.post('_ctrl_coro', me) == If(m('c', 'cancel'), StringVal('method:_ctrl_cancel'),
              If(m('w', 'wait'), StringVal('method:_ctrl_wait'), StringVal('method:_ctrl_start'))))
    c.ensures('mode_is_valid', m('c', 'cancel', 'w', 'wait', 's', 'start'))
    sd0, sd1 = c.v('stop_data'), c.post('_stop_data', me)
    c.requires('stop_data_is_none_or_a_dict', Or(sd0 == Val.VNone, Val.is_D(sd0)))
    c.ensures('stop_data_kept_as_given', If(sd0 == Val.VNone, sd1 == Val.VNone, And(Val.is_D(sd1), dict_c(Val.dk(sd1)) == dict_c(Val.dk(sd0)))))
    c.ensures('coroutine_kept_as_given', c.post('_coro', me) == c.v('coro'))
    c.ensures('guard_time', And(c.post('_guard_time', me) >= 0, c.post('_guard_time', me) <= c.post('stop_timeout', me),
                                Implies(c.v('guard_time') == Val.VNone, c.post('_guard_time', me) == 0)))
    fa, na = c.arg('f_args').arr, c.arg('f_args').n
    c.ensures('argument_names_kept', And(c.post('_f_args', me)[1] == na, c.post('_f_args', me)[0] == fa,
                                         c.post('_f_kwargs', me)[1] == c.arg('f_kwargs').n, c.post('_f_kwargs', me)[0] == c.arg('f_kwargs').arr))
    for f, p in (('_on_success', 'on_success'), ('_on_cancel', 'on_cancel'), ('_on_error', 'on_error')):
        k = event_tuple_of(c.v(p))
        c.ensures(f'{p}_events', And(c.post(f, me)[1] == tup_len(k), ForAll([Int('j!in')], Implies(And(0 <= Int('j!in'), Int('j!in') < tup_len(k)),
                                                                                                      c.post(f, me)[0][Int('j!in')] == tup_item(k, Int('j!in'))))))


def verify_init(run):
    run.verify('OutputAsync.__init__', cls='OutputAsync',
               calls={'_check_arg': opaque_helper('_check_arg', 'TypeError'), 'block.event_tuple': opaque_helper('event_tuple', None, event_tuple_result),
                      'utils.time_period': opaque_helper('time_period', 'ValueError', time_period_result), 'super().__init__': super_init},
               hooks={'opaque_fstrings': True})


# ---- utils.shield_cancel: a cancellation cannot shorten what is awaited ---------------------------------------------------------------------------------
def ensure_future_call(ex, e, st):
    t = fresh('future', IntSort()); st = st.copy(); st.ghost['shielded'] = t
    return [(st, ZV('val', Val.Obj(t)))]


def await_shield(ex, node, st):
    """`await asyncio.shield(task)`: returns the result when the task has finished; raises CancelledError when the waiting task is
    cancelled (the shielded task keeps running) or when the shielded task itself was cancelled; raises the task's exception"""
    t = st.ghost['shielded']
    def env(s):
        post = s.copy()
        for f in ('task_done', 'task_cancelled', 'task_exception'): post.havoc_field(f)
        S, T = View(s), View(post); tx = Int('t!sh')
        for f in ('task_done', 'task_cancelled', 'task_exception'):
            new, old = T.whole(f), S.whole(f)
            T.st.heap[f] = z3.Lambda([tx], If(S.whole('task_done')[tx], old[tx], new[tx]))
        return post
    a = env(st); a.assume(a.readz('task_done', t), Not(a.readz('task_cancelled', t)))
    b = env(st); b.label('shield:cancelled')
    b.assume(Implies(b.readz('task_done', t), Or(b.readz('task_cancelled', t), BoolVal(True))))
    d = env(st); d.assume(d.readz('task_done', t)); d.label('shield:failed')
    return [(a, ZV('val', fresh('result', Val))),
            (b, Raise(PExc('CancelledError', val=Val.Obj(fresh('exc', IntSort())), where='callee'))),
            (d, Raise(PExc('OtherException', val=Val.Obj(fresh('exc', IntSort())), where='callee')))]


@contract('shield_cancel', qual='edzed.utils.shield_cancel:shield_cancel', modifies=('task_done', 'task_cancelled', 'task_exception'))
def _shield_cancel(c):
    done = lambda post: post.f('task_done', post.g('shielded'))
    c.ensures('returns_only_after_the_awaitable_has_finished', done(c.T))
    c.raises('CancelledError', unchanged=False, label='pending_cancellation_is_delivered_afterwards', ensures=lambda post, exc: [done(post)])
    c.raises('OtherException', unchanged=False, label='error_of_the_awaitable', ensures=lambda post, exc: [done(post)])


def inv_shield(lc):
    import asyncio as _aio
    v = to_val(lc.local('cancel_exc'), lc.st.st)
    return [('pending_cancellation_is_none_or_a_cancelled_error',
             Or(v == Val.VNone, And(Val.is_Obj(v), calls.inst_of(Val.ref(v), _aio.CancelledError))))]


def verify_shield_cancel(run):
    run.verify('shield_cancel', ghost={'shielded': Int('shielded0')}, invariants={'while True': inv_shield},
               calls={'asyncio.ensure_future': ensure_future_call,
                      'task.done': lambda ex, e, st: [(st, ZV('bool', st.readz('task_done', st.ghost['shielded'])))]},
               hooks={'await': awaits({'asyncio.shield(task)': await_shield})})
