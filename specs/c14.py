"""C14 - external events enter only a running circuit and are always marked as external.  DESIGN section 3, C14."""
import ast
import z3
from pyvc.sorts import *
from pyvc.values import *
from pyvc.state import declare_fields, View
from pyvc.contract import contract, CONTRACTS, Param, module_ast
from pyvc.engine import Raise
from pyvc import calls
from specs.common import *
from specs import event_send

declare_fields(_source=STR, _blocks=Map(STR, Ref('Block')))
EXT = StringVal('_ext_')


def ready(S, circ):
    """the statement's "the circuit is running": a simulation task exists and no error/stop reason is recorded"""
    return And(S.f('_simtask', circ) != Val.VNone, S.f('_error', circ) == Val.VNone)


@contract('Circuit.is_ready', qual='edzed.simulator:Circuit.is_ready', modifies=(), self_cls='Circuit')
def _is_ready(c):
    c.ensures('ready_iff_task_and_no_error', c.rv == Val.B(ready(c.S, c.z('self'))))


@contract('Circuit.findblock', qual='edzed.simulator:Circuit.findblock', params={'name': STR}, modifies=(), self_cls='Circuit',
          result=Ref('Block'))
def _findblock(c):
    me, name = c.z('self'), c.z('name')
    O = OptOf(IntSort())
    cell = c.pre('_blocks', me)[name]
    c.raises('KeyError', when=Not(O.is_Some(cell)), iff=True, label='not_found')
    c.ensures('block_of_that_name', And(O.is_Some(cell), as_kind(c.result, Ref()) == O.v(cell)))


@contract('ExtEvent.__init__', qual='edzed.block:ExtEvent.__init__', modifies=('_dest', '_etype', '_source'), self_cls='ExtEvent')
def _ext_init(c):
    me, dest, etype, source = c.z('self'), c.v('dest'), c.v('etype'), c.v('source')
    circ = c.S.g('current_circuit')
    O = OptOf(IntSort())
    SB, BL = calls.C_class('SBlock'), calls.C_class('Block')
    by_name = c.pre('_blocks', circ)[Val.s(dest)]
    blk = If(Val.is_S(dest), O.v(by_name), Val.ref(dest))
    dest_ok = Or(And(Val.is_S(dest), O.is_Some(by_name)), And(Val.is_Obj(dest), calls.inst_of(Val.ref(dest), BL)))
    c.requires('registered_blocks_are_blocks', Implies(And(Val.is_S(dest), O.is_Some(by_name)), calls.inst_of(O.v(by_name), BL)))
    c.raises('KeyError', when=And(Val.is_S(dest), Not(O.is_Some(by_name))), iff=True, label='unknown_block_name')
    bad_type = Or(And(Not(Val.is_S(dest)), Not(dest_ok)),
                  And(dest_ok, Or(Not(calls.inst_of(blk, SB)), Not(Val.is_S(etype)), Val.s(etype) == StringVal(''), Not(Val.is_S(source)))))
    c.raises('TypeError', when=bad_type, iff=True, label='wrong_arguments')
    c.ensures('destination_is_the_sblock', And(c.post('_dest', me) == Val.Obj(blk), calls.inst_of(blk, SB)))
    c.ensures('etype_stored', And(c.post('_etype', me) == etype, Val.is_S(etype), Val.s(etype) != StringVal('')))
    src = Val.s(source)
    c.ensures('default_source_prefixed', c.post('_source', me) == If(PrefixOf(EXT, src), src, Concat(EXT, src)))
    c.ensures('default_source_marked_external', PrefixOf(EXT, c.post('_source', me)))


@contract('ExtEvent.send', qual='edzed.block:ExtEvent.send', modifies=DELIVERY, self_cls='ExtEvent')
def _ext_send(c):
    me, value = c.z('self'), c.v('value')
    data = c.arg('data').arr
    circ = c.S.g('current_circuit')
    dest, etype, dflt = c.pre('_dest', me), c.pre('_etype', me), c.pre('_source', me)
    c.requires('valid_extevent', And(Val.is_Obj(dest), PrefixOf(EXT, dflt)))      # established by __init__ above
    rdy = ready(c.S, circ)
    d1 = If(value != Val.Undef, Store(data, StringVal('value'), Opt.Some(value)), data)
    sc = d1[StringVal('source')]
    given = Opt.v(sc)
    nothing = lambda post, exc: [post.tn == 0]
    c.raises('EdzedInvalidState', when=Not(rdy), iff=True, ensures=nothing, label='circuit_not_running')
    c.raises('TypeError', when=And(rdy, Opt.is_Some(sc), Not(Val.is_S(given))), iff=True, ensures=nothing, label='source_not_a_string')
    src = If(Opt.is_Some(sc), If(PrefixOf(EXT, Val.s(given)), Val.s(given), Concat(EXT, Val.s(given))), dflt)
    d = Store(d1, StringVal('source'), Opt.Some(Val.S(src)))
    c.raises('DeliveryError', when=rdy, unchanged=False)
    c.ensures('only_when_running', rdy)
    if c.verifying:
        c.ensures('delivered_exactly_once_with_the_data', And(c.T.tn == 1, c.T.tr[0] == rec('event', dest, etype, kw=d)))
        c.ensures('returns_handler_result', c.rv == evres(dest, etype, mkD(d), IntVal(0)))
    c.ensures('source_marked_external', PrefixOf(EXT, src))
    k = Const('k!x', StringSort())
    c.ensures('other_items_unchanged', ForAll([k], Implies(And(k != StringVal('source'), k != StringVal('value')), d[k] == data[k])))
    c.ensures('positional_value_becomes_value_item', Implies(value != Val.Undef, d[StringVal('value')] == Opt.Some(value)))
    c.ensures('value_item_kept_without_positional_value', Implies(value == Val.Undef, d[StringVal('value')] == data[StringVal('value')]))


# ---- Block.__init__: the naming rules (the rest of the constructor is opaque here: C15/C02) ------------------------
declare_fields(_reserved_flag=BOOL)


@contract('check_name', qual='edzed.block:check_name', modifies=())
def _check_name(c):
    name = c.v('name')
    c.raises('TypeError', when=Not(Val.is_S(name)), iff=True)
    c.raises('ValueError', when=And(Val.is_S(name), Val.s(name) == StringVal('')), iff=True)
    c.ensures('nonempty_string', And(Val.is_S(name), Val.s(name) != StringVal('')))


def _count_same_prefix(ex, e, st):
    """sum(1 for blk in circuit.getblocks(type(self)) if blk.name.startswith(prefix)): some count >= 0"""
    n = fresh('cnt', IntSort()); st = st.copy(); st.assume(n >= 0)
    return [(st, ZV('int', n))]


def _opaque(name, result=P_NONE, havoc=()):
    def h(ex, e, st):
        st = st.copy(); st.emit(rec(name))
        for f in havoc: st.havoc_field(f)
        return [(st, result)]
    return h


def _x_kwargs_loop(ex, s, st, it):
    """`for key, value in x_kwargs.items()`: the x_ attribute loop is outside the naming clause; keep its TypeError exit"""
    ok = st.copy()
    bad = st.copy(); bad.label('x_kwargs:invalid_key')
    from pyvc.engine import NEXT
    return [(ok, NEXT), (bad, ('raise', PExc('TypeError', val=Val.Obj(fresh('exc', IntSort())), where='raise')))]


@contract('Block.__init__', qual='edzed.block:Block.__init__', self_cls='Block',
          modifies=('circuit', 'name', 'comment', 'debug', '_output_events', 'oconnections', '_output'))
def _block_init(c):
    me, name, reserved = c.z('self'), c.v('name'), c.v('_reserved')
    given = name != Val.VNone
    c.raises('TypeError', label='bad_name_type_or_abstract_or_bad_keyword', unchanged=False)
    c.raises('ValueError', label='empty_reserved_or_duplicate_name', unchanged=False)
    c.raises('EdzedInvalidState', label='circuit_finalized', unchanged=False)
    nm = c.post('name', me)
    c.ensures('explicit_name_kept', Implies(given, And(Val.is_S(name), nm == Val.s(name))))
    c.ensures('explicit_underscore_name_needs_reserved', Implies(And(given, Not(truthy(reserved))), Not(PrefixOf(StringVal('_'), nm))))
    if c.verifying:
        cn = class_name(class_of(me))
        n = Int('n!auto')
        c.ensures('automatic_name_shape', Implies(Not(given), Exists([n], And(n >= 0, nm == Concat(StringVal('_'), cn, StringVal('_'), z3.IntToStr(n))))))
    c.ensures('output_starts_undefined', c.post('_output', me) == Val.Undef)


def reserved_sites():
    """all `_reserved=True` call sites in the package, with the name expression they pass"""
    import os
    from pyvc.contract import REPO
    found = []
    for root, _, files in os.walk(os.path.join(REPO, 'edzed')):
        for f in files:
            if not f.endswith('.py'): continue
            tree = ast.parse(open(os.path.join(root, f)).read())
            for n in ast.walk(tree):
                if isinstance(n, ast.Call) and any(k.arg == '_reserved' for k in n.keywords):
                    kw = next(k for k in n.keywords if k.arg == '_reserved')
                    if isinstance(kw.value, ast.Constant) and kw.value.value is False: continue
                    found.append((os.path.join(os.path.relpath(root, REPO), f), n.lineno, ast.unparse(n.args[0]) if n.args else '?'))
    return found


def build(run):
    G = {'current_circuit': Int('current_circuit')}
    GC = {'simulator.get_circuit': event_send.get_circuit_handler}
    run.verify('Circuit.is_ready')
    run.verify('Circuit.findblock', calls={})
    run.verify('ExtEvent.__init__', calls=GC, ghost=G)
    run.verify('ExtEvent.send', calls=GC, ghost=G)
    run.verify('check_name')
    run.verify('Block.__init__', cls='SBlock', ghost=G,
               calls=dict(GC, **{'sum': _count_same_prefix, 'event_tuple': _opaque('event_tuple', PSeq(fresh('evs', SeqArr), IntVal(0), 'ref:Event')),
                                 'self.circuit.addblock': _opaque_addblock, 'for:for (key, value) in x_kwargs.items()': _x_kwargs_loop}))
    event_send.verify_send(run)     # `data['source'] = source.name`: internal events carry the sender's block name

    # ---- lemma no_forgery: no block name starts with '_ext_' ---------------------------------------------------------
    nm, cn = Const('nm', StringSort()), Const('cn', StringSort())
    n = Int('n')
    run.lemma('no_forgery/explicit_names', [Not(PrefixOf(StringVal('_'), nm))], Not(PrefixOf(EXT, nm)))
    auto = Concat(StringVal('_'), cn, StringVal('_'), z3.IntToStr(n))
    ob = run.lemma('no_forgery/automatic_names', [n >= 0, nm == auto], Not(PrefixOf(EXT, nm)))
    run.signature(ob.name, 'class_name_starts_with_ext_', PrefixOf(StringVal('ext_'), Concat(cn, StringVal('_'))))
    sites = reserved_sites()
    allowed = {"blk", "name"}    # `blk` in _validate_blk is '_ctrl' or '_not_'+NAME (checked below); `name` in _get_cron is '_cron_utc'/'_cron_local'
    run.scan('reserved_name_sites', all(s[2] in allowed for s in sites) and len(sites) == 3,
             f'_reserved=True is passed only at: {sites} (names _ctrl, _not_NAME, _cron_local, _cron_utc: none starts with _ext_)')
    for lit in ('_ctrl', '_cron_utc', '_cron_local'):
        run.lemma(f'no_forgery/reserved:{lit}', [], Not(PrefixOf(EXT, StringVal(lit))))
    rest = Const('rest', StringSort())
    run.lemma('no_forgery/reserved:_not_NAME', [], Not(PrefixOf(EXT, Concat(StringVal('_not_'), rest))))
    run.replayer('no_forgery/automatic_names', replay_autoname)

    run.assume('A-C14: configured event filters do not rewrite the source item')
    run.assume('the positional parameters of SBlock.event are positional-only (data may contain any keys)')
    run.trust('event() entry point (C11/C09); Circuit._error write-once invariant (C09) makes "not ready" permanent')
    run.unclaim("which phases are 'running': is_ready() is the definition used (task exists, no error recorded); "
                "that every stop path sets the error before clean-up is C09's invariant")


def _opaque_addblock(ex, e, st):
    from pyvc.engine import NEXT
    ok = st.copy(); ok.emit(rec('addblock'))
    outs = [(ok, P_NONE)]
    for cls in ('ValueError', 'EdzedInvalidState', 'TypeError'):
        b = st.copy(); b.label(f'addblock:raises:{cls}')
        outs.append((b, Raise(PExc(cls, val=Val.Obj(fresh('exc', IntSort())), where='callee'))))
    return outs


def replay_autoname(run, ob, model):
    return r'''
import sys, edzed
edzed.reset_circuit()
class ext_X(edzed.SBlock):
    pass
b = ext_X(None)
print('automatic name of a block of class ext_X:', b.name)
sys.exit(1 if b.name.startswith('_ext_') else 0)
'''
