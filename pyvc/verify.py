"""Verification of one function body against its contract: bind symbolic parameters, assume the
precondition, run the real AST, and turn every exit into obligations (DESIGN 1, 2.4)."""
import ast
import time
import z3
from .sorts import *
from .values import *
from .state import *
from .engine import Exec, Obligation, NEXT
from . import contract as C
from . import calls  # noqa: F401  (registers built-ins)


class VerifyInfo:
    def __init__(self): self.__dict__.update(paths=0, exits=[], gen_s=0.0, unreachable=0, feas_checks=0, assumptions=set())


def bind_params(k, st):
    ps, va, vk = k.signature()
    args = {}
    for p in ps:
        args[p.name] = p.kind.fresh('p_' + p.name)
        if p.kind.tag == 'ref' and p.kind.cls: args[p.name].cls = p.kind.cls
    if va: args[va] = Seq().fresh('p_' + va)
    if vk: args[vk] = PDict(fresh('p_' + vk, DictS))
    for name, v in args.items():
        st.env[name] = v
        if isinstance(v, PSeq): st.assume(v.n >= 0)
    return args


class BodySpec(C.FnSpec):
    name_lines = False

    def owner_class(self):
        """the class in whose body the function is defined (for zero-argument super())"""
        if self._owner is None: raise Unsupported(f'super() in {self.qual}: owner class unknown')
        return self._owner


def verify(k, prop, cls=None, invariants=None, calls=None, hooks=None, extra_pre=None, ghost=None, label=None):
    """-> (list[Obligation], VerifyInfo).  `k`: Contract with a qual; `cls`: simple name of the concrete class
    the proof instance is for (method resolution order)."""
    k.load()
    spec = BodySpec(k, prop, invariants=invariants, calls=calls, hooks=hooks)
    owner_name = k.qual.split(':')[1].split('.')[0]
    spec._owner = calls_mod().C_class(owner_name)
    spec.cls = calls_mod().C_class(cls) if cls else spec._owner
    ex = Exec(spec)
    st = State()
    args = bind_params(k, st)
    if cls and 'self' in args and isinstance(args['self'], ZV): args['self'].cls = cls      # proof instance: method calls on self resolve in this class
    for name, kind in k.closure.items():
        v = kind.fresh('c_' + name)
        if isinstance(v, PSeq): st.assume(v.n >= 0)
        spec.closure_vals[name] = v
        args[name] = v
    for name, v in (ghost or {}).items(): st.ghost[name] = v
    if extra_pre:
        for f in extra_pre(View(st, args)): st.assume(f)
    pre_st = st.copy()
    spec.pre_view = View(pre_st, args)
    cl0 = k.clauses(args, pre_st, pre_st, k.result.fresh('noresult') if k.result is not None else P_NONE, True)
    for lab, f in cl0.requires: st.assume(f)
    spec.trace_spec = cl0.trace_spec
    pre_pc = list(st.pc)
    tag = label or k.key
    info = VerifyInfo()
    t0 = time.time()
    body = k.node.body if not isinstance(k.node, ast.Lambda) else [ast.Return(value=k.node.body, lineno=k.node.lineno, col_offset=0)]
    flows = ex.run_block(body, st)
    obs = []

    def ob(name, s1, goal, kind='code', meta=None):
        if isinstance(goal, bool): goal = BoolVal(goal)
        hyps = list(s1.pc)
        if name == 'delivery_errors_are_not_swallowed' and z3.is_false(z3.simplify(goal)):
            # the goal is the constant False: the obligation says "this path does not exist"; decided from the quantifier-free path facts
            from .engine import _has_quant_cached
            hyps = [f for f in hyps if not _has_quant_cached(f)]
        if ':qf:' in name:
            # a quantifier-free clause over locals/ghosts: decided from the quantifier-free path facts alone (see engine.emit)
            from .engine import _has_quant_cached
            name = name.replace(':qf:', ':'); hyps = [f for f in hyps if not _has_quant_cached(f)]
        obs.append(Obligation(f'{prop}/{tag}/{name}', hyps, goal, list(s1.labels), kind, meta))

    # vacuity guard: the precondition itself
    obs.append(Obligation(f'{prop}/{tag}/vacuity:requires_satisfiable', pre_pc, BoolVal(False), [], 'canary'))
    nexit = 0
    for s1, fl in flows:
        if fl is NEXT: fl = ('return', P_NONE)
        if fl[0] in ('break', 'continue'): raise Unsupported(f'{k.qual}: {fl[0]} outside a loop')
        nexit += 1
        path = '; '.join(s1.labels[-6:])
        if fl[0] == 'return':
            res = fl[1]
            cl = k.clauses(args, pre_st, s1, res, True)
            info.exits.append(('return', path))
            for lab, f in cl.ensures: ob(f'post:{lab}', s1, f, meta={'exit': 'return', 'path': path})
            if spec.trace_spec is not None and spec.trace_spec[2] is not None:
                ob('trace:all_expected_calls_were_made', s1, s1.tn == spec.trace_spec[2], kind='trace', meta={'exit': 'return', 'path': path})
            if cl.result_pv is not None:
                ob('post:result', s1, to_val(res, s1) == to_val(cl.result_pv, s1), meta={'exit': 'return', 'path': path})
            for rc in cl.raises:
                if rc.iff and rc.when is not None:
                    ob(f'raises:{rc.label}/iff', s1, Not(rc.when), meta={'exit': 'return', 'path': path})
            if k.propagates_delivery_errors:
                ob('delivery_errors_are_not_swallowed', s1, BoolVal(s1.ghost.get('delivery_failed') is not True),
                   meta={'exit': 'return', 'path': path})
            _frame(k, ob, pre_st, s1, 'return', path)
            obs.append(Obligation(f'{prop}/{tag}/vacuity:exit{nexit}', list(s1.pc), BoolVal(False), list(s1.labels), 'canary'))
        else:
            exc = fl[1]
            info.exits.append((f'raise {exc.cls}', path))
            cl = k.clauses(args, pre_st, s1, k.result.fresh('noresult') if k.result is not None else P_NONE, True)
            match = [rc for rc in cl.raises if exc.cls is not None and _exc_covered(exc.cls, rc.cls)
                     and (rc.where is None or (rc.where == 'call') == (exc.where == 'call'))]
            if not match:
                ob(f'no_unexpected_raise:{exc.cls}', s1, BoolVal(False),
                   meta={'exit': f'raise {exc.cls}', 'path': path, 'where': exc.where})
                continue
            ob(f'raises:{match[0].label}/declared_exit', s1, BoolVal(True), meta={'exit': f'raise {exc.cls}', 'path': path})
            whens = [rc.when for rc in match if rc.when is not None]
            if whens and len(whens) == len(match):
                ob(f'raises:{match[0].label}/when', s1, Or(*whens) if len(whens) > 1 else whens[0],
                   meta={'exit': f'raise {exc.cls}', 'path': path})
            for rc in match[:1]:
                if rc.ensures is not None:
                    for i, f in enumerate(rc.ensures(View(s1, args), exc.val)):
                        ob(f'raises:{rc.label}/post{i}', s1, f, meta={'exit': f'raise {exc.cls}', 'path': path})
                if rc.unchanged: _frame(k, ob, pre_st, s1, f'raise {exc.cls}', path, nothing=True)
                else: _frame(k, ob, pre_st, s1, f'raise {exc.cls}', path)
    obs = ex.obligations_named(prop, tag) + obs
    info.paths = nexit
    info.gen_s = time.time() - t0
    info.unreachable = ex.unreachable
    info.feas_checks = ex.feas_checks
    info.assumptions = set(spec.assumptions)
    k.verified = True
    return obs, info


def _exc_covered(cls_name, decl):
    if cls_name == decl: return True
    if decl in C.PSEUDO_EXC or cls_name in C.PSEUDO_EXC: return False
    d = C.exc_class(decl)
    return d is not None and C.exc_issubclass(cls_name, d)


def _frame(k, ob, pre_st, s1, exit_kind, path, nothing=False):
    """every heap component that differs from the pre-state must be in `modifies`"""
    allowed = set() if nothing else {FIELD_ALIAS.get(f, f) for f in k.modifies}
    for comp, arr in s1.heap.items():
        base = pre_st.heap.get(comp)
        if base is None: base = Const('H_' + comp, arr.sort())
        if arr.eq(base): continue
        fname = comp.split('#')[0]
        if fname in allowed: continue
        ob(f'frame:{fname}', s1, arr == base, kind='frame', meta={'exit': exit_kind, 'path': path})


def calls_mod():
    from . import calls
    return calls


def _obligations_named(self, prop, tag):
    out = []
    for o in self.obligations:
        o.name = f'{prop}/{tag}/{o.name}'
        out.append(o)
    return out


Exec.obligations_named = _obligations_named
