"""C03 - an FSM follows its transition table and runs its actions in the documented order.  DESIGN section 3, C03."""
import os
from pyvc.sorts import *
from pyvc import scan
from specs.common import *
from specs import fsm, event_entry


FSM_GRID_BOUND = ('7 hand-made and 60 generated FSM definitions (<= 3 states, <= 2 events, <= 3 rules per event; any-state rules, None targets, '
                  "'|' lists with blanks, sequences, timed states with table events and Goto): tables built by the real FSM._build_tables = an independent "
                  'reading; every (state, event) pair sent to a fresh instance: result and next state = the rule of the statement; instance keywords '
                  '(t_STATE incl. None/0/strings, on_enter_/on_exit_, cond_/enter_/exit_) and 11 malformed definitions/keywords refused')


def build(run):
    fsm.verify_fsm(run, what=('c03',))
    from specs import fsm_tables
    fsm_tables.verify_tables(run)          # STATES / TIMERS / EVENTS -> control tables
    scan_library_tables(run)
    w = scan.attr_writers('_state')
    run.scan('writers_of__state', w == ['edzed/fsm.py:FSM.__init__', 'edzed/fsm.py:FSM._ctx_event', 'edzed/fsm.py:FSM._restore_state'], f'{w}')
    w = scan.attr_writers('_next_event')
    run.scan('writers_of__next_event', w == ['edzed/fsm.py:FSM.__init__', 'edzed/fsm.py:FSM._ctx_event'], f'{w}')
    run.bounded_native('fsm_definitions_through_the_real_class_machinery', 'fsm_tables_grid.py', FSM_GRID_BOUND)
    callers = scan.method_callers('_build_tables')
    run.scan('tables_are_built_when_the_class_is_created', callers == ['edzed/fsm.py:FSM.__init_subclass__'], f'{callers}')
    run.unclaim('FSM._build_tables: the discovery of cond_/enter_/exit_ methods (reflection over vars(cls)), the chain limit as 3 x the number of states '
                '(cardinality of a set) and the converse inclusion (nothing but the rules of the definition is in the table) are not under contract; '
                'FSM.__init__ keyword parsing for arbitrary FSM definitions is not under contract; both are covered by the bounded stand-in only. '
                'The transition contract (_ctx_event) takes well-formed tables as its precondition')
    run.replayer('sees_the_data_of_the_event_that_caused_it', _replay_ctx)
    run.assume('callbacks (cond/enter/exit, calc_output) are user code: they reach the FSM only through event() and sdata')
    run.assume('A-C02; FSM.calc_output is a deterministic function of state and state data')


REPLAY_CTX = r'''
import sys, asyncio, edzed
from edzed import fsm
edzed.reset_circuit()
seen = []
class Chain(edzed.FSM):
    STATES = ['a', 'b', 'c']
    EVENTS = [('go', 'a', 'b'), ('next', 'b', 'c')]
    def enter_b(self):
        seen.append(('enter_b', dict(fsm.fsm_event_data.get())))
        self.event('next', tag='chained')          # chained transition requested by the entry action
    def exit_b(self):
        seen.append(('exit_b', dict(fsm.fsm_event_data.get())))
    def enter_c(self):
        seen.append(('enter_c', dict(fsm.fsm_event_data.get())))
f = Chain('f')
circ = edzed.get_circuit()
class FakeTask:
    def done(self): return False
    def cancel(self): pass
circ._simtask = FakeTask(); circ.sblock_queue = asyncio.Queue(); circ.finalize()
circ.init_sblock(f, full=True)
f.event('go', tag='original')
for name, data in seen: print(name, {k: v for k, v in data.items() if k != 'source'})
d = dict(seen)
ok = d['enter_b'].get('tag') == 'original' and d['exit_b'].get('tag') == 'chained' and d['enter_c'].get('tag') == 'chained' and f.state == 'c'
print('state:', f.state, '-> actions of the chained transition saw the chained event data:', ok)
sys.exit(0 if ok else 1)
'''


def _replay_ctx(run, ob, model):
    return REPLAY_CTX


def expected_tables(cls):
    """the statement's reading of STATES / TIMERS / EVENTS, written independently of FSM._build_tables"""
    from edzed import utils
    states = set(cls.STATES) | set(cls.TIMERS)
    trans, events = {}, set()
    for event, from_states, nxt in cls.EVENTS:
        events.add(event)
        if from_states is None: keys = [None]
        elif isinstance(from_states, str): keys = [x.strip() for x in from_states.split('|')]
        else: keys = [x.strip() for x in from_states]
        for k in keys: trans[(event, k)] = nxt
    timed = {s: ev for s, (d, ev) in cls.TIMERS.items()}
    dur = {s: utils.time_period(d) for s, (d, ev) in cls.TIMERS.items()}
    return states, events, trans, timed, dur, 3 * len(states)


def scan_library_tables(run):
    import edzed
    from edzed.blocklib import fsms, sblocks2
    for cls in (fsms.Timer, sblocks2.InputExp):
        st, ev, tr, timed, dur, lim = expected_tables(cls)
        ok = (cls._ct_states == st and cls._ct_events == ev and cls._ct_transition == tr and cls._ct_timed_event == timed
              and cls._ct_default_duration == dur and cls._ct_chainlimit == lim
              and cls._ct_default_state == (cls.STATES[0] if cls.STATES else next(iter(cls.TIMERS))))
        run.scan(f'control_tables:{cls.__name__}', ok,
                 f'{cls.__name__}: the control tables built by FSM._build_tables equal an independent reading of STATES/TIMERS/EVENTS')
