"""Symbolic state: path condition, locals, component-per-field heap, ghost call trace."""
from .sorts import *
from .values import *

FIELDS = {}          # field name -> Kind   (component-per-field heap model; filled by the specs)
FIELD_ALIAS = {}     # property name -> field name (e.g. 'output' -> '_output')


def declare_fields(**kw):
    for name, kind in kw.items():
        old = FIELDS.get(name)
        if old is not None and repr(old) != repr(kind):
            raise RuntimeError(f'field {name} declared twice with different kinds: {old} vs {kind}')
        FIELDS[name] = kind


def heap_sort(kind):
    return ArraySort(IntSort(), kind.sort())


class State:
    def __init__(self):
        self.pc = []           # list of z3 Bool
        self.env = {}          # local name -> PV
        self.heap = {}         # heap component name -> z3 array (current version)
        self.tr = Const('tr0', TraceArr)
        self.tn = IntVal(0)
        self.ghost = {}        # ghost name -> PV / z3
        self.handled = []      # stack of exceptions being handled (for bare `raise`)
        self.labels = []       # path decisions, human readable
        self.loops = []        # active loop contexts

    def copy(self):
        n = State.__new__(State)
        n.pc = list(self.pc); n.env = dict(self.env); n.heap = dict(self.heap)
        n.tr, n.tn = self.tr, self.tn
        n.ghost = dict(self.ghost); n.handled = list(self.handled); n.labels = list(self.labels)
        n.loops = list(self.loops)
        return n

    def assume(self, *fs):
        for f in fs:
            if isinstance(f, bool): f = BoolVal(f)
            self.pc.append(f)

    def label(self, s):
        self.labels.append(s)

    # ------------------------------------------------------------ heap
    def comp(self, name, sort):
        if name not in self.heap:
            self.heap[name] = Const('H_' + name, ArraySort(IntSort(), sort))
        return self.heap[name]

    def field_kind(self, name):
        name = FIELD_ALIAS.get(name, name)
        if name not in FIELDS:
            raise Unsupported(f'attribute {name!r} is not a declared field (missing contract)')
        return name, FIELDS[name]

    def read(self, name, ref):
        """read field `name` of object `ref` (z3 Int) -> PV"""
        name, kind = self.field_kind(name)
        if kind.tag == 'seq':
            return PSeq(Select(self.comp(name + '#items', SeqArr), ref), Select(self.comp(name + '#len', IntSort()), ref),
                        kind.elem or 'val')
        return kind.wrap(Select(self.comp(name, kind.sort()), ref))

    def readz(self, name, ref):
        """z3 term of a (non-seq) field"""
        name, kind = self.field_kind(name)
        return Select(self.comp(name, kind.sort()), ref)

    def write(self, name, ref, pv):
        name, kind = self.field_kind(name)
        if kind.tag == 'seq':
            arr, n = seq_of(pv, self)
            self.heap[name + '#items'] = Store(self.comp(name + '#items', SeqArr), ref, arr)
            self.heap[name + '#len'] = Store(self.comp(name + '#len', IntSort()), ref, n)
            return
        z = as_kind(pv, kind, self)
        self.heap[name] = Store(self.comp(name, kind.sort()), ref, z)

    def havoc_field(self, name):
        name, kind = self.field_kind(name)
        comps = [(name + '#items', SeqArr), (name + '#len', IntSort())] if kind.tag == 'seq' else [(name, kind.sort())]
        for c, s in comps:
            self.heap[c] = fresh('H_' + c, ArraySort(IntSort(), s))

    # ------------------------------------------------------------ trace
    def emit(self, record):
        self.tr = Store(self.tr, self.tn, record)
        self.tn = self.tn + 1

    def havoc_trace(self):
        self.tr = fresh('tr', TraceArr)
        self.tn = fresh('tn', IntSort())


class View:
    """read-only view of a state for contract clauses"""
    def __init__(self, st, args=None):
        self.st, self.args = st, args or {}

    def f(self, name, ref):
        """z3 term of field `name` of `ref` (seq fields: (arr, n))"""
        name, kind = self.st.field_kind(name)
        if kind.tag == 'seq':
            p = self.st.read(name, ref)
            return p.arr, p.n
        return self.st.readz(name, ref)

    def whole(self, name):
        name, kind = self.st.field_kind(name)
        return self.st.comp(name, kind.sort())

    @property
    def tr(self): return self.st.tr

    @property
    def tn(self): return self.st.tn

    def g(self, name): return self.st.ghost.get(name)
