"""C15 - the finalized circuit's connection data is complete, consistent and frozen.  DESIGN section 3, C15."""
import z3
from pyvc.sorts import *
from pyvc.values import *
from pyvc.state import declare_fields, View
from pyvc.contract import contract, CONTRACTS, Param
from pyvc.engine import Raise, NEXT
from pyvc import calls, scan
from specs.common import *
from specs import event_send

declare_fields(_blocks=Map(STR, Ref('Block')), persistent_dict=VAL, dyn_attrs=Map(STR, VAL), _unresolved=Seq('val'), _resolve_function=VAL,
               inputs=Map(STR, VAL))
Q = 'edzed.simulator:'
OI = OptOf(IntSort())
OV = OptOf(Val)
BL = lambda: calls.C_class('Block')


from specs.frozen import frozen, _finalize_call      # check_not_finalized, finalize, set_persistent_data, addblock (shared with C08)


@contract('Circuit.findblock', qual=Q + 'Circuit.findblock', params={'name': STR}, modifies=(), self_cls='Circuit', result=Ref('Block'))
def _findblock(c):
    me, name = c.z('self'), c.z('name')
    cell = c.pre('_blocks', me)[name]
    c.raises('KeyError', when=Not(OI.is_Some(cell)), iff=True, label='not_found')
    c.ensures('block_of_that_name', And(OI.is_Some(cell), as_kind(c.result, Ref()) == OI.v(cell)))


# ---- _validate_blk: resolution of one input / destination specification ------------------------------------------------------------------
def new_block(kind):
    """ControlBlock(...) / Not(...).connect(...): a new block object, registered in the circuit under its name (Block.__init__, addblock)"""
    def h(ex, e, st):
        outs = []
        for s1, vals in ex.evs(e.args[:1], st):
            me = as_kind(s1.env['self'], Ref(), s1)
            name = ex.as_str(s1, vals[0])
            dup = s1.copy(); dup.assume(OI.is_Some(dup.readz('_blocks', me)[name])); dup.label(f'new:{kind}:duplicate_name')
            if ex.feasible(dup): outs.append((dup, Raise(PExc('ValueError', val=Val.Obj(fresh('exc', IntSort())), where='callee'))))
            s1 = s1.copy(); r = fresh('newblk', IntSort())
            s1.assume(calls.inst_of(r, calls.C_class(kind)), s1.readz('name', r) == name, Not(OI.is_Some(s1.readz('_blocks', me)[name])))
            s1.write('_blocks', me, PMap(Store(s1.readz('_blocks', me), name, OI.Some(r)), STR, Ref('Block')))
            ex.emit(s1, rec('new:' + kind, a0=Val.S(name)))
            s1.ghost['created'] = r
            outs.append((s1, ZV('ref', r, kind)))
        return outs
    return h


def not_connect(ex, e, st):
    """cblocks.Not(name, ..., _reserved=True).connect(NAME without the '_not_' prefix)"""
    outs = []
    inner = e.func.value            # the Not(...) call
    for s1, blk in new_block('Not')(ex, inner, st):
        if isinstance(blk, Raise): outs.append((s1, blk)); continue
        for s2, vals in ex.evs(e.args, s1):
            s2 = s2.copy(); r = as_kind(blk, Ref(), s2)
            grp = to_val(PTuple([vals[0]]), s2)
            s2.write('inputs', r, PMap(Store(K(StringSort(), OV.Absent), StringVal('_'), OV.Some(grp)), STR, VAL))
            outs.append((s2, blk))
    return outs


def getblocks_set(ex, e, st):
    """self.getblocks(): the values of _blocks (all blocks of this circuit)"""
    me = as_kind(st.env['self'], Ref(), st)
    b = Int('b!gb'); k = Const('k!gb', StringSort())
    m = st.readz('_blocks', me)
    return [(st, PSet(z3.Lambda([b], Exists([k], And(OI.is_Some(m[k]), OI.v(m[k]) == b))), 'ref'))]


def new_const(ex, e, st):
    outs = []
    for s1, vals in ex.evs(e.args, st):
        s1 = s1.copy(); r = fresh('const', IntSort())
        s1.assume(calls.inst_of(r, calls.C_class('Const')), s1.readz('_output', r) == to_val(vals[0], s1), to_val(vals[0], s1) != Val.Undef)
        outs.append((s1, ZV('ref', r, 'Const')))
        bad = st.copy(); bad.assume(to_val(vals[0], bad) == Val.Undef); bad.label('Const:UNDEF')
        outs.append((bad, Raise(PExc('ValueError', val=Val.Obj(fresh('exc', IntSort())), where='callee'))))
    return outs


SUMMARY_ONLY = [False]      # set while Circuit._finalize is verified: callers see the summary clauses only (no string reasoning)


@contract('Circuit._validate_blk', qual=Q + 'Circuit._validate_blk', modifies=('_blocks', 'inputs'), self_cls='Circuit')
def _validate_blk(c):
    me, x = c.z('self'), c.v('blk')
    CONST, BLOCK = calls.C_class('Const'), BL()
    blocks0 = c.pre('_blocks', me)
    is_const = And(Val.is_Obj(x), calls.inst_of(Val.ref(x), CONST))
    is_block = And(Val.is_Obj(x), calls.inst_of(Val.ref(x), BLOCK))
    s = Val.s(x)
    known = OI.is_Some(blocks0[s])
    auto_ctrl = And(Val.is_S(x), Not(known), s == StringVal('_ctrl'))
    rest = z3.SubString(s, 5, Length(s) - 5)
    auto_not = And(Val.is_S(x), Not(known), PrefixOf(StringVal('_not_'), s), s != StringVal('_ctrl'), z3.SubString(s, 5, 1) != StringVal('_'))
    k = Const('k!vb', StringSort())
    member = Exists([k], And(OI.is_Some(blocks0[k]), OI.v(blocks0[k]) == Val.ref(x)))
    c.requires('consts_are_not_blocks', Not(And(is_const, is_block)))
    r = c.rv
    # ---- summary clauses (what Circuit._finalize relies on; proved on the body like all the others) -------------------------------------
    nm_ = Const('n!vb', StringSort())
    name_map = lambda S_, blocks_: ForAll([nm_], Implies(OI.is_Some(blocks_[nm_]), And(calls.inst_of(OI.v(blocks_[nm_]), BLOCK), S_.whole('name')[OI.v(blocks_[nm_])] == nm_)))
    c.requires('names_map_to_the_blocks_of_that_name', name_map(c.S, blocks0))
    blocks1 = c.post('_blocks', me)
    rr = Val.ref(r)
    registered = And(calls.inst_of(rr, BLOCK), OI.is_Some(blocks1[c.post('name', rr)]), OI.v(blocks1[c.post('name', rr)]) == rr)
    c.ensures('summary:result_is_a_const_or_a_registered_block', And(Val.is_Obj(r), Or(calls.inst_of(rr, CONST), registered)))
    c.ensures('summary:at_most_one_block_is_created_under_the_given_name', Or(blocks1 == blocks0,
              And(Val.is_S(x), Not(known), blocks1 == Store(blocks0, s, OI.Some(rr)), calls.inst_of(rr, BLOCK), c.post('name', rr) == s)))
    c.ensures('summary:only_the_created_block_gets_inputs', Or(c.post_whole('inputs') == c.pre_whole('inputs'),
              And(Val.is_S(x), Not(known), blocks1 != blocks0, c.post_whole('inputs') == Store(c.pre_whole('inputs'), rr, c.post('inputs', rr)))))
    c.ensures('summary:a_const_or_a_block_of_this_circuit_given_as_object_is_returned_as_it_is', Implies(And(Not(Val.is_S(x)), Or(is_const, is_block)), r == x))
    if not c.verifying and SUMMARY_ONLY[0]:
        c.raises('KeyError', label='unknown_block_name'); c.raises('ValueError', label='block_of_another_circuit_or_undef_constant')
        return
    c.raises('KeyError', when=And(Val.is_S(x), Not(known), Not(auto_ctrl), Not(auto_not)), iff=True, label='unknown_block_name')
    c.raises('ValueError', when=Or(And(Not(Val.is_S(x)), Not(is_const), is_block, Not(member)), And(Not(Val.is_S(x)), Not(is_const), Not(is_block), x == Val.Undef)),
             iff=True, label='block_of_another_circuit_or_undef_constant')
    c.ensures('const_is_kept', Implies(is_const, r == x))
    c.ensures('known_name_resolves_to_the_block_of_that_name', Implies(And(Val.is_S(x), known), And(r == Val.Obj(OI.v(blocks0[s])), c.post('_blocks', me) == blocks0)))
    c.ensures('block_of_this_circuit_is_kept', Implies(And(is_block, Not(is_const)), And(r == x, member)))
    c.ensures('plain_value_becomes_a_const', Implies(And(Not(Val.is_S(x)), Not(is_const), Not(is_block)),
              And(Val.is_Obj(r), calls.inst_of(Val.ref(r), CONST), c.post('_output', Val.ref(r)) == x)))
    created = Val.ref(r)
    c.ensures('shortcut_creates_the_block_once_under_that_name', Implies(Or(auto_ctrl, auto_not), And(
        Val.is_Obj(r), c.post('_blocks', me) == Store(blocks0, s, OI.Some(created)), c.post('name', created) == s)))
    c.ensures('ctrl_shortcut_is_a_control_block', Implies(auto_ctrl, calls.inst_of(created, calls.C_class('ControlBlock'))))
    g = OV.v(c.post('inputs', created)[StringVal('_')])
    c.ensures('not_shortcut_is_an_inverter_fed_by_NAME', Implies(auto_not, And(
        calls.inst_of(created, calls.C_class('Not')), OV.is_Some(c.post('inputs', created)[StringVal('_')]),
        Val.is_T(g), tup_len(Val.tk(g)) == 1, tup_item(Val.tk(g), 0) == Val.S(rest))))


# ---- the resolver --------------------------------------------------------------------------------------------------------------------------
def dyn_getattr(ex, st, pos, node):
    obj, attr = pos
    o = as_kind(obj, Ref(), st); a = ex.as_str(st, attr)
    cell = st.readz('dyn_attrs', o)[a]
    return [(st, ZV('val', OV.v(cell)))]


def dyn_setattr(ex, st, pos, node):
    obj, attr, val = pos
    st = st.copy(); o = as_kind(obj, Ref(), st); a = ex.as_str(st, attr)
    st.write('dyn_attrs', o, PMap(Store(st.readz('dyn_attrs', o), a, OV.Some(to_val(val, st))), STR, VAL))
    return [(st, P_NONE)]


is_blocktype = Function('is_instance_of_type', Val, Val, BoolSort())        # isinstance(blk, block_type) for a block_type given as a value


def isinstance_dyn(ex, e, st):
    outs = []
    for s1, vals in ex.evs(e.args, st):
        if isinstance(vals[1], PConst):       # an ordinary isinstance against a known class
            outs.extend(calls.BUILTIN_HANDLERS[id(isinstance)](ex, s1, vals, {}, e)); continue
        outs.append((s1, ZV('bool', is_blocktype(to_val(vals[0], s1), to_val(vals[1], s1)))))
    return outs


@contract('_BlockResolver._check_type', qual=Q + '_BlockResolver._check_type', modifies=(),
          traced=lambda a, st: rec('check_type', a0=to_val(a['blk'], st), a1=to_val(a['block_type'], st)))
def _check_type(c):
    c.raises('TypeError', when=Not(is_blocktype(c.v('blk'), c.v('block_type'))), iff=True, label='wrong_kind_of_block')


@contract('_BlockResolver.register', qual=Q + '_BlockResolver.register', params={'attr': STR}, modifies=('_unresolved',), self_cls='_BlockResolver')
def _register(c):
    me, obj, attr, bt = c.z('self'), c.v('obj'), c.z('attr'), c.v('block_type')
    cur = OV.v(c.pre('dyn_attrs', Val.ref(obj))[attr])
    arr0, n0 = c.pre('_unresolved', me)
    arr1, n1 = c.post('_unresolved', me)
    c.requires('object_with_that_attribute', Val.is_Obj(obj))
    c.raises('TypeError', when=And(Not(Val.is_S(cur)), Not(is_blocktype(cur, bt))), iff=True, label='wrong_kind_of_block_given_as_object')
    entry = arr1[n0]
    c.ensures('names_are_queued_for_resolution', Implies(Val.is_S(cur), And(n1 == n0 + 1, Val.is_T(entry), tup_len(Val.tk(entry)) == 3,
              tup_item(Val.tk(entry), 0) == obj, tup_item(Val.tk(entry), 1) == Val.S(attr), tup_item(Val.tk(entry), 2) == bt)))
    c.ensures('objects_are_only_type_checked', Implies(Not(Val.is_S(cur)), And(n1 == n0, arr1 == arr0)))


resolve_fn = Function('resolve_function_result', Val, Val)
resolve_fn_raises = Function('resolve_function_raises', Val, BoolSort())


def call_resolve_function(ex, st, f, pos, named, stars, sargs, node):
    """self._resolve_function(name) = Circuit._validate_blk(name) (contract above); here: its result as a function of the name"""
    x = to_val(pos[0], st)
    ok = st.copy(); ok.assume(Not(resolve_fn_raises(x)))
    bad = st.copy(); bad.assume(resolve_fn_raises(x)); bad.label('resolve_function:raises')
    return [(ok, ZV('val', resolve_fn(x))), (bad, Raise(PExc('OtherException', val=Val.Obj(fresh('exc', IntSort())), where='callee')))]


@contract('_BlockResolver.resolve', qual=Q + '_BlockResolver.resolve', modifies=('dyn_attrs', '_unresolved'), self_cls='_BlockResolver')
def _resolve(c):
    me = c.z('self')
    arr, n = c.pre('_unresolved', me)
    j = Int('j!rs')
    c.requires('queue_of_triples', And(n >= 0, ForAll([j], Implies(And(0 <= j, j < n), And(Val.is_T(arr[j]), tup_len(Val.tk(arr[j])) == 3,
               Val.is_Obj(tup_item(Val.tk(arr[j]), 0)), Val.is_S(tup_item(Val.tk(arr[j]), 1)))))))
    c.raises('OtherException', unchanged=False, label='unknown_name')
    c.raises('TypeError', unchanged=False, label='wrong_kind_of_block')
    c.ensures('nothing_left_unresolved', c.post('_unresolved', me)[1] == 0)
    if c.verifying:
        # every queued reference is resolved by name and its kind is checked against the type required by *that* reference
        def expected(k, r, st):
            e = arr[k]
            obj, attr, bt = (tup_item(Val.tk(e), i) for i in range(3))
            name = OV.v(c.pre('dyn_attrs', Val.ref(obj))[Val.s(attr)])
            return And(Rec.fn(r) == StringVal('check_type'), Rec.a0(r) == resolve_fn(name), Rec.a1(r) == bt)
        c.expect_trace(expected, n, normal_len=None, predicate=True)
        c.requires('one_reference_per_object_attribute', BoolVal(True))


def inv_resolve(lc):
    me = as_kind(lc.pre.args['self'], Ref())
    arr, n = lc.pre.f('_unresolved', me)
    i = lc.i
    e = arr[i]
    cur_arr, cur_n = lc.st.f('_unresolved', me)
    obj_i, attr_i = tup_item(Val.tk(e), 0), tup_item(Val.tk(e), 1)
    return [('queue_untouched_while_iterating', And(cur_n == n, cur_arr == arr)),
            ('one_check_per_reference', lc.st.tn == i),
            # a reference not processed yet still holds the name it was registered with (distinct references: distinct attributes)
            ('assume:pending_reference_untouched@i', Implies(i < n, lc.st.f('dyn_attrs', Val.ref(obj_i))[Val.s(attr_i)] == lc.pre.f('dyn_attrs', Val.ref(obj_i))[Val.s(attr_i)])),
            ('assume:triple@i', Implies(i < n, And(Val.is_T(e), tup_len(Val.tk(e)) == 3, Val.is_Obj(tup_item(Val.tk(e), 0)), Val.is_S(tup_item(Val.tk(e), 1)))))]


def seq_clear(ex, e, st):
    st = st.copy(); me = as_kind(st.env['self'], Ref(), st)
    st.write('_unresolved', me, PTuple([], True))
    return [(st, P_NONE)]


# ---- CBlock.connect ------------------------------------------------------------------------------------------------------------------------
def build(run):
    from edzed import simulator, block
    G = {'current_circuit': Int('current_circuit'), 'created': None}
    run.verify('Circuit.check_not_finalized')
    run.verify('Circuit.finalize', calls={'self._finalize': _finalize_call})
    run.verify('Circuit.set_persistent_data')
    run.verify('Circuit.addblock')
    run.verify('Circuit.findblock')
    run.verify('Circuit._validate_blk', ghost=G,
               calls={'sblocks1.ControlBlock': new_block('ControlBlock'), 'cblocks.Not(blk, comment=f\'Inverted output of {blk}\', _reserved=True).connect': not_connect,
                      'block.Const': new_const, 'self.getblocks': getblocks_set})
    run.verify('_BlockResolver._check_type', calls={'isinstance': isinstance_dyn})
    run.verify('_BlockResolver.register', calls={'builtin:getattr': dyn_getattr, 'isinstance': isinstance_dyn})
    run.verify('_BlockResolver.resolve', calls={'builtin:getattr': dyn_getattr, 'builtin:setattr': dyn_setattr, '*value*': call_resolve_function,
                                                 'self._unresolved.clear': seq_clear},
               invariants={'for (obj, attr, block_type) in self._unresolved': inv_resolve})

    from specs import finalize
    finalize.verify_finalize(run)
    from specs import connect
    connect.verify_connect(run)
    # 'event destinations ... given by name are resolved', 'references to blocks of the wrong kind fail': every Event registers its destination
    # with the resolver, whether it was given by name or as an object (contract shared with C18)
    from specs import event_send
    event_send.verify_event_init(run)
    # ---- lemma one_inverter: the second resolution of the same shortcut name finds the block created by the first ------------------------
    b0 = Const('blocks0', ArraySort(StringSort(), OI)); s = Const('sname', StringSort()); r = Int('created')
    b1 = Store(b0, s, OI.Some(r))
    run.lemma('one_inverter/second_resolution_returns_the_same_block', [], And(OI.is_Some(b1[s]), OI.v(b1[s]) == r))
    # ---- scans -----------------------------------------------------------------------------------------------------------------------------
    w = scan.attr_writers('_finalized')
    run.scan('writers_of__finalized', w == ['edzed/simulator.py:Circuit.__init__', 'edzed/simulator.py:Circuit.finalize'], f'{w}')
    for f in ('oconnections', 'iconnections'):
        w = scan.attr_writers(f); m = scan.container_mutators(f)
        ok = set(w) <= {'edzed/block.py:Block.__init__', 'edzed/block.py:CBlock.__init__'} and m == ['edzed/simulator.py:Circuit._finalize']
        run.scan(f'{f}_populated_only_by__finalize', ok, f'assigned (empty) in {w}; mutated only in {m}')
    callers = scan.method_callers('resolve_name') + scan.method_callers('register')
    run.scan('resolver_registration_sites', sorted(set(callers)) == ['edzed/block.py:Event.__init__', 'edzed/blocklib/filters.py:DataEdit.add_output',
             'edzed/blocklib/filters.py:IfNotIitialized.__init__', 'edzed/blocklib/filters.py:IfOutput.__init__'], f'{sorted(set(callers))}')
    run.bounded_native('finalize_on_small_circuits', 'finalize_search.py',
                       'all circuits of 1..3 combinational blocks over 2 inputs whose inputs are given as object / name / _not_ shortcut / Const / plain '
                       'constant, single or group: after finalize() the three connection relations coincide, shortcuts are shared, get_conf and '
                       'input_signature agree; plus the error families (unknown name, foreign block, wrong kind, duplicate, connect twice, add after finalize)')
    run.unclaim("the converse 'an input connection is one of the block's inputs' for inverter blocks created by the user (they are processed in both "
                "passes; the second pass re-validates already resolved inputs) and 'no block is created in the second pass' (needs the string "
                "clauses of _validate_blk inside the loops): covered by the bounded search only; CBlock.check_signature/get_conf: bounded only "
                "(connect and input_signature are under contract)")
    run.assume('block objects are heap objects; Const objects are not blocks')
