"""C20 - Counter arithmetic is exact and stays within the modulo range.  DESIGN section 3, C20.

Postconditions are written from the property statement with the spec functions of specs/common.py
(sp_add / sp_sub / sp_mod = Python's arithmetic on int and float, float treated as real)."""
import ast
import inspect
import z3
from pyvc.sorts import *
from pyvc.values import *
from pyvc.state import declare_fields
from pyvc.contract import contract, CONTRACTS
from pyvc import calls
from specs.common import *

declare_fields(_mod=VAL)
Q = 'edzed.blocklib.sblocks1:Counter.'


def valid_counter(S, me):
    """type invariant of a Counter: modulo is None or a non-zero number; output is UNDEF or a number;
    with a positive modulo an initialised output lies in [0, M)  (history invariant R of DESIGN C20)"""
    mod, out = S.f('_mod', me), S.f('_output', me)
    return And(Or(mod == Val.VNone, And(is_num(mod), num(mod) != 0)),
               Or(out == Val.Undef, is_num(out)),
               Implies(And(is_num(mod), num(mod) > 0, out != Val.Undef), And(0 <= num(out), num(out) < num(mod))))


def reduced(v, mod):
    """the statement's "reduced into the range": v itself without a modulo, v mod M otherwise"""
    return If(mod == Val.VNone, v, sp_mod(v, mod))


def common_post(c, me, newval):
    mod = c.pre('_mod', me)
    r = reduced(newval, mod)
    res = to_val(c.result, c.T.st)
    # "every event returns the updated output": the reduced value itself or the output object that now holds it
    c.ensures('returns_updated_output', And(py_eq(res, r), Or(res == r, res == c.post('_output', me))))
    c.ensures('output_is_result', c.post('_output', me) == set_output_result(c.pre('_output', me), r))
    c.ensures('output_equals_result', py_eq(c.post('_output', me), r))
    c.ensures('range', Implies(And(is_num(mod), num(mod) > 0), And(0 <= num(c.post('_output', me)), num(c.post('_output', me)) < num(mod))))
    c.ensures('invariant_preserved', valid_counter(c.T, me))
    c.ensures('modulo_unchanged', c.post('_mod', me) == mod)
    c.raises('DeliveryError', unchanged=False,
             ensures=lambda post, exc: [post.f('_output', me) == set_output_result(c.pre('_output', me), r), valid_counter(post, me)])


@contract('Counter._setmod', qual=Q + '_setmod', modifies=DELIVERY, self_cls='Counter')
def _setmod(c):
    me, v = c.z('self'), c.v('value')
    c.requires('valid', valid_counter(c.S, me))
    c.requires('value_is_number', is_num(v))
    common_post(c, me, v)


@contract('Counter._event_inc', qual=Q + '_event_inc', modifies=DELIVERY, self_cls='Counter')
def _event_inc(c):
    me, amount = c.z('self'), c.v('amount')
    c.requires('valid', valid_counter(c.S, me))
    c.requires('initialized', c.pre('_output', me) != Val.Undef)
    c.requires('amount_is_number', is_num(amount))
    common_post(c, me, sp_add(c.pre('_output', me), amount))


@contract('Counter._event_dec', qual=Q + '_event_dec', modifies=DELIVERY, self_cls='Counter')
def _event_dec(c):
    me, amount = c.z('self'), c.v('amount')
    c.requires('valid', valid_counter(c.S, me))
    c.requires('initialized', c.pre('_output', me) != Val.Undef)
    c.requires('amount_is_number', is_num(amount))
    common_post(c, me, sp_sub(c.pre('_output', me), amount))


@contract('Counter._event_put', qual=Q + '_event_put', modifies=DELIVERY, self_cls='Counter')
def _event_put(c):
    me, v = c.z('self'), c.v('value')
    c.requires('valid', valid_counter(c.S, me))
    c.requires('value_is_number', is_num(v))
    common_post(c, me, v)


@contract('Counter._event_reset', qual=Q + '_event_reset', modifies=DELIVERY, self_cls='Counter')
def _event_reset(c):
    me = c.z('self')
    c.requires('valid', valid_counter(c.S, me))
    c.requires('initdef_is_number', is_num(c.pre('initdef', me)))
    common_post(c, me, c.pre('initdef', me))


# Counter.__init__: `super().__init__(*args, initdef=initdef, **kwargs)` is the hand-over to the add-on / SBlock
# constructors (C06/C05); here it is a traced opaque call so that the contract can say what is passed on.
def _super_init(ex, e, st):
    outs = []
    kw = {k.arg: k.value for k in e.keywords if k.arg}
    for s1, v in ex.ev(kw['initdef'], st):
        s1 = s1.copy(); s1.emit(rec('super().__init__', a0=to_val(v, s1)))
        s1.havoc_field('initdef'); s1.havoc_field('_output')
        me = as_kind(s1.env['self'], Ref(), s1)
        s1.assume(s1.readz('initdef', me) == to_val(v, s1), s1.readz('_output', me) == Val.Undef)
        outs.append((s1, P_NONE))
    return outs


@contract('Counter.__init__', qual=Q + '__init__', modifies=('_mod', 'initdef', '_output'), self_cls='Counter')
def _init(c):
    me, modulo, initdef = c.z('self'), c.v('modulo'), c.v('initdef')
    c.raises('ValueError', when=py_eq(modulo, I_(0)), iff=True, label='modulo_zero_refused')
    c.ensures('modulo_stored', c.post('_mod', me) == modulo)
    c.ensures('modulo_not_zero', Not(py_eq(c.post('_mod', me), I_(0))))
    c.ensures('initdef_passed_on', And(c.T.tn == 1, c.T.tr[0] == rec('super().__init__', a0=initdef)))
    c.ensures('initdef_stored', c.post('initdef', me) == initdef)


def build(run):
    import edzed
    from edzed.blocklib.sblocks1 import Counter
    for key in ('Counter._setmod', 'Counter._event_inc', 'Counter._event_dec', 'Counter._event_put', 'Counter._event_reset'):
        run.verify(key, cls='Counter')
    run.verify('Counter.__init__', cls='Counter', calls={'super().__init__': _super_init})
    # 'every event returns the updated output': a Counter is persistent-capable, its event() is AddonPersistence.event, which must hand the
    # handler's result through (contract shared with C06; SBlock.event itself: C11/C09)
    from specs import c06
    run.verify('AddonPersistence.event', cls='Counter', hooks=c06.HD, ghost={'items_after_handler': None}, calls={'super().event': c06.super_event})
    mro_event = next(k for k in Counter.__mro__ if 'event' in vars(k))
    run.scan('counter_event_entry_is_the_persistence_wrapper', mro_event.__qualname__ == 'AddonPersistence' and mro_event.__module__ == 'edzed.addons',
             f'Counter.event resolves to {mro_event.__module__}.{mro_event.__qualname__}.event (the verified wrapper around SBlock.event)')

    # ---- derived lemmas (from the contracts only) -------------------------------------------------------
    v, m, p = Const('v', Val), Const('m', Val), Const('p', Val)
    r = sp_mod(v, m)
    hyp = [is_num(v), is_num(m), num(m) > 0] + floorq_axioms(num(v), num(m))
    run.lemma('reduced_value_in_range', hyp, And(is_num(r), 0 <= num(r), num(r) < num(m)))
    q = Int('q')
    run.lemma('reduced_value_congruent_int', [is_int(v), is_int(m), intval(m) > 0],
              Exists([q], intval(v) == intval(r) + q * intval(m)))
    run.lemma('reduced_value_congruent_real', hyp + [Not(sp_both_int(v, m))],
              num(v) == num(r) + ToReal(floorq(num(v), num(m))) * num(m))
    run.lemma('no_modulo_means_plain_arithmetic', [], reduced(v, Val.VNone) == v)
    run.lemma('step_keeps_old_object_only_if_equal', [is_num(v)],
              py_eq(set_output_result(p, v), v))

    # ---- scan obligations (reflection on the real class, recomputed on every run) ------------------------
    d = vars(Counter)
    run.scan('init_from_value_is_setmod', d.get('init_from_value') is d.get('_setmod'),
             'Counter.init_from_value is the function Counter._setmod (initial values are reduced)')
    run.scan('restore_state_is_setmod', d.get('_restore_state') is d.get('_setmod'),
             'Counter._restore_state is the function Counter._setmod (restored values are reduced)')
    for ev in ('inc', 'dec', 'put', 'reset'):
        run.scan(f'handler_registered:{ev}', Counter._ct_handlers.get(ev) is d.get('_event_' + ev),
                 f"Counter._ct_handlers[{ev!r}] is the verified function Counter._event_{ev}")
    h = Counter._ct_handlers.get('put')
    try:
        sig = inspect.signature(h, follow_wrapped=False)     # what the call itself checks, not what a wrapper advertises
        pv = sig.parameters.get('value')
        ok = pv is not None and pv.kind is inspect.Parameter.KEYWORD_ONLY and pv.default is inspect.Parameter.empty
    except (TypeError, ValueError):
        ok = False
    run.scan('put_requires_value_at_call_level', ok,
             "the registered 'put' handler has a required keyword-only parameter 'value': a put lacking it raises TypeError "
             "at the call, which SBlock.event reports to the caller without abort (C09/C11 contracts)",
             replay=REPLAY_PUT_WITHOUT_VALUE)
    for ev, default in (('inc', 1), ('dec', 1)):
        k = CONTRACTS['Counter._event_' + ev]
        try:
            a = k.load().node.args
            dflt = dict(zip([x.arg for x in a.kwonlyargs], a.kw_defaults)).get('amount')
            ok = dflt is not None and ast.literal_eval(dflt) == default
        except Exception:
            continue        # the function could not be loaded: already reported as a checker error
        run.scan(f'default_amount:{ev}', ok, f"'{ev}' without an amount uses amount={default} (default in the verified signature)")

    run.assume('real-arith: float counters are treated as mathematical reals')
    run.assume('A-C02: no nested re-assignment of the same block output while its output events are delivered')
    run.assume("event data of inc/dec/put carry numbers (non-numeric amounts are outside the property's domain)")
    run.trust('SBlock.set_output contract (verified under C02)')
    run.replayer('Counter.', replay_counter)


REPLAY_PUT_WITHOUT_VALUE = r'''
import sys, asyncio, edzed
edzed.reset_circuit()
cnt = edzed.Counter('cnt', initdef=3)
circ = edzed.get_circuit()
class FakeTask:
    def done(self): return False
    def cancel(self): pass
circ._simtask = FakeTask(); circ.sblock_queue = asyncio.Queue(); circ.finalize()
cnt.event('put', value=5)
try:
    cnt.event('put')
    print('no exception reported to the caller'); sys.exit(1)
except TypeError as err:
    pass
if circ.error is not None or cnt.output != 5:
    print('VIOLATION: put without value stopped the simulation or changed the counter:', repr(circ.error), cnt.output); sys.exit(1)
print('ok'); sys.exit(0)
'''


def replay_counter(run, ob, model):
    """materialise a counter-model of a Counter handler obligation and run the real handler"""
    def val(name):
        for d in model.decls():
            if d.name().startswith(name): return model[d]
        return None
    import re
    def py(z):
        if z is None: return None
        s = str(z)
        m = re.match(r'^I\((-?\d+)\)$', s.replace(' ', ''))
        if m: return int(m.group(1))
        m = re.match(r'^R\((.*)\)$', s)
        if m:
            try: return float(eval(m.group(1).replace('?', '')))
            except Exception: return None
        if s == 'VNone': return None
        if s.startswith('B('): return s == 'B(True)'
        return None
    fn = ob.name.split('/')[1].split('.')[-1]
    selfref = val('p_self')
    def field(fname):
        for d in model.decls():
            if d.name() == 'H_' + fname:
                try: return py(model.eval(z3.Select(d(), selfref), model_completion=True))
                except Exception: return None
    mod, out, initdef = field('_mod'), field('_output'), field('initdef')
    arg = py(val('p_amount')) if 'inc' in fn or 'dec' in fn else py(val('p_value'))
    ev = fn.replace('_event_', '') if fn.startswith('_event_') else None
    if ev is None or out is None: return None
    return f'''
import sys, asyncio, edzed
edzed.reset_circuit()
mod, out, initdef, arg, ev = {mod!r}, {out!r}, {initdef!r}, {arg!r}, {ev!r}
cnt = edzed.Counter('cnt', modulo=mod, initdef=out if initdef is None else initdef)
circ = edzed.get_circuit()
class FakeTask:
    def done(self): return False
    def cancel(self): pass
circ._simtask = FakeTask(); circ.sblock_queue = asyncio.Queue(); circ.finalize()
cnt._output = out
kw = {{}} if arg is None else ({{'amount': arg}} if ev in ('inc', 'dec') else {{'value': arg}})
ref = {{'inc': lambda: out + (1 if arg is None else arg), 'dec': lambda: out - (1 if arg is None else arg), 'put': lambda: arg,
       'reset': lambda: cnt.initdef}}[ev]()
if mod is not None: ref = ref % mod
res = cnt.event(ev, **kw)
print('event', ev, kw, 'from', out, 'modulo', mod, '->', res, cnt.output, 'expected', ref)
ok = res == ref and cnt.output == ref and (mod is None or mod <= 0 or 0 <= cnt.output < mod)
sys.exit(0 if ok else 1)
'''
