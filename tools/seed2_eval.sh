#!/bin/sh
# usage: tools/seed2_eval.sh <Cnn> <deliver-root> [sfx1 sfx2]     confirm the changes <root>/1 and <root>/2 as seeded/<Cnn><sfx> (default b, c) and run the check against each
P="$1"; ROOT="$2"; HERE="$(cd "$(dirname "$0")/.." && pwd)"; cd "$HERE"
for pair in 1:${3:-b} 2:${4:-c}; do
  k=${pair%%:*}; sfx=${pair##*:}
  [ -f "$ROOT/$k/patch.diff" ] || continue
  tools/confirm_seed.sh "$P$sfx" "$ROOT/$k" | tail -1
  out=$(bin/mutant-try "$P" "seeded/$P$sfx/patch.diff" 2>&1)
  echo "$out" > "/tmp/s2/try_$P$sfx.log"
  echo "$P$sfx $(echo "$out" | grep -E '^exit=') $(echo "$out" | grep -E '^VIOLATION|^UNDECIDED|^CHECKER-ERROR' | head -2 | tr '\n' ' ')"
done
