"""Shared field declarations, spec functions and contracts used by several properties."""
import z3
from pyvc.sorts import *
from pyvc.values import *
from pyvc.state import declare_fields, FIELD_ALIAS
from pyvc.contract import contract, CONTRACTS, PSEUDO_EXC
from pyvc import calls

# An exception that escapes from the synchronous delivery of an event to another block (the destination's
# handler failed, a forbidden recursion was detected, ...).  It is modelled as its own class so that contracts
# can say "propagates delivery errors, raises nothing else".
PSEUDO_EXC['DeliveryError'] = (Exception,)

declare_fields(
    # Block / SBlock
    _output=VAL, name=STR, circuit=Ref('Circuit'), debug=VAL, comment=VAL,
    _output_events=Seq('ref:Event'), _every_output_events=Seq('ref:Event'),
    _event_active=BOOL, init_steps_completed=INT, initdef=VAL,
    oconnections=REFSET, iconnections=REFSET,
    # Circuit
    _error=VAL, _simtask=VAL, _finalized=BOOL, sblock_queue=Ref('SblockQueue'), q_set=REFSET,
    # Event
    _dest=VAL, _etype=VAL, _filters=Seq('val'),
)
FIELD_ALIAS.update(output='_output', etype='_etype')

# what the synchronous delivery of events may change (outputs of other blocks, their event guards, the changed-block queue)
# The event guards (_event_active) are not in this set: every completed event() call leaves all guards as it found
# them (postcondition `guards_balanced` of SBlock.event, C11), so delivery as a whole does not change them.
DELIVERY = ('_output', 'q_set')


# ------------------------------------------------------------------------------------------ spec functions
def sp_both_int(a, b): return And(is_int(a), is_int(b))


def sp_add(a, b):
    return If(sp_both_int(a, b), Val.I(intval(a) + intval(b)), Val.R(num(a) + num(b)))


def sp_sub(a, b):
    return If(sp_both_int(a, b), Val.I(intval(a) - intval(b)), Val.R(num(a) - num(b)))


def sp_mod(v, m):
    """Python's v % m on numbers (floor modulo; the result has the sign of m)"""
    return If(sp_both_int(v, m), Val.I(floormod_int(intval(v), intval(m))), Val.R(real_floormod(num(v), num(m))))


def set_output_result(p, v):
    """value of the output after set_output(v) when it was p: the old object is kept if it compares equal"""
    return If(py_eq(p, v), p, v)


# ------------------------------------------------------------------------------------------ SBlock.set_output
# Contract as seen by callers.  The body is verified against it (plus the trace clauses) under C02.
# A-C02: while the output events of this assignment are delivered, nobody re-assigns this block's output.
def queues_only_grow(S, T):
    """guarantee of everything that runs during event delivery: blocks are only added to the changed-block queues
    (they are taken out only by the simulator task: scan obligation `queue_consumers`, C01).
    As a hypothesis it is imposed constructively (the post-state queue map *is* the old one united with an arbitrary
    set) so that no quantifier enters the obligations; as a goal it is the plain universally quantified statement."""
    qx, bx = Int('q!g'), Int('b!g')
    return ForAll([qx, bx], Implies(S.whole('q_set')[qx][bx], T.whole('q_set')[qx][bx]))


def impose_queues_only_grow(S, T):
    """make T's queue map `S's queue map, plus anything` (T's q_set component must have been havocked before)"""
    qx, bx = Int('q!g'), Int('b!g')
    add = fresh('q_added', ArraySort(IntSort(), RefSet))
    old = S.whole('q_set')
    T.st.heap['q_set'] = z3.Lambda([qx], z3.Lambda([bx], Or(old[qx][bx], add[qx][bx])))
    return []


def impose_error_write_once(S, T):
    """make T's _error map `S's, where an error was recorded; anything elsewhere` (invariant W of C09)"""
    cx = Int('c!w')
    new = fresh('err_new', ArraySort(IntSort(), Val))
    old = S.whole('_error')
    T.st.heap['_error'] = z3.Lambda([cx], If(old[cx] != Val.VNone, old[cx], new[cx]))
    return []


def output_event_data(p, v):
    """the data of an output event: trigger='output', previous, value (the sender adds 'source')"""
    return dict_of(trigger=S_('output'), previous=p, value=v)


def send_rec(arr, j, me, p, v):
    """trace record of `event.send(self, trigger='output', previous=p, value=v)` for the j-th event of a tuple"""
    return rec('send', arr[j], Val.Obj(me), kw=output_event_data(p, v))


def events_are_objects(arr, n):
    j = Int('j!ev')
    return ForAll([j], Implies(And(0 <= j, j < n), Val.is_Obj(arr[j])))


def sent_block(tr, base, arr, n, me, p, v):
    """tr[base .. base+n) are the sends of the tuple (arr, n), in the configured order"""
    j = Int('j!sb')
    return ForAll([j], Implies(And(0 <= j, j < n), tr[base + j] == send_rec(arr, j, me, p, v)))


# sblock_queue: the set of queued blocks is what the simulator needs (ghost field q_set of the queue object)
@contract('SblockQueue.put_nowait', modifies=('q_set',), result=None,
          sig=([__import__('pyvc.contract', fromlist=['Param']).Param('self', Ref()),
                __import__('pyvc.contract', fromlist=['Param']).Param('item', Ref())], None, None),
          trusted='asyncio.Queue.put_nowait (unbounded queue: never raises, appends)',
          traced=lambda a, st: rec('put_nowait', to_val(a['self'], st), to_val(a['item'], st)))
def _sq_put(c):
    q, item = c.z('self'), c.z('item')
    c.ensures('queued', c.post('q_set', q) == Store(c.pre('q_set', q), item, BoolVal(True)))
    x = Int('x!q')
    c.ensures('other_queues_untouched', ForAll([x], Implies(x != q, c.post_whole('q_set')[x] == c.pre_whole('q_set')[x])))


# Contract of SBlock.set_output.  Callers see the state clauses (under A-C02: while the output events of this
# assignment are delivered, nobody re-assigns this block's output); the body is additionally verified against the
# trace clauses of C02 (which events, in which order, with which data) and the queue notification of C01.
@contract('SBlock.set_output', qual='edzed.block:SBlock.set_output', modifies=DELIVERY,
          result=None, self_cls='SBlock',
          traced=lambda a, st: rec('set_output', to_val(a['self'], st), to_val(a['value'], st)))
def set_output_contract(c):
    me, v = c.z('self'), c.v('value')
    p = c.pre('_output', me)
    changed = Not(py_eq(p, v))
    q = c.pre('sblock_queue', c.pre('circuit', me))
    c.raises('ValueError', when=v == Val.Undef, iff=True)
    def on_delivery_error(post, exc):
        out = [post.f('_output', me) == set_output_result(p, v),
               Implies(changed, post.f('q_set', q)[me])]
        if c.verifying:
            out.append(Implies(changed, And(post.tn >= 1, post.tr[0] == rec('put_nowait', Val.Obj(q), Val.Obj(me)))))
        return out
    c.raises('DeliveryError', when=v != Val.Undef, unchanged=False, ensures=on_delivery_error)
    c.ensures('value_defined', v != Val.Undef)
    c.ensures('self_output', c.post('_output', me) == set_output_result(p, v))
    c.ensures('changed_block_is_queued', Implies(changed, c.post('q_set', q)[me]))
    if c.verifying:
        E, nE = c.pre('_output_events', me)
        EE, nEE = c.pre('_every_output_events', me)
        c.requires('event_tuples', And(nE >= 0, nEE >= 0, events_are_objects(E, nE), events_are_objects(EE, nEE)))
        put = rec('put_nowait', Val.Obj(q), Val.Obj(me))
        # the activation's call trace, position by position: unchanged -> the on_every_output events; changed -> the queue
        # notification, the on_output events, the on_every_output events (each tuple in its configured order)
        def expected(k):
            return If(changed, If(k == 0, put, If(k < 1 + nE, send_rec(E, k - 1, me, p, v), send_rec(EE, k - 1 - nE, me, p, v))),
                      send_rec(EE, k, me, p, v))
        c.expect_trace(expected, If(changed, 1 + nE + nEE, nEE))
        c.ensures('unchanged:output_object_kept', Implies(Not(changed), c.post('_output', me) == p))
        c.ensures('changed:output_is_value', Implies(changed, c.post('_output', me) == v))


def inv_set_output_loop1(lc):
    me, v = as_kind(lc.pre.args['self'], Ref()), to_val(lc.pre.args['value'], lc.pre.st)
    q = lc.pre.f('sblock_queue', lc.pre.f('circuit', me))
    return [('trace_position', lc.st.tn == 1 + lc.i),
            ('first_call_was_the_queue_notification', lc.st.tr[0] == rec('put_nowait', Val.Obj(q), Val.Obj(me))),
            ('output_assigned_before_first_send', lc.st.f('_output', me) == v),
            ('queued', lc.st.f('q_set', q)[me])]


def inv_set_output_loop2(lc):
    me, v = as_kind(lc.pre.args['self'], Ref()), to_val(lc.pre.args['value'], lc.pre.st)
    p = lc.pre.f('_output', me)
    q = lc.pre.f('sblock_queue', lc.pre.f('circuit', me))
    E, nE = lc.pre.f('_output_events', me)
    changed = Not(py_eq(p, v))
    return [('trace_position', lc.st.tn == If(changed, 1 + nE, 0) + lc.i),
            ('first_call_was_the_queue_notification', Implies(changed, lc.st.tr[0] == rec('put_nowait', Val.Obj(q), Val.Obj(me)))),
            ('output_value', lc.st.f('_output', me) == set_output_result(p, v)),
            ('queued_if_changed', Implies(changed, lc.st.f('q_set', q)[me]))]


SET_OUTPUT_INVARIANTS = {'for event in self._output_events': inv_set_output_loop1,
                         'for event in self._every_output_events': inv_set_output_loop2}


# ------------------------------------------------------------------------------------------ user callables
# Interface contract for callables supplied by the user (check/schema/func/filters/callbacks): the result and
# whether the call raises are uninterpreted functions of the callee and its argument(s) -- i.e. the callable is
# assumed to be a deterministic function of its arguments; it may raise any Exception ("OtherException").
app = Function('app', Val, Val, Val)
app_raises = Function('app_raises', Val, Val, BoolSort())


def pack_args(st, pos, named):
    if len(pos) == 1 and not named: return to_val(pos[0], st)
    items = [to_val(p, st) for p in pos]
    arr = EMPTY_DICT
    for k, v in sorted(named.items()): arr = Store(arr, StringVal(k), Opt.Some(to_val(v, st)))
    return to_val(PTuple([ZV('val', x) for x in items] + ([PDict(arr)] if named else [])), st)


def user_call(ex, st, f, pos, named, stars, sargs, node):
    from pyvc.engine import Raise
    fv = to_val(f, st)
    if stars or sargs:
        if pos or named or len(sargs) > 1 or len(stars) > 1: raise Unsupported('mixed */** arguments to a user callable')
        a = to_val(PTuple(([sargs[0]] if sargs else [PTuple([])]) + ([PDict(ex.as_dict(st, stars[0]))] if stars else [])), st)
    else:
        a = pack_args(st, pos, named)
    outs = []
    ok = st.copy(); ok.assume(Not(app_raises(fv, a))); ex.emit(ok, rec('usercall', fv, a))
    if ex.feasible(ok): outs.append((ok, ZV('val', app(fv, a))))
    bad = st.copy(); bad.assume(app_raises(fv, a)); ex.emit(bad, rec('usercall', fv, a)); bad.label('usercall:raises')
    if ex.feasible(bad): outs.append((bad, Raise(PExc('OtherException', val=Val.Obj(fresh('exc', IntSort())), where='callee'))))
    return outs


# ------------------------------------------------------------------------------------------ event() entry point
# `self.event(etype, **data)` as seen by a caller inside the same block (init_from_value and friends): the call is
# recorded in the activation trace with its data; what the handler does is the handler's own contract.
@contract('*.event', modifies=DELIVERY, result=VAL,
          sig=([__import__('pyvc.contract', fromlist=['Param']).Param('self', Ref(), posonly=True),
                __import__('pyvc.contract', fromlist=['Param']).Param('etype', VAL, posonly=True)], None, 'data'),
          trusted='SBlock.event / AddonPersistence.event (verified under C11, C09, C06)',
          traced=lambda a, st: rec('event', to_val(a['self'], st), to_val(a['etype'], st), kw=a['data'].arr))
def event_iface(c):
    # the value returned by the handler: an uninterpreted function of destination, event type, delivered data and the
    # position of the call in the activation (so that a caller can say "returns the handler's result")
    c.returns(ZV('val', evres(Val.Obj(c.z('self')), c.v('etype'), mkD(c.arg('data').arr), c.S.tn)))
    impose_queues_only_grow(c.S, c.T)
    c.raises('DeliveryError', unchanged=False, ensures=lambda post, exc: impose_queues_only_grow(c.S, post))


evres = Function('evres', Val, Val, IntSort(), IntSort(), Val)


# ------------------------------------------------------------------------------------------ asyncio.Task (trusted interface)
declare_fields(task_done=BOOL, task_cancelled=BOOL, task_exception=VAL, cancel_requested=BOOL)
_P = __import__('pyvc.contract', fromlist=['Param']).Param


@contract('*.done', modifies=(), result=BOOL, sig=([_P('self', Ref())], None, None), trusted='asyncio.Task.done')
def _task_done(c):
    c.returns(ZV('bool', c.pre('task_done', c.z('self'))))


@contract('*.cancelled', modifies=(), result=BOOL, sig=([_P('self', Ref())], None, None), trusted='asyncio.Task.cancelled')
def _task_cancelled(c):
    c.returns(ZV('bool', c.pre('task_cancelled', c.z('self'))))


# ------------------------------------------------------------------------------------------ await (DESIGN 2.7)
def awaits(table):
    """await hook: each awaited expression (keyed by its source text, '*' = default) is given by a handler
    (ex, awaited_expr_node, state) -> outcomes that performs the environment step and returns the result(s)"""
    import ast as _ast
    def hook(ex, e, st):
        txt = _ast.unparse(e.value)
        h = table.get(txt)
        if h is None:
            for k, v in table.items():          # 'prefix*' keys
                if k.endswith('*') and len(k) > 1 and txt.startswith(k[:-1]): h = v; break
        h = h or table.get('*')
        if h is None: raise Unsupported(f'await {txt}: no rely/guarantee contract given')
        return h(ex, e.value, st)
    return hook


@contract('Block.is_initialized', qual='edzed.block:Block.is_initialized', modifies=(), self_cls='Block')
def _is_initialized(c):
    c.ensures('output_defined', c.rv == Val.B(c.pre('_output', c.z('self')) != Val.Undef))


# ------------------------------------------------------------------------------------------ the event loop (trusted)
from pyvc.engine import PyObjStub as _Stub
import asyncio as _asyncio


class LoopStub(_Stub):
    """asyncio.get_running_loop(): only .time() (ghost clock `now`, a real number) is modelled generically"""
    def call(self, ex, st, name, pos, named, node):
        if name == 'time':
            now = st.ghost.get('now')
            if now is None: raise Unsupported('loop.time(): no ghost clock `now` in this proof')
            return [(st, ZV('real', now))]
        h = ex.spec.calls.get(f'asyncio.get_running_loop().{name}')
        if h is not None and not hasattr(h, 'key'):
            # the loop was bound to a local name first: same contract as for the direct call (the arguments are pure expressions)
            return h(ex, node, st)
        raise Unsupported(f'event loop method {name} has no contract')


calls.BUILTIN_HANDLERS[id(_asyncio.get_running_loop)] = lambda ex, st, pos, named, node: [(st, PConst(LoopStub()))]


def impose_outputs_stay_defined(S, T):
    """no output returns to UNDEF: set_output / eval_block refuse UNDEF (their contracts), and they are the only writers (scan, C02)"""
    bx = Int('b!od')
    new = T.whole('_output'); old = S.whole('_output')
    T.st.heap['_output'] = z3.Lambda([bx], If(new[bx] == Val.Undef, old[bx], new[bx]))
    return []


def step_rank(s):
    """position of a progress marker in the order 0 -> -1 -> 1 -> -2 -> 2 of Circuit.init_sblock"""
    return If(s >= 0, 2 * s, -2 * s - 1)


def impose_steps_only_advance(S, T):
    """progress markers never go back: guarantee of Circuit.init_sblock (proved, C05), the only writer after __init__ (scan, C05)"""
    bx = Int('b!sa')
    new = T.whole('init_steps_completed'); old = S.whole('init_steps_completed')
    T.st.heap['init_steps_completed'] = z3.Lambda([bx], If(step_rank(new[bx]) < step_rank(old[bx]), old[bx], new[bx]))
    return []


# guarantees of everything edzed runs synchronously (handlers, initialisation routines, ...), imposed constructively on the
# havocked post-state at call sites of contracts that summarise such code; other spec modules add theirs
CALLEE_GUARANTEES = [impose_error_write_once, impose_outputs_stay_defined, impose_steps_only_advance]


def impose_callee_guarantees(S, T):
    for f in CALLEE_GUARANTEES: f(S, T)

