#!/usr/bin/env python3-vt
"""dev tool: verify a single contract of a property spec and list the obligations that are not discharged
usage: PYTHONPATH=/verif:/repo python3-vt tools/one_fn.py Cnn <contract key> [alarm seconds]"""
import sys, time, signal, collections, importlib
import os; sys.path.insert(0, '/verif'); sys.path.insert(0, os.environ.get('VERIF_REPO', '/repo'))
from pyvc import main, solve
prop, key = sys.argv[1], sys.argv[2]
m = importlib.import_module(f'specs.{prop.lower()}')


class R(main.Run):
    def verify(self, k, **kw):
        kk = kw.get('label') or (k if isinstance(k, str) else k.key)
        if kk != key: return []
        t = time.time(); obs = super().verify(k, **kw)
        print(kk, 'generated', len(obs), round(time.time() - t, 1), 's', self.errors); return obs
    def bounded_native(self, *a, **k): pass


run = R(prop, 'quick', 0)
signal.alarm(int(sys.argv[3]) if len(sys.argv) > 3 else 120)
m.build(run)
obs = [o for o in run.obligations if o.kind != 'canary']
res = solve.discharge(obs)
bad = collections.OrderedDict()
for o, r in zip(obs, res):
    if r['result'] != 'unsat': bad.setdefault(o.name, []).append((r['result'], o.labels[-6:]))
for n, l in bad.items():
    print(n, len(l)); [print('    ', x) for x in l[:2]]
print('open:', len(bad), 'of', len({o.name for o in obs}))
