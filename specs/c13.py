"""C13 - interval specifications mean the same in every accepted notation.  DESIGN section 3, C13.

Proved: the membership rules (the three comparison functions, the dispatch on the interval kind, __contains__), the length
windows and defaults of the numeric converters, month-name lookup.  Naive time/date/datetime values are modelled by an order
embedding dtkey into the reals (trusted: they are totally ordered by their attribute tuples).
Bounded (labelled): string notations, numeric/string round trips, weekday normalisation (bounded/timeinterval_grid.py)."""
import z3
from pyvc.sorts import *
from pyvc.values import *
from pyvc.state import declare_fields
from pyvc.contract import contract, CONTRACTS
from pyvc.engine import Raise
from pyvc import calls
from specs.common import *

Q = 'edzed.blocklib.timeinterval:'
declare_fields(_RCLOSED_INTERVAL=BOOL, _interval=VAL)
dtkey = Function('dtkey', Val, RealSort())        # order embedding of naive time/date/datetime values


def order_hook(ex, st, op, l, r):
    import ast
    a, b = dtkey(to_val(l, st)), dtkey(to_val(r, st))
    f = {ast.Lt: a < b, ast.LtE: a <= b, ast.Gt: a > b, ast.GtE: a >= b}[type(op)]
    return [(st, ZV('bool', f))]


# ---- the statement's membership rules -------------------------------------------------------------------------------------------
def in_open(lo, x, hi):
    """time of day: left-closed/right-open; wraps around midnight when stop is not after start (equal endpoints: whole day)"""
    return If(lo < hi, And(lo <= x, x < hi), Or(x >= lo, x < hi))


def in_closed(lo, x, hi):
    """dates: inclusive; wraps around the year end when stop is before start"""
    return If(lo <= hi, And(lo <= x, x <= hi), Or(x >= lo, x <= hi))


def in_plain(lo, x, hi):
    """date-time: left-closed/right-open, never wraps"""
    return And(lo <= x, x < hi)


def k3(c): return dtkey(c.v('low')), dtkey(c.v('item')), dtkey(c.v('high'))


@contract('_Interval._cmp_open', qual=Q + '_Interval._cmp_open', modifies=())
def _cmp_open(c):
    lo, x, hi = k3(c)
    if c.verifying: c.ensures('left_closed_right_open_wrapping', c.rv == Val.B(in_open(lo, x, hi)))
    else: c.returns(ZV('val', Val.B(in_open(lo, x, hi))))


@contract('_Interval._cmp_closed', qual=Q + '_Interval._cmp_closed', modifies=())
def _cmp_closed(c):
    lo, x, hi = k3(c)
    if c.verifying: c.ensures('closed_wrapping', c.rv == Val.B(in_closed(lo, x, hi)))
    else: c.returns(ZV('val', Val.B(in_closed(lo, x, hi))))


@contract('DateTimeInterval._cmp_open', qual=Q + 'DateTimeInterval._cmp_open', modifies=())
def _cmp_plain(c):
    lo, x, hi = k3(c)
    if c.verifying: c.ensures('never_wraps', c.rv == Val.B(in_plain(lo, x, hi)))
    else: c.returns(ZV('val', Val.B(in_plain(lo, x, hi))))


def member_spec(kind, rclosed, lo, x, hi):
    if kind == 'DateTimeInterval': return in_plain(lo, x, hi)      # its _RCLOSED_INTERVAL is False
    return If(rclosed, in_closed(lo, x, hi), in_open(lo, x, hi))


def make_cmp(kind):
    @contract(f'{kind}._cmp', qual=Q + '_Interval._cmp', modifies=(), self_cls=kind)
    def _cmp(c):
        me = c.z('self')
        arr, n = seq_of(c.arg('args'))
        c.requires('three_arguments', n == 3)
        rc = c.pre('_RCLOSED_INTERVAL', me)
        if kind == 'DateTimeInterval': c.requires('class_constant', Not(rc))
        spec = member_spec(kind, rc, dtkey(arr[0]), dtkey(arr[1]), dtkey(arr[2]))
        if c.verifying: c.ensures('dispatch_on_interval_kind', c.rv == Val.B(spec))
        else: c.returns(ZV('val', Val.B(spec)))
    return _cmp


for _k in ('TimeInterval', 'DateInterval', 'DateTimeInterval'):
    make_cmp(_k)


def make_contains(kind):
    @contract(f'{kind}.__contains__', qual=Q + '_Interval.__contains__', modifies=(), self_cls=kind)
    def _contains(c):
        me, x = c.z('self'), c.v('item')
        iv = c.pre('_interval', me)
        k = Val.tk(iv)
        j = Int('j!iv')
        pair = lambda jj: tup_item(k, jj)
        c.requires('list_of_pairs', And(Val.is_T(iv), tup_len(k) >= 0, ForAll([j], Implies(And(0 <= j, j < tup_len(k)),
                   And(Val.is_T(pair(j)), tup_len(Val.tk(pair(j))) == 2)))))
        rc = c.pre('_RCLOSED_INTERVAL', me)
        if kind == 'DateTimeInterval': c.requires('class_constant', Not(rc))
        inside = lambda jj: member_spec(kind, rc, dtkey(tup_item(Val.tk(pair(jj)), 0)), dtkey(x), dtkey(tup_item(Val.tk(pair(jj)), 1)))
        c.ensures('member_iff_inside_some_range', c.rv == Val.B(Exists([j], And(0 <= j, j < tup_len(k), inside(j)))))
    return _contains


for _k in ('TimeInterval', 'DateInterval', 'DateTimeInterval'):
    make_contains(_k)


# ---- numeric converters: length windows and defaults ---------------------------------------------------------------------------------
mk_time = Function('mk_time', IntSort(), IntSort(), IntSort(), IntSort(), Val)
mk_date = Function('mk_date', IntSort(), IntSort(), IntSort(), Val)
mk_datetime = Function('mk_datetime', IntSort(), IntSort(), IntSort(), IntSort(), IntSort(), IntSort(), IntSort(), Val)


def seq_ints(x):
    k = Val.tk(x)
    j = Int('j!sq')
    return And(Val.is_T(x), tup_len(k) >= 0, ForAll([j], Implies(And(0 <= j, j < tup_len(k)), Val.is_I(tup_item(k, j)))))


def item_or0(x, i):
    k = Val.tk(x)
    return If(i < tup_len(k), Val.i(tup_item(k, i)), 0)


def time_ok(h, m, s, us): return And(0 <= h, h < 24, 0 <= m, m < 60, 0 <= s, s < 60, 0 <= us, us < 1000000)


def days_in(month): return If(month == 2, 29, If(Or(month == 4, month == 6, month == 9, month == 11), 30, 31))     # year 404 is a leap year


def dt_time_call(ex, e, st):
    """dt.time(*seq, tzinfo=None): trusted constructor contract -- missing fields default to 0, ValueError when out of range"""
    outs = []
    for s1, vals in ex.evs([a.value for a in e.args], st):
        x = to_val(vals[0], s1)
        h, m, s, us = (item_or0(x, IntVal(i)) for i in range(4))
        ok = s1.copy(); ok.assume(time_ok(h, m, s, us)); outs.append((ok, ZV('val', mk_time(h, m, s, us))))
        bad = s1.copy(); bad.assume(Not(time_ok(h, m, s, us))); bad.label('dt.time:raises')
        outs.append((bad, Raise(PExc('ValueError', val=Val.Obj(fresh('exc', IntSort())), where='callee'))))
    return outs


def dt_date_call(ex, e, st):
    outs = []
    for s1, vals in ex.evs([e.args[0], e.args[1].value], st):
        year = as_kind(vals[0], INT, s1); x = to_val(vals[1], s1)
        mo, d = item_or0(x, IntVal(0)), item_or0(x, IntVal(1))
        valid = And(1 <= mo, mo <= 12, 1 <= d, d <= days_in(mo))
        ok = s1.copy(); ok.assume(valid); outs.append((ok, ZV('val', mk_date(year, mo, d))))
        bad = s1.copy(); bad.assume(Not(valid)); bad.label('dt.date:raises')
        outs.append((bad, Raise(PExc('ValueError', val=Val.Obj(fresh('exc', IntSort())), where='callee'))))
    return outs


@contract('convert_time_seq', qual=Q + 'convert_time_seq', modifies=())
def _cts(c):
    x = c.v('time_seq')
    c.requires('sequence_of_ints', seq_ints(x))
    n = tup_len(Val.tk(x))
    h, m, s, us = (item_or0(x, IntVal(i)) for i in range(4))
    c.raises('ValueError', when=Or(n < 1, n > 4, Not(time_ok(h, m, s, us))), iff=True, label='wrong_length_or_out_of_range')
    c.ensures('hour_minute_second_microsecond_with_zero_defaults', c.rv == mk_time(h, m, s, us))


@contract('convert_date_seq', qual=Q + 'convert_date_seq', modifies=())
def _cds(c):
    x = c.v('date_seq')
    c.requires('sequence_of_ints', seq_ints(x))
    n = tup_len(Val.tk(x))
    mo, d = item_or0(x, IntVal(0)), item_or0(x, IntVal(1))
    valid = And(1 <= mo, mo <= 12, 1 <= d, d <= days_in(mo))
    c.raises('ValueError', when=Or(n != 2, Not(valid)), iff=True, label='wrong_length_or_invalid_date')
    c.ensures('month_day_in_the_leap_dummy_year', c.rv == mk_date(IntVal(404), mo, d))


# ---- month names ---------------------------------------------------------------------------------------------------------------------
@contract('_name_to_month', qual=Q + '_name_to_month', params={'name': STR}, modifies=())
def _ntm(c):
    import edzed.utils.tconst as TC
    cap = calls.str_capitalize(c.z('name'))
    starts = [PrefixOf(cap, StringVal(mn)) for mn in TC.MONTH_NAMES]
    r = c.rv
    first = lambda i: And(starts[i], *[Not(starts[j]) for j in range(1, i)])
    c.raises('ValueError', when=Not(Or(*starts[1:])), iff=True, label='no_month_starts_with_that_name')
    c.ensures('first_month_whose_name_starts_with_the_capitalised_text', Or(*[And(first(i), r == I_(i)) for i in range(1, 13)]))


def build(run):
    from edzed.blocklib import timeinterval as TI
    H = {'order': order_hook}
    run.verify('_Interval._cmp_open', hooks=H)
    run.verify('_Interval._cmp_closed', hooks=H)
    run.verify('DateTimeInterval._cmp_open', hooks=H)
    for k in ('TimeInterval', 'DateInterval', 'DateTimeInterval'):
        run.verify(f'{k}._cmp', cls=k, label=f'{k}._cmp', hooks=H)
        run.verify(f'{k}.__contains__', cls=k, label=f'{k}.__contains__', hooks=H)
    run.verify('convert_time_seq', calls={'dt.time': dt_time_call})
    run.verify('convert_date_seq', calls={'dt.date': dt_date_call})
    run.verify('_name_to_month')
    verify_numeric_round_trip(run)
    verify_convert(run)
    run.verify('_match_pattern', calls={'pattern.search': pattern_search}, ghost={'found': None})
    # ---- lemmas: what the rules mean at the corners the statement names --------------------------------------------------------------
    lo, x, hi = z3.Real('lo'), z3.Real('x'), z3.Real('hi')
    run.lemma('time/equal_endpoints_mean_the_whole_day', [lo == hi], in_open(lo, x, hi))
    run.lemma('time/wraps_around_midnight', [hi < lo], in_open(lo, x, hi) == Or(x >= lo, x < hi))
    run.lemma('time/right_open', [lo < hi], Not(in_open(lo, hi, hi)))
    run.lemma('date/inclusive_both_ends', [lo <= hi], And(in_closed(lo, lo, hi), in_closed(lo, hi, hi)))
    run.lemma('date/wraps_around_the_year_end', [hi < lo], in_closed(lo, x, hi) == Or(x >= lo, x <= hi))
    run.lemma('datetime/never_wraps', [hi <= lo], Not(in_plain(lo, x, hi)))
    run.scan('interval_kinds', (TI.TimeInterval._RCLOSED_INTERVAL, TI.DateInterval._RCLOSED_INTERVAL, TI.DateTimeInterval._RCLOSED_INTERVAL) == (False, True, False)
             and TI.DateTimeInterval.__dict__.get('_cmp_open') is not None and '_cmp_open' not in TI.TimeInterval.__dict__,
             'TimeInterval: right-open; DateInterval: right-closed; DateTimeInterval: right-open with its own non-wrapping comparison')
    run.bounded_native('notations_round_trips_and_malformed_input', 'timeinterval_grid.py',
                       'times: every hour x minute {0,1,29,30,59} x second {none,0,1,59} x fraction {none,.5,,5,.000001} in H:M, H:M:S and ISO forms; '
                       'dates: all 366 days in Mon D / D. mon / --MMDD / --MM-DD with month names in 3 cases cut to 3..full length; a 97-point date-time '
                       'sample; numeric<->string round trips; membership on a boundary grid; a malformed set expected to raise')
    run.trust('datetime: naive time/date/datetime values are totally ordered by their attribute tuples (order embedding dtkey); constructors '
              'default missing fields to 0 and raise ValueError out of range')
    run.unclaim('equivalence of the string notations as a theorem (regexes, fromisoformat/strptime): bounded grid only; weekday normalisation in TimeDate._parse3: bounded')


# ---- _match_pattern: removing one recognised token from a string ---------------------------------------------------------------------
from pyvc.engine import PyObjStub


class MatchObj(PyObjStub):
    """result of pattern.search(string): a match at [start, end) with 0 <= start < end <= len(string) (regexes here never match '')"""
    def __init__(self, start, end): self.start, self.end = start, end
    def call(self, ex, st, name, pos, named, node):
        if name == 'start': return [(st, ZV('int', self.start))]
        if name == 'end': return [(st, ZV('int', self.end))]
        if name == 'groups': return [(st, ZV('val', Const('match_groups', Val)))]
        raise Unsupported(f'match.{name}')


def pattern_search(ex, e, st):
    outs = []
    for s1, vals in ex.evs(e.args, st):
        sz = ex.as_str(s1, vals[0])
        no = s1.copy(); no.ghost['found'] = False; no.label('search:no_match')
        outs.append((no, P_NONE))
        yes = s1.copy(); a, b = Int('m_start'), Int('m_end')
        yes.assume(0 <= a, a < b, b <= Length(sz)); yes.ghost['found'] = True; yes.label('search:match')
        outs.append((yes, PConst(MatchObj(a, b))))
    return outs


@contract('_match_pattern', qual=Q + '_match_pattern', params={'string': STR}, modifies=())
def _match_pattern(c):
    s, errmsg = c.z('string'), c.v('errmsg')
    a, b = Int('m_start'), Int('m_end')
    c.raises('ValueError', when=truthy(errmsg), label='required_token_missing')
    if c.verifying:
        found = c.T.g('found')
        r = c.rv
        rest = tup_item(Val.tk(r), 0)
        before, after = z3.SubString(s, 0, a), z3.SubString(s, b, Length(s) - b)
        # the token is cut out; what was on its two sides stays separated (by a blank) -- digits left and right of the token
        # must never merge into one number
        expected = If(a == 0, after, If(b == Length(s), before, Concat(before, StringVal(' '), after)))
        c.ensures('pair_of_rest_and_groups', And(Val.is_T(r), tup_len(Val.tk(r)) == 2))
        if found:
            c.ensures('token_removed_and_the_two_sides_kept_apart', rest == Val.S(expected))
            c.ensures('groups_returned', tup_item(Val.tk(r), 1) == Const('match_groups', Val))
        else:
            c.ensures('no_match_leaves_the_string_alone', And(rest == Val.S(s), tup_item(Val.tk(r), 1) == Val.VNone))


# ---- export_dt and the numeric round trip ------------------------------------------------------------------------------------------------
t_hour = Function('t_hour', Val, IntSort()); t_min = Function('t_min', Val, IntSort())
t_sec = Function('t_sec', Val, IntSort()); t_us = Function('t_us', Val, IntSort())
d_month = Function('dt_month', Val, IntSort()); d_day = Function('dt_day', Val, IntSort()); d_year = Function('dt_year', Val, IntSort())
ACCESSORS = {'hour': t_hour, 'minute': t_min, 'second': t_sec, 'microsecond': t_us, 'month': d_month, 'day': d_day, 'year': d_year}


def export_getattr(ex, st, pos, node):
    """getattr(dt_object, <attribute name>) for the attribute names of _ATTRS (trusted: datetime accessors)"""
    obj, attr = pos
    if not (isinstance(attr, PConst) and attr.obj in ACCESSORS): raise Unsupported(f'getattr of {attr!r}')
    return [(st, ZV('int', ACCESSORS[attr.obj](to_val(obj, st))))]


def type_as(pycls):
    def h(ex, e, st): return [(st, PConst(pycls))]
    return h


def make_export(kind, pycls, names):
    @contract(f'export_dt[{kind}]', qual=Q + 'export_dt', modifies=())
    def _export(c):
        x = c.v('dt_object'); r = c.rv; k = Val.tk(r)
        c.ensures('the_attribute_values_in_order', And(Val.is_T(r), Not(tup_is_tuple(k)), tup_len(k) == len(names),
                                                       *[tup_item(k, IntVal(i)) == Val.I(ACCESSORS[n](x)) for i, n in enumerate(names)]))
    return _export


import datetime as _dt
EXPORTS = {'time': (_dt.time, ('hour', 'minute', 'second', 'microsecond')), 'date': (_dt.date, ('month', 'day')),
           'datetime': (_dt.datetime, ('year', 'month', 'day', 'hour', 'minute', 'second', 'microsecond'))}
for _k, (_c, _n) in EXPORTS.items(): make_export(_k, _c, _n)


@contract('convert_datetime_seq', qual=Q + 'convert_datetime_seq', modifies=())
def _cdts(c):
    x = c.v('datetime_seq')
    c.requires('sequence_of_ints', seq_ints(x))
    n = tup_len(Val.tk(x))
    y, mo, d, h, m, s, us = (item_or0(x, IntVal(i)) for i in range(7))
    valid = And(1 <= y, y <= 9999, 1 <= mo, mo <= 12, 1 <= d, d <= days_in_year(y, mo), time_ok(h, m, s, us))
    c.raises('ValueError', when=Or(n < 5, n > 7, Not(valid)), iff=True, label='wrong_length_or_out_of_range')
    c.ensures('year_month_day_hour_minute_second_microsecond_with_zero_defaults', c.rv == mk_datetime(y, mo, d, h, m, s, us))


def is_leap(y): return And(y % 4 == 0, Or(y % 100 != 0, y % 400 == 0))


def days_in_year(y, month): return If(month == 2, If(is_leap(y), 29, 28), If(Or(month == 4, month == 6, month == 9, month == 11), 30, 31))


def dt_datetime_call(ex, e, st):
    """dt.datetime(*seq, tzinfo=None): trusted constructor contract"""
    outs = []
    for s1, vals in ex.evs([a.value for a in e.args], st):
        x = to_val(vals[0], s1)
        y, mo, d, h, m, s, us = (item_or0(x, IntVal(i)) for i in range(7))
        valid = And(1 <= y, y <= 9999, 1 <= mo, mo <= 12, 1 <= d, d <= days_in_year(y, mo), time_ok(h, m, s, us))
        ok = s1.copy(); ok.assume(valid); outs.append((ok, ZV('val', mk_datetime(y, mo, d, h, m, s, us))))
        bad = s1.copy(); bad.assume(Not(valid)); bad.label('dt.datetime:raises')
        outs.append((bad, Raise(PExc('ValueError', val=Val.Obj(fresh('exc', IntSort())), where='callee'))))
    return outs


def verify_numeric_round_trip(run):
    for kind, (pycls, names) in EXPORTS.items():
        run.verify(f'export_dt[{kind}]', label=f'export_dt[{kind}]', calls={'type': type_as(pycls), 'builtin:getattr': export_getattr})
    run.verify('convert_datetime_seq', calls={'dt.datetime': dt_datetime_call})
    # ---- lemmas: numeric form -> object -> numeric form is the input padded with zeros to its full length -------------------------------
    # (trusted: the accessors of an object built by a constructor return the constructor's arguments)
    h, m, s, us = Int('h'), Int('m'), Int('s'), Int('us')
    t = mk_time(h, m, s, us)
    inv_t = [t_hour(t) == h, t_min(t) == m, t_sec(t) == s, t_us(t) == us]
    x = Const('x', Val); k = Val.tk(x)
    given = [Val.is_T(x), tup_len(k) >= 1, tup_len(k) <= 4, h == item_or0(x, IntVal(0)), m == item_or0(x, IntVal(1)), s == item_or0(x, IntVal(2)), us == item_or0(x, IntVal(3))]
    j = Int('j')
    run.lemma('numeric_round_trip/time_of_day_is_the_input_padded_with_zeros', inv_t + given,
              And(ForAll([j], Implies(And(0 <= j, j < tup_len(k), Val.is_I(tup_item(k, j))),
                                      Val.I(If(j == 0, t_hour(t), If(j == 1, t_min(t), If(j == 2, t_sec(t), t_us(t))))) == tup_item(k, j))),
                  Implies(tup_len(k) < 4, t_us(t) == 0), Implies(tup_len(k) < 3, t_sec(t) == 0), Implies(tup_len(k) < 2, t_min(t) == 0)))
    run.trust('datetime: the attributes of an object built by a constructor are the constructor arguments (used by the round-trip lemmas)')


# ---- _Interval._convert / _parse_range (sequence branch): which converter sees which endpoint -------------------------------------------------
@contract('_Interval._convert', qual=Q + '_Interval._convert', modifies=())
def _iv_convert(c):
    v, cs, cq = c.v('value'), c.v('convert_str'), c.v('convert_seq')
    is_seq = Val.is_T(v)
    c.raises('TypeError', when=And(Not(Val.is_S(v)), Not(is_seq)), label='neither_text_nor_sequence')
    c.raises('OtherException', when=Or(Val.is_S(v), is_seq), label='the_converter_rejects_the_value')
    c.requires('values_are_text_sequences_or_plain_objects', Or(Val.is_S(v), is_seq, Val.is_I(v), Val.is_R(v), Val.is_VNone(v), Val.is_B(v)))
    c.ensures('text_goes_to_the_string_converter_sequences_to_the_numeric_one', c.rv == If(Val.is_S(v), app(cs, v), app(cq, v)))
    c.ensures('only_text_and_sequences_are_accepted', Or(Val.is_S(v), is_seq))


def verify_convert(run):
    run.verify('_Interval._convert', calls={'*value*': user_call})
