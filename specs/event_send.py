"""Event.send: the filter pipeline and the synchronous delivery (shared by C02, C11, C14, C16)."""
import z3
from pyvc.sorts import *
from pyvc.values import *
from pyvc.state import declare_fields, View
from pyvc.contract import contract, CONTRACTS, Param
from pyvc.engine import Raise
from pyvc import loops, calls
from specs.common import *

# ---- the statement's three-way rule as a fold over the filter tuple ---------------------------------------------
REJ = Val.Opq(IntVal(-103))                         # "the pipeline has ended with a false result"
app_mut = Function('app_mut', Val, Val, Val)        # the data dict after filter f ran on it (filters may edit in place)
vkeys = Function('vkeys', Val, ValSet)              # keys of a mapping returned by a filter
pfold = Function('pfold', SeqArr, Val, IntSort(), Val)


def all_str_keys(r):
    x = Const('x!k', Val)
    return ForAll([x], Implies(vkeys(r)[x], Val.is_S(x)))


def pstep(f, cur):
    r = app(f, cur)
    return If(cur == REJ, REJ, If(Val.is_D(r), r, If(truthy(r), app_mut(f, cur), REJ)))


def pfold_step(F, d0, i):
    return pfold(F, d0, i + 1) == pstep(F[i], pfold(F, d0, i))


def get_circuit_handler(ex, e, st):
    """simulator.get_circuit(): the current circuit (ghost `current_circuit`)"""
    return [(st, ZV('ref', st.ghost['current_circuit'], 'Circuit'))]


def filter_call(ex, e, st):
    """`efilter(data)`: interface contract of an event filter -- returns app(f, d) and may have edited d in place"""
    outs = []
    for s1, f in ex.ev(e.func, st):
        s1 = s1.copy()
        fv = to_val(f, s1); cur = to_val(s1.env['data'], s1)
        r = app(fv, cur)
        s1.assume(Not(app_raises(fv, cur)))
        s1.env['data'] = ZV('val', app_mut(fv, cur))
        outs.append((s1, ZV('val', r)))
    return outs


def for_keys(ex, s, st, it):
    """`for key in retval`: iterate over the keys of the returned mapping (arbitrary order)"""
    return loops.for_set(ex, s, st, PSet(vkeys(to_val(it, st)), 'val'))


def inv_keys(lc):
    x = Const('x!d', Val)
    return [('visited_keys_are_str', ForAll([x], Implies(lc.done[x], Val.is_S(x))))]


@contract('Event.send', qual='edzed.block:Event.send', params={'source': Ref('Block')}, modifies=DELIVERY,
          self_cls='Event', traced=lambda a, st: rec('send', to_val(a['self'], st), to_val(a['source'], st), kw=a['data'].arr))
def _send(c):
    me, src = c.z('self'), c.z('source')
    data = c.arg('data').arr
    if not c.verifying:
        # what a sender may rely on (guarantee G_send, proved for set_output/eval_block under C02/C01):
        # delivery never re-assigns the sender's own output (A-C02) and may fail with a delivery error
        c.ensures('source_output_kept', c.post('_output', src) == c.pre('_output', src))
        impose_queues_only_grow(c.S, c.T)
        c.raises('DeliveryError', unchanged=False, ensures=lambda post, exc: [post.f('_output', src) == c.pre('_output', src)]
                                                                             + impose_queues_only_grow(c.S, post))
        return
    dest = c.pre('_dest', me)
    F, n = c.pre('_filters', me)
    cur_circ = c.S.g('current_circuit')
    c.requires('destination_resolved', And(Val.is_Obj(dest), calls.inst_of(Val.ref(dest), calls.C_class('SBlock'))))
    same = And(c.pre('circuit', src) == c.pre('circuit', Val.ref(dest)), c.pre('circuit', src) == cur_circ)
    d0 = Val.D(mkD(Store(data, StringVal('source'), Opt.Some(Val.S(c.pre('name', src))))))
    c.requires('fold_definition_base', pfold(F, d0, 0) == d0)
    final = pfold(F, d0, n)
    c.raises('EdzedCircuitError', when=Not(same), iff=True, label='foreign_circuit')
    c.raises('DeliveryError', when=And(same, final != REJ), unchanged=False)
    c.ensures('same_circuit', same)
    c.ensures('false_iff_vetoed', c.rv == Val.B(final != REJ))
    c.ensures('vetoed_delivers_nothing', Implies(final == REJ, c.T.tn == 0))
    c.ensures('delivers_filtered_data_once', Implies(final != REJ, And(
        c.T.tn == 1, c.T.tr[0] == rec('event', dest, c.pre('_etype', me), kw=dict_c(Val.dk(final))))))


def inv_send(lc):
    me, src = as_kind(lc.pre.args['self'], Ref()), as_kind(lc.pre.args['source'], Ref())
    F, n = lc.pre.f('_filters', me)
    data = lc.pre.args['data'].arr
    d0 = Val.D(mkD(Store(data, StringVal('source'), Opt.Some(Val.S(lc.pre.f('name', src))))))
    cur = to_val(lc.local('data'), lc.st.st)
    i = lc.i
    fi, ci = F[i], pfold(F, d0, i)
    return [('data_is_pipeline_prefix', And(cur == ci, cur != REJ, Val.is_D(cur))),
            ('nothing_delivered_yet', lc.st.tn == 0),
            # instances at the current index: definition of the pipeline fold, the interface assumptions on filter i,
            # and the lemma `pipeline_veto_absorbing` (proved by induction in verify_send)
            ('assume:fold_definition@i', Implies(i < n, pfold_step(F, d0, i))),
            ('assume:filter_well_behaved@i', Implies(i < n, And(Not(app_raises(fi, ci)), Val.is_D(app_mut(fi, ci)),
                                                                 Implies(Val.is_D(app(fi, ci)), all_str_keys(app(fi, ci)))))),
            ('assume:absorbing@i+1', Implies(And(i < n, pfold(F, d0, i + 1) == REJ), pfold(F, d0, n) == REJ))]


def verify_send(run):
    run.verify('Event.send', cls='Event',
               calls={'simulator.get_circuit': get_circuit_handler, 'efilter': filter_call, 'for:for key in retval': for_keys},
               invariants={'for efilter in self._filters': inv_send, 'for key in retval': inv_keys},
               ghost={'current_circuit': Int('current_circuit')})
    F, d0 = Const('Fp', SeqArr), Const('d0p', Val)
    i, j = Int('ip'), Int('jp')
    run.lemma('pipeline_veto_absorbing/base', [pfold(F, d0, i) == REJ], pfold(F, d0, i) == REJ)
    run.lemma('pipeline_veto_absorbing/step', [pfold(F, d0, j) == REJ, pfold_step(F, d0, j)], pfold(F, d0, j + 1) == REJ)
    f0 = Const('f0', Val)
    d = Const('dd', Val)
    # the three-way rule of the statement, read off the spec function
    run.lemma('pipeline_rule/mapping_replaces_data', [d != REJ, Val.is_D(app(f0, d))], pstep(f0, d) == app(f0, d))
    run.lemma('pipeline_rule/other_true_result_passes_data_on', [d != REJ, Not(Val.is_D(app(f0, d))), truthy(app(f0, d))], pstep(f0, d) == app_mut(f0, d))
    run.lemma('pipeline_rule/false_result_ends_pipeline', [d != REJ, Not(Val.is_D(app(f0, d))), Not(truthy(app(f0, d)))], pstep(f0, d) == REJ)
    run.assume('event filters are deterministic, do not raise, and return str-keyed mappings (a non-str key raises TypeError in send)')


# ---- Event.__init__ / Event.typecheck ----------------------------------------------------------------------------------------------------
is_eventtype = Function('is_EventType_instance', Val, BoolSort())        # isinstance(x, EventType) for a value that is not EC (EventCond is one)
filters_of = Function('efilter_tuple_of', Val, IntSort())               # efilter_tuple(x) (C02/C16): a tuple of callables


@contract('Event.typecheck', qual='edzed.block:Event.typecheck', modifies=())
def _typecheck(c):
    t = c.v('etype')
    ok_type = Or(Val.is_S(t), Val.is_EC(t), And(Val.is_Obj(t), calls.inst_of(Val.ref(t), calls.C_class('EventType'))))
    c.raises('ValueError', when=And(Val.is_S(t), Length(Val.s(t)) == 0), iff=True, label='empty_event_name')
    c.raises('TypeError', when=Not(ok_type), iff=True, label='neither_a_name_nor_an_event_type')
    c.requires('event_types_are_names_conditional_events_or_objects', Or(Val.is_S(t), Val.is_EC(t), Val.is_Obj(t), Val.is_VNone(t), Val.is_I(t)))


def new_repeat(ex, e, st):
    """sblocks1.Repeat(None, comment=..., dest=dest, etype=etype, interval=repeat, count=count): a new Repeat block (C18) in front of
    the destination; its constructor validates interval and count"""
    kws = {k.arg: k.value for k in e.keywords}
    outs = []
    for s1, vals in ex.evs([kws['dest'], kws['etype'], kws['interval'], kws['count']], st):
        s1 = s1.copy(); r = fresh('repeat_block', IntSort())
        s1.assume(calls.inst_of(r, calls.C_class('Repeat')))
        ex.emit(s1, rec('Repeat', Val.Obj(r), to_val(vals[0], s1), to_val(vals[1], s1),
                        kw=Store(Store(EMPTY_DICT, StringVal('interval'), Opt.Some(to_val(vals[2], s1))), StringVal('count'), Opt.Some(to_val(vals[3], s1)))))
        outs.append((s1, ZV('val', Val.Obj(r))))
        bad = s1.copy(); bad.label('Repeat:raises')
        outs.append((bad, Raise(PExc('ValueError', val=Val.Obj(fresh('exc', IntSort())), where='callee'))))
    return outs


def efilter_tuple_call(ex, e, st):
    outs = []
    for s1, vals in ex.evs(e.args, st):
        k = filters_of(to_val(vals[0], s1)); j = Int('j!ft')
        s1 = s1.copy(); s1.assume(tup_len(k) >= 0)
        outs.append((s1, PSeq(z3.Lambda([j], tup_item(k, j)), tup_len(k), 'val')))
        bad = s1.copy(); bad.label('efilter_tuple:raises')
        outs.append((bad, Raise(PExc('TypeError', val=Val.Obj(fresh('exc', IntSort())), where='callee'))))
    return outs


def resolve_name_call(ex, e, st):
    outs = []
    for s1, vals in ex.evs(e.args, st):
        s1 = s1.copy(); ex.emit(s1, rec('resolve_name', to_val(vals[0], s1), to_val(vals[1], s1)))
        outs.append((s1, P_NONE))
        bad = s1.copy(); bad.label('resolve_name:raises')
        outs.append((bad, Raise(PExc('TypeError', val=Val.Obj(fresh('exc', IntSort())), where='callee'))))
    return outs


@contract('Event.__init__', qual='edzed.block:Event.__init__', modifies=('_dest', '_etype', '_filters'), self_cls='Event', params={'dest': VAL})
def _event_init(c):
    me = c.z('self')
    dest, etype, repeat, count = c.v('dest'), c.v('etype'), c.v('repeat'), c.v('count')
    c.requires('event_types_are_names_conditional_events_or_objects', Or(Val.is_S(etype), Val.is_EC(etype), Val.is_Obj(etype), Val.is_VNone(etype), Val.is_I(etype)))
    c.raises('ValueError', unchanged=False, label='count_without_repeat__empty_name__or_bad_repeat_arguments')
    c.raises('TypeError', unchanged=False, label='bad_event_type_filter_or_destination')
    c.ensures('count_needs_repeat', Or(repeat != Val.VNone, count == Val.VNone))
    c.ensures('event_type_kept', c.post('_etype', me) == etype)
    c.ensures('direct_destination_without_repeat', Implies(repeat == Val.VNone, c.post('_dest', me) == dest))
    if c.verifying:
        def expected(k, r, st):
            fn = z3.simplify(Rec.fn(r)).as_string()
            if fn == 'Repeat':
                return [('a_repeat_block_is_put_in_front_of_the_destination_with_the_given_pace_and_count',
                         And(k == 0, repeat != Val.VNone, Rec.a0(r) == dest, Rec.a1(r) == etype,
                             Rec.kw(r)[StringVal('interval')] == Opt.Some(repeat), Rec.kw(r)[StringVal('count')] == Opt.Some(count)))]
            if fn == 'resolve_name':
                return [('the_destination_is_registered_for_resolution_by_name', And(Rec.recv(r) == Val.Obj(me), Rec.a0(r) == S_('_dest')))]
            return [('no_other_call', BoolVal(False))]
        c.expect_trace(expected, 2, normal_len=If(repeat != Val.VNone, 2, 1), predicate=True)
        c.ensures('with_repeat_the_event_goes_to_the_repeat_block', Implies(repeat != Val.VNone, And(Val.is_Obj(c.post('_dest', me)),
                  calls.inst_of(Val.ref(c.post('_dest', me)), calls.C_class('Repeat')), c.T.tn == 2, Rec.recv(c.T.tr[0]) == c.post('_dest', me))))


def get_circuit_stub(ex, e, st):
    from pyvc.engine import PyObjStub
    return [(st, PConst(PyObjStub()))]


def verify_event_init(run):
    run.verify('Event.typecheck')
    run.verify('Event.__init__', cls='Event', hooks={'opaque_fstrings': True},
               calls={'sblocks1.Repeat': new_repeat, 'efilter_tuple': efilter_tuple_call, 'simulator.get_circuit().resolve_name': resolve_name_call})
