"""C07 - TimeDate and TimeSpan outputs follow the wall clock.  DESIGN section 3, C07."""
from pyvc.sorts import *
from pyvc import scan
from specs.common import *
from specs import timedate


def build(run):
    timedate.verify_recalc(run)
    timedate.verify_flag(run)
    timedate.verify_cron_registration(run)
    timedate.verify_reconfig(run)
