#!/bin/sh
# usage: tools/mutant_detail.sh Cnn file old new  -> non-discharged obligations of the quick check on a scratch copy
T=$(mktemp -d /tmp/pyvc_md.XXXXXX); trap 'rm -rf "$T"' EXIT
cp -r /repo/edzed "$T/edzed"
python3 - "$T/$2" "$3" "$4" <<'PY' || exit 3
import sys
p, old, new = sys.argv[1:4]
s = open(p).read()
if s.count(old) != 1: sys.exit(f'pattern occurs {s.count(old)} times')
open(p, 'w').write(s.replace(old, new))
PY
VERIF_REPO="$T" VERIF_OUT="$T/out" /verif/bin/check "$1" > "$T/log" 2>&1
python3 - "$T/out/evidence/$1.json" <<'PY'
import json, sys
ev = json.load(open(sys.argv[1]))
for o in ev['coverage']['obligations_detail']:
    if o['verdict'] not in ('discharged', 'canary-ok'): print(o['verdict'], o['name'])
PY
