"""C12 - OutputAsync honours its mode for every arrival pattern.  DESIGN section 3, C12."""
from pyvc.sorts import *
from pyvc import scan
from specs.common import *
from specs import outputasync


def build(run):
    outputasync.verify_put(run)
    outputasync.verify_output_coro(run)
    outputasync.verify_wrapper(run)
    outputasync.verify_ctrl_wait(run)
    outputasync.verify_ctrl_start(run)
    outputasync.verify_ctrl_cancel(run)
    run.replayer('OutputAsync._output_coro/no_unexpected_raise:KeyError', lambda run_, ob, model: open('/verif/specs/replay_c12.py').read())
