"""C11 - a block never handles two events at the same time.  DESIGN section 3, C11."""
import z3
from pyvc.sorts import *
from pyvc.values import *
from pyvc import scan
from specs.common import *
from specs import event_entry, event_send, outputfunc


def build(run):
    event_entry.verify_event(run)
    outputfunc.verify_outputfunc(run)  # a handler that sends events must let a failed delivery (e.g. a refused recursion) escape
    event_send.verify_send(run)       # a filter veto returns False without calling dest.event: the destination guard is not touched
    # "through any chain of blocks": a library block that passes events on must do so inside its own handler (synchronously), so that a
    # loop closed through it meets the guard -- Repeat forwards the original event before it queues the repetitions (contract shared with C18)
    from specs import c18   # noqa: F401  (registers the Repeat contracts)
    run.verify('Repeat._event', cls='Repeat')
    from specs import fsm as fsmspec
    fsmspec.verify_fsm(run, what=('c03',))   # the documented exception: ONE chained transition per event; a second request is refused

    # ---- scan obligations: who writes the guard, where it is lifted --------------------------------------------------
    w = scan.attr_writers('_event_active')
    run.scan('writers_of__event_active', w == ['edzed/block.py:SBlock.__init__', 'edzed/block.py:SBlock._enable_event.__enter__',
                                               'edzed/block.py:SBlock._enable_event.__exit__', 'edzed/block.py:SBlock.event'],
             f'the guard is written only by the constructor, event() and the context manager: {w}')
    uses = sorted(set(_with_sites('_enable_event')))
    run.scan('guard_lifted_only_at_documented_places', uses == ['edzed/block.py:SBlock.event', 'edzed/fsm.py:FSM._ctx_event'],
             f'`with self._enable_event` occurs only for the early initialisation in event() and for the entry action / timer start '
             f'in FSM._ctx_event (chained transition): {uses}')
    w = scan.attr_writers('_fsm_event_active')
    run.scan('writers_of__fsm_event_active', w == ['edzed/fsm.py:FSM.__init__', 'edzed/fsm.py:FSM._ctx_event'], f'{w}')

    # ---- lemmas over the contracts --------------------------------------------------------------------------------------
    # never_locked: whatever the outcome of event() on a block that was not handling an event, its guard is free afterwards
    run.unclaim("lemma refusal_stops (a refused re-entry stops the simulation even if an outer handler swallows the exception) is the "
                "composition, along the call stack, of two function-level facts proved here: the refusal is an EdzedCircuitError raised "
                "to the sender, and any exception leaving a handler frame makes the enclosing event() call abort().  The composition "
                "itself is a textual argument (DESIGN C11), and it fails where a handler catches the error *inside its own frame* "
                "before it leaves it (user code, or OutputFunc's try/except around the user function).")
    run.assume('user code reaches blocks only through event(); nobody writes _event_active directly')
    run.trust('interface contracts of handlers, of Circuit.init_sblock (C05) and of Circuit.abort (verified here)')


def _with_sites(attr):
    import ast
    for file, tree in scan.trees().items():
        for scope, n in scan._walk_scoped(tree):
            if isinstance(n, ast.With):
                for it in n.items:
                    if isinstance(it.context_expr, ast.Attribute) and it.context_expr.attr == attr:
                        yield f"{file}:{'.'.join(scope)}"
