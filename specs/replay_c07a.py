import sys, asyncio, datetime as dt, time, edzed
from edzed.blocklib import cron
T0 = time.monotonic()
BASE = dt.datetime(2024, 3, 30, 10, 59, 59, 800000)
JUMP = [0.0]
def fake_now(self):
    return BASE + dt.timedelta(seconds=time.monotonic() - T0 + JUMP[0])
cron.Cron.dtnow = fake_now
edzed.reset_circuit()
span = edzed.TimeSpan('span', span=())          # a TimeSpan-only circuit without a future end point: no alarm registered
circ = edzed.get_circuit()
async def main():
    t = asyncio.create_task(circ.run_forever())
    await circ.wait_init()
    await asyncio.sleep(0.1)
    JUMP[0] = 20.0                               # the system clock is stepped forward by 20 s
    await asyncio.sleep(0.6)                     # the scheduler wakes up for 11:00:00 and notices the time tracking problem
    print('after the clock jump: simulation ready:', circ.is_ready(), '; error:', repr(circ.error))
    res = 0 if circ.is_ready() else 1
    try: await circ.shutdown()
    except BaseException: pass
    return res
sys.exit(asyncio.run(main()))
