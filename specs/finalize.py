"""Circuit._finalize: resolution of the connect() data into the three connection relations (C15)."""
import z3
from pyvc.sorts import *
from pyvc.values import *
from pyvc.state import declare_fields, View
from pyvc.contract import contract, CONTRACTS, Param
from pyvc.engine import Raise, NEXT
from pyvc import calls
from specs.common import *
from specs import frozen

declare_fields(_blocks=Map(STR, Ref('Block')), inputs=Map(STR, VAL), iconnections=REFSET, oconnections=REFSET)
Q = 'edzed.simulator:'
OI = OptOf(IntSort()); OV = OptOf(Val)
BL = lambda: calls.C_class('Block')
CONST = lambda: calls.C_class('Const')
FIN_EFFECTS = ('_blocks', 'inputs', 'iconnections', 'oconnections', 'name', 'circuit', '_output')


def member(S, me, r):
    """r is a block registered in this circuit under its own name"""
    return And(calls.inst_of(r, BL()), OI.is_Some(S.f('_blocks', me)[S.f('name', r)]), OI.v(S.f('_blocks', me)[S.f('name', r)]) == r)


def resolved(S, me, v):
    """a connect() item after resolution: a block of this circuit or a Const object"""
    return And(Val.is_Obj(v), Or(calls.inst_of(Val.ref(v), CONST()), member(S, me, Val.ref(v))), Not(And(calls.inst_of(Val.ref(v), CONST()), calls.inst_of(Val.ref(v), BL()))))


def vb_stub(ex, e, st):
    """self._validate_blk(oblk) inside validate_output: result / exception remembered for the wrapper's contract"""
    outs = []
    for s1, vals in ex.evs(e.args, st):
        s1 = s1.copy(); ex.emit(s1, rec('_validate_blk', a0=to_val(vals[0], s1)))
        ok = s1.copy(); r = fresh('vb', Val); ok.ghost['vb_result'] = r; outs.append((ok, ZV('val', r)))
        for cls in ('KeyError', 'ValueError', 'OtherException'):
            b = s1.copy(); x = Val.Obj(fresh('exc', IntSort())); b.ghost['vb_exc'] = x; b.label(f'_validate_blk:{cls}')
            outs.append((b, Raise(PExc(cls, val=x, where='callee'))))
    return outs


@contract('Circuit._finalize.validate_output', qual=Q + 'Circuit._finalize.<locals>.validate_output', modifies=(), closure={'self': Ref('Circuit')})
def _validate_output(c):
    """the wrapper only adds a note to the exception: same result, same exception object"""
    for cls in ('KeyError', 'ValueError', 'OtherException'):
        c.raises(cls, label=f'failed_connection:{cls}', ensures=lambda post, exc: [exc == post.g('vb_exc')])
    if c.verifying:
        c.ensures('result_of__validate_blk', c.rv == c.T.g('vb_result'))
        c.expect_trace(lambda k: rec('_validate_blk', a0=c.v('oblk')), 1)


def validate_output_call(ex, e, st):
    """validate_output(blk, x) as seen by _finalize: the contract of Circuit._validate_blk applied to x (the wrapper is verified above)"""
    k = CONTRACTS['Circuit._validate_blk']
    me = as_kind(st.env['self'], Ref(), st)
    outs = []
    for s1, vals in ex.evs(e.args, st):
        outs.extend(calls.apply_bound(ex, s1, k, {'self': ZV('ref', me, 'Circuit'), 'blk': ZV('val', to_val(vals[1], s1))}, 'call:Circuit._validate_blk'))
    return outs


def list_snapshot(ex, e, st):
    outs = []
    for s1, vals in ex.evs(e.args, st): outs.append((s1, vals[0]))
    return outs


def blocks_of_type(ex, e, st):
    """self.getblocks(btype): the blocks of this circuit of that type (registered under their names)"""
    me = as_kind(st.env['self'], Ref(), st)
    bt = st.env['btype']
    if not (isinstance(bt, PConst) and isinstance(bt.obj, type)): raise Unsupported('getblocks with a symbolic type')
    b = Int('b!gb')
    S = View(st)
    return [(st, PSet(z3.Lambda([b], And(member(S, me, b), calls.inst_of(b, bt.obj))), 'ref'))]


def G(pre, st, me):
    """global invariant of _finalize (holds at every loop head)"""
    n = Const('n!G', StringSort()); a, b = Int('a!G'), Int('b!G')
    blocks0, blocks = pre.f('_blocks', me), st.f('_blocks', me)
    ic0, ic = pre.whole('iconnections'), st.whole('iconnections')
    oc0, oc = pre.whole('oconnections'), st.whole('oconnections')
    nm = st.whole('name')
    return [('names_map_to_the_blocks_of_that_name', ForAll([n], Implies(OI.is_Some(blocks[n]), And(calls.inst_of(OI.v(blocks[n]), BL()), nm[OI.v(blocks[n])] == n)))),
            ('registered_blocks_stay_registered', ForAll([n], Implies(OI.is_Some(blocks0[n]), blocks[n] == blocks0[n]))),
            ('every_new_output_connection_has_its_input_connection', ForAll([a, b], Implies(oc[a][b], Or(oc0[a][b], ic[b][a])))),
            ('every_new_input_connection_has_its_output_connection', ForAll([a, b], Implies(ic[b][a], Or(ic0[b][a], oc[a][b])))),
            ('new_input_connections_are_blocks_of_this_circuit', ForAll([a, b], Implies(And(ic[b][a], Not(ic0[b][a])), member(st, me, a)))),
            ('nothing_else', And(st.whole('name') == pre.whole('name'), st.whole('circuit') == pre.whole('circuit')))]


def disjoint_classes():
    r = Int('r!dc')
    return ForAll([r], Not(And(calls.inst_of(r, CONST()), calls.inst_of(r, BL()))))


@contract('Circuit._finalize', qual=Q + 'Circuit._finalize', modifies=('_blocks', 'inputs', 'iconnections', 'oconnections'), self_cls='Circuit')
def _finalize(c):
    me = c.z('self')
    n = Const('n!F', StringSort()); a, b = Int('a!F'), Int('b!F')
    blocks0 = c.pre('_blocks', me)
    c.requires('names_map_to_the_blocks_of_that_name', ForAll([n], Implies(OI.is_Some(blocks0[n]), And(calls.inst_of(OI.v(blocks0[n]), BL()), c.pre('name', OI.v(blocks0[n])) == n))))
    c.requires('const_objects_are_not_blocks', disjoint_classes())
    for cls in ('KeyError', 'ValueError'): c.raises(cls, unchanged=False, label=f'unresolvable_reference:{cls}')
    if not c.verifying: return
    for lab, f in G(c.S, c.T, me)[:5]: c.ensures(lab, f)


def all_resolved(st, me, arr, n):
    i = Int('i!ar')
    return ForAll([i], Implies(And(0 <= i, i < n), resolved(st, me, asel(arr, i))))


def inv_blocks(lc):
    me = as_kind(lc.pre.args['self'], Ref())
    return G(lc.pre, lc.st, me)


def inv_items(lc):
    me = as_kind(lc.pre.args['self'], Ref())
    s = lc.st.st
    ai_arr, ai_n = seq_of(lc.local('all_inputs'), s)
    return G(lc.pre, lc.st, me) + [('list_length', ai_n >= 0), ('collected_inputs_are_resolved', all_resolved(lc.st, me, ai_arr, ai_n))]


def inv_group(lc):
    me = as_kind(lc.pre.args['self'], Ref())
    res = lc.local('_comp_result')
    ai_arr, ai_n = seq_of(lc.local('all_inputs'), lc.st.st)
    return G(lc.pre, lc.st, me) + [('lengths', And(res.n == lc.i, ai_n >= 0)), ('group_members_so_far_are_resolved', all_resolved(lc.st, me, res.arr, res.n)),
                                   ('collected_inputs_are_resolved', all_resolved(lc.st, me, ai_arr, ai_n))]


def inv_connect(lc):
    me = as_kind(lc.pre.args['self'], Ref())
    blk = lc.st.st.env['blk'].z
    x = asel(lc.arr, lc.i - 1); rx = Val.ref(x)
    ic, oc, ic0 = lc.st.whole('iconnections'), lc.st.whole('oconnections'), lc.pre.whole('iconnections')
    is_const = calls.inst_of(rx, CONST())
    # quantifier-free instances of the clauses of G for the input handled last (decidable also when they fail)
    last = [('qf:the_input_just_handled_is_connected_both_ways_unless_it_is_a_const',
             Implies(And(lc.i >= 1, Not(is_const)), And(ic[blk][rx], oc[rx][blk]))),
            ('qf:a_const_is_never_connected', Implies(And(lc.i >= 1, is_const, Not(ic0[blk][rx])), Not(ic[blk][rx])))]
    cur = asel(lc.arr, lc.i); rc = Val.ref(cur)
    # instances (at the element handled next) of invariant clauses that are themselves obligations: available as quantifier-free facts
    inst = [('assume:instance_of_collected_inputs_are_resolved', Implies(And(0 <= lc.i, lc.i < lc.n), resolved(lc.st, me, cur))),
            ('assume:instance_of_new_input_connections_are_blocks_of_this_circuit', Implies(And(ic[blk][rc], Not(ic0[blk][rc])), member(lc.st, me, rc)))]
    return inst + last + G(lc.pre, lc.st, me) + [('collected_inputs_are_resolved', all_resolved(lc.st, me, lc.arr, lc.n)),
                                          ('the_block_being_processed', blk == lc.entry.st.env['blk'].z)]


def verify_finalize(run):
    run.verify('Circuit._finalize.validate_output', ghost={'vb_result': Val.VNone, 'vb_exc': Val.VNone},
               calls={'add_note': lambda ex, e, st: [(st, P_NONE)], 'self._validate_blk': vb_stub})
    from specs import c15
    c15.SUMMARY_ONLY[0] = True
    try:
        _verify_finalize_body(run)
    finally:
        c15.SUMMARY_ONLY[0] = False


def _verify_finalize_body(run):
    run.verify('Circuit._finalize', cls='Circuit',
               invariants={'for blk in list(self.getblocks(btype))': inv_blocks, 'for (iname, inp) in blk.inputs.items()': inv_items,
                           'comp:for i in inp': inv_group, 'for inp in all_inputs': inv_connect},
               calls={'validate_output': validate_output_call, 'list': list_snapshot, 'self.getblocks': blocks_of_type})
