"""C04 - a timed state yields its timed event exactly once, on time, unless left earlier.  DESIGN section 3, C04."""
import z3
from pyvc.sorts import *
from pyvc.values import *
from pyvc.state import declare_fields
from pyvc.contract import contract, CONTRACTS
from pyvc import scan
from specs.common import *
from specs import fsm

declare_fields(_restartable=BOOL)
Qt = 'edzed.blocklib.fsms:Timer.'


@contract('Timer.cond_start', qual=Qt + 'cond_start', modifies=(), self_cls='Timer')
def _cond_start(c):
    me = c.z('self')
    c.ensures('restartable_or_not_already_on', c.rv == Val.B(Or(c.pre('_restartable', me), Not(py_eq(c.pre('_state', me), S_('on'))))))


@contract('Timer.cond_stop', qual=Qt + 'cond_stop', modifies=(), self_cls='Timer')
def _cond_stop(c):
    me = c.z('self')
    c.ensures('restartable_or_not_already_off', c.rv == Val.B(Or(c.pre('_restartable', me), Not(py_eq(c.pre('_state', me), S_('off'))))))


@contract('Timer.calc_output', qual=Qt + 'calc_output', modifies=(), self_cls='Timer')
def _timer_out(c):
    c.ensures('output_is_on', c.rv == Val.B(py_eq(c.pre('_state', c.z('self')), S_('on'))))


tp_of = Function('time_period_value', Val, Val)        # utils.time_period(x) (contract: C19): None, or seconds >= 0


def timer_time_period(ex, e, st):
    outs = []
    for s1, vals in ex.evs(e.args, st):
        x = to_val(vals[0], s1); r = tp_of(x)
        ok = s1.copy(); ok.assume(Or(r == Val.VNone, And(Val.is_R(r), Val.r(r) >= 0))); outs.append((ok, ZV('val', r)))
        bad = s1.copy(); bad.label('time_period:raises')
        outs.append((bad, Raise(PExc('ValueError', val=Val.Obj(fresh('exc', IntSort())), where='callee'))))
    return outs


def timer_super_init(ex, e, st):
    """super().__init__(*args, **kwargs): FSM construction with the (possibly rewritten) keyword arguments; it may reject them"""
    st = st.copy()
    kw = st.env['kwargs']
    ex.emit(st, rec('super.__init__', to_val(st.env['self'], st), kw=kw.arr))
    bad = st.copy(); bad.label('super.__init__:raises')
    return [(st, P_NONE), (bad, Raise(PExc('OtherException', val=Val.Obj(fresh('exc', IntSort())), where='callee')))]


@contract('Timer.__init__', qual=Qt + '__init__', modifies=('_restartable',), self_cls='Timer')
def _timer_init(c):
    me = c.z('self')
    kw = c.arg('kwargs').arr
    P, ON, OFF = StringVal('t_period'), StringVal('t_on'), StringVal('t_off')
    has = lambda k: Opt.is_Some(kw[k])
    period = tp_of(Opt.v(kw[P]))
    c.raises('TypeError', when=And(has(P), Or(has(ON), has(OFF), period == Val.VNone)), label='t_period_excludes_t_on_t_off__and_needs_a_value')
    c.raises('ValueError', when=has(P), label='bad_period')
    c.raises('OtherException', unchanged=False, label='inherited_constructor_rejects_the_arguments')
    c.ensures('restartable_flag', c.post('_restartable', me) == truthy(c.v('restartable')))
    c.ensures('t_period_not_combined', Not(And(has(P), Or(has(ON), has(OFF)))))
    if c.verifying:
        half = Val.R(Val.r(period) / 2)
        want = If(has(P), Store(Store(Store(kw, P, Opt.Absent), ON, Opt.Some(half)), OFF, Opt.Some(half)), kw)
        c.expect_trace(lambda k: rec('super.__init__', Val.Obj(me), kw=want), 1)


from pyvc.engine import Raise


def build(run):
    fsm.verify_fsm(run, what=('c03', 'c04'))
    for k in ('Timer.cond_start', 'Timer.cond_stop', 'Timer.calc_output'):
        run.verify(k, cls='Timer')
    run.verify('Timer.__init__', cls='Timer', calls={'utils.time_period': timer_time_period, 'super().__init__': timer_super_init})
    # ---- lemmas over the contracts --------------------------------------------------------------------------------------
    n = Int('n_live')
    run.lemma('at_most_one_pending_timer', [Or(n == 0, n == 1)], n <= 1)
    from specs.c03 import scan_library_tables
    scan_library_tables(run)
    w = scan.attr_writers('_active_timer')
    run.scan('writers_of__active_timer', w == ['edzed/fsm.py:FSM.__init__', 'edzed/fsm.py:FSM._set_timer', 'edzed/fsm.py:FSM._stop_timer', 'edzed/fsm.py:FSM._timer_expired'], f'{w}')
    callers = scan.method_callers('call_later')
    run.scan('timers_created_only_by_set_timer', callers == ['edzed/fsm.py:FSM._set_timer'], f'{callers}')
    callers = scan.method_callers('_set_timer')
    run.scan('set_timer_callers', callers == ['edzed/fsm.py:FSM._restore_state', 'edzed/fsm.py:FSM._start_timer'], f'{callers}')
    run.trust("asyncio loop.call_later / TimerHandle: the callback runs once, not before `when`, never after cancel(); "
              "'exactly once, on time' is this contract plus the timer invariant (no independent timing claim)")
    from specs import fsm_tables
    fsm_tables.verify_tables(run)          # TIMERS -> timed events and default durations of the timed states
    from specs.c03 import FSM_GRID_BOUND
    run.bounded_native('fsm_definitions_through_the_real_class_machinery', 'fsm_tables_grid.py', FSM_GRID_BOUND)
    run.unclaim("FSM.__init__ keyword parsing (t_STATE durations of an instance, InputExp durations): prefix matching over keyword names; "
                "covered by the bounded stand-in only")
    run.assume('A-C08: no event reaches an FSM after its stop()')
