import sys, asyncio, time, edzed
class Lamp(edzed.FSM):
    STATES = ['off', 'on']
    TIMERS = {'on': (0.05, 'timeout')}
    EVENTS = [('switch_on', 'off', 'on'), ('timeout', 'on', 'off')]
    def cond_timeout(self):       # the timed event is rejected: the lamp stays on
        return False
def run_once(storage):
    edzed.reset_circuit()
    lamp = Lamp('lamp', persistent=True)
    circ = edzed.get_circuit(); circ.set_persistent_data(storage)
    async def main():
        t = asyncio.create_task(circ.run_forever())
        await circ.wait_init()
        if lamp.state == 'off': lamp.event('switch_on')
        await asyncio.sleep(0.15)           # the timer fires, the timed event is rejected
        st = lamp.state
        await circ.shutdown()
        return st
    return asyncio.run(main()), lamp
storage = {}
state1, lamp = run_once(storage)
saved = storage[lamp.key]
print('after the rejected timed event: state', state1, '; saved:', saved, '; now:', time.time())
edzed.reset_circuit()
lamp2 = Lamp('lamp', persistent=True)
circ = edzed.get_circuit(); circ.set_persistent_data(storage)
async def main2():
    t = asyncio.create_task(circ.run_forever())
    await circ.wait_init()
    st = lamp2.state
    await circ.shutdown()
    return st
state2 = asyncio.run(main2())
print('after restart from that storage: state', state2)
ok = state1 == 'on' and state2 == 'on' and (saved[1] is None or saved[1] > time.time() - 1000 and False or saved[1] is None)
sys.exit(0 if (state1 == 'on' and state2 == 'on') else 1)
