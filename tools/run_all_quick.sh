#!/bin/sh
# usage: tools/run_all_quick.sh [parallelism]     runs every quick check once, prints "<id> exit=<n> <summary line>"
cd "$(dirname "$0")/.."
for i in 01 02 03 04 05 06 07 08 09 10 11 12 13 14 15 16 17 18 19 20; do echo C$i; done | xargs -P "${1:-3}" -I{} sh -c 'o=$(bin/check {} 2>&1); rc=$?; echo "{} exit=$rc $(echo "$o" | grep -E "^\{\} |VIOLATION|UNDECIDED|CHECKER" | head -3 | tr "\n" " ")$(echo "$o" | tail -1)"'
