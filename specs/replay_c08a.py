import sys, asyncio, edzed
class Slow(edzed.AddonAsync, edzed.SBlock):
    async def init_async(self):
        try:
            await asyncio.sleep(3600)
        finally:
            pass
        self.set_output(1)
    def init_regular(self): self.set_output(0)
    def _event_put(self, value=None, **_): self.set_output(value)
edzed.reset_circuit()
a = Slow('a', init_timeout=50); b = Slow('b', init_timeout=20); c = Slow('c', init_timeout=10)
circ = edzed.get_circuit()
async def main():
    t = asyncio.create_task(circ.run_forever())
    await asyncio.sleep(0.05)
    await circ.shutdown()
    assert t.done()
    left = [x.get_name() for x in asyncio.all_tasks() if x is not asyncio.current_task() and not x.done()]
    print('simulation task finished; still pending:', left)
    return left
left = asyncio.run(main())
sys.exit(1 if left else 0)
