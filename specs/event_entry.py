"""SBlock.event - the entry point of all events - with its guard and its error classification (C11, C09, C05),
the _enable_event context manager, and Circuit.abort."""
import z3
from pyvc.sorts import *
from pyvc.values import *
from pyvc.state import declare_fields, View
from pyvc.contract import contract, CONTRACTS, Param, PSEUDO_EXC
from pyvc.engine import Raise, NEXT
from pyvc import calls
from specs.common import *

PSEUDO_EXC['HandlerTypeError'] = (TypeError,)     # a TypeError raised *inside* a handler (not at the call)
PSEUDO_EXC['InitError'] = (Exception,)            # an exception escaping from the early initialisation

declare_fields(_ct_handlers=Map(STR, VAL), _block=Ref('SBlock'), _event_saved=BOOL, __cause__=VAL)

# what a handler (and everything it triggers) may change besides the delivery effects
HANDLER_EFFECTS = DELIVERY + ('_error', 'cancel_requested', 'init_steps_completed')

# conditional events: ec_none(e, d): the EventCond chain e resolves to "no event" for data d;
# ec_resolve(e, d): the event type it resolves to otherwise
ec_none = Function('ec_none', Val, DictS, BoolSort())
ec_resolve = Function('ec_resolve', Val, DictS, Val)


def ec_next(e, d):
    cell = d[StringVal('value')]
    cond = truthy(If(Opt.is_Some(cell), Opt.v(cell), Val.VNone))      # a missing value counts as false
    return If(cond, ec_true(Val.ek(e)), ec_false(Val.ek(e)))


def ec_resolve_def(e, d):
    """defining equation of ec_resolve at e"""
    n = ec_next(e, d)
    return And(ec_none(e, d) == And(Val.is_EC(e), Or(n == Val.VNone, ec_none(n, d))),
               ec_resolve(e, d) == If(Val.is_EC(e), ec_resolve(n, d), e))


def error_write_once(S, T):
    """guarantee of everything that runs inside a handler: a recorded error is never replaced (invariant W of C09)"""
    cx = Int('c!w')
    return ForAll([cx], Implies(S.whole('_error')[cx] != Val.VNone, T.whole('_error')[cx] == S.whole('_error')[cx]))


def handler_effects(ex, st):
    """environment step of a handler call: delivery effects + errors recorded by nested activations"""
    post = st.copy()
    for f in HANDLER_EFFECTS: post.havoc_field(f)
    S, T = View(st), View(post)
    impose_queues_only_grow(S, T); impose_error_write_once(S, T); impose_outputs_stay_defined(S, T); impose_steps_only_advance(S, T)
    return post


def handler_iface(kind):
    """interface contract of an event handler (`handler(self, **data)` / `self._event(etype, data)`).  Outcomes:
    returns; TypeError raised at the call (bad parameters: no handler frame); EdzedUnknownEvent; any other Exception
    raised inside (incl. a TypeError raised inside, and errors of nested deliveries)."""
    def call(ex, st, fv, me, etype, data_arr, node):
        ex.oblige(f'call:{kind}/pre:guard_is_set_while_handling', st, st.readz('_event_active', me), kind='pre')
        record = rec(kind, fv, Val.Obj(me), etype, kw=data_arr)
        outs = []
        ok = handler_effects(ex, st); ex.emit(ok, record)
        outs.append((ok, ZV('val', evres(Val.Obj(me), etype, mkD(data_arr), IntVal(0)))))
        if kind == 'handler':
            bad = st.copy(); ex.emit(bad, record); bad.ghost['hexc'] = 'call'; bad.label('handler:TypeError@call')
            outs.append((bad, Raise(PExc('TypeError', val=Val.Obj(fresh('exc', IntSort())), where='call'))))
        for cls, tag in (('EdzedUnknownEvent', 'unknown'), ('OtherException', 'inside'), ('DeliveryError', 'inside'), ('HandlerTypeError', 'inside')):
            s2 = handler_effects(ex, st); ex.emit(s2, record)
            ev = Val.Obj(fresh('exc', IntSort()))
            s2.ghost['hexc'] = tag; s2.ghost['hexc_val'] = ev; s2.label(f'{kind}:raises:{cls}')
            outs.append((s2, Raise(PExc(cls, val=ev, where='callee'))))
        return outs
    return call


_handler = handler_iface('handler')
_event_method = handler_iface('_event')


def handler_value_call(ex, st, f, pos, named, stars, sargs, node):
    me = as_kind(pos[0], Ref(), st)
    data = ex.as_dict(st, stars[0]) if stars else EMPTY_DICT
    return _handler(ex, st, to_val(f, st), me, Val.VNone, data, node)


def event_method_call(ex, e, st):
    outs = []
    for s1, vals in ex.evs(e.args, st):
        if isinstance(vals, Raise): outs.append((s1, vals)); continue
        me = as_kind(s1.env['self'], Ref(), s1)
        outs.extend(_event_method(ex, s1, Val.VNone, me, to_val(vals[0], s1), ex.as_dict(s1, vals[1]), e))
    return outs


def init_sblock_call(ex, e, st):
    """`self.circuit.init_sblock(self, full=True)` (C05): runs the block's pending initialisation steps; may deliver
    events (also to this block: the guard is lifted around the call) and may fail"""
    me = as_kind(st.env['self'], Ref(), st)
    ex.oblige('call:init_sblock/pre:guard_is_lifted_for_initialisation', st, Not(st.readz('_event_active', me)), kind='pre')
    full = next((k.value for k in e.keywords if k.arg == 'full'), None)
    record = rec('init_sblock', a0=Val.Obj(me), a1=Val.B(BoolVal(isinstance(full, z3.ExprRef) or getattr(full, 'value', None) is True)))
    outs = []
    ok = handler_effects(ex, st); ex.emit(ok, record)
    ok.assume(ok.readz('init_steps_completed', me) == 2)
    outs.append((ok, P_NONE))
    bad = handler_effects(ex, st); ex.emit(bad, record); bad.label('init_sblock:raises')
    outs.append((bad, Raise(PExc('InitError', val=Val.Obj(fresh('exc', IntSort())), where='callee'))))
    return outs


# ---- the context manager: real __enter__/__exit__ are verified against this pair of contracts --------------------------
@contract('_enable_event.__enter__', qual='edzed.block:SBlock._enable_event.__enter__', modifies=('_event_active', '_event_saved'),
          self_cls='_enable_event', result=Ref('SBlock'))
def _enter(c):
    me = c.z('self'); blk = c.pre('_block', me)
    c.ensures('saves_the_guard', c.post('_event_saved', me) == c.pre('_event_active', blk))
    c.ensures('lifts_the_guard', c.post('_event_active', blk) == BoolVal(False))
    c.ensures('only_this_block', c.post_whole('_event_active') == Store(c.pre_whole('_event_active'), blk, BoolVal(False)))
    c.ensures('returns_the_block', as_kind(c.result, Ref()) == blk)


@contract('_enable_event.__exit__', qual='edzed.block:SBlock._enable_event.__exit__', modifies=('_event_active',), self_cls='_enable_event')
def _exit(c):
    me = c.z('self'); blk = c.pre('_block', me)
    c.ensures('restores_the_guard', c.post_whole('_event_active') == Store(c.pre_whole('_event_active'), blk, c.pre('_event_saved', me)))
    c.ensures('does_not_swallow_exceptions', Not(truthy(c.rv)))


def with_enable_event(ex, st, cm, phase, token, item):
    """`with self._enable_event:` -- the pair of contracts above applied to the block itself"""
    if not (isinstance(cm, PBound) and cm.name == '_enable_event'):
        raise Unsupported(f'with {cm!r}: only self._enable_event has a context-manager contract')
    blk = as_kind(cm.recv, Ref(), st)
    st = st.copy()
    if phase == 'enter':
        saved = st.readz('_event_active', blk)
        st.write('_event_active', blk, P_FALSE)
        return [(st, ('token', cm.recv, saved))]
    st.write('_event_active', blk, ZV('bool', token[2]))
    return [(st, P_NONE)]


# ---- SBlock.event ------------------------------------------------------------------------------------------------------
def valid_etype(e):
    EV = calls.C_class('EventType')
    return Or(Val.is_S(e), Val.is_EC(e), Val.is_Goto(e), And(Val.is_Obj(e), calls.inst_of(Val.ref(e), EV)))


@contract('SBlock.event', qual='edzed.block:SBlock.event', modifies=HANDLER_EFFECTS + ('__cause__',), self_cls='SBlock')
def _event(c):
    me, etype = c.z('self'), c.v('etype')
    data = c.arg('data').arr
    active = c.pre('_event_active', me)
    steps = c.pre('init_steps_completed', me)
    need_init = And(0 <= steps, steps < 2)
    resolved = ec_resolve(etype, data)
    none = ec_none(etype, data)
    handlers = c.pre('_ct_handlers', me)
    O = OptOf(Val)
    hcell = handlers[Val.s(resolved)]
    has_handler = And(Val.is_S(resolved), O.is_Some(hcell))
    kx = Const('k!h', StringSort())
    c.requires('handlers_are_functions', ForAll([kx], Implies(O.is_Some(handlers[kx]), truthy(O.v(handlers[kx])))))
    bad_name = And(Val.is_S(etype), Val.s(etype) == StringVal(''))
    bad_type = Not(valid_etype(etype))
    guards_kept = lambda post: post.whole('_event_active') == c.pre_whole('_event_active')
    nothing = lambda post, exc: [post.tn == 0, guards_kept(post)]
    i = If(need_init, 1, 0)
    # -- refusals before the guard is taken: nothing is called, nothing changes
    c.raises('ValueError', when=bad_name, iff=True, ensures=nothing, label='empty_event_name')
    c.raises('TypeError', where='inside', when=bad_type, iff=True, ensures=nothing, label='not_an_event_type')
    c.raises('EdzedCircuitError', when=And(Not(bad_name), Not(bad_type), active), iff=True, ensures=nothing, label='recursive_event_refused')
    # -- once the guard was taken it is released on every exit edge (C11), and errors are classified (C09)
    released = lambda post: [post.f('_event_active', me) == BoolVal(False), guards_kept(post)]
    ok = And(Not(bad_name), Not(bad_type), Not(active))
    c.raises('InitError', when=And(ok, need_init, Not(none)), unchanged=False, label='early_initialisation_failed',
             ensures=lambda post, exc: released(post) + [post.tn == 1])
    c.raises('TypeError', where='call', when=And(ok, has_handler), unchanged=False, label='wrong_parameters_reported_to_caller',
             ensures=lambda post, exc: released(post) + [post.tn == i + 1])                # no abort
    c.raises('EdzedUnknownEvent', when=And(ok, Not(none)), unchanged=False, label='unknown_event_reported_to_caller',
             ensures=lambda post, exc: released(post) + [post.tn == i + 1])                # no abort
    for cls in ('OtherException', 'DeliveryError', 'HandlerTypeError'):
        c.raises(cls, when=And(ok, Not(none)), unchanged=False, label=f'handler_error_aborts:{cls}',
                 ensures=lambda post, exc: released(post) + [post.tn == i + 2, exc == post.g('hexc_val')])   # abort, then re-raise the original
    c.ensures('guard_released', And(c.post('_event_active', me) == BoolVal(False), guards_kept(c.T)))
    c.ensures('accepted', ok)
    c.ensures('conditional_event_resolving_to_no_event_does_nothing', Implies(none, And(c.rv == Val.VNone, c.T.tn == 0)))
    if c.verifying:
        c.ensures('handled_exactly_once', Implies(Not(none), c.T.tn == i + 1))
        c.ensures('returns_handler_result', Implies(Not(none),
                  c.rv == evres(Val.Obj(me), If(has_handler, Val.VNone, resolved), mkD(data), IntVal(0))))
        circ = c.pre('circuit', me)
        def expected(k, r, st):
            first = And(Rec.fn(r) == StringVal('init_sblock'), Rec.a0(r) == Val.Obj(me), Rec.a1(r) == Val.B(BoolVal(True)))
            handle = If(has_handler,
                        And(Rec.fn(r) == StringVal('handler'), Rec.recv(r) == O.v(hcell), Rec.a0(r) == Val.Obj(me), Rec.kw(r) == data),
                        And(Rec.fn(r) == StringVal('_event'), Rec.a0(r) == Val.Obj(me), Rec.a1(r) == resolved, Rec.kw(r) == data))
            # abort(EdzedCircuitError(...) with __cause__ = the handler's exception), only after an error inside the handler
            ab = And(Rec.fn(r) == StringVal('abort'), Rec.recv(r) == Val.Obj(circ), BoolVal(st.ghost.get('hexc') == 'inside'),
                     Val.is_Obj(Rec.a0(r)), calls.inst_of(Val.ref(Rec.a0(r)), calls.exc_cls('EdzedCircuitError')),
                     st.readz('__cause__', Val.ref(Rec.a0(r))) == (st.ghost.get('hexc_val') if st.ghost.get('hexc_val') is not None else Val.VNone))
            return And(Not(none), If(And(need_init, k == 0), first, If(k == i, handle, ab)))
        c.expect_trace(expected, i + 2, normal_len=None, predicate=True)


def inv_eventcond(lc):
    me = as_kind(lc.pre.args['self'], Ref())
    data = lc.pre.args['data'].arr
    e0 = to_val(lc.pre.args['etype'], lc.pre.st)
    cur = to_val(lc.local('etype'), lc.st.st)
    return [('guard_is_set', lc.st.f('_event_active', me)),
            ('other_guards_kept', lc.st.whole('_event_active') == Store(lc.pre.whole('_event_active'), me, BoolVal(True))),
            ('same_resolution', And(ec_resolve(cur, data) == ec_resolve(e0, data), ec_none(cur, data) == ec_none(e0, data))),
            ('nothing_called_yet', lc.st.tn == 0),
            ('assume:ec_resolve_definition@current', ec_resolve_def(cur, data)),
            ('assume:ec_resolve_definition@next', Implies(Val.is_EC(cur), ec_resolve_def(ec_next(cur, data), data)))]


@contract('SBlock._event', qual='edzed.block:SBlock._event', modifies=(), self_cls='SBlock')
def _default_event(c):
    c.raises('EdzedUnknownEvent', label='base_class_knows_no_events')
    c.ensures('never_returns', BoolVal(False))


# ---- Circuit.abort -----------------------------------------------------------------------------------------------------
@contract('*.cancel', modifies=('cancel_requested',), result=BOOL, sig=([Param('self', Ref()), Param('msg', VAL, default=None)], None, None), trusted='asyncio.Task.cancel',
          traced=lambda a, st: rec('cancel', to_val(a['self'], st)))
def _task_cancel(c):
    t = c.z('self')
    c.ensures('cancellation_requested', c.post_whole('cancel_requested') == Store(c.pre_whole('cancel_requested'), t, BoolVal(True)))


@contract('Circuit.abort', qual='edzed.simulator:Circuit.abort', modifies=('_error', 'cancel_requested'), self_cls='Circuit',
          traced=lambda a, st: rec('abort', to_val(a['self'], st), to_val(a['exc'], st)))
def _abort(c):
    me, exc = c.z('self'), c.v('exc')
    BE = BaseException
    old = c.pre('_error', me)
    task = c.pre('_simtask', me)
    is_exc = And(Val.is_Obj(exc), calls.inst_of(Val.ref(exc), BE))
    c.ensures('first_error_is_kept', Implies(old != Val.VNone, And(c.post_whole('_error') == c.pre_whole('_error'),
                                                                   c.post_whole('cancel_requested') == c.pre_whole('cancel_requested'))))
    c.ensures('first_error_is_recorded', Implies(And(old == Val.VNone, is_exc), c.post_whole('_error') == Store(c.pre_whole('_error'), me, exc)))
    c.ensures('non_exception_becomes_type_error', Implies(And(old == Val.VNone, Not(is_exc)),
              And(Val.is_Obj(c.post('_error', me)), calls.inst_of(Val.ref(c.post('_error', me)), TypeError),
                  c.post_whole('_error') == Store(c.pre_whole('_error'), me, c.post('_error', me)))))
    cancel = And(old == Val.VNone, task != Val.VNone, Not(c.pre('task_done', Val.ref(task))))
    c.ensures('simulation_task_cancelled_iff_first_error_and_running',
              c.post_whole('cancel_requested') == If(cancel, Store(c.pre_whole('cancel_requested'), Val.ref(task), BoolVal(True)), c.pre_whole('cancel_requested')))
    if c.verifying:
        c.expect_trace(lambda k: rec('cancel', Val.Obj(Val.ref(task))), If(cancel, 1, 0))


def verify_event(run):
    run.verify('_enable_event.__enter__', cls='SBlock')
    run.verify('_enable_event.__exit__', cls='SBlock')
    run.verify('SBlock.event', cls='SBlock',
               invariants={'while isinstance(etype, EventCond)': inv_eventcond},
               calls={'*value*': handler_value_call, 'self._event': event_method_call,
                      'self.circuit.init_sblock': init_sblock_call},
               hooks={'with': with_enable_event})
    run.verify('SBlock._event', cls='SBlock')
    run.verify('Circuit.abort', cls='Circuit')
