"""Event.send: the filter pipeline and the synchronous delivery (shared by C02, C11, C14, C16)."""
import z3
from pyvc.sorts import *
from pyvc.values import *
from pyvc.state import declare_fields, View
from pyvc.contract import contract, CONTRACTS, Param
from pyvc.engine import Raise
from pyvc import loops, calls
from specs.common import *

# ---- the statement's three-way rule as a fold over the filter tuple ---------------------------------------------
REJ = Val.Opq(IntVal(-103))                         # "the pipeline has ended with a false result"
app_mut = Function('app_mut', Val, Val, Val)        # the data dict after filter f ran on it (filters may edit in place)
vkeys = Function('vkeys', Val, ValSet)              # keys of a mapping returned by a filter
pfold = Function('pfold', SeqArr, Val, IntSort(), Val)


def all_str_keys(r):
    x = Const('x!k', Val)
    return ForAll([x], Implies(vkeys(r)[x], Val.is_S(x)))


def pstep(f, cur):
    r = app(f, cur)
    return If(cur == REJ, REJ, If(Val.is_D(r), r, If(truthy(r), app_mut(f, cur), REJ)))


def pfold_step(F, d0, i):
    return pfold(F, d0, i + 1) == pstep(F[i], pfold(F, d0, i))


def get_circuit_handler(ex, e, st):
    """simulator.get_circuit(): the current circuit (ghost `current_circuit`)"""
    return [(st, ZV('ref', st.ghost['current_circuit'], 'Circuit'))]


def filter_call(ex, e, st):
    """`efilter(data)`: interface contract of an event filter -- returns app(f, d) and may have edited d in place"""
    outs = []
    for s1, f in ex.ev(e.func, st):
        s1 = s1.copy()
        fv = to_val(f, s1); cur = to_val(s1.env['data'], s1)
        r = app(fv, cur)
        s1.assume(Not(app_raises(fv, cur)))
        s1.env['data'] = ZV('val', app_mut(fv, cur))
        outs.append((s1, ZV('val', r)))
    return outs


def for_keys(ex, s, st, it):
    """`for key in retval`: iterate over the keys of the returned mapping (arbitrary order)"""
    return loops.for_set(ex, s, st, PSet(vkeys(to_val(it, st)), 'val'))


def inv_keys(lc):
    x = Const('x!d', Val)
    return [('visited_keys_are_str', ForAll([x], Implies(lc.done[x], Val.is_S(x))))]


@contract('Event.send', qual='edzed.block:Event.send', params={'source': Ref('Block')}, modifies=DELIVERY,
          self_cls='Event', traced=lambda a, st: rec('send', to_val(a['self'], st), to_val(a['source'], st), kw=a['data'].arr))
def _send(c):
    me, src = c.z('self'), c.z('source')
    data = c.arg('data').arr
    if not c.verifying:
        # what a sender may rely on (guarantee G_send, proved for set_output/eval_block under C02/C01):
        # delivery never re-assigns the sender's own output (A-C02) and may fail with a delivery error
        c.ensures('source_output_kept', c.post('_output', src) == c.pre('_output', src))
        impose_queues_only_grow(c.S, c.T)
        c.raises('DeliveryError', unchanged=False, ensures=lambda post, exc: [post.f('_output', src) == c.pre('_output', src)]
                                                                             + impose_queues_only_grow(c.S, post))
        return
    dest = c.pre('_dest', me)
    F, n = c.pre('_filters', me)
    cur_circ = c.S.g('current_circuit')
    c.requires('destination_resolved', And(Val.is_Obj(dest), calls.inst_of(Val.ref(dest), calls.C_class('SBlock'))))
    same = And(c.pre('circuit', src) == c.pre('circuit', Val.ref(dest)), c.pre('circuit', src) == cur_circ)
    d0 = Val.D(mkD(Store(data, StringVal('source'), Opt.Some(Val.S(c.pre('name', src))))))
    c.requires('fold_definition_base', pfold(F, d0, 0) == d0)
    final = pfold(F, d0, n)
    c.raises('EdzedCircuitError', when=Not(same), iff=True, label='foreign_circuit')
    c.raises('DeliveryError', when=And(same, final != REJ), unchanged=False)
    c.ensures('same_circuit', same)
    c.ensures('false_iff_vetoed', c.rv == Val.B(final != REJ))
    c.ensures('vetoed_delivers_nothing', Implies(final == REJ, c.T.tn == 0))
    c.ensures('delivers_filtered_data_once', Implies(final != REJ, And(
        c.T.tn == 1, c.T.tr[0] == rec('event', dest, c.pre('_etype', me), kw=dict_c(Val.dk(final))))))


def inv_send(lc):
    me, src = as_kind(lc.pre.args['self'], Ref()), as_kind(lc.pre.args['source'], Ref())
    F, n = lc.pre.f('_filters', me)
    data = lc.pre.args['data'].arr
    d0 = Val.D(mkD(Store(data, StringVal('source'), Opt.Some(Val.S(lc.pre.f('name', src))))))
    cur = to_val(lc.local('data'), lc.st.st)
    i = lc.i
    fi, ci = F[i], pfold(F, d0, i)
    return [('data_is_pipeline_prefix', And(cur == ci, cur != REJ, Val.is_D(cur))),
            ('nothing_delivered_yet', lc.st.tn == 0),
            # instances at the current index: definition of the pipeline fold, the interface assumptions on filter i,
            # and the lemma `pipeline_veto_absorbing` (proved by induction in verify_send)
            ('assume:fold_definition@i', Implies(i < n, pfold_step(F, d0, i))),
            ('assume:filter_well_behaved@i', Implies(i < n, And(Not(app_raises(fi, ci)), Val.is_D(app_mut(fi, ci)),
                                                                 Implies(Val.is_D(app(fi, ci)), all_str_keys(app(fi, ci)))))),
            ('assume:absorbing@i+1', Implies(And(i < n, pfold(F, d0, i + 1) == REJ), pfold(F, d0, n) == REJ))]


def verify_send(run):
    run.verify('Event.send', cls='Event',
               calls={'simulator.get_circuit': get_circuit_handler, 'efilter': filter_call, 'for:for key in retval': for_keys},
               invariants={'for efilter in self._filters': inv_send, 'for key in retval': inv_keys},
               ghost={'current_circuit': Int('current_circuit')})
    F, d0 = Const('Fp', SeqArr), Const('d0p', Val)
    i, j = Int('ip'), Int('jp')
    run.lemma('pipeline_veto_absorbing/base', [pfold(F, d0, i) == REJ], pfold(F, d0, i) == REJ)
    run.lemma('pipeline_veto_absorbing/step', [pfold(F, d0, j) == REJ, pfold_step(F, d0, j)], pfold(F, d0, j + 1) == REJ)
    f0 = Const('f0', Val)
    d = Const('dd', Val)
    # the three-way rule of the statement, read off the spec function
    run.lemma('pipeline_rule/mapping_replaces_data', [d != REJ, Val.is_D(app(f0, d))], pstep(f0, d) == app(f0, d))
    run.lemma('pipeline_rule/other_true_result_passes_data_on', [d != REJ, Not(Val.is_D(app(f0, d))), truthy(app(f0, d))], pstep(f0, d) == app_mut(f0, d))
    run.lemma('pipeline_rule/false_result_ends_pipeline', [d != REJ, Not(Val.is_D(app(f0, d))), Not(truthy(app(f0, d)))], pstep(f0, d) == REJ)
    run.assume('event filters are deterministic, do not raise, and return str-keyed mappings (a non-str key raises TypeError in send)')
