import sys, asyncio, edzed
class Broken(edzed.SBlock):
    def init_regular(self):
        raise RuntimeError('cannot be initialised')
edzed.reset_circuit()
Broken('b')
circ = edzed.get_circuit()
async def main():
    t = asyncio.create_task(circ.run_forever())
    try:
        await circ.wait_init()
    except edzed.EdzedInvalidState as err:
        print('wait_init raised EdzedInvalidState:', err)
    try: await t
    except BaseException: pass
    await asyncio.sleep(0.05)
    left = [repr(x.get_coro()) for x in asyncio.all_tasks() if x is not asyncio.current_task() and not x.done()]
    print('simulation task finished; tasks still pending:', left)
    return 1 if left else 0
sys.exit(asyncio.run(main()))
