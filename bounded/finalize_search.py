#!/venv/bin/python
"""Bounded stand-in for C15 (labelled bounded): small circuits through the real connect()/finalize()/resolver."""
import asyncio, itertools, json, os, sys
sys.path.insert(0, os.environ.get('VERIF_REPO', '/repo'))
import edzed
from edzed.exceptions import EdzedInvalidState

import logging; logging.disable(logging.CRITICAL)
cases, failures = 0, []


def fail(kind, inp, got, want=''):
    if len(failures) < 8: failures.append(dict(kind=kind, input=repr(inp), got=repr(got), expected=repr(want)))


class Any(edzed.CBlock):
    def calc_output(self): return None


def check_relations(circ, tag):
    """for all blocks A, B: B in A.oconnections <=> A in B.iconnections <=> A feeds one of B's inputs"""
    blocks = list(circ.getblocks())
    for b in circ.getblocks(edzed.CBlock):
        feeding = set()
        for ival in b.inputs.values():
            for x in (ival if isinstance(ival, tuple) else (ival,)):
                if isinstance(x, str): fail('unresolved name left', (tag, b.name, x), x); return
                if not isinstance(x, (edzed.Block, edzed.Const)): fail('unresolved value left', (tag, b.name, x), x); return
                if isinstance(x, edzed.Block): feeding.add(x)
        if set(b.iconnections) != feeding: fail('iconnections != feeding blocks', (tag, b.name), [x.name for x in b.iconnections], [x.name for x in feeding])
        for a in blocks:
            if (b in a.oconnections) != (a in b.iconnections): fail('oconnections/iconnections disagree', (tag, a.name, b.name), b in a.oconnections, a in b.iconnections)
        conf = b.get_conf().get('inputs'); sig = b.input_signature()
        if conf is None or set(conf) != set(sig): fail('get_conf/input_signature keys', (tag, b.name), conf, sig); continue
        for k, v in sig.items():
            if (v is None) != (not isinstance(conf[k], tuple)) or (v is not None and len(conf[k]) != v): fail('get_conf/input_signature shape', (tag, b.name, k), conf[k], v)
    for a in blocks:
        if not isinstance(a, edzed.CBlock) and getattr(a, 'iconnections', None): fail('sblock with inputs', (tag, a.name), a.iconnections)
    names = [b.name for b in blocks]
    if len(names) != len(set(names)): fail('duplicate names', tag, names)


SPECS = ['obj:i0', 'name:i0', 'name:i1', '_not_i0', '_not_i1', 'const', 'plain', 'prev', '_not_prev']


def materialise(spec, inputs, prev):
    if spec == 'obj:i0': return inputs[0]
    if spec.startswith('name:'): return spec[5:]
    if spec in ('_not_i0', '_not_i1'): return spec
    if spec == 'const': return edzed.Const(42)
    if spec == 'plain': return 3.5
    if spec == 'prev': return prev if prev is not None else inputs[1]
    if spec == '_not_prev': return '_not_' + (prev.name if prev is not None else 'i1')


def run_case(layout):
    """layout: list over blocks of (unnamed: list of specs, named single: spec or None, named group: list of specs or None)"""
    global cases
    cases += 1
    edzed.reset_circuit()
    inputs = [edzed.Input('i0', initdef=0), edzed.Input('i1', initdef=0)]
    prev = None
    for k, (un, single, group) in enumerate(layout):
        kw = {}
        if single is not None: kw['s'] = materialise(single, inputs, prev)
        if group is not None: kw['g'] = [materialise(x, inputs, prev) for x in group]
        prev = Any(f'c{k}').connect(*[materialise(x, inputs, prev) for x in un], **kw)
    circ = edzed.get_circuit()
    try:
        circ.finalize()
    except Exception as err:
        fail('finalize raised', layout, repr(err)); return
    check_relations(circ, layout)
    nots = [b for b in circ.getblocks(edzed.Not)]
    if len({b.name for b in nots}) != len(nots): fail('inverter not shared', layout, [b.name for b in nots])
    for b in nots:
        src = circ.findblock(b.name[5:])
        if b.inputs != {'_': (src,)}: fail('inverter input', layout, b.inputs, src.name)
    # frozen
    for what, fn in (('add block', lambda: Any('late')), ('connect', lambda: Any.connect(circ.findblock('c0'), 'i0')),
                     ('storage', lambda: circ.set_persistent_data({}))):
        try: fn(); fail('modification after finalize accepted', (layout, what), 'no error', 'EdzedInvalidState')
        except EdzedInvalidState: pass
        except Exception as err: fail('modification after finalize: wrong error', (layout, what), repr(err), 'EdzedInvalidState')


for un in itertools.chain(itertools.product(SPECS[:7], repeat=1), itertools.product(SPECS[:7], repeat=2)):
    run_case([(list(un), None, None)])
for un, single, group in itertools.product([['name:i0'], ['_not_i0', 'obj:i0']], SPECS, [None, ['name:i1', '_not_i0'], ['const', 'plain', '_not_i1']]):
    run_case([(['name:i1'], None, None), (un, single, group)])
for a, b in itertools.product(SPECS, repeat=2):
    run_case([(['_not_i0'], None, None), ([a], None, ['_not_i0', '_not_prev']), ([b, 'prev'], '_not_prev', None)])


def expect_error(kind, build, excs, start=False):
    global cases
    cases += 1
    edzed.reset_circuit()
    try:
        build()
        circ = edzed.get_circuit()
        if start:
            async def go():
                t = asyncio.create_task(circ.run_forever())
                try: await circ.wait_init()
                finally:
                    if not t.done(): await circ.shutdown()
                    else: t.result()
            asyncio.run(go())
        else:
            circ._resolver.resolve(); circ.finalize()
    except excs:
        return
    except BaseException as err:
        fail(kind + ': wrong error', kind, repr(err), excs); return
    fail(kind + ': accepted', kind, 'no error', excs)


def foreign():
    other = edzed.Input('x', initdef=0); edzed.reset_circuit(); edzed.Input('i0', initdef=0); Any('c').connect(other)
expect_error('unknown name', lambda: (edzed.Input('i0', initdef=0), Any('c').connect('nope')), (KeyError,))
expect_error('foreign block', foreign, (ValueError,))
expect_error('_not_ of unknown', lambda: (edzed.Input('i0', initdef=0), Any('c').connect('_not_nope')), (KeyError,))
expect_error('_not__x', lambda: (edzed.Input('i0', initdef=0), Any('c').connect('_not__x')), (KeyError,))
expect_error('duplicate name', lambda: (edzed.Input('i0', initdef=0), edzed.Input('i0', initdef=1)), (ValueError,))
expect_error('connect twice', lambda: Any('c').connect(1).connect(2), (EdzedInvalidState,))
expect_error('no inputs', lambda: Any('c').connect(), (ValueError,))
expect_error('reserved input name', lambda: Any('c').connect(_=1), (ValueError,))
expect_error('group as unnamed input', lambda: Any('c').connect([1, 2]), (ValueError,))
expect_error('event to a cblock (wrong kind)', lambda: (Any('c').connect(1), edzed.Input('i0', initdef=0, on_output=edzed.Event('c'))), (TypeError,))
expect_error('event to unknown', lambda: edzed.Input('i0', initdef=0, on_output=edzed.Event('nope')), (KeyError,))
expect_error('filter control block of wrong kind', lambda: (Any('c').connect(1), edzed.Input('i1', initdef=0),
             edzed.Input('i0', initdef=0, on_output=edzed.Event('i1', efilter=edzed.IfNotIitialized('c')))), (TypeError,))
expect_error('same name, permissive reference first (IfOutput accepts any block, Event needs an SBlock)',
             lambda: (Any('gate').connect(1), edzed.Input('i0', initdef=0, on_output=edzed.Event('gate', 'put', efilter=edzed.IfOutput('gate')))), (TypeError,))
expect_error('Not with two inputs', lambda: (edzed.Input('i0', initdef=0), edzed.Not('n').connect('i0', 'i0')), (ValueError,), start=True)
expect_error('Override missing input', lambda: (edzed.Input('i0', initdef=0), edzed.Override('o').connect(input='i0')), (ValueError,), start=True)
print(json.dumps(dict(cases=cases, failures=failures), default=str))
