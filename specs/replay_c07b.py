import sys, asyncio, datetime as dt, time, edzed
from edzed.blocklib import cron
T0 = time.monotonic()
BASE = dt.datetime(2024, 3, 30, 23, 59, 50, 0)
JUMP = [0.0]
def fake_now(self):
    return BASE + dt.timedelta(seconds=time.monotonic() - T0 + JUMP[0])
cron.Cron.dtnow = fake_now
edzed.reset_circuit()
td = edzed.TimeDate('td', times="23:59:45-23:59:55")     # True now; the end of the range is an alarm in hour 23
calls = []
orig = edzed.TimeDate.recalc
def recalc(self, now):
    calls.append(now); return orig(self, now)
edzed.TimeDate.recalc = recalc
circ = edzed.get_circuit()
async def main():
    t = asyncio.create_task(circ.run_forever())
    await circ.wait_init()
    await asyncio.sleep(1.0)
    n0 = len(calls)
    JUMP[0] = 30.0                               # 23:59:51 -> 00:00:21: a forward jump of 30 s across midnight
    await asyncio.sleep(6.0)                     # the scheduler wakes up for 23:59:55 and sees 00:00:2x
    print('recalculations after the clock jump:', len(calls) - n0, '; output of td:', td.output, '(must be False at 00:00:2x)')
    res = 0 if td.output is False else 1
    try: await circ.shutdown()
    except BaseException: pass
    return res
sys.exit(asyncio.run(main()))
