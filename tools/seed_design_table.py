#!/usr/bin/env python3
"""dev tool: fill the SEED_TABLE of DESIGN.md section 8.8 from seeded/RESULTS.json (written by tools/seed_table.py)"""
import json, sys
res = json.load(open(sys.argv[1] if len(sys.argv) > 1 else '/verif/seeded/RESULTS.json'))
word = {1: 'reported', 0: '**silent**', 2: 'undecided', 3: 'cannot be processed', None: '?'}
rows = []
for r in res:
    what = (r['failed_obligations'] or r['undecided'] or r['checker_errors'] or ['—'])[0]
    what = what.split('/', 1)[1] if what.startswith(r['property'] + '/') else what
    more = f" (+{r['n_failed'] - 1} more)" if r.get('n_failed', 0) > 1 else ''
    rows.append(f"| {r['id']} | {', '.join('`' + f.replace('edzed/', '') + '`' for f in r['files'])} | {r['exit']} {word[r['exit']]} | `{what[:140]}`{more} |")
n = len(res); rep = sum(r['exit'] == 1 for r in res)
first = [r for r in res if len(r['id']) == 3]; later = [r for r in res if len(r['id']) > 3]
t = ("| change | file(s) | outcome of the property's quick check | first failing obligation / reason |\n|---|---|---|---|\n" + '\n'.join(rows)
     + f"\n\nTotals on the final tree: {rep} of {n} reported (exit 1); first round {sum(r['exit'] == 1 for r in first)}/{len(first)}, later rounds "
       f"{sum(r['exit'] == 1 for r in later)}/{len(later)}; {sum(r['exit'] == 0 for r in res)} silent, {sum(r['exit'] == 2 for r in res)} undecided, "
       f"{sum(r['exit'] == 3 for r in res)} cannot be processed.")
s = open('/verif/DESIGN.md').read()
a, b = '<!-- SEED_TABLE -->', '<!-- /SEED_TABLE -->'
s = s[:s.index(a) + len(a)] + '\n' + t + '\n' + s[s.index(b):]
open('/verif/DESIGN.md', 'w').write(s)
print(t[-300:])
