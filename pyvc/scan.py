"""Scan obligations: syntactic facts about the whole package, recomputed from the AST of every file under
<repo>/edzed on each run (DESIGN 2.8).  They turn per-function postconditions into whole-history invariants
("field X is written only by ...", "function f is called only from ...")."""
import ast
import os
from .contract import REPO

_trees = None


def trees():
    global _trees
    if _trees is None:
        _trees = {}
        root = os.path.join(REPO, 'edzed')
        for d, _, files in os.walk(root):
            for f in sorted(files):
                if f.endswith('.py'):
                    p = os.path.join(d, f)
                    _trees[os.path.relpath(p, REPO)] = ast.parse(open(p).read())
    return _trees


def _walk_scoped(node, scope=()):
    """yield (qualified scope tuple, node) for every node, tracking class/function nesting"""
    for ch in ast.iter_child_nodes(node):
        if isinstance(ch, (ast.ClassDef, ast.FunctionDef, ast.AsyncFunctionDef)):
            yield scope, ch
            yield from _walk_scoped(ch, scope + (ch.name,))
        else:
            yield scope, ch
            yield from _walk_scoped(ch, scope)


def attr_writers(attr):
    """every site that stores to / deletes / augments attribute `.attr` (any receiver) -> sorted set of 'file:Scope.func'"""
    out = set()
    for file, tree in trees().items():
        for scope, n in _walk_scoped(tree):
            hit = False
            if isinstance(n, ast.Attribute) and n.attr == attr and isinstance(n.ctx, (ast.Store, ast.Del)): hit = True
            if isinstance(n, ast.Call) and isinstance(n.func, ast.Name) and n.func.id in ('setattr', 'delattr') and len(n.args) >= 2:
                a = n.args[1]
                if isinstance(a, ast.Constant) and a.value == attr: hit = True
            if hit: out.add(f"{file}:{'.'.join(scope) or '<module>'}")
    return sorted(out)


def dynamic_setattr_sites():
    """setattr/delattr calls whose attribute name is not a constant"""
    out = set()
    for file, tree in trees().items():
        for scope, n in _walk_scoped(tree):
            if isinstance(n, ast.Call) and isinstance(n.func, ast.Name) and n.func.id in ('setattr', 'delattr') and len(n.args) >= 2:
                if not isinstance(n.args[1], ast.Constant): out.add(f"{file}:{'.'.join(scope) or '<module>'}")
    return sorted(out)


def method_callers(name):
    """every site that calls `<anything>.name(...)` or `name(...)` -> sorted set of 'file:Scope.func'"""
    out = set()
    for file, tree in trees().items():
        for scope, n in _walk_scoped(tree):
            if isinstance(n, ast.Call):
                f = n.func
                if (isinstance(f, ast.Attribute) and f.attr == name) or (isinstance(f, ast.Name) and f.id == name):
                    out.add(f"{file}:{'.'.join(scope) or '<module>'}")
    return sorted(out)


def container_mutators(attr, methods=('add', 'discard', 'remove', 'pop', 'clear', 'update', 'append', 'extend', 'put_nowait', 'get_nowait')):
    """sites that call a mutating method on `<anything>.attr` or subscript-store into it"""
    out = set()
    for file, tree in trees().items():
        for scope, n in _walk_scoped(tree):
            hit = False
            if isinstance(n, ast.Call) and isinstance(n.func, ast.Attribute) and n.func.attr in methods:
                v = n.func.value
                if isinstance(v, ast.Attribute) and v.attr == attr: hit = True
            if isinstance(n, ast.Subscript) and isinstance(n.ctx, (ast.Store, ast.Del)) and isinstance(n.value, ast.Attribute) and n.value.attr == attr:
                hit = True
            if isinstance(n, ast.AugAssign) and isinstance(n.target, ast.Attribute) and n.target.attr == attr: hit = True
            if hit: out.add(f"{file}:{'.'.join(scope) or '<module>'}")
    return sorted(out)
