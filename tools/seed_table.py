#!/usr/bin/env python3
"""usage: tools/seed_table.py [parallelism] [out.json]
Runs the quick check of its property against every seeded change (seeded/<id>/patch.diff, scratch copy of /repo/edzed each) and writes
one record per change: exit code (1 reported, 0 not reported, 2 undecided, 3 cannot be processed) and the first failing obligations."""
import concurrent.futures as cf, glob, json, os, re, subprocess, sys
HERE = os.path.dirname(os.path.dirname(os.path.abspath(__file__)))
par = int(sys.argv[1]) if len(sys.argv) > 1 else 4
out = sys.argv[2] if len(sys.argv) > 2 else os.path.join(HERE, 'seeded', 'RESULTS.json')


def one(d):
    sid = os.path.basename(d); prop = sid[:3]
    p = subprocess.run([os.path.join(HERE, 'bin', 'mutant-try'), prop, os.path.join(d, 'patch.diff')], capture_output=True, text=True, cwd=HERE)
    o = p.stdout
    m = re.search(r'^exit=(\d+)', o, re.M)
    failed = [l.split('failed obligation:')[1].strip() for l in o.splitlines() if 'failed obligation:' in l]
    und = [l.split('obligation=')[1].strip() for l in o.splitlines() if l.startswith('UNDECIDED')]
    err = [l[len('CHECKER-ERROR '):].strip()[:200] for l in o.splitlines() if l.startswith('CHECKER-ERROR')]
    files = sorted(set(re.findall(r'^diff --git a/(\S+)', open(os.path.join(d, 'patch.diff')).read(), re.M)))
    return dict(id=sid, property=prop, files=files, exit=int(m.group(1)) if m else None, failed_obligations=failed[:3], n_failed=len(failed),
                undecided=und[:2], checker_errors=err[:2])


dirs = sorted(d for d in glob.glob(os.path.join(HERE, 'seeded', 'C*')) if os.path.exists(os.path.join(d, 'patch.diff')))
with cf.ThreadPoolExecutor(max_workers=par) as pool: res = list(pool.map(one, dirs))
json.dump(res, open(out, 'w'), indent=1)
for r in res: print(r['id'], r['exit'], (r['failed_obligations'] or r['undecided'] or r['checker_errors'] or [''])[0][:150])
print('reported', sum(r['exit'] == 1 for r in res), 'of', len(res))
