"""C04 - a timed state yields its timed event exactly once, on time, unless left earlier.  DESIGN section 3, C04."""
import z3
from pyvc.sorts import *
from pyvc.values import *
from pyvc.state import declare_fields
from pyvc.contract import contract, CONTRACTS
from pyvc import scan
from specs.common import *
from specs import fsm

declare_fields(_restartable=BOOL)
Qt = 'edzed.blocklib.fsms:Timer.'


@contract('Timer.cond_start', qual=Qt + 'cond_start', modifies=(), self_cls='Timer')
def _cond_start(c):
    me = c.z('self')
    c.ensures('restartable_or_not_already_on', c.rv == Val.B(Or(c.pre('_restartable', me), Not(py_eq(c.pre('_state', me), S_('on'))))))


@contract('Timer.cond_stop', qual=Qt + 'cond_stop', modifies=(), self_cls='Timer')
def _cond_stop(c):
    me = c.z('self')
    c.ensures('restartable_or_not_already_off', c.rv == Val.B(Or(c.pre('_restartable', me), Not(py_eq(c.pre('_state', me), S_('off'))))))


@contract('Timer.calc_output', qual=Qt + 'calc_output', modifies=(), self_cls='Timer')
def _timer_out(c):
    c.ensures('output_is_on', c.rv == Val.B(py_eq(c.pre('_state', c.z('self')), S_('on'))))


def build(run):
    fsm.verify_fsm(run, what=('c03', 'c04'))
    for k in ('Timer.cond_start', 'Timer.cond_stop', 'Timer.calc_output'):
        run.verify(k, cls='Timer')
    # ---- lemmas over the contracts --------------------------------------------------------------------------------------
    n = Int('n_live')
    run.lemma('at_most_one_pending_timer', [Or(n == 0, n == 1)], n <= 1)
    from specs.c03 import scan_library_tables
    scan_library_tables(run)
    w = scan.attr_writers('_active_timer')
    run.scan('writers_of__active_timer', w == ['edzed/fsm.py:FSM.__init__', 'edzed/fsm.py:FSM._set_timer', 'edzed/fsm.py:FSM._stop_timer', 'edzed/fsm.py:FSM._timer_expired'], f'{w}')
    callers = scan.method_callers('call_later')
    run.scan('timers_created_only_by_set_timer', callers == ['edzed/fsm.py:FSM._set_timer'], f'{callers}')
    callers = scan.method_callers('_set_timer')
    run.scan('set_timer_callers', callers == ['edzed/fsm.py:FSM._restore_state', 'edzed/fsm.py:FSM._start_timer'], f'{callers}')
    run.trust("asyncio loop.call_later / TimerHandle: the callback runs once, not before `when`, never after cancel(); "
              "'exactly once, on time' is this contract plus the timer invariant (no independent timing claim)")
    run.unclaim("Timer's t_period keyword handling (Timer.__init__) and InputExp durations (FSM.__init__ keyword parsing)")
    run.assume('A-C08: no event reaches an FSM after its stop()')
