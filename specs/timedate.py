"""TimeDate / TimeSpan (timedate.py) and the Cron service (cron.py): C07."""
import ast
import z3
from pyvc.sorts import *
from pyvc.values import *
from pyvc.state import declare_fields, View
from pyvc.contract import contract, CONTRACTS, Param
from pyvc.engine import Raise, NEXT, PyObjStub
from pyvc import calls
from specs.common import *
from specs import c13
from specs.c13 import dtkey, member_spec, mk_time, mk_date, days_in

declare_fields(_times=VAL, _dates=VAL, _weekdays=VAL, _span=VAL, _cron=Ref('Cron'), _RCLOSED_INTERVAL=BOOL, _interval=VAL)
QT = 'edzed.blocklib.timedate:'
# a naive datetime value and its parts (trusted: datetime accessors)
dt_time_of = Function('dt_time_of', Val, Val)        # now.time()
dt_date_of = Function('dt_date_of', Val, Val)        # now.date()
dt_month = Function('dt_month', Val, IntSort())
dt_day = Function('dt_day', Val, IntSort())
dt_iso = Function('dt_iso', Val, IntSort())          # isoweekday(): 1 (Mon) .. 7 (Sun)


def datetime_ok(now):
    return And(1 <= dt_month(now), dt_month(now) <= 12, 1 <= dt_day(now), dt_day(now) <= days_in(dt_month(now)), 1 <= dt_iso(now), dt_iso(now) <= 7)


DT_ATTRS = {'month': lambda ex, st, o: [(st, ZV('int', dt_month(to_val(o, st))))] if _is_dt(o) else None,
            'day': lambda ex, st, o: [(st, ZV('int', dt_day(to_val(o, st))))] if _is_dt(o) else None}


def _is_dt(o): return isinstance(o, ZV) and o.kind == 'val'


def now_time(ex, e, st):
    return [(s1, ZV('val', dt_time_of(to_val(v, s1)))) for s1, v in ex.ev(e.func.value, st)]


def now_date(ex, e, st):
    return [(s1, ZV('val', dt_date_of(to_val(v, s1)))) for s1, v in ex.ev(e.func.value, st)]


def now_isoweekday(ex, e, st):
    return [(s1, ZV('int', dt_iso(to_val(v, s1)))) for s1, v in ex.ev(e.func.value, st)]


def now_weekday(ex, e, st):
    """datetime.weekday(): Monday = 0 ... Sunday = 6"""
    return [(s1, ZV('int', dt_iso(to_val(v, s1)) - 1)) for s1, v in ex.ev(e.func.value, st)]


def interval_wf(S, iv_obj):
    iv = S.f('_interval', iv_obj); k = Val.tk(iv); j = Int('j!wf')
    return And(Val.is_T(iv), tup_len(k) >= 0, ForAll([j], Implies(And(0 <= j, j < tup_len(k)),
               And(Val.is_T(tup_item(k, j)), tup_len(Val.tk(tup_item(k, j))) == 2))))


def in_interval(S, kind, iv_obj, x):
    """the statement's membership: x lies inside one of the ranges of the interval object (rules of C13)"""
    iv = S.f('_interval', iv_obj); k = Val.tk(iv); j = Int('j!in')
    rc = S.f('_RCLOSED_INTERVAL', iv_obj)
    pair = lambda jj: tup_item(k, jj)
    return Exists([j], And(0 <= j, j < tup_len(k),
                           member_spec(kind, rc, dtkey(tup_item(Val.tk(pair(j)), 0)), dtkey(x), dtkey(tup_item(Val.tk(pair(j)), 1)))))


def contains_hook(kinds):
    """`x in self._times` etc.: dispatch to the verified __contains__ of the interval class (C13)"""
    def hook(ex, st, container, item):
        if not (isinstance(container, ZV) and container.kind == 'val'): return None
        kind = st.ghost.get('container_kind', {}).get(id(container))
        return None
    return hook


def interval_contains(kind):
    def h(ex, st, container, item):
        k = CONTRACTS[f'{kind}.__contains__']
        recv = ZV('ref', Val.ref(to_val(container, st)), kind)
        outs = []
        for s1, r in calls.apply_bound(ex, st, k, {'self': recv, 'item': ZV('val', to_val(item, st))}, f'call:{kind}.__contains__'):
            outs.append((s1, r if isinstance(r, Raise) else truth(r, s1)))
        return outs
    return h


def td_contains(ex, st, container, item):
    """membership tests of TimeDate.recalc: the container expression decides the interval class"""
    src = getattr(container, '_src', None)
    if src in ('_times', '_dates', '_span'):
        kind = {'_times': 'TimeInterval', '_dates': 'DateInterval', '_span': 'DateTimeInterval'}[src]
        return interval_contains(kind)(ex, st, container, item)
    return None


def tag_field(name):
    """attr hook: remember which field an interval object was read from"""
    def h(ex, st, o):
        if not (isinstance(o, ZV) and o.kind in ('ref', 'val')): return None
        ref = o.z if o.kind == 'ref' else Val.ref(o.z)
        v = st.read(name, ref)
        v._src = name
        return [(st, v)]
    return h


ATTRS = dict(DT_ATTRS, _times=tag_field('_times'), _dates=tag_field('_dates'), _span=tag_field('_span'))


# ---- TimeDate.recalc ----------------------------------------------------------------------------------------------------------------------
def td_P(S, me, now):
    """from the statement: True exactly when something is configured and time of day, date and weekday all match what is configured"""
    t, d, w = S.f('_times', me), S.f('_dates', me), S.f('_weekdays', me)
    configured = Or(t != Val.VNone, d != Val.VNone, w != Val.VNone)
    return And(configured,
               Or(t == Val.VNone, in_interval(S, 'TimeInterval', Val.ref(t), dt_time_of(now))),
               Or(d == Val.VNone, in_interval(S, 'DateInterval', Val.ref(d), mk_date(IntVal(404), dt_month(now), dt_day(now)))),
               Or(w == Val.VNone, fs_member(Val.fk(w), Val.I(dt_iso(now)))))


def td_config_wf(S, me):
    t, d, w = S.f('_times', me), S.f('_dates', me), S.f('_weekdays', me)
    return And(Or(t == Val.VNone, And(Val.is_Obj(t), interval_wf(S, Val.ref(t)), Not(S.f('_RCLOSED_INTERVAL', Val.ref(t))))),
               Or(d == Val.VNone, And(Val.is_Obj(d), interval_wf(S, Val.ref(d)), S.f('_RCLOSED_INTERVAL', Val.ref(d)))),
               Or(w == Val.VNone, Val.is_FS(w)))


@contract('TimeDate.recalc', qual=QT + 'TimeDate.recalc', params={'now': VAL}, modifies=DELIVERY, self_cls='TimeDate',
          traced=lambda a, st: rec('recalc', to_val(a['self'], st), to_val(a['now'], st)))
def _td_recalc(c):
    me, now = c.z('self'), c.v('now')
    c.requires('a_datetime', datetime_ok(now))
    c.requires('configuration', td_config_wf(c.S, me))
    c.raises('DeliveryError', unchanged=False, label='delivery_of_an_output_event_failed')
    if c.verifying:
        c.expect_trace(lambda k: rec('set_output', Val.Obj(me), Val.B(td_P(c.S, me, now))), 1)
    else:
        c.ensures('output_follows_the_configuration', c.post('_output', me) == set_output_result(c.pre('_output', me), Val.B(td_P(c.S, me, now))))


@contract('TimeSpan.recalc', qual=QT + 'TimeSpan.recalc', params={'now': VAL}, modifies=DELIVERY, self_cls='TimeSpan',
          traced=lambda a, st: rec('recalc', to_val(a['self'], st), to_val(a['now'], st)))
def _ts_recalc(c):
    me, now = c.z('self'), c.v('now')
    sp = c.pre('_span', me)
    c.requires('configuration', And(Val.is_Obj(sp), interval_wf(c.S, Val.ref(sp)), Not(c.pre('_RCLOSED_INTERVAL', Val.ref(sp)))))
    c.raises('DeliveryError', unchanged=False, label='delivery_of_an_output_event_failed')
    inside = in_interval(c.S, 'DateTimeInterval', Val.ref(sp), now)
    if c.verifying:
        c.expect_trace(lambda k: rec('set_output', Val.Obj(me), Val.B(inside)), 1)
    else:
        c.ensures('output_true_iff_now_is_inside_a_range', c.post('_output', me) == set_output_result(c.pre('_output', me), Val.B(inside)))


def verify_recalc(run):
    H = {'attr': ATTRS, 'contains': td_contains}
    run.verify('TimeDate._is_configured', cls='TimeDate', hooks=H)
    run.verify('TimeDate.recalc', cls='TimeDate', hooks=H,
               calls={'now.time': now_time, 'now.isoweekday': now_isoweekday, 'now.weekday': now_weekday})
    run.verify('TimeSpan.recalc', cls='TimeSpan', hooks=H)


@contract('TimeDate._is_configured', qual=QT + 'TimeDate._is_configured', modifies=(), self_cls='TimeDate')
def _td_is_configured(c):
    me = c.z('self')
    t, d, w = c.pre('_times', me), c.pre('_dates', me), c.pre('_weekdays', me)
    c.ensures('something_is_configured', c.rv == Val.B(Or(t != Val.VNone, d != Val.VNone, w != Val.VNone)))


# ---- utils.flag.Flag ---------------------------------------------------------------------------------------------------------------------------
declare_fields(_value=BOOL, _utc=BOOL, _alarms=Map(VAL, REFSET), _needs_reload=Ref('Flag'), _mtask=VAL, _queue=Ref('WakeQueue'), wq_len=INT)
QF = 'edzed.utils.flag:Flag.'
import pyvc.values as _values
_values.TRUTH_BY_CLASS['Flag'] = lambda st, ref: st.readz('_value', ref)          # Flag.__bool__ (verified below)


@contract('Flag.__bool__', qual=QF + '__bool__', modifies=(), self_cls='Flag')
def _flag_bool(c):
    c.ensures('the_value', c.rv == Val.B(c.pre('_value', c.z('self'))))


@contract('Flag.set', qual=QF + 'set', modifies=('_value',), self_cls='Flag', params={'value': VAL})
def _flag_set(c):
    me = c.z('self'); v = truthy(c.v('value'))
    c.ensures('assigned', And(c.post_whole('_value') == Store(c.pre_whole('_value'), me, v), c.rv == Val.B(v)))


@contract('Flag.test_clear', qual=QF + 'test_clear', modifies=('_value',), self_cls='Flag')
def _flag_test_clear(c):
    me = c.z('self')
    c.ensures('returns_the_old_value_and_clears', And(c.post_whole('_value') == Store(c.pre_whole('_value'), me, BoolVal(False)),
                                                      c.rv == Val.B(c.pre('_value', me))))


@contract('Flag.OR', qual=QF + 'OR', modifies=('_value',), self_cls='Flag', params={'other': VAL})
def _flag_or(c):
    me = c.z('self'); nv = Or(c.pre('_value', me), truthy(c.v('other')))
    c.ensures('or_with_the_argument', And(c.post_whole('_value') == Store(c.pre_whole('_value'), me, nv), c.rv == Val.B(nv)))


def verify_flag(run):
    for k in ('Flag.__bool__', 'Flag.set', 'Flag.test_clear', 'Flag.OR'): run.verify(k, cls='Flag')


def new_flag(ex, e, st):
    outs = []
    for s1, vals in ex.evs(e.args, st):
        s1 = s1.copy(); f = fresh('flag', IntSort())
        for other in s1.ghost.get('flags', ()): s1.assume(f != other)          # a new object
        s1.ghost['flags'] = tuple(s1.ghost.get('flags', ())) + (f,)
        s1.heap['_value'] = Store(s1.comp('_value', BoolSort()), f, truth(vals[0], s1))
        outs.append((s1, ZV('ref', f, 'Flag')))
    return outs


# ---- Cron: registrations ------------------------------------------------------------------------------------------------------------------------
QC = 'edzed.blocklib.cron:Cron.'
t_tzinfo = Function('t_tzinfo', Val, Val)
t_naive = Function('t_naive', Val, Val)            # t.replace(tzinfo=None)
is_time = Function('is_time', Val, BoolSort())     # isinstance(x, datetime.time)
in_set24 = Function('in_set24', Val, BoolSort())   # x in _SET24: a full hour
UTC = Const('dt_timezone_utc', Val)


def time_isinstance(ex, st, v, cls):
    import datetime as _dt
    if cls is _dt.time: return is_time(to_val(v, st))
    return None
calls.ISINSTANCE_HOOKS.append(time_isinstance)


def tz_attr(ex, st, o):
    if isinstance(o, ZV) and o.kind == 'val': return [(st, ZV('val', t_tzinfo(o.z)))]
    return None


def utc_attr(ex, st, o):
    """dt.timezone.utc"""
    if isinstance(o, PConst): return [(st, ZV('val', UTC))]
    return None


def time_replace(ex, e, st):
    outs = []
    for s1, v in ex.ev(e.func.value, st):
        z = to_val(v, s1); s1 = s1.copy(); s1.assume(t_tzinfo(t_naive(z)) == Val.VNone, is_time(t_naive(z)))
        outs.append((s1, ZV('val', t_naive(z))))
    return outs


def set24_contains(ex, st, container, item):
    if isinstance(container, PConst) and isinstance(container.obj, frozenset) and len(container.obj) == 24:
        return [(st, in_set24(to_val(item, st)))]
    return None


@contract('Cron._check_tz', qual=QC + '_check_tz', modifies=(), self_cls='Cron', params={'time_of_day': VAL})
def _check_tz(c):
    me, t = c.z('self'), c.v('time_of_day')
    naive = t_tzinfo(t) == Val.VNone
    utc_ok = And(py_eq(t_tzinfo(t), UTC), c.pre('_utc', me))
    c.raises('TypeError', when=Not(is_time(t)), iff=True, label='not_a_time')
    c.raises('ValueError', when=And(is_time(t), Not(naive), Not(utc_ok)), iff=True, label='has_a_timezone')
    c.ensures('a_naive_time', And(is_time(c.rv), t_tzinfo(c.rv) == Val.VNone, c.rv == If(naive, t, t_naive(t))))


def alarms(S, me): return S.f('_alarms', me)
O_RS = OptOf(RefSet)


def registered(S, cron, t, b):
    """block b is registered for the time of day t"""
    cell = alarms(S, cron)[t]
    return And(O_RS.is_Some(cell), O_RS.v(cell)[b])


@contract('Cron.add_block', qual=QC + 'add_block', modifies=('_alarms', '_value'), self_cls='Cron', params={'time_of_day': VAL, 'blk': Ref('SBlock')},
          traced=lambda a, st: rec('add_block', to_val(a['self'], st), to_val(a['time_of_day'], st), to_val(a['blk'], st)))
def _add_block(c):
    me, t, blk = c.z('self'), c.v('time_of_day'), c.z('blk')
    c.requires('a_naive_time', And(is_time(t), t_tzinfo(t) == Val.VNone))
    c.requires('no_empty_sets_in_the_table', alarms_wf(c.S, me))
    c.raises('TypeError', when=Not(has_recalc(blk)), iff=True, label='not_a_cron_client')
    x, y = Const('x!ab', Val), Int('y!ab')
    old = alarms(c.S, me); new = alarms(c.T, me)
    was = O_RS.is_Some(old[t])
    c.ensures('registered_and_nothing_else_changed',
              new == Store(old, t, O_RS.Some(Store(If(was, O_RS.v(old[t]), K(IntSort(), BoolVal(False))), blk, BoolVal(True)))))
    fl = c.pre('_needs_reload', me)
    c.ensures('a_new_time_that_is_not_a_full_hour_needs_a_reload', c.post('_value', fl) == Or(c.pre('_value', fl), And(Not(was), Not(in_set24(t)))))
    c.ensures('table_well_formed', alarms_wf(c.T, me))


def alarms_wf(S, me):
    """no time is kept with an empty set of blocks"""
    x = Const('x!wf', Val); y = Int('y!wf')
    a = alarms(S, me)
    return ForAll([x], Implies(O_RS.is_Some(a[x]), Exists([y], O_RS.v(a[x])[y])))


has_recalc = Function('has_recalc', IntSort(), BoolSort())


def hasattr_recalc(ex, e, st):
    outs = []
    for s1, vals in ex.evs(e.args, st):
        outs.append((s1, ZV('bool', has_recalc(as_kind(vals[0], Ref(), s1)))))
    return outs


@contract('Cron.remove_block', qual=QC + 'remove_block', modifies=('_alarms', '_value'), self_cls='Cron', params={'time_of_day': VAL, 'blk': Ref('SBlock')},
          traced=lambda a, st: rec('remove_block', to_val(a['self'], st), to_val(a['time_of_day'], st), to_val(a['blk'], st)))
def _remove_block(c):
    me, t, blk = c.z('self'), c.v('time_of_day'), c.z('blk')
    c.requires('a_naive_time', And(is_time(t), t_tzinfo(t) == Val.VNone))
    c.requires('no_empty_sets_in_the_table', alarms_wf(c.S, me))
    old = alarms(c.S, me); new = alarms(c.T, me)
    was = O_RS.is_Some(old[t])
    rest = Store(O_RS.v(old[t]), blk, BoolVal(False))
    y = Int('y!rb')
    empty = Not(Exists([y], rest[y]))
    c.ensures('unregistered_and_nothing_else_changed',
              new == If(was, Store(old, t, If(empty, O_RS.Absent, O_RS.Some(rest))), old))
    fl = c.pre('_needs_reload', me)
    c.ensures('a_removed_time_that_is_not_a_full_hour_needs_a_reload', c.post('_value', fl) == Or(c.pre('_value', fl), And(was, empty, Not(in_set24(t)))))
    c.ensures('table_well_formed', alarms_wf(c.T, me))


@contract('WakeQueue.put_nowait', modifies=('wq_len',), result=None, sig=([Param('self', Ref()), Param('item', VAL)], None, None),
          trusted='asyncio.Queue.put_nowait', traced=lambda a, st: rec('wake', to_val(a['self'], st)))
def _wq_put(c):
    q = c.z('self')
    c.ensures('one_more_wake_up', c.post_whole('wq_len') == Store(c.pre_whole('wq_len'), q, c.pre('wq_len', q) + 1))


@contract('Cron.reload', qual=QC + 'reload', modifies=('_value', 'wq_len'), self_cls='Cron',
          traced=lambda a, st: rec('reload', to_val(a['self'], st)))
def _reload(c):
    me = c.z('self')
    fl = c.pre('_needs_reload', me); q = c.pre('_queue', me)
    wake = And(c.pre('_value', fl), c.pre('_mtask', me) != Val.VNone)
    c.ensures('flag_cleared', Not(c.post('_value', fl)))
    c.ensures('the_task_is_woken_up_iff_a_reload_is_needed_and_it_runs', c.post('wq_len', q) == c.pre('wq_len', q) + If(wake, 1, 0))


def verify_cron_registration(run):
    H = {'attr': {'tzinfo': tz_attr, 'utc': utc_attr}, 'contains': set24_contains}
    run.verify('Cron._check_tz', cls='Cron', hooks=dict(H, opaque_fstrings=True), calls={'time_of_day.replace': time_replace})
    run.verify('Cron.add_block', cls='Cron', hooks=H, calls={'hasattr': hasattr_recalc})
    run.verify('Cron.remove_block', cls='Cron', hooks=H)
    run.verify('Cron.reload', cls='Cron', hooks=H)


# ---- TimeDate._event_reconfig / TimeSpan._event_reconfig -------------------------------------------------------------------------------------------
endpoints = Function('endpoints', IntSort(), ValSet)          # <interval object>.range_endpoints(): all start and stop values
MIDNIGHT = Const('time_0_0_0', Val)
parse3_result = Function('parse3_result', Val, Val, Val, IntSort(), Val)     # _parse3(times, dates, weekdays)[i]
dtnow_of = Function('dtnow_of', IntSort(), RealSort(), Val)   # the datetime shown by the clock of a cron block at an instant


def endpoints_ok(S, iv_obj):
    """class invariant of TimeInterval: the endpoints are naive time-of-day values"""
    x = Const('x!eo', Val)
    return ForAll([x], Implies(endpoints(iv_obj)[x], And(is_time(x), t_tzinfo(x) == Val.VNone)))


def range_endpoints_call(ex, e, st):
    outs = []
    for s1, v in ex.ev(e.func.value, st):
        outs.append((s1, PSet(endpoints(Val.ref(to_val(v, s1))), 'val')))
    return outs


def midnight_call(ex, e, st):
    st = st.copy(); st.assume(is_time(MIDNIGHT), t_tzinfo(MIDNIGHT) == Val.VNone, in_set24(MIDNIGHT))
    return [(st, ZV('val', MIDNIGHT))]


def parse3_call(ex, e, st):
    """self._parse3(times, dates, weekdays) (C13): three parsed parts, each None or a well-formed object; may raise"""
    outs = []
    for s1, vals in ex.evs(e.args, st):
        a = [to_val(v, s1) for v in vals]
        ok = s1.copy(); ex.emit(ok, rec('_parse3'))
        pt, pd, pw = (parse3_result(a[0], a[1], a[2], IntVal(i)) for i in range(3))
        for f in ('_interval', '_RCLOSED_INTERVAL'): ok.havoc_field(f)          # new interval objects
        T = View(ok)
        ok.assume(Or(pt == Val.VNone, And(Val.is_Obj(pt), interval_wf(T, Val.ref(pt)), Not(T.f('_RCLOSED_INTERVAL', Val.ref(pt))), endpoints_ok(T, Val.ref(pt)))),
                  Or(pd == Val.VNone, And(Val.is_Obj(pd), interval_wf(T, Val.ref(pd)), T.f('_RCLOSED_INTERVAL', Val.ref(pd)))),
                  Or(pw == Val.VNone, Val.is_FS(pw)))
        outs.append((ok, PTuple([ZV('val', pt), ZV('val', pd), ZV('val', pw)])))
        for cls in ('ValueError', 'TypeError'):
            bad = s1.copy(); ex.emit(bad, rec('_parse3')); bad.label(f'_parse3:{cls}')
            outs.append((bad, Raise(PExc(cls, val=Val.Obj(fresh('exc', IntSort())), where='callee'))))
    return outs


def cron_dtnow(ex, e, st):
    """self._cron.dtnow(): the current date-time of the cron's clock (local or UTC)"""
    me = as_kind(st.env['self'], Ref(), st)
    now = fresh('now', Val); st = st.copy(); st.assume(datetime_ok(now)); st.ghost['now_value'] = now
    ex.emit(st, rec('dtnow', Val.Obj(st.readz('_cron', me))))
    return [(st, ZV('val', now))]


TD_EFFECTS = tuple(dict.fromkeys(DELIVERY + ('_times', '_dates', '_weekdays', '_alarms', '_value', 'wq_len', '_interval', '_RCLOSED_INTERVAL')))


@contract('TimeDate._event_reconfig', qual=QT + 'TimeDate._event_reconfig', modifies=TD_EFFECTS, self_cls='TimeDate')
def _td_reconfig(c):
    me = c.z('self')
    cron = c.pre('_cron', me)
    old_t = c.pre('_times', me)
    c.requires('configuration', And(td_config_wf(c.S, me), Implies(old_t != Val.VNone, endpoints_ok(c.S, Val.ref(old_t)))))
    c.requires('cron_table_well_formed', alarms_wf(c.S, cron))
    c.requires('a_cron_client', has_recalc(me))
    c.raises('ValueError', unchanged=False, label='bad_interval_specification')
    c.raises('TypeError', unchanged=False, label='bad_interval_specification')
    c.raises('DeliveryError', unchanged=False, label='delivery_of_an_output_event_failed')
    if not c.verifying: return
    new_t = c.post('_times', me)
    x = Const('x!rc', Val)
    c.ensures('registered_for_every_endpoint_of_the_new_times', Implies(new_t != Val.VNone,
              ForAll([x], Implies(endpoints(Val.ref(new_t))[x], registered(c.T, cron, x, me)))))
    c.ensures('registered_for_midnight', registered(c.T, cron, MIDNIGHT, me))          # the date and the weekday change at midnight
    c.ensures('output_follows_the_new_configuration_now', c.post('_output', me) ==
              set_output_result(c.T.g('output_before_recalc'), Val.B(td_P(c.T, me, c.T.g('now_value')))))
    def expected(k, r, st):
        g = st.ghost
        fn = z3.simplify(Rec.fn(r)).as_string()
        t = Rec.a0(r)
        if fn == 'remove_block':
            goals = [('old_registrations_are_removed_first', And(g['phase'] == 0, Rec.recv(r) == Val.Obj(cron), Rec.a1(r) == Val.Obj(me),
                                                                 old_t != Val.VNone, endpoints(Val.ref(old_t))[t]))]
            return goals
        if fn == '_parse3':
            goals = [('then_the_new_configuration_is_parsed', g['phase'] == 0)]; g['phase'] = 1
            return goals
        if fn == 'add_block':
            nt = st.readz('_times', me)
            goals = [('registrations_for_the_new_endpoints_and_midnight', And(g['phase'] == 1, Rec.recv(r) == Val.Obj(cron), Rec.a1(r) == Val.Obj(me),
                                                                             Or(t == MIDNIGHT, And(nt != Val.VNone, endpoints(Val.ref(nt))[t]))))]
            return goals
        if fn == 'reload':
            goals = [('cron_is_reloaded_after_the_last_change', And(g['phase'] == 1, Rec.recv(r) == Val.Obj(cron)))]; g['phase'] = 2
            return goals
        if fn == 'dtnow':
            goals = [('the_clock_is_read_once', BoolVal(not g['clock']))]; g['clock'] = True        # (when it is read does not matter)
            return goals
        if fn == 'recalc':
            goals = [('output_recomputed_for_the_current_time_after_the_reload', And(g['phase'] == 2, BoolVal(g['clock']), Rec.recv(r) == Val.Obj(me), Rec.a0(r) == g['now_value']))]
            g['phase'] = 4; g['output_before_recalc'] = st.readz('_output', me)
            return goals
        return [('no_other_call', BoolVal(False))]
    c.expect_trace(expected, None, normal_len=None, predicate=True)
    c.ensures('all_steps_done', c.T.g('phase') == 4)


def inv_td_remove(lc):
    me = as_kind(lc.pre.args['self'], Ref()); cron = lc.pre.f('_cron', me)
    st = lc.st
    return [('table_well_formed', alarms_wf(st, cron)),
            ('nothing_else_changed', And(st.f('_times', me) == lc.pre.f('_times', me), st.f('_cron', me) == cron, st.st.ghost['phase'] == 0,
                                         st.f('_needs_reload', cron) == lc.pre.f('_needs_reload', cron)))]


def inv_td_add(lc):
    me = as_kind(lc.pre.args['self'], Ref()); cron = lc.pre.f('_cron', me)
    st = lc.st; x = Const('x!ia', Val)
    return [('table_well_formed', alarms_wf(st, cron)),
            ('visited_endpoints_are_registered', ForAll([x], Implies(lc.done[x], registered(st, cron, x, me)))),
            ('nothing_else_changed', And(st.f('_times', me) == lc.entry.f('_times', me), st.f('_dates', me) == lc.entry.f('_dates', me),
                                         st.f('_weekdays', me) == lc.entry.f('_weekdays', me), st.f('_cron', me) == cron, st.st.ghost['phase'] == 1,
                                         st.whole('_interval') == lc.entry.whole('_interval'), st.whole('_RCLOSED_INTERVAL') == lc.entry.whole('_RCLOSED_INTERVAL'),
                                         st.whole('_output') == lc.entry.whole('_output'),
                                         st.f('_needs_reload', cron) == lc.pre.f('_needs_reload', cron)))]


def verify_reconfig(run):
    H = {'attr': ATTRS, 'contains': td_contains}
    G = {'phase': 0, 'clock': False, 'now_value': Const('now0', Val), 'output_before_recalc': Const('out0', Val)}
    run.verify('TimeDate._event_reconfig', cls='TimeDate', hooks=H, ghost=G,
               invariants={'for time_of_day in self._times.range_endpoints()': inv_td_remove,
                           'for time_of_day in self._times.range_endpoints()#1': inv_td_add},
               calls={'self._times.range_endpoints': range_endpoints_call, 'self._parse3': parse3_call, 'dt.time': midnight_call,
                      'self._cron.dtnow': cron_dtnow})


new_span = Function('new_span', Val, Val)          # ti.DateTimeInterval(span) (C13)


def dti_call(ex, e, st):
    outs = []
    for s1, vals in ex.evs(e.args, st):
        a = to_val(vals[0], s1)
        ok = s1.copy(); ex.emit(ok, rec('DateTimeInterval'))
        for f in ('_interval', '_RCLOSED_INTERVAL'): ok.havoc_field(f)
        sp = new_span(a); T = View(ok)
        ok.assume(Val.is_Obj(sp), interval_wf(T, Val.ref(sp)), Not(T.f('_RCLOSED_INTERVAL', Val.ref(sp))))
        outs.append((ok, ZV('val', sp)))
        for cls in ('ValueError', 'TypeError'):
            bad = s1.copy(); ex.emit(bad, rec('DateTimeInterval')); bad.label(f'DateTimeInterval:{cls}')
            outs.append((bad, Raise(PExc(cls, val=Val.Obj(fresh('exc', IntSort())), where='callee'))))
    return outs


def span_endpoint_times_ok(iv_obj):
    x = Const('x!se', Val)
    return ForAll([x], Implies(endpoints(iv_obj)[x], And(is_time(dt_time_of(x)), t_tzinfo(dt_time_of(x)) == Val.VNone)))


def ts_dtnow(ex, e, st):
    outs = []
    for s1, r in cron_dtnow(ex, e, st): outs.append((s1, r))
    return outs


TS_EFFECTS = tuple(dict.fromkeys(DELIVERY + ('_span', '_alarms', '_value', 'wq_len', '_interval', '_RCLOSED_INTERVAL')))


@contract('TimeSpan._event_reconfig', qual=QT + 'TimeSpan._event_reconfig', modifies=TS_EFFECTS, self_cls='TimeSpan')
def _ts_reconfig(c):
    me = c.z('self')
    cron = c.pre('_cron', me)
    old = c.pre('_span', me)
    c.requires('configuration', And(Val.is_Obj(old), interval_wf(c.S, Val.ref(old)), span_endpoint_times_ok(Val.ref(old))))
    c.requires('cron_table_well_formed', alarms_wf(c.S, cron))
    c.requires('a_cron_client', has_recalc(me))
    c.requires('endpoints_of_any_span_have_naive_times', span_endpoint_times_ok(Val.ref(new_span(c.v('span')))))
    c.raises('ValueError', unchanged=False, label='bad_interval_specification')
    c.raises('TypeError', unchanged=False, label='bad_interval_specification')
    c.raises('DeliveryError', unchanged=False, label='delivery_of_an_output_event_failed')
    if not c.verifying: return
    new = c.post('_span', me)
    x = Const('x!rs', Val)
    now = c.T.g('now_value')
    c.ensures('registered_for_the_time_of_every_endpoint_that_is_not_in_the_past',
              ForAll([x], Implies(And(endpoints(Val.ref(new))[x], dtkey(dt_date_of(x)) >= dtkey(dt_date_of(now))), registered(c.T, cron, dt_time_of(x), me))))
    c.ensures('output_follows_the_new_span_now', c.post('_output', me) ==
              set_output_result(c.T.g('output_before_recalc'), Val.B(in_interval(c.T, 'DateTimeInterval', Val.ref(new), now))))
    def expected(k, r, st):
        g = st.ghost
        fn = z3.simplify(Rec.fn(r)).as_string()
        if fn == 'remove_block':
            return [('old_registrations_are_removed_first', And(g['phase'] == 0, not g['parsed'], Rec.recv(r) == Val.Obj(cron), Rec.a1(r) == Val.Obj(me)))]
        if fn == 'DateTimeInterval':
            goals = [('the_new_span_is_parsed_once', And(g['phase'] == 0, not g['parsed']))]; g['parsed'] = True
            return goals
        if fn == 'dtnow':
            goals = [('the_clock_is_read_once_for_registration_and_output', And(g['phase'] == 0, not g['clock']))]; g['clock'] = True
            return goals
        if fn == 'add_block':
            return [('registrations_for_the_new_endpoints', And(g['phase'] == 0, g['parsed'], g['clock'], Rec.recv(r) == Val.Obj(cron), Rec.a1(r) == Val.Obj(me)))]
        if fn == 'reload':
            goals = [('cron_is_reloaded_after_the_last_change', And(g['phase'] == 0, g['parsed'], g['clock'], Rec.recv(r) == Val.Obj(cron)))]; g['phase'] = 3
            return goals
        if fn == 'recalc':
            goals = [('output_recomputed_for_the_same_instant', And(g['phase'] == 3, Rec.recv(r) == Val.Obj(me), Rec.a0(r) == g['now_value']))]
            g['phase'] = 4; g['output_before_recalc'] = st.readz('_output', me)
            return goals
        return [('no_other_call', BoolVal(False))]
    c.expect_trace(expected, None, normal_len=None, predicate=True)
    c.ensures('all_steps_done', c.T.g('phase') == 4)


def inv_ts_remove(lc):
    me = as_kind(lc.pre.args['self'], Ref()); cron = lc.pre.f('_cron', me)
    st = lc.st
    return [('table_well_formed', alarms_wf(st, cron)),
            ('nothing_else_changed', And(st.f('_span', me) == lc.pre.f('_span', me), st.f('_cron', me) == cron, st.st.ghost['phase'] == 0, BoolVal(not st.st.ghost['parsed']),
                                         st.f('_needs_reload', cron) == lc.pre.f('_needs_reload', cron)))]


def inv_ts_add(lc):
    me = as_kind(lc.pre.args['self'], Ref()); cron = lc.pre.f('_cron', me)
    st = lc.st; x = Const('x!ja', Val)
    now = st.st.ghost['now_value']
    extra = []
    if z3.is_store(lc.done):
        # (preservation only) the clause below, instantiated for the endpoint just visited: a quantifier-free obligation
        x1 = lc.done.arg(1)
        extra = [('qf:the_endpoint_just_visited_is_registered_unless_it_is_in_the_past',
                  Implies(dtkey(dt_date_of(x1)) >= dtkey(dt_date_of(now)), registered(st, cron, dt_time_of(x1), me)))]
    return extra + [('table_well_formed', alarms_wf(st, cron)),
            ('visited_future_endpoints_are_registered', ForAll([x], Implies(And(lc.done[x], dtkey(dt_date_of(x)) >= dtkey(dt_date_of(now))),
                                                                         registered(st, cron, dt_time_of(x), me)))),
            ('nothing_else_changed', And(st.f('_span', me) == lc.entry.f('_span', me), st.f('_cron', me) == cron, st.st.ghost['phase'] == 0, BoolVal(st.st.ghost['parsed'] and st.st.ghost['clock']),
                                         st.whole('_interval') == lc.entry.whole('_interval'), st.whole('_RCLOSED_INTERVAL') == lc.entry.whole('_RCLOSED_INTERVAL'),
                                         st.whole('_output') == lc.entry.whole('_output'), now == lc.entry.st.ghost['now_value'],
                                         st.f('_needs_reload', cron) == lc.pre.f('_needs_reload', cron)))]


def verify_ts_reconfig(run):
    H = {'attr': ATTRS, 'contains': td_contains, 'order': c13.order_hook}
    G = {'phase': 0, 'parsed': False, 'clock': False, 'now_value': Const('now0', Val), 'output_before_recalc': Const('out0', Val)}
    run.verify('TimeSpan._event_reconfig', cls='TimeSpan', hooks=H, ghost=G,
               invariants={'for datetime in self._span.range_endpoints()': inv_ts_remove,
                           'for datetime in self._span.range_endpoints()#1': inv_ts_add},
               calls={'self._span.range_endpoints': range_endpoints_call, 'ti.DateTimeInterval': dti_call, 'self._cron.dtnow': ts_dtnow,
                      'datetime.time': now_time, 'datetime.date': now_date, 'now.date': now_date})


# ---- Cron._maintask: the scheduler loop ---------------------------------------------------------------------------------------------------------------
t_hour = Function('t_hour', Val, IntSort()); t_min = Function('t_min', Val, IntSort())
t_sec = Function('t_sec', Val, IntSort()); t_us = Function('t_us', Val, IntSort())
DAY = 86400


def time_ok_v(t): return And(0 <= t_hour(t), t_hour(t) < 24, 0 <= t_min(t), t_min(t) < 60, 0 <= t_sec(t), t_sec(t) < 60, 0 <= t_us(t), t_us(t) < 1000000)


def tod(t):
    """seconds since midnight (a real number)"""
    return ToReal(3600 * t_hour(t) + 60 * t_min(t) + t_sec(t)) + ToReal(t_us(t)) / 1000000


def cyc(d):
    """a time-of-day difference taken the short way round the clock: into (-12 h, +12 h]"""
    return If(d > DAY / 2, d - DAY, If(d <= -DAY / 2, d + DAY, d))


def time_attr(fn):
    def h(ex, st, o):
        if isinstance(o, ZV) and o.kind == 'val': return [(st, ZV('int', fn(o.z)))]
        return None
    return h


def mt_dtnow(ex, e, st):
    """self.dtnow(): whatever the system clock shows now (it may have been stepped)"""
    d = fresh('nowdt', Val); st = st.copy()
    st.ghost['in_reset'] = False
    st.assume(datetime_ok(d), time_ok_v(dt_time_of(d)))
    return [(st, ZV('val', d))]


def mt_sorted(ex, e, st):
    """sorted(_SET24.union(self._alarms)): the full hours and the alarm times, strictly increasing"""
    me = as_kind(st.env['self'], Ref(), st)
    tt = fresh('timetable', SeqArr); n = fresh('tlen', IntSort())
    i, j = Int('i!tt'), Int('j!tt')
    st = st.copy()
    a = alarms(View(st), me)
    st.assume(n >= 24,
              ForAll([i], Implies(And(0 <= i, i < n), And(time_ok_v(tt[i]), Or(in_set24(tt[i]), O_RS.is_Some(a[tt[i]]))))),
              ForAll([i, j], Implies(And(0 <= i, i < j, j < n), tod(tt[i]) < tod(tt[j]))))
    return [(st, PSeq(tt, n, 'val', True))]


def mt_bisect(ex, e, st):
    outs = []
    for s1, vals in ex.evs(e.args, st):
        arr, n = seq_of(vals[0], s1); x = to_val(vals[1], s1)
        r = fresh('bis', IntSort()); j = Int('j!bs'); s1 = s1.copy()
        s1.assume(0 <= r, r <= n, ForAll([j], Implies(And(0 <= j, j < n), (tod(arr[j]) < tod(x)) == (j < r))))
        outs.append((s1, ZV('int', r)))
    return outs


def mt_recalc(ex, e, st):
    blk = as_kind(st.env['blk'], Ref(), st)
    outs = []
    for s1, vals in ex.evs(e.args, st):
        s1 = s1.copy(); ex.emit(s1, rec('recalc', Val.Obj(blk), to_val(vals[0], s1)))
        for f in DELIVERY: s1.havoc_field(f)
        outs.append((s1, P_NONE))
        bad = s1.copy(); bad.label('recalc:raises')
        outs.append((bad, Raise(PExc('DeliveryError', val=Val.Obj(fresh('exc', IntSort())), where='callee'))))
    return outs


def mt_all_blocks(ex, e, st):
    """set.union(*self._alarms.values()): all registered blocks; TypeError when there is no alarm at all (no argument)"""
    me = as_kind(st.env['self'], Ref(), st)
    a = alarms(View(st), me)
    x, b = Const('x!ub', Val), Int('b!ub')
    some = Exists([x], O_RS.is_Some(a[x]))
    st = st.copy(); st.ghost['in_reset'] = True
    # set.union() needs at least one argument: decided from the quantifier-free path facts and the table invariant alone
    slim = st.copy(); slim.pc = [f for f in st.pc if not has_quant(f)] + [alarms_wf(View(st), me)]
    ex.oblige('call:set.union/pre:at_least_one_set_is_given', slim, some, kind='pre')
    ok = st.copy(); ok.assume(some)
    bad = st.copy(); bad.assume(Not(some)); bad.label('set.union:no_argument')
    outs = []
    if ex.feasible(ok): outs.append((ok, PSet(z3.Lambda([b], Exists([x], And(O_RS.is_Some(a[x]), O_RS.v(a[x])[b]))), 'ref')))
    if ex.feasible(bad): outs.append((bad, Raise(PExc('TypeError', val=Val.Obj(fresh('exc', IntSort())), where='call'))))
    return outs


def mt_set_union0(ex, e, st):
    """set().union(*self._alarms.values()): all registered blocks (the empty set when there is no alarm)"""
    me = as_kind(st.env['self'], Ref(), st)
    a = alarms(View(st), me)
    x, b = Const('x!uc', Val), Int('b!uc')
    st = st.copy(); st.ghost['in_reset'] = True
    return [(st, PSet(z3.Lambda([b], Exists([x], And(O_RS.is_Some(a[x]), O_RS.v(a[x])[b]))), 'ref'))]


def mt_list(ex, e, st):
    """list(self._alarms[wakeup]): a snapshot of the set (iterated in some order)"""
    outs = []
    for s1, vals in ex.evs(e.args, st):
        outs.append((s1, vals[0]))
    return outs


def mt_sleep(kind):
    def h(ex, node, st):
        outs = []
        args = node.args if kind != 'wait_for' else node.args[1:]
        for s1, vals in ex.evs(args, st):
            s1 = s1.copy(); d = as_kind(vals[0], REAL, s1)
            ex.emit(s1, rec('sleep', a0=Val.R(d), a1=S_(kind)))
            for f in ('_alarms', 'wq_len', '_value') + DELIVERY: s1.havoc_field(f)          # other tasks: reconfigurations
            me = as_kind(s1.env['self'], Ref(), s1)
            s1.assume(alarms_wf(View(s1), me))
            # the task-local flags are not visible to other tasks
            for name in ('reset', 'reload'):
                fl = as_kind(st.env[name], Ref(), st)
                s1.heap['_value'] = Store(s1.heap['_value'], fl, st.readz('_value', fl))
            if kind == 'wait_for':
                a = s1.copy(); a.label('woken_for_reload'); outs.append((a, ZV('val', Val.VNone)))
                b = s1.copy(); b.label('timeout'); outs.append((b, Raise(PExc('TimeoutError', val=Val.Obj(fresh('exc', IntSort())), where='callee'))))
            else:
                outs.append((s1, P_NONE))
            ca = s1.copy(); ca.label('cancelled'); outs.append((ca, Raise(PExc('CancelledError', val=Val.Obj(fresh('exc', IntSort())), where='callee'))))
        return outs
    return h


def mt_time_sleep(ex, e, st):
    outs = []
    for s1, vals in ex.evs(e.args, st):
        s1 = s1.copy(); ex.emit(s1, rec('sleep', a0=Val.R(as_kind(vals[0], REAL, s1)), a1=S_('blocking')))
        outs.append((s1, P_NONE))
    return outs


MT_EFFECTS = tuple(dict.fromkeys(DELIVERY + ('_alarms', 'wq_len', '_value')))


@contract('Cron._maintask', qual=QC + '_maintask', modifies=MT_EFFECTS, self_cls='Cron')
def _maintask(c):
    me = c.z('self')
    c.requires('table_well_formed', alarms_wf(c.S, me))
    c.ensures('never_returns', BoolVal(False))
    c.raises('CancelledError', unchanged=False, label='runs_until_cancelled')
    c.raises('DeliveryError', unchanged=False, label='a_block_failed_to_deliver_its_output_events')
    if not c.verifying: return
    def expected(k, r, st):
        g = st.ghost
        fn = z3.simplify(Rec.fn(r)).as_string()
        nowt = dt_time_of(to_val(st.env['nowdt'], st))
        wake = to_val(st.env['wakeup'], st)
        ahead = cyc(tod(wake) - tod(nowt))            # > 0: the wake-up time is still ahead; <= 0: it has been reached
        if fn == 'sleep':
            d = Val.r(Rec.a0(r))
            return [('qf:sleeps_only_while_the_wakeup_time_is_ahead_and_never_beyond_it',
                     Implies(And(ahead <= 3600, ahead >= -3600), And(ahead > 0, Implies(Rec.a1(r) != S_('wait_for'), d <= ahead))))]
        if fn == 'recalc':
            if g['in_reset']:
                return [('after_a_clock_problem_every_registered_block_is_recalculated_for_the_current_time', Rec.a0(r) == to_val(st.env['nowdt'], st))]
            return [('qf:scheduled_recalculation_happens_just_after_its_time', And(Rec.a0(r) == to_val(st.env['nowdt'], st), ahead <= 0, ahead >= -2.5)),
                    ('scheduled_recalculation_is_for_the_blocks_registered_for_that_time', registered(View(st), me, wake, Val.ref(Rec.recv(r))))]
        return [('no_other_call', BoolVal(False))]
    c.expect_trace(expected, None, normal_len=None, predicate=True)


def inv_maintask(lc):
    st = lc.st; s = st.st
    me = as_kind(lc.pre.args['self'], Ref())
    reload, reset = as_kind(lc.local('reload'), Ref(), s), as_kind(lc.local('reset'), Ref(), s)
    tt = lc.local('timetable'); idx = to_val(lc.local('index'), s)
    i, j = Int('i!im'), Int('j!im')
    out = [('alarm_table_well_formed', alarms_wf(st, me)),
           ('flags', And(reload != reset, Not(st.f('_value', reset)), reload == as_kind(lc.entry_local('reload'), Ref(), lc.entry.st),
                         reset == as_kind(lc.entry_local('reset'), Ref(), lc.entry.st)))]
    arr, n = seq_of(tt, s)
    tlen = to_val(lc.local('tlen'), s)
    rl = st.f('_value', reload)
    is_list = Val.is_T(tt.z) if isinstance(tt, ZV) and tt.kind == 'val' else BoolVal(True)
    out.append(('timetable_loaded_or_reload_pending', Or(rl, And(is_list, n >= 24, tlen == Val.I(n),
                                                              Or(idx == Val.VNone, And(Val.is_I(idx), 0 <= Val.i(idx), Val.i(idx) < n))))))
    out.append(('timetable_entries_are_times', Or(rl, ForAll([i], Implies(And(0 <= i, i < n), time_ok_v(arr[i]))))))
    out.append(('timetable_is_strictly_increasing', Or(rl, ForAll([i, j], Implies(And(0 <= i, i < j, j < n), tod(arr[i]) < tod(arr[j]))))))
    return out


def for_step(ex, s, st, it):
    """`for step in range(3)`: cut by an invariant instead of being unrolled (one generic step)"""
    from pyvc import loops
    jj = fresh('j', IntSort())
    return loops.for_seq(ex, s, st, PSeq(z3.Lambda([jj], Val.I(jj)), IntVal(3), 'val'))


def inv_steps(lc):
    st = lc.st; s = st.st
    me = as_kind(lc.pre.args['self'], Ref())
    reload, reset = as_kind(lc.local('reload'), Ref(), s), as_kind(lc.local('reset'), Ref(), s)
    nowdt, nowt, wake = to_val(lc.local('nowdt'), s), to_val(lc.local('nowt'), s), to_val(lc.local('wakeup'), s)
    tt = lc.local('timetable'); idx = to_val(lc.local('index'), s)
    arr, n = seq_of(tt, s); tlen = to_val(lc.local('tlen'), s)
    i, j = Int('i!is'), Int('j!is')
    e = lc.entry.st
    return [('step_two_always_ends_the_wait', lc.i <= 2),
            ('alarm_table_well_formed', alarms_wf(st, me)),
            ('flags_clear', And(reload != reset, Not(st.f('_value', reset)), Not(st.f('_value', reload)),
                                reload == as_kind(lc.entry_local('reload'), Ref(), e), reset == as_kind(lc.entry_local('reset'), Ref(), e))),
            ('the_clock_reading', And(datetime_ok(nowdt), nowt == dt_time_of(nowdt), time_ok_v(nowt))),
            ('the_wakeup_time_is_a_time', And(time_ok_v(wake), wake == to_val(lc.entry_local('wakeup'), e), idx == to_val(lc.entry_local('index'), e))),
            ('the_wakeup_time', And(Val.is_I(idx), 0 <= Val.i(idx), Val.i(idx) < n, wake == arr[Val.i(idx)])),
            ('timetable', And(n >= 24, tlen == Val.I(n), arr == seq_of(lc.entry_local('timetable'), e)[0], n == seq_of(lc.entry_local('timetable'), e)[1],
                              ForAll([i], Implies(And(0 <= i, i < n), time_ok_v(arr[i]))),
                              ForAll([i, j], Implies(And(0 <= i, i < j, j < n), tod(arr[i]) < tod(arr[j])))))]


def inv_reset_recalc(lc):
    st = lc.st
    me = as_kind(lc.pre.args['self'], Ref())
    return [('alarm_table_well_formed', alarms_wf(st, me)), ('in_reset', BoolVal(st.st.ghost['in_reset'] is True))]


def inv_sched_recalc(lc):
    st = lc.st
    me = as_kind(lc.pre.args['self'], Ref())
    return [('alarm_table_well_formed', alarms_wf(st, me))]


def verify_maintask(run):
    from pyvc import scan
    H = {'attr': {'hour': time_attr(t_hour), 'minute': time_attr(t_min), 'second': time_attr(t_sec), 'microsecond': time_attr(t_us),
                  'debug': lambda ex, st, o: [(st, PConst(False))]},
         'await': awaits({'asyncio.sleep(sleeptime)': mt_sleep('sleep'), 'asyncio.wait_for(*': mt_sleep('wait_for')})}
    run.verify('Cron._maintask', cls='Cron', hooks=H, ghost={'in_reset': False},
               invariants={'while True': inv_maintask, 'for step in range(3)': inv_steps, 'for blk in set.union(*self._alarms.values())': inv_reset_recalc,
                           'for blk in set().union(*self._alarms.values())': inv_reset_recalc,
                           'for blk in list(self._alarms[wakeup])': inv_sched_recalc},
               calls={'for:for step in range(3)': for_step, 'Flag': new_flag, 'sorted': mt_sorted, 'self.dtnow': mt_dtnow, 'nowdt.time': now_time, 'bisect.bisect_left': mt_bisect,
                      'time.sleep': mt_time_sleep, 'set.union': mt_all_blocks, 'set().union': mt_set_union0, 'list': mt_list,
                      'blk.recalc': mt_recalc, 'hasattr': lambda ex, e, st: [(st, PConst(True))], 'nowdt.isoweekday': now_isoweekday})


# ---- _Interval.range_endpoints --------------------------------------------------------------------------------------------------------------------------
def endpoint_of(S, iv_obj, x):
    iv = S.f('_interval', iv_obj); k = Val.tk(iv); j = Int('j!ep')
    pair = lambda jj: Val.tk(tup_item(k, jj))
    return Exists([j], And(0 <= j, j < tup_len(k), Or(norm_key(tup_item(pair(j), 0)) == x, norm_key(tup_item(pair(j), 1)) == x)))


@contract('_Interval.range_endpoints', qual='edzed.blocklib.timeinterval:_Interval.range_endpoints', modifies=(), self_cls='TimeInterval')
def _range_endpoints(c):
    me = c.z('self')
    c.requires('list_of_pairs', interval_wf(c.S, me))
    iv = c.pre('_interval', me); k = Val.tk(iv); j = Int('j!re')
    c.requires('endpoints_are_hashable', ForAll([j], Implies(And(0 <= j, j < tup_len(k)),
               And(hashable(tup_item(Val.tk(tup_item(k, j)), 0)), hashable(tup_item(Val.tk(tup_item(k, j)), 1))))))
    x = Const('x!re', Val)
    r = c.rv
    c.ensures('exactly_the_start_and_stop_values', And(Val.is_FS(r), ForAll([x], fs_c(Val.fk(r))[x] == endpoint_of(c.S, me, x))))


def inv_endpoints(lc):
    me = as_kind(lc.pre.args['self'], Ref())
    iv = lc.pre.f('_interval', me); k = Val.tk(iv); j = Int('j!ie'); x = Const('x!ie', Val)
    cur = lc.local('enpoints')
    arr = cur.arr if isinstance(cur, PSet) else fs_c(Val.fk(to_val(cur, lc.st.st)))
    pair = lambda jj: Val.tk(tup_item(k, jj))
    return [('the_endpoints_of_the_visited_ranges', ForAll([x], arr[x] == Exists([j], And(0 <= j, j < lc.i,
             Or(norm_key(tup_item(pair(j), 0)) == x, norm_key(tup_item(pair(j), 1)) == x)))))]


def verify_range_endpoints(run):
    run.verify('_Interval.range_endpoints', cls='TimeInterval', invariants={'for (start, stop) in self._interval': inv_endpoints},
               calls={'set': lambda ex, e, st: [(st, PSet(K(Val, BoolVal(False)), 'val'))]})


# ---- persistence of TimeDate / TimeSpan: the saved state is the exported configuration, restoring reconfigures with it ------------------------
export3 = Function('export3', Val, Val, Val, Val)          # TimeDate._export3(times, dates, weekdays) (C13: as_list / sorted)


def export3_call(ex, e, st):
    outs = []
    for s1, vals in ex.evs(e.args, st):
        outs.append((s1, ZV('val', export3(*[to_val(v, s1) for v in vals]))))
    return outs


@contract('TimeDate.get_state', qual=QT + 'TimeDate.get_state', modifies=(), self_cls='TimeDate')
def _td_get_state(c):
    me = c.z('self')
    c.ensures('the_exported_configuration', c.rv == export3(c.pre('_times', me), c.pre('_dates', me), c.pre('_weekdays', me)))


def reconfig_iface(effects):
    def h(ex, e, st): return _reconfig_iface(ex, e, st, effects)
    return h


def _reconfig_iface(ex, e, st, effects):
    """self._event_reconfig(**value) / (span=value): contract of the reconfiguration handler (verified above)"""
    me = as_kind(st.env['self'], Ref(), st)
    outs = []
    for s1, kw in ex.evs([k.value for k in e.keywords], st):
        s1 = s1.copy()
        if len(e.keywords) == 1 and e.keywords[0].arg is None:
            data = ex.as_dict(s1, kw[0])                       # **value
        else:
            data = EMPTY_DICT
            for k, v in zip(e.keywords, kw): data = Store(data, StringVal(k.arg), Opt.Some(to_val(v, s1)))
        ex.emit(s1, rec('_event_reconfig', Val.Obj(me), kw=data))
        for f in effects: s1.havoc_field(f)
        outs.append((s1, P_NONE))
        bad = s1.copy(); bad.label('_event_reconfig:raises')
        outs.append((bad, Raise(PExc('OtherException', val=Val.Obj(fresh('exc', IntSort())), where='callee'))))
    return outs


@contract('TimeDate.init_from_value', qual=QT + 'TimeDate.init_from_value', modifies=tuple(dict.fromkeys(TD_EFFECTS)), self_cls='TimeDate')
def _td_init_from_value(c):
    me, v = c.z('self'), c.v('value')
    c.requires('a_mapping', Val.is_D(v))
    c.raises('OtherException', unchanged=False, label='bad_configuration')
    if c.verifying:
        c.expect_trace(lambda k: rec('_event_reconfig', Val.Obj(me), kw=dict_c(Val.dk(v))), 1)


@contract('TimeSpan.init_from_value', qual=QT + 'TimeSpan.init_from_value', modifies=tuple(dict.fromkeys(TS_EFFECTS)), self_cls='TimeSpan')
def _ts_init_from_value(c):
    me, v = c.z('self'), c.v('value')
    c.raises('OtherException', unchanged=False, label='bad_configuration')
    if c.verifying:
        c.expect_trace(lambda k: rec('_event_reconfig', Val.Obj(me), kw=Store(EMPTY_DICT, StringVal('span'), Opt.Some(v))), 1)


def verify_td_persistence(run):
    from edzed.blocklib import timedate as TD
    run.verify('TimeDate.get_state', cls='TimeDate', calls={'self._export3': export3_call})
    run.verify('TimeDate.init_from_value', cls='TimeDate', calls={'self._event_reconfig': reconfig_iface(TD_EFFECTS)})
    run.verify('TimeSpan.init_from_value', cls='TimeSpan', calls={'self._event_reconfig': reconfig_iface(TS_EFFECTS)})
    run.scan('restore_state_is_init_from_value', TD.TimeDate._restore_state is TD.TimeDate.init_from_value and TD.TimeSpan._restore_state is TD.TimeSpan.init_from_value,
             'TimeDate/TimeSpan._restore_state are init_from_value: restoring a saved state is a reconfiguration with the saved configuration')
