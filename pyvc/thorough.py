"""Thorough tier extras.

1. Mutant corpus: /verif/mutants/<prop>.json lists small changes to /repo that compile and (to the best of our knowledge)
   pass the existing tests, each tagged `breaks` (the property is violated: the quick check has to report it) or `harmless`
   (behaviour-preserving edit: the quick check must stay silent).  The seeded change of the property (seeded/<prop>/patch.diff),
   produced by an independent agent, is part of the corpus.  Every change is applied to a scratch copy of /repo/edzed under
   $TMPDIR (removed afterwards) and the quick check is run against it.  The outcome is reported in evidence; it never
   changes the exit code of the check on the unchanged tree.
2. Stability: every solver query is repeated with other random seeds; a verdict that flips is reported."""
import concurrent.futures as cf
import json, os, shutil, subprocess, tempfile

HERE = os.path.dirname(os.path.dirname(os.path.abspath(__file__)))


def _apply(root, m):
    if 'patch' in m:
        p = subprocess.run(['patch', '-p1', '-s', '-i', os.path.join(HERE, m['patch'])], cwd=root, capture_output=True, text=True)
        return p.returncode == 0, (p.stdout + p.stderr)[-300:]
    path = os.path.join(root, m['file'])
    s = open(path).read()
    if s.count(m['old']) != 1: return False, f"pattern occurs {s.count(m['old'])} times"
    open(path, 'w').write(s.replace(m['old'], m['new']))
    return True, ''


def _one(args):
    prop, m, repo = args
    t = tempfile.mkdtemp(prefix='pyvc_mut.')
    try:
        shutil.copytree(os.path.join(repo, 'edzed'), os.path.join(t, 'edzed'))
        ok, why = _apply(t, m)
        if not ok: return dict(name=m['name'], kind=m['kind'], outcome='not-applicable', detail=why)
        # the change must at least compile
        c = subprocess.run(['python3-vt', '-m', 'compileall', '-q', os.path.join(t, 'edzed')], capture_output=True, text=True)
        if c.returncode != 0: return dict(name=m['name'], kind=m['kind'], outcome='does-not-compile')
        # (each run gets a share of the cores: oversubscription would turn proofs into time-outs)
        env = dict(os.environ, VERIF_REPO=t, VERIF_OUT=os.path.join(t, 'out'), VERIF_TIER='quick', PYVC_WORKERS=str(max(2, (os.cpu_count() or 4) // 4)))
        p = subprocess.run([os.path.join(HERE, 'bin', 'check'), prop], env=env, capture_output=True, text=True, timeout=3600)
        failed = sorted({l.split('failed obligation:')[1].strip() for l in p.stdout.splitlines() if 'failed obligation:' in l})
        undec = sorted({l.split('obligation=')[1].strip() for l in p.stdout.splitlines() if l.startswith('UNDECIDED')})
        errs = [l for l in p.stdout.splitlines() if l.startswith('CHECKER-ERROR')][:2]
        return dict(name=m['name'], kind=m['kind'], exit=p.returncode, failed_obligations=failed[:6], undecided=undec[:4], checker_errors=errs,
                    outcome={0: 'silent', 1: 'reported', 2: 'undecided', 3: 'checker-error'}.get(p.returncode, 'other'))
    finally:
        shutil.rmtree(t, ignore_errors=True)


def run_mutants(prop, repo, workers=4):
    entries = []
    f = os.path.join(HERE, 'mutants', f'{prop}.json')
    if os.path.exists(f):
        for m in json.load(open(f)): entries.append(m)
    import glob
    for d in sorted(glob.glob(os.path.join(HERE, 'seeded', prop + '*'))):
        seed = os.path.join('seeded', os.path.basename(d), 'patch.diff')
        if os.path.exists(os.path.join(HERE, seed)):
            sfx = os.path.basename(d)[len(prop):]
            entries.append(dict(name='seeded-by-independent-agent' + (f'-{sfx}' if sfx else ''), kind='breaks', patch=seed))
    if not entries: return None
    with cf.ThreadPoolExecutor(max_workers=workers) as pool:
        res = list(pool.map(_one, [(prop, m, repo) for m in entries]))
    breaks = [r for r in res if r['kind'] == 'breaks' and 'exit' in r]
    harmless = [r for r in res if r['kind'] == 'harmless' and 'exit' in r]
    return dict(applied=len([r for r in res if 'exit' in r]),
                breaking_changes=len(breaks), reported=len([r for r in breaks if r['exit'] == 1]),
                not_reported=[dict(name=r['name'], outcome=r['outcome']) for r in breaks if r['exit'] != 1],
                harmless_edits=len(harmless), silent=len([r for r in harmless if r['exit'] == 0]),
                false_alarms=[dict(name=r['name'], outcome=r['outcome'], failed=r.get('failed_obligations')) for r in harmless if r['exit'] != 0],
                details=res)
