"""TimeDate / TimeSpan (timedate.py) and the Cron service (cron.py): C07."""
import ast
import z3
from pyvc.sorts import *
from pyvc.values import *
from pyvc.state import declare_fields, View
from pyvc.contract import contract, CONTRACTS, Param
from pyvc.engine import Raise, NEXT, PyObjStub
from pyvc import calls
from specs.common import *
from specs import c13
from specs.c13 import dtkey, member_spec, mk_time, mk_date, days_in

declare_fields(_times=VAL, _dates=VAL, _weekdays=VAL, _span=VAL, _cron=Ref('Cron'), _RCLOSED_INTERVAL=BOOL, _interval=VAL)
QT = 'edzed.blocklib.timedate:'
# a naive datetime value and its parts (trusted: datetime accessors)
dt_time_of = Function('dt_time_of', Val, Val)        # now.time()
dt_date_of = Function('dt_date_of', Val, Val)        # now.date()
dt_month = Function('dt_month', Val, IntSort())
dt_day = Function('dt_day', Val, IntSort())
dt_iso = Function('dt_iso', Val, IntSort())          # isoweekday(): 1 (Mon) .. 7 (Sun)


def datetime_ok(now):
    return And(1 <= dt_month(now), dt_month(now) <= 12, 1 <= dt_day(now), dt_day(now) <= days_in(dt_month(now)), 1 <= dt_iso(now), dt_iso(now) <= 7)


DT_ATTRS = {'month': lambda ex, st, o: [(st, ZV('int', dt_month(to_val(o, st))))] if _is_dt(o) else None,
            'day': lambda ex, st, o: [(st, ZV('int', dt_day(to_val(o, st))))] if _is_dt(o) else None}


def _is_dt(o): return isinstance(o, ZV) and o.kind == 'val'


def now_time(ex, e, st):
    return [(s1, ZV('val', dt_time_of(to_val(v, s1)))) for s1, v in ex.ev(e.func.value, st)]


def now_date(ex, e, st):
    return [(s1, ZV('val', dt_date_of(to_val(v, s1)))) for s1, v in ex.ev(e.func.value, st)]


def now_isoweekday(ex, e, st):
    return [(s1, ZV('int', dt_iso(to_val(v, s1)))) for s1, v in ex.ev(e.func.value, st)]


def interval_wf(S, iv_obj):
    iv = S.f('_interval', iv_obj); k = Val.tk(iv); j = Int('j!wf')
    return And(Val.is_T(iv), tup_len(k) >= 0, ForAll([j], Implies(And(0 <= j, j < tup_len(k)),
               And(Val.is_T(tup_item(k, j)), tup_len(Val.tk(tup_item(k, j))) == 2))))


def in_interval(S, kind, iv_obj, x):
    """the statement's membership: x lies inside one of the ranges of the interval object (rules of C13)"""
    iv = S.f('_interval', iv_obj); k = Val.tk(iv); j = Int('j!in')
    rc = S.f('_RCLOSED_INTERVAL', iv_obj)
    pair = lambda jj: tup_item(k, jj)
    return Exists([j], And(0 <= j, j < tup_len(k),
                           member_spec(kind, rc, dtkey(tup_item(Val.tk(pair(j)), 0)), dtkey(x), dtkey(tup_item(Val.tk(pair(j)), 1)))))


def contains_hook(kinds):
    """`x in self._times` etc.: dispatch to the verified __contains__ of the interval class (C13)"""
    def hook(ex, st, container, item):
        if not (isinstance(container, ZV) and container.kind == 'val'): return None
        kind = st.ghost.get('container_kind', {}).get(id(container))
        return None
    return hook


def interval_contains(kind):
    def h(ex, st, container, item):
        k = CONTRACTS[f'{kind}.__contains__']
        recv = ZV('ref', Val.ref(to_val(container, st)), kind)
        outs = []
        for s1, r in calls.apply_bound(ex, st, k, {'self': recv, 'item': ZV('val', to_val(item, st))}, f'call:{kind}.__contains__'):
            outs.append((s1, r if isinstance(r, Raise) else truth(r, s1)))
        return outs
    return h


def td_contains(ex, st, container, item):
    """membership tests of TimeDate.recalc: the container expression decides the interval class"""
    src = getattr(container, '_src', None)
    if src in ('_times', '_dates', '_span'):
        kind = {'_times': 'TimeInterval', '_dates': 'DateInterval', '_span': 'DateTimeInterval'}[src]
        return interval_contains(kind)(ex, st, container, item)
    return None


def tag_field(name):
    """attr hook: remember which field an interval object was read from"""
    def h(ex, st, o):
        if not (isinstance(o, ZV) and o.kind in ('ref', 'val')): return None
        ref = o.z if o.kind == 'ref' else Val.ref(o.z)
        v = st.read(name, ref)
        v._src = name
        return [(st, v)]
    return h


ATTRS = dict(DT_ATTRS, _times=tag_field('_times'), _dates=tag_field('_dates'), _span=tag_field('_span'))


# ---- TimeDate.recalc ----------------------------------------------------------------------------------------------------------------------
def td_P(S, me, now):
    """from the statement: True exactly when something is configured and time of day, date and weekday all match what is configured"""
    t, d, w = S.f('_times', me), S.f('_dates', me), S.f('_weekdays', me)
    configured = Or(t != Val.VNone, d != Val.VNone, w != Val.VNone)
    return And(configured,
               Or(t == Val.VNone, in_interval(S, 'TimeInterval', Val.ref(t), dt_time_of(now))),
               Or(d == Val.VNone, in_interval(S, 'DateInterval', Val.ref(d), mk_date(IntVal(404), dt_month(now), dt_day(now)))),
               Or(w == Val.VNone, fs_member(Val.fk(w), Val.I(dt_iso(now)))))


def td_config_wf(S, me):
    t, d, w = S.f('_times', me), S.f('_dates', me), S.f('_weekdays', me)
    return And(Or(t == Val.VNone, And(Val.is_Obj(t), interval_wf(S, Val.ref(t)), Not(S.f('_RCLOSED_INTERVAL', Val.ref(t))))),
               Or(d == Val.VNone, And(Val.is_Obj(d), interval_wf(S, Val.ref(d)), S.f('_RCLOSED_INTERVAL', Val.ref(d)))),
               Or(w == Val.VNone, Val.is_FS(w)))


@contract('TimeDate.recalc', qual=QT + 'TimeDate.recalc', params={'now': VAL}, modifies=DELIVERY, self_cls='TimeDate',
          traced=lambda a, st: rec('recalc', to_val(a['self'], st), to_val(a['now'], st)))
def _td_recalc(c):
    me, now = c.z('self'), c.v('now')
    c.requires('a_datetime', datetime_ok(now))
    c.requires('configuration', td_config_wf(c.S, me))
    c.raises('DeliveryError', unchanged=False, label='delivery_of_an_output_event_failed')
    if c.verifying:
        c.expect_trace(lambda k: rec('set_output', Val.Obj(me), Val.B(td_P(c.S, me, now))), 1)
    else:
        c.ensures('output_follows_the_configuration', c.post('_output', me) == set_output_result(c.pre('_output', me), Val.B(td_P(c.S, me, now))))


@contract('TimeSpan.recalc', qual=QT + 'TimeSpan.recalc', params={'now': VAL}, modifies=DELIVERY, self_cls='TimeSpan',
          traced=lambda a, st: rec('recalc', to_val(a['self'], st), to_val(a['now'], st)))
def _ts_recalc(c):
    me, now = c.z('self'), c.v('now')
    sp = c.pre('_span', me)
    c.requires('configuration', And(Val.is_Obj(sp), interval_wf(c.S, Val.ref(sp)), Not(c.pre('_RCLOSED_INTERVAL', Val.ref(sp)))))
    c.raises('DeliveryError', unchanged=False, label='delivery_of_an_output_event_failed')
    inside = in_interval(c.S, 'DateTimeInterval', Val.ref(sp), now)
    if c.verifying:
        c.expect_trace(lambda k: rec('set_output', Val.Obj(me), Val.B(inside)), 1)
    else:
        c.ensures('output_true_iff_now_is_inside_a_range', c.post('_output', me) == set_output_result(c.pre('_output', me), Val.B(inside)))


def verify_recalc(run):
    H = {'attr': ATTRS, 'contains': td_contains}
    run.verify('TimeDate._is_configured', cls='TimeDate', hooks=H)
    run.verify('TimeDate.recalc', cls='TimeDate', hooks=H,
               calls={'now.time': now_time, 'now.isoweekday': now_isoweekday})
    run.verify('TimeSpan.recalc', cls='TimeSpan', hooks=H)


@contract('TimeDate._is_configured', qual=QT + 'TimeDate._is_configured', modifies=(), self_cls='TimeDate')
def _td_is_configured(c):
    me = c.z('self')
    t, d, w = c.pre('_times', me), c.pre('_dates', me), c.pre('_weekdays', me)
    c.ensures('something_is_configured', c.rv == Val.B(Or(t != Val.VNone, d != Val.VNone, w != Val.VNone)))


# ---- utils.flag.Flag ---------------------------------------------------------------------------------------------------------------------------
declare_fields(_value=BOOL, _utc=BOOL, _alarms=Map(VAL, REFSET), _needs_reload=Ref('Flag'), _mtask=VAL, _queue=Ref('WakeQueue'), wq_len=INT)
QF = 'edzed.utils.flag:Flag.'
import pyvc.values as _values
_values.TRUTH_BY_CLASS['Flag'] = lambda st, ref: st.readz('_value', ref)          # Flag.__bool__ (verified below)


@contract('Flag.__bool__', qual=QF + '__bool__', modifies=(), self_cls='Flag')
def _flag_bool(c):
    c.ensures('the_value', c.rv == Val.B(c.pre('_value', c.z('self'))))


@contract('Flag.set', qual=QF + 'set', modifies=('_value',), self_cls='Flag', params={'value': VAL})
def _flag_set(c):
    me = c.z('self'); v = truthy(c.v('value'))
    c.ensures('assigned', And(c.post_whole('_value') == Store(c.pre_whole('_value'), me, v), c.rv == Val.B(v)))


@contract('Flag.test_clear', qual=QF + 'test_clear', modifies=('_value',), self_cls='Flag')
def _flag_test_clear(c):
    me = c.z('self')
    c.ensures('returns_the_old_value_and_clears', And(c.post_whole('_value') == Store(c.pre_whole('_value'), me, BoolVal(False)),
                                                      c.rv == Val.B(c.pre('_value', me))))


@contract('Flag.OR', qual=QF + 'OR', modifies=('_value',), self_cls='Flag', params={'other': VAL})
def _flag_or(c):
    me = c.z('self'); nv = Or(c.pre('_value', me), truthy(c.v('other')))
    c.ensures('or_with_the_argument', And(c.post_whole('_value') == Store(c.pre_whole('_value'), me, nv), c.rv == Val.B(nv)))


def verify_flag(run):
    for k in ('Flag.__bool__', 'Flag.set', 'Flag.test_clear', 'Flag.OR'): run.verify(k, cls='Flag')


def new_flag(ex, e, st):
    outs = []
    for s1, vals in ex.evs(e.args, st):
        s1 = s1.copy(); f = fresh('flag', IntSort())
        s1.heap['_value'] = Store(s1.comp('_value', BoolSort()), f, truth(vals[0], s1))
        outs.append((s1, ZV('ref', f, 'Flag')))
    return outs


# ---- Cron: registrations ------------------------------------------------------------------------------------------------------------------------
QC = 'edzed.blocklib.cron:Cron.'
t_tzinfo = Function('t_tzinfo', Val, Val)
t_naive = Function('t_naive', Val, Val)            # t.replace(tzinfo=None)
is_time = Function('is_time', Val, BoolSort())     # isinstance(x, datetime.time)
in_set24 = Function('in_set24', Val, BoolSort())   # x in _SET24: a full hour
UTC = Const('dt_timezone_utc', Val)


def time_isinstance(ex, st, v, cls):
    import datetime as _dt
    if cls is _dt.time: return is_time(to_val(v, st))
    return None
calls.ISINSTANCE_HOOKS.append(time_isinstance)


def tz_attr(ex, st, o):
    if isinstance(o, ZV) and o.kind == 'val': return [(st, ZV('val', t_tzinfo(o.z)))]
    return None


def utc_attr(ex, st, o):
    """dt.timezone.utc"""
    if isinstance(o, PConst): return [(st, ZV('val', UTC))]
    return None


def time_replace(ex, e, st):
    outs = []
    for s1, v in ex.ev(e.func.value, st):
        z = to_val(v, s1); s1 = s1.copy(); s1.assume(t_tzinfo(t_naive(z)) == Val.VNone, is_time(t_naive(z)))
        outs.append((s1, ZV('val', t_naive(z))))
    return outs


def set24_contains(ex, st, container, item):
    if isinstance(container, PConst) and isinstance(container.obj, frozenset) and len(container.obj) == 24:
        return [(st, in_set24(to_val(item, st)))]
    return None


@contract('Cron._check_tz', qual=QC + '_check_tz', modifies=(), self_cls='Cron', params={'time_of_day': VAL})
def _check_tz(c):
    me, t = c.z('self'), c.v('time_of_day')
    naive = t_tzinfo(t) == Val.VNone
    utc_ok = And(py_eq(t_tzinfo(t), UTC), c.pre('_utc', me))
    c.raises('TypeError', when=Not(is_time(t)), iff=True, label='not_a_time')
    c.raises('ValueError', when=And(is_time(t), Not(naive), Not(utc_ok)), iff=True, label='has_a_timezone')
    c.ensures('a_naive_time', And(is_time(c.rv), t_tzinfo(c.rv) == Val.VNone, c.rv == If(naive, t, t_naive(t))))


def alarms(S, me): return S.f('_alarms', me)
O_RS = OptOf(RefSet)


def registered(S, cron, t, b):
    """block b is registered for the time of day t"""
    cell = alarms(S, cron)[t]
    return And(O_RS.is_Some(cell), O_RS.v(cell)[b])


@contract('Cron.add_block', qual=QC + 'add_block', modifies=('_alarms', '_value'), self_cls='Cron', params={'time_of_day': VAL, 'blk': Ref('SBlock')},
          traced=lambda a, st: rec('add_block', to_val(a['self'], st), to_val(a['time_of_day'], st), to_val(a['blk'], st)))
def _add_block(c):
    me, t, blk = c.z('self'), c.v('time_of_day'), c.z('blk')
    c.requires('a_naive_time', And(is_time(t), t_tzinfo(t) == Val.VNone))
    c.requires('no_empty_sets_in_the_table', alarms_wf(c.S, me))
    c.raises('TypeError', when=Not(has_recalc(blk)), iff=True, label='not_a_cron_client')
    x, y = Const('x!ab', Val), Int('y!ab')
    old = alarms(c.S, me); new = alarms(c.T, me)
    was = O_RS.is_Some(old[t])
    c.ensures('registered_and_nothing_else_changed',
              new == Store(old, t, O_RS.Some(Store(If(was, O_RS.v(old[t]), K(IntSort(), BoolVal(False))), blk, BoolVal(True)))))
    fl = c.pre('_needs_reload', me)
    c.ensures('a_new_time_that_is_not_a_full_hour_needs_a_reload', c.post('_value', fl) == Or(c.pre('_value', fl), And(Not(was), Not(in_set24(t)))))
    c.ensures('table_well_formed', alarms_wf(c.T, me))


def alarms_wf(S, me):
    """no time is kept with an empty set of blocks"""
    x = Const('x!wf', Val); y = Int('y!wf')
    a = alarms(S, me)
    return ForAll([x], Implies(O_RS.is_Some(a[x]), Exists([y], O_RS.v(a[x])[y])))


has_recalc = Function('has_recalc', IntSort(), BoolSort())


def hasattr_recalc(ex, e, st):
    outs = []
    for s1, vals in ex.evs(e.args, st):
        outs.append((s1, ZV('bool', has_recalc(as_kind(vals[0], Ref(), s1)))))
    return outs


@contract('Cron.remove_block', qual=QC + 'remove_block', modifies=('_alarms', '_value'), self_cls='Cron', params={'time_of_day': VAL, 'blk': Ref('SBlock')},
          traced=lambda a, st: rec('remove_block', to_val(a['self'], st), to_val(a['time_of_day'], st), to_val(a['blk'], st)))
def _remove_block(c):
    me, t, blk = c.z('self'), c.v('time_of_day'), c.z('blk')
    c.requires('a_naive_time', And(is_time(t), t_tzinfo(t) == Val.VNone))
    c.requires('no_empty_sets_in_the_table', alarms_wf(c.S, me))
    old = alarms(c.S, me); new = alarms(c.T, me)
    was = O_RS.is_Some(old[t])
    rest = Store(O_RS.v(old[t]), blk, BoolVal(False))
    y = Int('y!rb')
    empty = Not(Exists([y], rest[y]))
    c.ensures('unregistered_and_nothing_else_changed',
              new == If(was, Store(old, t, If(empty, O_RS.Absent, O_RS.Some(rest))), old))
    fl = c.pre('_needs_reload', me)
    c.ensures('a_removed_time_that_is_not_a_full_hour_needs_a_reload', c.post('_value', fl) == Or(c.pre('_value', fl), And(was, empty, Not(in_set24(t)))))
    c.ensures('table_well_formed', alarms_wf(c.T, me))


@contract('WakeQueue.put_nowait', modifies=('wq_len',), result=None, sig=([Param('self', Ref()), Param('item', VAL)], None, None),
          trusted='asyncio.Queue.put_nowait', traced=lambda a, st: rec('wake', to_val(a['self'], st)))
def _wq_put(c):
    q = c.z('self')
    c.ensures('one_more_wake_up', c.post_whole('wq_len') == Store(c.pre_whole('wq_len'), q, c.pre('wq_len', q) + 1))


@contract('Cron.reload', qual=QC + 'reload', modifies=('_value', 'wq_len'), self_cls='Cron',
          traced=lambda a, st: rec('reload', to_val(a['self'], st)))
def _reload(c):
    me = c.z('self')
    fl = c.pre('_needs_reload', me); q = c.pre('_queue', me)
    wake = And(c.pre('_value', fl), c.pre('_mtask', me) != Val.VNone)
    c.ensures('flag_cleared', Not(c.post('_value', fl)))
    c.ensures('the_task_is_woken_up_iff_a_reload_is_needed_and_it_runs', c.post('wq_len', q) == c.pre('wq_len', q) + If(wake, 1, 0))


def verify_cron_registration(run):
    H = {'attr': {'tzinfo': tz_attr, 'utc': utc_attr}, 'contains': set24_contains}
    run.verify('Cron._check_tz', cls='Cron', hooks=dict(H, opaque_fstrings=True), calls={'time_of_day.replace': time_replace})
    run.verify('Cron.add_block', cls='Cron', hooks=H, calls={'hasattr': hasattr_recalc})
    run.verify('Cron.remove_block', cls='Cron', hooks=H)
    run.verify('Cron.reload', cls='Cron', hooks=H)


# ---- TimeDate._event_reconfig / TimeSpan._event_reconfig -------------------------------------------------------------------------------------------
endpoints = Function('endpoints', IntSort(), ValSet)          # <interval object>.range_endpoints(): all start and stop values
MIDNIGHT = Const('time_0_0_0', Val)
parse3_result = Function('parse3_result', Val, Val, Val, IntSort(), Val)     # _parse3(times, dates, weekdays)[i]
dtnow_of = Function('dtnow_of', IntSort(), RealSort(), Val)   # the datetime shown by the clock of a cron block at an instant


def endpoints_ok(S, iv_obj):
    """class invariant of TimeInterval: the endpoints are naive time-of-day values"""
    x = Const('x!eo', Val)
    return ForAll([x], Implies(endpoints(iv_obj)[x], And(is_time(x), t_tzinfo(x) == Val.VNone)))


def range_endpoints_call(ex, e, st):
    outs = []
    for s1, v in ex.ev(e.func.value, st):
        outs.append((s1, PSet(endpoints(Val.ref(to_val(v, s1))), 'val')))
    return outs


def midnight_call(ex, e, st):
    st = st.copy(); st.assume(is_time(MIDNIGHT), t_tzinfo(MIDNIGHT) == Val.VNone, in_set24(MIDNIGHT))
    return [(st, ZV('val', MIDNIGHT))]


def parse3_call(ex, e, st):
    """self._parse3(times, dates, weekdays) (C13): three parsed parts, each None or a well-formed object; may raise"""
    outs = []
    for s1, vals in ex.evs(e.args, st):
        a = [to_val(v, s1) for v in vals]
        ok = s1.copy(); ex.emit(ok, rec('_parse3'))
        pt, pd, pw = (parse3_result(a[0], a[1], a[2], IntVal(i)) for i in range(3))
        for f in ('_interval', '_RCLOSED_INTERVAL'): ok.havoc_field(f)          # new interval objects
        T = View(ok)
        ok.assume(Or(pt == Val.VNone, And(Val.is_Obj(pt), interval_wf(T, Val.ref(pt)), Not(T.f('_RCLOSED_INTERVAL', Val.ref(pt))), endpoints_ok(T, Val.ref(pt)))),
                  Or(pd == Val.VNone, And(Val.is_Obj(pd), interval_wf(T, Val.ref(pd)), T.f('_RCLOSED_INTERVAL', Val.ref(pd)))),
                  Or(pw == Val.VNone, Val.is_FS(pw)))
        outs.append((ok, PTuple([ZV('val', pt), ZV('val', pd), ZV('val', pw)])))
        for cls in ('ValueError', 'TypeError'):
            bad = s1.copy(); ex.emit(bad, rec('_parse3')); bad.label(f'_parse3:{cls}')
            outs.append((bad, Raise(PExc(cls, val=Val.Obj(fresh('exc', IntSort())), where='callee'))))
    return outs


def cron_dtnow(ex, e, st):
    """self._cron.dtnow(): the current date-time of the cron's clock (local or UTC)"""
    me = as_kind(st.env['self'], Ref(), st)
    now = fresh('now', Val); st = st.copy(); st.assume(datetime_ok(now)); st.ghost['now_value'] = now
    ex.emit(st, rec('dtnow', Val.Obj(st.readz('_cron', me))))
    return [(st, ZV('val', now))]


TD_EFFECTS = tuple(dict.fromkeys(DELIVERY + ('_times', '_dates', '_weekdays', '_alarms', '_value', 'wq_len', '_interval', '_RCLOSED_INTERVAL')))


@contract('TimeDate._event_reconfig', qual=QT + 'TimeDate._event_reconfig', modifies=TD_EFFECTS, self_cls='TimeDate')
def _td_reconfig(c):
    me = c.z('self')
    cron = c.pre('_cron', me)
    old_t = c.pre('_times', me)
    c.requires('configuration', And(td_config_wf(c.S, me), Implies(old_t != Val.VNone, endpoints_ok(c.S, Val.ref(old_t)))))
    c.requires('cron_table_well_formed', alarms_wf(c.S, cron))
    c.requires('a_cron_client', has_recalc(me))
    c.raises('ValueError', unchanged=False, label='bad_interval_specification')
    c.raises('TypeError', unchanged=False, label='bad_interval_specification')
    c.raises('DeliveryError', unchanged=False, label='delivery_of_an_output_event_failed')
    if not c.verifying: return
    new_t = c.post('_times', me)
    x = Const('x!rc', Val)
    c.ensures('registered_for_every_endpoint_of_the_new_times', Implies(new_t != Val.VNone,
              ForAll([x], Implies(endpoints(Val.ref(new_t))[x], registered(c.T, cron, x, me)))))
    c.ensures('registered_for_midnight', registered(c.T, cron, MIDNIGHT, me))          # the date and the weekday change at midnight
    c.ensures('output_follows_the_new_configuration_now', c.post('_output', me) ==
              set_output_result(c.T.g('output_before_recalc'), Val.B(td_P(c.T, me, c.T.g('now_value')))))
    def expected(k, r, st):
        g = st.ghost
        fn = z3.simplify(Rec.fn(r)).as_string()
        t = Rec.a0(r)
        if fn == 'remove_block':
            goals = [('old_registrations_are_removed_first', And(g['phase'] == 0, Rec.recv(r) == Val.Obj(cron), Rec.a1(r) == Val.Obj(me),
                                                                 old_t != Val.VNone, endpoints(Val.ref(old_t))[t]))]
            return goals
        if fn == '_parse3':
            goals = [('then_the_new_configuration_is_parsed', g['phase'] == 0)]; g['phase'] = 1
            return goals
        if fn == 'add_block':
            nt = st.readz('_times', me)
            goals = [('registrations_for_the_new_endpoints_and_midnight', And(g['phase'] == 1, Rec.recv(r) == Val.Obj(cron), Rec.a1(r) == Val.Obj(me),
                                                                             Or(t == MIDNIGHT, And(nt != Val.VNone, endpoints(Val.ref(nt))[t]))))]
            return goals
        if fn == 'reload':
            goals = [('cron_is_reloaded_after_the_last_change', And(g['phase'] == 1, Rec.recv(r) == Val.Obj(cron)))]; g['phase'] = 2
            return goals
        if fn == 'dtnow':
            goals = [('the_clock_is_read_after_the_reload', g['phase'] == 2)]; g['phase'] = 3
            return goals
        if fn == 'recalc':
            goals = [('output_recomputed_for_the_current_time', And(g['phase'] == 3, Rec.recv(r) == Val.Obj(me), Rec.a0(r) == g['now_value']))]
            g['phase'] = 4; g['output_before_recalc'] = st.readz('_output', me)
            return goals
        return [('no_other_call', BoolVal(False))]
    c.expect_trace(expected, None, normal_len=None, predicate=True)
    c.ensures('all_steps_done', c.T.g('phase') == 4)


def inv_td_remove(lc):
    me = as_kind(lc.pre.args['self'], Ref()); cron = lc.pre.f('_cron', me)
    st = lc.st
    return [('table_well_formed', alarms_wf(st, cron)),
            ('nothing_else_changed', And(st.f('_times', me) == lc.pre.f('_times', me), st.f('_cron', me) == cron, st.st.ghost['phase'] == 0,
                                         st.f('_needs_reload', cron) == lc.pre.f('_needs_reload', cron)))]


def inv_td_add(lc):
    me = as_kind(lc.pre.args['self'], Ref()); cron = lc.pre.f('_cron', me)
    st = lc.st; x = Const('x!ia', Val)
    return [('table_well_formed', alarms_wf(st, cron)),
            ('visited_endpoints_are_registered', ForAll([x], Implies(lc.done[x], registered(st, cron, x, me)))),
            ('nothing_else_changed', And(st.f('_times', me) == lc.entry.f('_times', me), st.f('_dates', me) == lc.entry.f('_dates', me),
                                         st.f('_weekdays', me) == lc.entry.f('_weekdays', me), st.f('_cron', me) == cron, st.st.ghost['phase'] == 1,
                                         st.whole('_interval') == lc.entry.whole('_interval'), st.whole('_RCLOSED_INTERVAL') == lc.entry.whole('_RCLOSED_INTERVAL'),
                                         st.whole('_output') == lc.entry.whole('_output'),
                                         st.f('_needs_reload', cron) == lc.pre.f('_needs_reload', cron)))]


def verify_reconfig(run):
    H = {'attr': ATTRS, 'contains': td_contains}
    G = {'phase': 0, 'now_value': Const('now0', Val), 'output_before_recalc': Const('out0', Val)}
    run.verify('TimeDate._event_reconfig', cls='TimeDate', hooks=H, ghost=G,
               invariants={'for time_of_day in self._times.range_endpoints()': inv_td_remove,
                           'for time_of_day in self._times.range_endpoints()#1': inv_td_add},
               calls={'self._times.range_endpoints': range_endpoints_call, 'self._parse3': parse3_call, 'dt.time': midnight_call,
                      'self._cron.dtnow': cron_dtnow})
