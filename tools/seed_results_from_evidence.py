#!/usr/bin/env python3
"""dev tool: seeded/RESULTS.json from the evidence files of the last thorough run (coverage.notes[].mutants.details, entries of the seeded changes)"""
import json, os, re, glob
HERE = os.path.dirname(os.path.dirname(os.path.abspath(__file__)))
res = []
for i in range(1, 21):
    p = f'C{i:02d}'
    ev = json.load(open(os.path.join(HERE, 'evidence', p + '.json')))
    mt = next((n['mutants'] for n in ev['coverage'].get('notes', []) if isinstance(n, dict) and 'mutants' in n), None)
    if mt is None: continue
    for d in mt['details']:
        if not d['name'].startswith('seeded-by-independent-agent'): continue
        sfx = d['name'][len('seeded-by-independent-agent'):].lstrip('-')
        sid = p + sfx
        files = sorted(set(re.findall(r'^diff --git a/(\S+)', open(os.path.join(HERE, 'seeded', sid, 'patch.diff')).read(), re.M)))
        res.append(dict(id=sid, property=p, files=files, exit=d.get('exit'), failed_obligations=d.get('failed_obligations', [])[:3],
                        n_failed=len(d.get('failed_obligations', [])), undecided=d.get('undecided', [])[:2],
                        checker_errors=[e[len('CHECKER-ERROR '):][:200] for e in d.get('checker_errors', [])][:2]))
json.dump(res, open(os.path.join(HERE, 'seeded', 'RESULTS.json'), 'w'), indent=1)
print(len(res), 'seeded changes;', sum(r['exit'] == 1 for r in res), 'reported')
