"""C18 - Repeat re-sends the latest event at the configured pace and count.  DESIGN section 3, C18."""
import z3
from pyvc.sorts import *
from pyvc.values import *
from pyvc.state import declare_fields, View
from pyvc.contract import contract, CONTRACTS, Param
from pyvc.engine import Raise, NEXT
from pyvc import calls, scan
from specs.common import *
from specs import event_send, event_entry

declare_fields(_repeated_event=Ref('Event'), _interval=VAL, _count=VAL, _queue=Ref('DataQueue'), _warning_logged=BOOL,
               q_items=Seq('val'), _mtask=VAL)
Q = 'edzed.blocklib.sblocks1:Repeat.'


# asyncio.Queue holding event data (FIFO): ghost field q_items = (array, length)
@contract('DataQueue.put_nowait', modifies=('q_items',), result=None, sig=([Param('self', Ref()), Param('item', VAL)], None, None),
          trusted='asyncio.Queue.put_nowait (unbounded: never raises, appends at the tail)',
          traced=lambda a, st: rec('put_nowait', to_val(a['self'], st), to_val(a['item'], st)))
def _dq_put(c):
    q, item = c.z('self'), c.v('item')
    arr, n = c.pre('q_items', q)
    arr1, n1 = c.post('q_items', q)
    c.ensures('appended', And(n1 == n + 1, arr1 == Store(arr, n, item)))


def dq_get_nowait(ex, e, st):
    """`self._queue.get_nowait()`: removes and returns the head (ghost: it becomes the latest datum taken)"""
    me = as_kind(st.env['self'], Ref(), st); q = st.readz('_queue', me)
    arr, n = View(st).f('q_items', q)
    outs = []
    ok = st.copy(); ok.assume(n > 0)
    j = Int('j!dq')
    ok.write('q_items', q, PSeq(z3.Lambda([j], arr[j + 1]), n - 1))
    ok.ghost['latest_datum'] = arr[0]; ok.ghost['resends_since_datum'] = IntVal(0)
    outs.append((ok, ZV('val', arr[0])))
    em = st.copy(); em.assume(n <= 0)
    outs.append((em, Raise(PExc('OtherException', val=Val.Obj(fresh('exc', IntSort())), where='callee'))))
    return outs


def dq_empty(ex, e, st):
    me = as_kind(st.env['self'], Ref(), st); q = st.readz('_queue', me)
    arr, n = View(st).f('q_items', q)
    return [(st, ZV('bool', n <= 0))]


def with_repeat(d, r):
    return Store(d, StringVal('repeat'), Opt.Some(Val.I(r)))


@contract('Repeat._event', qual=Q + '_event', params={'data': DICT}, modifies=DELIVERY + ('_warning_logged', 'q_items'),
          self_cls='Repeat', propagates_delivery_errors=True)
def _rp_event(c):
    me, etype = c.z('self'), c.v('etype')
    data = c.z('data')
    ev = c.pre('_repeated_event', me)
    mine = py_eq(etype, c.pre('_etype', ev))
    src = data[StringVal('source')]
    d1 = Store(data, StringVal('orig_source'), Opt.Some(If(Opt.is_Some(src), Opt.v(src), Val.VNone)))
    q = c.pre('_queue', me)
    c.raises('DeliveryError', when=mine, unchanged=False)
    c.ensures('returns_none', c.rv == Val.VNone)
    c.ensures('other_event_types_are_ignored', Implies(Not(mine), And(c.post_whole('_output') == c.pre_whole('_output'),
              c.post_whole('q_items#len') if False else BoolVal(True))))
    arr, n = c.pre('q_items', q); arr1, n1 = c.post('q_items', q)
    c.ensures('other_event_types_leave_the_queue_alone', Implies(Not(mine), And(n1 == n, arr1 == arr)))
    c.ensures('event_is_queued_for_repeating', Implies(mine, And(n1 == n + 1, Val.is_D(arr1[n]), dict_c(Val.dk(arr1[n])) == d1)))
    c.ensures('output_is_zero', Implies(mine, py_eq(c.post('_output', me), I_(0))))
    if c.verifying:
        def expected(k, r, st):
            return And(mine, If(k == 0, r == rec('set_output', Val.Obj(me), I_(0)),
                       If(k == 1, And(Rec.fn(r) == StringVal('send'), Rec.recv(r) == Val.Obj(ev), Rec.a0(r) == Val.Obj(me),
                                      Rec.kw(r) == with_repeat(d1, IntVal(0))),
                          And(Rec.fn(r) == StringVal('put_nowait'), Rec.recv(r) == Val.Obj(q), Val.is_D(Rec.a0(r)), dict_c(Val.dk(Rec.a0(r))) == d1))))
        c.expect_trace(expected, 3, normal_len=None, predicate=True)
        c.ensures('forwarded_immediately_then_queued', c.T.tn == If(mine, 3, 0))


@contract('Repeat.init_regular', qual=Q + 'init_regular', modifies=DELIVERY, self_cls='Repeat')
def _rp_init(c):
    c.raises('DeliveryError', unchanged=False)
    if c.verifying:
        c.expect_trace(lambda k: rec('set_output', Val.Obj(c.z('self')), I_(0)), 1)


# ---- the main task --------------------------------------------------------------------------------------------------
def queue_get(ex, node, st, timeout=False):
    """`await self._queue.get()` (optionally under wait_for): environment step (other tasks append to the queue),
    then the head of the queue is removed and returned; with a timeout it may raise TimeoutError instead; the task may
    also be cancelled while it waits."""
    me = as_kind(st.env['self'], Ref(), st)
    q = st.readz('_queue', me)
    outs = []
    env = event_entry.handler_effects(ex, st)
    env.havoc_field('q_items')
    arr, n = View(env).f('q_items', q)
    got = env.copy(); got.assume(n >= 0, Val.is_D(arr[0])); got.label('queue:got')
    got.ghost['latest_datum'] = arr[0]              # ghost: the most recent event taken from the queue ...
    got.ghost['resends_since_datum'] = IntVal(0)    # ... and the number of re-sends since then
    outs.append((got, ZV('val', arr[0])))
    if timeout:
        to = env.copy(); to.label('queue:timeout')
        to.ghost['resends_since_datum'] = to.ghost['resends_since_datum'] + 1
        outs.append((to, Raise(PExc('TimeoutError', val=Val.Obj(fresh('exc', IntSort())), where='callee'))))
    ca = env.copy(); ca.label('queue:cancelled')
    outs.append((ca, Raise(PExc('CancelledError', val=Val.Obj(fresh('exc', IntSort())), where='callee'))))
    return outs


@contract('Repeat._maintask', qual=Q + '_maintask', modifies=event_entry.HANDLER_EFFECTS + ('q_items',), self_cls='Repeat')
def _rp_main(c):
    me = c.z('self')
    count = c.pre('_count', me)
    c.requires('count_is_none_or_nonnegative_int', Or(count == Val.VNone, And(Val.is_I(count), Val.i(count) >= 0)))
    c.raises('CancelledError', unchanged=False, label='runs_until_cancelled')
    c.raises('DeliveryError', unchanged=False, label='delivery_failure_ends_the_task')
    c.ensures('never_returns', BoolVal(False))
    if c.verifying:
        ev = c.pre('_repeated_event', me)
        def expected(k, r, st):
            rp = st.env.get('repeat'); d = st.env.get('data')
            rz = Val.i(to_val(rp, st))
            limit = And(Or(count == Val.VNone, rz <= Val.i(count)),
                        rz == st.ghost['resends_since_datum'],            # numbered 1, 2, ... since the latest event
                        to_val(d, st) == st.ghost['latest_datum'])        # and it is the latest event that is re-sent
            return [('each_call_is_the_expected_one_at_its_position',
                     Or(And(r == rec('set_output', Val.Obj(me), to_val(rp, st)), rz >= 1, limit),
                        And(Rec.fn(r) == StringVal('send'), Rec.recv(r) == Val.Obj(ev), Rec.a0(r) == Val.Obj(me), rz >= 1, limit,
                            Rec.kw(r) == with_repeat(dict_c(Val.dk(to_val(d, st))), rz), py_eq(st.readz('_output', me), to_val(rp, st))))),
                    ('qf:a_resent_event_carries_the_original_data_and_this_blocks_repeat_number',
                     Implies(Rec.fn(r) == StringVal('send'), Rec.kw(r) == with_repeat(dict_c(Val.dk(to_val(d, st))), rz))),
                    ('qf:a_resent_event_carries_this_blocks_repeat_number',
                     Implies(Rec.fn(r) == StringVal('send'), z3.simplify(Select(Rec.kw(r), StringVal('repeat'))) == Opt.Some(Val.I(rz))))]
        c.expect_trace(expected, None, normal_len=None, predicate=True)      # an unbounded sequence: each call is checked on its own


def inv_maintask(lc):
    me = as_kind(lc.pre.args['self'], Ref())
    count = lc.pre.f('_count', me)
    repeating, repeat, data = lc.local('repeating'), lc.local('repeat'), lc.local('data')
    rz = to_val(repeat, lc.st.st)
    rep = truth(repeating, lc.st.st)
    return [('repeating_iff_limit_not_reached', Implies(rep, And(Val.is_I(rz), Val.i(rz) >= 0, Val.is_D(to_val(data, lc.st.st)),
                                                            Or(count == Val.VNone, Val.i(rz) < Val.i(count))))),
            ('numbering_counts_resends_of_the_latest_event', Implies(rep, And(Val.i(rz) == lc.st.g('resends_since_datum'),
                                                                             to_val(data, lc.st.st) == lc.st.g('latest_datum')))),
            ('configuration_unchanged', And(lc.st.f('_count', me) == count, lc.st.f('_repeated_event', me) == lc.pre.f('_repeated_event', me),
                                            lc.st.f('_queue', me) == lc.pre.f('_queue', me)))]


@contract('Repeat.__init__', qual=Q + '__init__', modifies=('_repeated_event', '_interval', '_count', '_warning_logged', '_dest', '_etype', '_filters'),
          self_cls='Repeat')
def _rp_ctor(c):
    me, etype, interval, count = c.z('self'), c.v('etype'), c.v('interval'), c.v('count')
    c.raises('ValueError', label='eventcond_or_bad_interval_or_negative_count', unchanged=False)
    c.raises('TypeError', label='bad_interval_type', unchanged=False)
    c.ensures('not_a_conditional_event', Not(Val.is_EC(etype)))
    iv = c.post('_interval', me)
    c.ensures('interval_positive', And(Val.is_R(iv), Val.r(iv) > 0))
    c.ensures('count_none_or_nonnegative', And(c.post('_count', me) == count, Or(count == Val.VNone, Not(And(is_num(count), num(count) < 0)))))
    ev = c.post('_repeated_event', me)
    c.ensures('repeated_event_targets_dest_with_etype', And(c.post('_dest', ev) == c.v('dest'), c.post('_etype', ev) == etype))


tp_result = Function('time_period_result', Val, Val)
tp_raises = Function('time_period_raises', Val, BoolSort())


def time_period_call(ex, e, st):
    """utils.time_period(x) as seen by callers (C19): None -> None; otherwise a float >= 0, or ValueError/TypeError"""
    outs = []
    for s1, vals in ex.evs(e.args, st):
        x = to_val(vals[0], s1)
        ok = s1.copy(); r = tp_result(x)
        ok.assume(Not(tp_raises(x)), If(x == Val.VNone, r == Val.VNone, And(Val.is_R(r), Val.r(r) >= 0)))
        outs.append((ok, ZV('val', r)))
        for cls in ('ValueError', 'TypeError'):
            b = s1.copy(); b.assume(tp_raises(x), x != Val.VNone); b.label(f'time_period:raises:{cls}')
            outs.append((b, Raise(PExc(cls, val=Val.Obj(fresh('exc', IntSort())), where='callee'))))
    return outs


def new_event(ex, e, st):
    """block.Event(dest, etype): a new Event object with these fields (constructor: C15/C02)"""
    outs = []
    for s1, vals in ex.evs(e.args, st):
        s1 = s1.copy(); r = fresh('ev', IntSort())
        for f in ('_dest', '_etype', '_filters'): pass
        s1.write('_dest', r, vals[0]); s1.write('_etype', r, vals[1]); s1.write('_filters', r, PTuple([]))
        outs.append((s1, ZV('ref', r, 'Event')))
        b = st.copy(); b.label('Event():raises')
        outs.append((b, Raise(PExc('ValueError', val=Val.Obj(fresh('exc', IntSort())), where='callee'))))
    return outs


def opaque_super_init(ex, e, st):
    st = st.copy(); return [(st, P_NONE)]


def build(run):
    event_send.verify_event_init(run)      # Event(..., repeat=, count=) puts a Repeat block in front of the destination
    from edzed.blocklib import sblocks1
    run.verify('Repeat._event', cls='Repeat')
    run.verify('Repeat.init_regular', cls='Repeat')
    run.verify('Repeat._maintask', cls='Repeat', invariants={'while True': inv_maintask},
               ghost={'latest_datum': Const('latest0', Val), 'resends_since_datum': IntVal(0)},
               calls={'self._queue.get_nowait': dq_get_nowait, 'self._queue.empty': dq_empty},
               hooks={'await': awaits({'self._queue.get()': lambda ex, n, st: queue_get(ex, n, st),
                                       'asyncio.wait_for(self._queue.get(), self._interval)': lambda ex, n, st: queue_get(ex, n, st, timeout=True)})})
    run.verify('Repeat.__init__', cls='Repeat', calls={'utils.time_period': time_period_call, 'block.Event': new_event,
                                                      'super().__init__': opaque_super_init})
    event_send.verify_send(run)      # forwarded events name the Repeat block as source (data['source'] = source.name)

    # ---- lemmas: numbering -----------------------------------------------------------------------------------------------
    r, cnt = Int('r'), Int('cnt')
    run.lemma('numbering/resends_are_consecutive_and_bounded_by_count',
              [r >= 0, r < cnt], And(r + 1 >= 1, r + 1 <= cnt))
    run.lemma('numbering/count_zero_never_repeats', [cnt == 0, r >= 0], Not(r < cnt))
    d = Const('d', DictS)
    run.lemma('forwarded_data/keeps_items_and_sets_repeat',
              [], And(with_repeat(d, r)[StringVal('repeat')] == Opt.Some(Val.I(r)),
                      ForAll([Const('k9', StringSort())], Implies(Const('k9', StringSort()) != StringVal('repeat'),
                                                                  with_repeat(d, r)[Const('k9', StringSort())] == d[Const('k9', StringSort())]))))
    # ---- scans -----------------------------------------------------------------------------------------------------------
    dct = vars(sblocks1.Repeat)
    run.scan('repeat_handles_every_event_type_itself', '_event' in dct and not any(k.startswith('_event_') for k in dct),
             'Repeat defines the generic _event handler and no specialised _event_X handlers (every event type reaches _event)')
    w = scan.container_mutators('_queue')
    run.scan('queue_writers', all(x.split(':')[1].split('.')[0] in ('Repeat', 'OutputAsync', 'Cron') for x in w), f'{w}')
    run.unclaim("'every interval seconds': the pace rests on the trusted contract of asyncio.wait_for (returns or raises TimeoutError "
                "after the timeout); no independent timing claim")
    run.unclaim("'nothing is re-sent after the stop' "
                "(AddonMainTask.stop_async cancels the task: C08)")
    run.assume('A-C02; events taken from the queue are the dicts put there by _event (queue interface contract)')
    run.trust('asyncio.Queue (FIFO), asyncio.wait_for; set_output (C02), Event.send (C16/C02), utils.time_period (C19)')
    run.replayer('Repeat._event', replay_chain)


def replay_chain(run, ob, model):
    if 'no_unexpected_raise:TypeError' not in ob.name: return None
    return r'''
import sys, asyncio, edzed
edzed.reset_circuit()
log = []
class Mem(edzed.SBlock):
    def _event(self, etype, data): log.append((etype, dict(data)))
    def init_regular(self): self.set_output(None)
Mem('mem')
r2 = edzed.Repeat('r2', dest='mem', etype='put', interval=10)
r1 = edzed.Repeat('r1', dest='r2', etype='put', interval=10)
async def main():
    circ = edzed.get_circuit()
    t = asyncio.create_task(circ.run_forever())
    await circ.wait_init()
    try:
        r1.event('put', value=1)
    except Exception as err:
        print('event through a chain of two Repeat blocks raised:', type(err).__name__, err)
    await asyncio.sleep(0)
    err = circ.error
    try: await circ.shutdown()
    except Exception: pass
    return err
err = asyncio.run(main())
print('circuit error:', repr(err), '; delivered:', log)
sys.exit(1 if err is not None or not log else 0)
'''
