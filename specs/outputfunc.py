"""OutputFunc (sblocks2): the handler that runs a user function and reports its outcome (used by C11, C08)."""
import z3
from pyvc.sorts import *
from pyvc.values import *
from pyvc.state import declare_fields, View
from pyvc.contract import contract, CONTRACTS, Param
from pyvc.engine import Raise
from pyvc import calls
from specs.common import *

declare_fields(_func=VAL, _f_args=Seq('val'), _f_kwargs=Seq('val'), _on_success=Seq('ref:Event'), _on_error=Seq('ref:Event'),
               _on_cancel=Seq('ref:Event'), _stop_data=VAL)
Q = 'edzed.blocklib.sblocks2:OutputFunc.'


def keys_present(data, arr, n):
    j = Int('j!kp')
    return ForAll([j], Implies(And(0 <= j, j < n), And(Val.is_S(arr[j]), Opt.is_Some(data[Val.s(arr[j])]))))


@contract('OutputFunc._event_put', qual=Q + '_event_put', modifies=DELIVERY, self_cls='OutputFunc', propagates_delivery_errors=True,
          traced=lambda a, st: rec('_event_put', to_val(a['self'], st), kw=a['data'].arr))
def _of_put(c):
    me = c.z('self')
    data = c.arg('data').arr
    A, nA = c.pre('_f_args', me); K, nK = c.pre('_f_kwargs', me)
    OS, nS = c.pre('_on_success', me); OE, nE = c.pre('_on_error', me)
    c.requires('argument_names_are_strings', And(nA >= 0, nK >= 0, nS >= 0, nE >= 0,
               ForAll([Int('j!s1')], Implies(And(0 <= Int('j!s1'), Int('j!s1') < nA), Val.is_S(A[Int('j!s1')]))),
               ForAll([Int('j!s2')], Implies(And(0 <= Int('j!s2'), Int('j!s2') < nK), Val.is_S(K[Int('j!s2')])))))
    c.requires('event_tuples', And(events_are_objects(OS, nS), events_are_objects(OE, nE)))
    have = And(keys_present(data, A, nA), keys_present(data, K, nK))
    c.raises('KeyError', when=Not(have), iff=True, label='put_lacks_an_item_named_in_f_args_or_f_kwargs')
    c.raises('DeliveryError', when=have, unchanged=False, label='delivery_of_a_result_event_failed')
    c.ensures('all_named_items_present', have)
    r = c.rv
    tag = tup_item(Val.tk(r), 0)
    c.ensures('reports_result_or_error', And(Val.is_T(r), tup_len(Val.tk(r)) == 2, Or(tag == S_('result'), tag == S_('error'))))
    if c.verifying:
        func = c.pre('_func', me)
        def expected(k, rr, st):
            failed = st.ghost.get('func_failed')
            ev_ok = And(Rec.fn(rr) == StringVal('send'), Rec.a0(rr) == Val.Obj(me))
            if failed is None:
                return And(k == 0, Rec.fn(rr) == StringVal('usercall'), Rec.recv(rr) == func)
            if failed:
                return And(k >= 1, k <= nE, ev_ok, Rec.recv(rr) == OE[k - 1], Rec.kw(rr)[StringVal('trigger')] == Opt.Some(S_('error')))
            return And(k >= 1, k <= nS, ev_ok, Rec.recv(rr) == OS[k - 1], Rec.kw(rr)[StringVal('trigger')] == Opt.Some(S_('success')),
                       Rec.kw(rr)[StringVal('value')] == Opt.Some(st.ghost['func_result']))
        c.expect_trace(expected, 1 + If(nS > nE, nS, nE), normal_len=None, predicate=True)
        c.ensures('one_result_event_per_configured_event', c.T.tn == 1 + If(tag == S_('result'), nS, nE))


def func_call(ex, st, f, pos, named, stars, sargs, node):
    """`self._func(*args, **kwargs)`: the user's output function (interface contract of user callables) + ghost bookkeeping"""
    outs = []
    for s1, v in user_call(ex, st, f, pos, named, stars, sargs, node):
        s1.ghost['func_failed'] = isinstance(v, Raise)
        if not isinstance(v, Raise): s1.ghost['func_result'] = to_val(v, s1)
        outs.append((s1, v))
    return outs


def inv_sends(which):
    def inv(lc):
        return [('trace_position', lc.st.tn == 1 + lc.i)]
    return inv


def verify_outputfunc(run):
    run.verify('OutputFunc._event_put', cls='OutputFunc', calls={'*value*': func_call},
               invariants={'for ev in self._on_error': inv_sends('error'), 'for ev in self._on_success': inv_sends('success')})


# ---- OutputFunc.stop: stop_data is processed as the block's last action -------------------------------------------------------------------------
def of_super_stop(ex, e, st):
    st = st.copy(); ex.emit(st, rec('super.stop', to_val(st.env['self'], st)))
    return [(st, P_NONE)]


@contract('OutputFunc.stop', qual=Q + 'stop', modifies=DELIVERY, self_cls='OutputFunc')
def _of_stop(c):
    me = c.z('self')
    sd = c.pre('_stop_data', me)
    c.requires('stop_data_is_none_or_a_dict', Or(sd == Val.VNone, And(Val.is_D(sd), Not(Opt.is_Some(dict_c(Val.dk(sd))[StringVal('self')])))))
    A, nA = c.pre('_f_args', me); K, nK = c.pre('_f_kwargs', me)
    OS, nS = c.pre('_on_success', me); OE, nE = c.pre('_on_error', me)
    j = Int('j!st')
    c.requires('configuration', And(nA >= 0, nK >= 0, nS >= 0, nE >= 0, events_are_objects(OS, nS), events_are_objects(OE, nE),
               ForAll([j], Implies(And(0 <= j, j < nA), Val.is_S(A[j]))), ForAll([j], Implies(And(0 <= j, j < nK), Val.is_S(K[j])))))
    c.raises('KeyError', when=sd != Val.VNone, unchanged=False, label='stop_data_lack_an_item_named_in_f_args_or_f_kwargs')
    c.raises('DeliveryError', when=sd != Val.VNone, unchanged=False, label='delivery_of_a_result_event_failed')
    if c.verifying:
        def expected(k, r, st):
            fn = z3.simplify(Rec.fn(r)).as_string()
            if fn == '_event_put':
                return [('stop_data_are_processed_like_a_put_event', And(sd != Val.VNone, Rec.recv(r) == Val.Obj(me), Rec.kw(r) == dict_c(Val.dk(sd))))]
            if fn == 'super.stop':
                return [('the_inherited_stop_once', BoolVal(True))]          # (the base class hook is empty: its position does not matter)
            return [('no_other_call', BoolVal(False))]
        c.expect_trace(expected, 2, normal_len=If(sd != Val.VNone, 2, 1), predicate=True)


def verify_outputfunc_stop(run):
    run.verify('OutputFunc.stop', cls='OutputFunc', calls={'super().stop': of_super_stop})
