"""Shared field declarations, spec functions and contracts used by several properties."""
import z3
from pyvc.sorts import *
from pyvc.values import *
from pyvc.state import declare_fields, FIELD_ALIAS
from pyvc.contract import contract, CONTRACTS, PSEUDO_EXC
from pyvc import calls

# An exception that escapes from the synchronous delivery of an event to another block (the destination's
# handler failed, a forbidden recursion was detected, ...).  It is modelled as its own class so that contracts
# can say "propagates delivery errors, raises nothing else".
PSEUDO_EXC['DeliveryError'] = (Exception,)

declare_fields(
    # Block / SBlock
    _output=VAL, name=STR, circuit=Ref('Circuit'), debug=VAL, comment=VAL,
    _output_events=Seq('ref:Event'), _every_output_events=Seq('ref:Event'),
    _event_active=BOOL, init_steps_completed=INT, initdef=VAL,
    oconnections=REFSET, iconnections=REFSET,
    # Circuit
    _error=VAL, _simtask=VAL, _finalized=BOOL, sblock_queue=Ref('Queue'),
    # Event
    _dest=VAL, _etype=VAL, _filters=Seq('val'),
)
FIELD_ALIAS.update(output='_output', etype='_etype')


# ------------------------------------------------------------------------------------------ spec functions
def sp_both_int(a, b): return And(is_int(a), is_int(b))


def sp_add(a, b):
    return If(sp_both_int(a, b), Val.I(intval(a) + intval(b)), Val.R(num(a) + num(b)))


def sp_sub(a, b):
    return If(sp_both_int(a, b), Val.I(intval(a) - intval(b)), Val.R(num(a) - num(b)))


def sp_mod(v, m):
    """Python's v % m on numbers (floor modulo; the result has the sign of m)"""
    return If(sp_both_int(v, m), Val.I(floormod_int(intval(v), intval(m))), Val.R(real_floormod(num(v), num(m))))


def set_output_result(p, v):
    """value of the output after set_output(v) when it was p: the old object is kept if it compares equal"""
    return If(py_eq(p, v), p, v)


# ------------------------------------------------------------------------------------------ SBlock.set_output
# Contract as seen by callers.  The body is verified against it (plus the trace clauses) under C02.
# A-C02: while the output events of this assignment are delivered, nobody re-assigns this block's output.
@contract('SBlock.set_output', qual='edzed.block:SBlock.set_output', modifies=('_output',),
          result=None, self_cls='SBlock',
          traced=lambda a, st: rec('set_output', to_val(a['self'], st), to_val(a['value'], st)))
def set_output_contract(c):
    me, v = c.z('self'), c.v('value')
    p = c.pre('_output', me)
    c.raises('ValueError', when=v == Val.Undef, iff=True)
    c.raises('DeliveryError', when=v != Val.Undef, unchanged=False,
             ensures=lambda post, exc: [post.f('_output', me) == set_output_result(p, v)])
    c.ensures('value_defined', v != Val.Undef)
    c.ensures('self_output', c.post('_output', me) == set_output_result(p, v))


# ------------------------------------------------------------------------------------------ user callables
# Interface contract for callables supplied by the user (check/schema/func/filters/callbacks): the result and
# whether the call raises are uninterpreted functions of the callee and its argument(s) -- i.e. the callable is
# assumed to be a deterministic function of its arguments; it may raise any Exception ("OtherException").
app = Function('app', Val, Val, Val)
app_raises = Function('app_raises', Val, Val, BoolSort())


def pack_args(st, pos, named):
    if len(pos) == 1 and not named: return to_val(pos[0], st)
    items = [to_val(p, st) for p in pos]
    arr = EMPTY_DICT
    for k, v in sorted(named.items()): arr = Store(arr, StringVal(k), Opt.Some(to_val(v, st)))
    return to_val(PTuple([ZV('val', x) for x in items] + ([PDict(arr)] if named else [])), st)


def user_call(ex, st, f, pos, named, stars, sargs, node):
    from pyvc.engine import Raise
    if stars or sargs: raise Unsupported('*/** arguments to a user callable')
    fv, a = to_val(f, st), pack_args(st, pos, named)
    outs = []
    ok = st.copy(); ok.assume(Not(app_raises(fv, a))); ok.emit(rec('usercall', fv, a))
    if ex.feasible(ok): outs.append((ok, ZV('val', app(fv, a))))
    bad = st.copy(); bad.assume(app_raises(fv, a)); bad.emit(rec('usercall', fv, a)); bad.label('usercall:raises')
    if ex.feasible(bad): outs.append((bad, Raise(PExc('OtherException', val=Val.Obj(fresh('exc', IntSort())), where='callee'))))
    return outs


# ------------------------------------------------------------------------------------------ event() entry point
# `self.event(etype, **data)` as seen by a caller inside the same block (init_from_value and friends): the call is
# recorded in the activation trace with its data; what the handler does is the handler's own contract.
@contract('*.event', modifies=('_output', '_event_active'), result=VAL,
          sig=([__import__('pyvc.contract', fromlist=['Param']).Param('self', Ref(), posonly=True),
                __import__('pyvc.contract', fromlist=['Param']).Param('etype', VAL, posonly=True)], None, 'data'),
          trusted='SBlock.event / AddonPersistence.event (verified under C11, C09, C06)',
          traced=lambda a, st: rec('event', to_val(a['self'], st), to_val(a['etype'], st), kw=a['data'].arr))
def event_iface(c):
    # the value returned by the handler: an uninterpreted function of destination, event type, delivered data and the
    # position of the call in the activation (so that a caller can say "returns the handler's result")
    c.returns(ZV('val', evres(Val.Obj(c.z('self')), c.v('etype'), mkD(c.arg('data').arr), c.S.tn)))
    c.raises('DeliveryError', unchanged=False)


evres = Function('evres', Val, Val, IntSort(), IntSort(), Val)


# ------------------------------------------------------------------------------------------ asyncio.Task (trusted interface)
declare_fields(task_done=BOOL, task_cancelled=BOOL, task_exception=VAL, cancel_requested=BOOL)
_P = __import__('pyvc.contract', fromlist=['Param']).Param


@contract('*.done', modifies=(), result=BOOL, sig=([_P('self', Ref())], None, None), trusted='asyncio.Task.done')
def _task_done(c):
    c.returns(ZV('bool', c.pre('task_done', c.z('self'))))


@contract('*.cancelled', modifies=(), result=BOOL, sig=([_P('self', Ref())], None, None), trusted='asyncio.Task.cancelled')
def _task_cancelled(c):
    c.returns(ZV('bool', c.pre('task_cancelled', c.z('self'))))
