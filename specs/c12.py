"""C12 - OutputAsync honours its mode for every arrival pattern.  DESIGN section 3, C12."""
from pyvc.sorts import *
from pyvc import scan
from specs.common import *
from specs import outputasync


def build(run):
    outputasync.verify_put(run)
    outputasync.verify_output_coro(run)
    outputasync.verify_wrapper(run)
    outputasync.verify_ctrl_wait(run)
    outputasync.verify_ctrl_start(run)
    outputasync.verify_ctrl_cancel(run)
    outputasync.verify_stop_start(run)
    outputasync.verify_init(run)
    outputasync.verify_shield_cancel(run)
    run.replayer('OutputAsync._output_coro/no_unexpected_raise:KeyError', lambda run_, ob, model: open('/verif/specs/replay_c12.py').read())

    # ---- lemmas: the output equals the number of active runs ------------------------------------------------------------------------------
    out, active = Int('out'), Int('active')
    run.lemma('run_counter/start_of_a_run_keeps_output_equal_to_active_runs', [out == active], out + 1 == active + 1)
    run.lemma('run_counter/end_of_a_run_keeps_output_equal_to_active_runs', [out == active, active >= 1], And(out - 1 == active - 1, out - 1 >= 0))
    run.lemma('run_counter/idle_means_zero', [out == active, active == 0], out == 0)
    # ---- scans -----------------------------------------------------------------------------------------------------------------------------
    import ast
    from edzed.blocklib import sblocks2
    owners = set()
    for file, tree in scan.trees().items():
        if not file.endswith('sblocks2.py'): continue
        for n in ast.walk(tree):
            if isinstance(n, ast.ClassDef) and n.name == 'OutputAsync':
                for f in n.body:
                    if isinstance(f, (ast.FunctionDef, ast.AsyncFunctionDef)):
                        for x in ast.walk(f):
                            if isinstance(x, ast.Call) and isinstance(x.func, ast.Attribute) and x.func.attr == 'set_output': owners.add(f.name)
    run.scan('output_written_only_by_the_wrapper_and_init', owners == {'_output_coro_wrapper', 'init_regular'}, f'{sorted(owners)}')
    users = sorted(x for x in scan.method_callers('_output_coro_wrapper'))
    run.scan('wrapper_callers', users == ['edzed/blocklib/sblocks2.py:OutputAsync._ctrl_cancel', 'edzed/blocklib/sblocks2.py:OutputAsync._ctrl_start',
                                          'edzed/blocklib/sblocks2.py:OutputAsync._ctrl_wait', 'edzed/blocklib/sblocks2.py:OutputAsync.stop_async'], f'{users}')
    q = scan.container_mutators('_queue', methods=('put_nowait', 'put', 'get_nowait', 'get'))
    run.scan('data_queue_users', [x for x in q if 'OutputAsync' in x] == ['edzed/blocklib/sblocks2.py:OutputAsync._ctrl_start', 'edzed/blocklib/sblocks2.py:OutputAsync._ctrl_wait',
                                                                            'edzed/blocklib/sblocks2.py:OutputAsync._event_put', 'edzed/blocklib/sblocks2.py:OutputAsync.stop'], f'{q}')
    run.scan('handler_registered:put', sblocks2.OutputAsync._ct_handlers.get('put') is vars(sblocks2.OutputAsync).get('_event_put'),
             "OutputAsync._ct_handlers['put'] is the verified OutputAsync._event_put")
    run.unclaim("'consecutive runs are separated by at least guard_time' across two runs of the control task and 'pending work is completed within "
                "stop_timeout' are consequences of the per-function contracts (the guard sleep is inside each run, shielded; stop_async is awaited "
                "under stop_timeout by _run_tasks: C08) that are stated, not re-proved as one whole-history theorem")
    run.assume('the user coroutine is code behind an interface contract (returns, fails or is cancelled); it honours cancellation')
    run.assume('A-cancel: only the control task cancels output tasks; time is the loop clock as a real number')
    run.trust('asyncio.Queue (FIFO, unbounded), create_task, shield, gather, Task.cancel/done; Event.send and set_output contracts (C02, C18)')
