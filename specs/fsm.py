"""FSM (fsm.py): transition tables, action order, chained transitions, timers (C03, C04; used by C06)."""
import z3
from pyvc.sorts import *
from pyvc.values import *
from pyvc.state import declare_fields, View
from pyvc.contract import contract, CONTRACTS, Param
from pyvc.engine import Raise, NEXT
from pyvc import calls
from specs.common import *
from specs import event_entry, event_send
from specs.event_entry import handler_effects, HANDLER_EFFECTS

MSV = Map(STR, VAL)
declare_fields(_state=VAL, _active_timer=VAL, _fsm_event_active=BOOL, _next_event=VAL, sdata=DICT, _duration=MSV, _ct_default_duration=MSV,
               _fsm_functions=Map(STR, MSV), _state_events=Map(STR, MSV), _on_notrans=Seq('ref:Event'),
               _ct_states=STRSET, _ct_events=STRSET, _ct_transition=Map(VAL, VAL), _ct_timed_event=MSV, _ct_methods=Map(STR, MSV),
               _ct_chainlimit=INT,
               # timer handles (asyncio.TimerHandle), ghost view
               h_live=BOOL, h_when=REAL, h_event=VAL, h_owner=Ref('FSM'),
               n_live=INT,      # ghost per FSM: number of its live (scheduled, not cancelled, not fired) timer handles
               persistent=BOOL, st_items=DICT)
Q = 'edzed.fsm:FSM.'
OV = OptOf(Val)
FSM_FIELDS = ('_state', '_next_event', '_fsm_event_active', '_active_timer', 'sdata', 'h_live', 'h_when', 'h_event', 'h_owner', 'task_cancelled', 'n_live')
FSM_EFFECTS = HANDLER_EFFECTS + FSM_FIELDS


def S(x): return Val.S(x)


def tkey(e, s):
    """key of the transition table: the pair (event, state-or-None)"""
    return Val.T(mkT(2)(e, s))


def tkey_axioms(e, s):
    k = mkT(2)(e, s)
    return And(tup_len(k) == 2, tup_is_tuple(k), tup_item(k, 0) == e, tup_item(k, 1) == s)


def rule(T, e, s0):
    """the statement: a rule naming the current state beats a rule for any state; a None target or a missing rule rejects"""
    specific, anystate = T[tkey(e, s0)], T[tkey(e, Val.VNone)]
    return If(OV.is_Some(specific), OV.v(specific), If(OV.is_Some(anystate), OV.v(anystate), Val.VNone))


def is_triple(v):
    return And(Val.is_T(v), tup_len(Val.tk(v)) == 3, tup_is_tuple(Val.tk(v)), Val.is_S(tup_item(Val.tk(v), 2)), Val.is_D(tup_item(Val.tk(v), 1)))


def valid_fsm(S_, me):
    """type invariant of an FSM object (established by __init__/_build_tables)"""
    ne = S_.f('_next_event', me)
    st = S_.f('_state', me)
    O2 = OptOf(MSV.sort())
    tables = And(*[And(O2.is_Some(S_.f('_fsm_functions', me)[StringVal(t)]), O2.is_Some(S_.f('_ct_methods', me)[StringVal(t)]))
                   for t in ('cond', 'enter', 'exit')])
    return And(Or(ne == Val.VNone, is_triple(ne)), Or(st == Val.Undef, Val.is_S(st)), S_.f('_ct_chainlimit', me) >= 0,
               Implies(S_.f('_output', me) != Val.Undef, Val.is_S(st)),            # an initialised FSM is in a state
               Or(S_.f('_active_timer', me) == Val.VNone, Val.is_Obj(S_.f('_active_timer', me))), tables)


# ================================================================================================= small methods
@contract('FSM._check_state', qual=Q + '_check_state', params={'state': STR}, modifies=(), self_cls='FSM')
def _check_state(c):
    me = c.z('cls')
    c.raises('ValueError', when=Not(c.pre('_ct_states', me)[c.z('state')]), iff=True, label='unknown_state')


@contract('FSM.calc_output', qual=Q + 'calc_output', modifies=(), self_cls='FSM')
def _fsm_calc_output(c):
    c.ensures('default_output_is_the_state', c.rv == c.pre('_state', c.z('self')))


@contract('FSM.init_from_value', qual=Q + 'init_from_value', modifies=FSM_EFFECTS, self_cls='FSM')
def _fsm_ifv(c):
    me, v = c.z('self'), c.v('value')
    c.raises('DeliveryError', unchanged=False)
    if c.verifying:
        c.requires('state_name', Val.is_S(v))
        c.expect_trace(lambda k: rec('event', Val.Obj(me), Val.Goto(Val.s(v)), kw=EMPTY_DICT), 1)


cb_results = Function('cb_results', IntSort(), Val, Val, IntSort(), Val)       # (fsm, cb_type, name, trace position) -> list of results


@contract('FSM._run_cb', qual=Q + '_run_cb', params={'cb_type': STR, 'name': STR}, modifies=HANDLER_EFFECTS + ('sdata', '_next_event'),
          self_cls='FSM', traced=lambda a, st: rec('run_cb', to_val(a['self'], st), to_val(a['cb_type'], st), to_val(a['name'], st)))
def _run_cb(c):
    me, typ, name = c.z('self'), c.z('cb_type'), c.z('name')
    O2 = OptOf(MSV.sort())
    funcs, meths = c.pre('_fsm_functions', me)[typ], c.pre('_ct_methods', me)[typ]
    c.requires('known_callback_type', And(O2.is_Some(funcs), O2.is_Some(meths)))
    f, m = O2.v(funcs)[name], O2.v(meths)[name]
    c.raises('OtherException', unchanged=False, label='callback_raised')
    c.raises('DeliveryError', unchanged=False, label='callback_raised_delivery_error')
    if c.verifying:
        # the instance callback (if given) is called, then the class method (if defined); their results are returned in that order
        nf, nm = If(OV.is_Some(f), 1, 0), If(OV.is_Some(m), 1, 0)
        r = c.rv
        def expected(k, rr, st):
            first = And(OV.is_Some(f), k == 0, Rec.recv(rr) == OV.v(f))
            second = And(OV.is_Some(m), k == nf, Rec.recv(rr) == OV.v(m), Rec.a0(rr) == Val.Obj(me))
            return And(Rec.fn(rr) == StringVal('usercall'), Or(first, second))
        c.expect_trace(expected, 2, normal_len=None, predicate=True)
        c.ensures('all_defined_callbacks_called', c.T.tn == nf + nm)
        c.ensures('one_result_per_callback', And(Val.is_T(r), tup_len(Val.tk(r)) == nf + nm))
    else:
        # as seen by _ctx_event: callbacks are user code (interface contract): they reach edzed only through the public API.
        # A request for a further transition (self.event from an entry action, guard lifted) is recorded in _next_event by the
        # nested activation (re-entrant case of _ctx_event); with the guard set a nested event() is refused.
        old = c.pre('_next_event', me)
        new = c.post('_next_event', me)
        lifted = Not(c.pre('_event_active', me))
        c.ensures('next_event_rule', If(And(old == Val.VNone, lifted), Or(new == Val.VNone, is_triple(new)), new == old))
        res = cb_results(me, Val.S(typ), Val.S(name), c.S.tn)
        c.returns(ZV('val', res))
        c.ensures('results', And(Val.is_T(res), tup_len(Val.tk(res)) >= 0, tup_len(Val.tk(res)) <= 2))
        # the FSM's own output is assigned only by its own _ctx_event/_restore_state (scan), never from inside a callback
        c.ensures('own_output_kept', c.post('_output', me) == c.pre('_output', me))


def cb_call(ex, st, f, pos, named, stars, sargs, node):
    """`cb()` / `cb(self)`: a user callback; effects: anything a handler may do + sdata + a chained request"""
    outs = []
    me = as_kind(st.env['self'], Ref(), st)
    fv = to_val(f, st)
    a0 = to_val(pos[0], st) if pos else Val.VNone
    for kind in ('ok', 'OtherException', 'DeliveryError'):
        s2 = handler_effects(ex, st)
        for fld in ('sdata', '_next_event'): s2.havoc_field(fld)
        ex.emit(s2, rec('usercall', fv, a0))
        if kind == 'ok': outs.append((s2, ZV('val', app(fv, a0))))
        else:
            s2.label(f'callback:raises:{kind}')
            outs.append((s2, Raise(PExc(kind, val=Val.Obj(fresh('exc', IntSort())), where='callee'))))
    return outs


def fsm_event_kw(S_, me, trigger, state, value):
    """data of an on_enter/on_exit event: the public state data (keys not starting with '_'), trigger, state, value"""
    kq = Const('k!sd', StringSort())
    sd = S_.f('sdata', me)
    pub = z3.Lambda([kq], If(And(Opt.is_Some(sd[kq]), Not(PrefixOf(StringVal('_'), kq))), sd[kq], Opt.Absent))
    return dict_of(sdata=Val.D(mkD(pub)), trigger=S(StringVal(trigger)), state=state, value=value)


@contract('FSM._send_events', qual=Q + '_send_events', params={'trigger_type': STR}, modifies=DELIVERY, self_cls='FSM',
          propagates_delivery_errors=True,
          traced=lambda a, st: rec('send_events', to_val(a['self'], st), to_val(a['trigger_type'], st)))
def _send_events(c):
    me, trig = c.z('self'), c.z('trigger_type')
    O2 = OptOf(MSV.sort())
    c.raises('DeliveryError', unchanged=False)
    if not c.verifying:
        c.ensures('own_output_kept', c.post('_output', me) == c.pre('_output', me))
        impose_queues_only_grow(c.S, c.T)
        return
    state = c.pre('_state', me)
    table = c.pre('_state_events', me)[trig]
    c.requires('defined_state', Val.is_S(state))
    c.requires('trigger_is_on_enter_or_on_exit', And(Or(trig == StringVal('on_enter'), trig == StringVal('on_exit')), O2.is_Some(table)))
    evs = O2.v(table)[Val.s(state)]
    ev = OV.v(evs)
    n = If(OV.is_Some(evs), tup_len(Val.tk(ev)), 0)
    j = Int('j!se')
    c.requires('event_tuples', Implies(OV.is_Some(evs), And(Val.is_T(ev), tup_len(Val.tk(ev)) >= 0,
               ForAll([j], Implies(And(0 <= j, j < tup_len(Val.tk(ev))), Val.is_Obj(tup_item(Val.tk(ev), j)))))))
    short = If(trig == StringVal('on_enter'), StringVal('enter'), StringVal('exit'))
    kq = Const('k!sd', StringSort())
    sd = c.pre('sdata', me)
    pub = z3.Lambda([kq], If(And(Opt.is_Some(sd[kq]), Not(PrefixOf(StringVal('_'), kq))), sd[kq], Opt.Absent))
    out0 = c.pre('_output', me)
    def expected(k, r, st):
        kw = Rec.kw(r)
        return And(Rec.fn(r) == StringVal('send'), Rec.recv(r) == tup_item(Val.tk(ev), k), Rec.a0(r) == Val.Obj(me),
                   kw[StringVal('trigger')] == Opt.Some(S(short)), kw[StringVal('state')] == Opt.Some(state),
                   kw[StringVal('value')] == Opt.Some(out0),
                   Opt.is_Some(kw[StringVal('sdata')]), Val.is_D(Opt.v(kw[StringVal('sdata')])),
                   ForAll([kq], dict_c(Val.dk(Opt.v(kw[StringVal('sdata')])))[kq] == pub[kq]))
    c.expect_trace(expected, n, predicate=True)


def inv_send_events(lc):
    me = as_kind(lc.pre.args['self'], Ref())
    return [('trace_position', lc.st.tn == lc.i),
            ('own_output_kept', lc.st.f('_output', me) == lc.pre.f('_output', me)),
            ('state_data_kept', And(lc.st.f('sdata', me) == lc.pre.f('sdata', me), lc.st.f('_state', me) == lc.pre.f('_state', me)))]


# ================================================================================================= timers (C04)
INF = Val.R(RealVal(10 ** 300))       # float('+inf'): encoded as the real 10^300 (values.const_to_val)


def timer_invariant(S_, me):
    """invariant T (C04), quantifier-free: the number of live handles of this FSM is 1 if _active_timer is a live handle
    that belongs to it, and 0 otherwise -- so at most one timer is pending, and it is the active one; a cancelled handle is
    not live"""
    at = S_.f('_active_timer', me)
    h = Val.ref(at)
    live = And(at != Val.VNone, S_.f('h_live', h))
    return And(S_.f('n_live', me) == If(live, 1, 0),
               Implies(at != Val.VNone, And(Val.is_Obj(at), S_.f('h_owner', h) == me, Implies(S_.f('task_cancelled', h), Not(S_.f('h_live', h))))))


def timer_cancelled(ex, e, st):
    t = as_kind(st.env['timer'], Ref(), st)
    return [(st, ZV('bool', st.readz('task_cancelled', t)))]


def timer_cancel(ex, e, st):
    """TimerHandle.cancel(): the handle is cancelled and no longer live (asyncio contract: never runs after cancel)"""
    st = st.copy(); t = as_kind(st.env['timer'], Ref(), st)
    ex.emit(st, rec('timer.cancel', Val.Obj(t)))
    owner = st.readz('h_owner', t)
    was_live = st.readz('h_live', t)
    st.write('n_live', owner, ZV('int', st.readz('n_live', owner) - If(was_live, 1, 0)))
    st.write('task_cancelled', t, P_TRUE); st.write('h_live', t, P_FALSE)
    return [(st, P_NONE)]


def timer_when(ex, e, st):
    t = as_kind(st.env['timer'], Ref(), st)
    return [(st, ZV('real', st.readz('h_when', t)))]


def getattr_scheduled(ex, e, st):
    return [(st, ZV('val', fresh('scheduled', Val)))]


@contract('FSM._stop_timer', qual=Q + '_stop_timer', modifies=('_active_timer', 'h_live', 'task_cancelled', 'n_live'), self_cls='FSM',
          traced=lambda a, st: rec('stop_timer', to_val(a['self'], st)))
def _stop_timer(c):
    me = c.z('self')
    at = c.pre('_active_timer', me)
    c.requires('timer_invariant', timer_invariant(c.S, me))
    h = Val.ref(at)
    c.ensures('no_active_timer_afterwards', c.post('_active_timer', me) == Val.VNone)
    c.ensures('pending_timer_is_cancelled', Implies(at != Val.VNone, And(Not(c.post('h_live', h)), c.post('task_cancelled', h))))
    c.ensures('nothing_live_for_this_fsm', c.post('n_live', me) == 0)
    c.ensures('only_this_handle_and_this_fsm_touched', And(
        c.post_whole('h_live') == If(at != Val.VNone, Store(c.pre_whole('h_live'), h, BoolVal(False)), c.pre_whole('h_live')),
        c.post_whole('n_live') == Store(c.pre_whole('n_live'), me, IntVal(0))))
    c.ensures('invariant_T', timer_invariant(c.T, me))


def call_later(ex, e, st):
    """loop.call_later(delay, callback, arg): trusted asyncio contract -- a new handle, live, due at now + delay, that will
    call callback(arg) once unless cancelled"""
    outs = []
    for s1, vals in ex.evs(e.args, st):
        if isinstance(vals, Raise): outs.append((s1, vals)); continue
        d, cb, arg = vals
        s1 = s1.copy()
        h = fresh('handle', IntSort())
        me = as_kind(s1.env['self'], Ref(), s1)
        if not (isinstance(cb, PBound) and cb.name in ('_timer_expired', 'event')):
            raise Unsupported('call_later with a callback other than self._timer_expired / self.event')
        s1.ghost['timer_callback'] = cb.name
        ex.oblige('call:call_later/pre:callback_is_this_fsm_event', s1, as_kind(cb.recv, Ref(), s1) == me, kind='pre')
        ex.emit(s1, rec('call_later', Val.Obj(h), to_val(d, s1), to_val(arg, s1)))
        s1.assume(Not(s1.readz('h_live', h)), Not(s1.readz('task_cancelled', h)))       # a fresh handle
        s1.write('h_live', h, P_TRUE); s1.write('h_owner', h, ZV('ref', me))
        s1.write('n_live', me, ZV('int', s1.readz('n_live', me) + 1))
        s1.write('h_event', h, arg); s1.write('h_when', h, ZV('real', s1.ghost['now'] + as_kind(d, REAL, s1)))
        outs.append((s1, ZV('val', Val.Obj(h))))
    return outs


@contract('FSM._set_timer', qual=Q + '_set_timer', params={'duration': REAL}, modifies=('_active_timer', 'h_live', 'h_when', 'h_event', 'h_owner', 'n_live'),
          self_cls='FSM', traced=lambda a, st: rec('set_timer', to_val(a['self'], st), to_val(a['duration'], st), to_val(a['timed_event'], st)))
def _set_timer(c):
    me, d, ev = c.z('self'), c.z('duration'), c.v('timed_event')
    c.requires('no_live_timer_of_this_fsm', c.pre('n_live', me) == 0)
    new = c.post('_active_timer', me)
    h = Val.ref(new)
    c.ensures('one_new_live_handle', And(Val.is_Obj(new), c.post('h_live', h), c.post('h_owner', h) == me, Not(c.post('task_cancelled', h)),
                                         c.post('h_when', h) == c.S.g('now') + d, c.post('h_event', h) == ev))
    c.ensures('exactly_one_pending_timer', c.post('n_live', me) == 1)
    if c.verifying:
        # the callback must clear the handle when it fires (FSM._timer_expired): otherwise a fired handle looks like a pending timer
        c.ensures('callback_clears_the_fired_handle', BoolVal(c.T.g('timer_callback') == '_timer_expired'))
    c.ensures('invariant_T', timer_invariant(c.T, me))
    c.ensures('other_fsms_untouched', c.post_whole('n_live') == Store(c.pre_whole('n_live'), me, IntVal(1)))


tp_result = Function('time_period_result', Val, Val)
tp_raises = Function('time_period_raises', Val, BoolSort())


def time_period_call(ex, e, st):
    outs = []
    for s1, vals in ex.evs(e.args, st):
        x = to_val(vals[0], s1)
        ok = s1.copy(); r = tp_result(x)
        ok.assume(Not(tp_raises(x)), If(x == Val.VNone, r == Val.VNone, And(Val.is_R(r), Val.r(r) >= 0)))
        outs.append((ok, ZV('val', r)))
        for cls in ('ValueError', 'TypeError'):
            b = s1.copy(); b.assume(tp_raises(x), x != Val.VNone); b.label(f'time_period:raises:{cls}')
            outs.append((b, Raise(PExc(cls, val=Val.Obj(fresh('exc', IntSort())), where='callee'))))
    return outs


def eff_duration(S_, me, duration):
    """the statement: the event's 'duration' item overrides the instance's t_STATE (which already replaced the class default)"""
    dflt = S_.f('_duration', me)[Val.s(S_.f('_state', me))]
    return If(duration != Val.VNone, tp_result(duration), If(OV.is_Some(dflt), OV.v(dflt), Val.VNone))


@contract('FSM._start_timer', qual=Q + '_start_timer', modifies=FSM_EFFECTS, self_cls='FSM',
          traced=lambda a, st: rec('start_timer', to_val(a['self'], st), to_val(a['duration'], st), to_val(a['timed_event'], st)))
def _start_timer(c):
    me, dur, ev = c.z('self'), c.v('duration'), c.v('timed_event')
    c.requires('defined_state', Val.is_S(c.pre('_state', me)))
    if not c.verifying:
        # as seen by _ctx_event: either a timer is set (and nothing else happens), or no timer exists afterwards and the timed
        # event may have been delivered at once (zero delay), which records a chained request
        old, new = c.pre('_next_event', me), c.post('_next_event', me)
        lifted = Not(c.pre('_event_active', me))
        c.ensures('next_event_rule', If(And(old == Val.VNone, lifted), Or(new == Val.VNone, is_triple(new)), new == old))
        c.ensures('state_kept', And(c.post('_state', me) == c.pre('_state', me), c.post_whole('_fsm_event_active') == c.pre_whole('_fsm_event_active'),
                                    c.post('_output', me) == c.pre('_output', me)))
        c.ensures('timer_set_or_chained', Or(timer_free(c.T, me), And(new == old, timer_invariant(c.T, me), c.post('n_live', me) == 1)))
        for cls in ('EdzedCircuitError', 'ValueError', 'TypeError', 'DeliveryError'):
            c.raises(cls, unchanged=False)
        return
    c.requires('no_live_timer_of_this_fsm', c.pre('n_live', me) == 0)
    d = eff_duration(c.S, me, dur)
    bad = And(dur != Val.VNone, tp_raises(dur))
    c.raises('ValueError', when=bad, label='bad_duration_value'); c.raises('TypeError', when=bad, label='bad_duration_type')
    c.raises('EdzedCircuitError', when=And(Not(bad), d == Val.VNone), iff=True, label='no_duration_at_all')
    c.raises('DeliveryError', when=And(Not(bad), d != Val.VNone, Val.r(d) <= 0), unchanged=False, label='immediate_timed_event_failed')
    dcell = c.pre('_duration', me)[Val.s(c.pre('_state', me))]
    c.requires('durations_are_floats_or_none', Implies(OV.is_Some(dcell), Or(OV.v(dcell) == Val.VNone, Val.is_R(OV.v(dcell)))))
    inf, zero = Val.r(d) == Val.r(INF), Val.r(d) <= 0
    def expected(k, r, st):
        return And(k == 0, Not(inf), If(zero, r == rec('event', Val.Obj(me), ev, kw=EMPTY_DICT),
                                        r == rec('set_timer', Val.Obj(me), Val.R(Val.r(d)), ev)))
    c.expect_trace(expected, 1, normal_len=None, predicate=True)
    c.ensures('inf_means_never__zero_means_now__else_timer', c.T.tn == If(inf, 0, 1))


@contract('FSM._timer_expired', qual=Q + '_timer_expired', modifies=FSM_EFFECTS + ('__cause__', 'persistent', 'st_items'), self_cls='FSM')
def _timer_expired(c):
    me, ev = c.z('self'), c.v('timed_event')
    at = c.pre('_active_timer', me)
    # called by the event loop when the live handle fires (environment step: the handle is no longer live)
    c.requires('the_handle_has_just_fired', And(at != Val.VNone, Not(c.pre('h_live', Val.ref(at))), c.pre('n_live', me) == 0))
    for cls in ('DeliveryError', 'EdzedCircuitError', 'EdzedUnknownEvent', 'OtherException', 'TypeError', 'ValueError'):
        c.raises(cls, unchanged=False)
    if c.verifying:
        def expected(k, r, st):
            return And(k == 0, r == rec('event', Val.Obj(me), ev, kw=EMPTY_DICT), st.readz('_active_timer', me) == Val.VNone)
        c.expect_trace(expected, 1, predicate=True)


@contract('FSM.stop', qual=Q + 'stop', modifies=('_active_timer', 'h_live', 'task_cancelled', 'n_live'), self_cls='FSM')
def _fsm_stop(c):
    me = c.z('self')
    c.requires('timer_invariant', timer_invariant(c.S, me))
    c.ensures('no_timer_pending_after_stop', timer_free(c.T, me))
    if c.verifying:
        c.expect_trace(lambda k: If(k == 0, rec('stop_timer', Val.Obj(me)), rec('super().stop', Val.Obj(me))), 2)


def super_stop(ex, e, st):
    st = st.copy(); ex.emit(st, rec('super().stop', to_val(st.env['self'], st))); return [(st, P_NONE)]


# ================================================================================================= _ctx_event (C03)
def ctx_set(ex, e, st):
    """fsm_event_data.set(rodata): ghost `ctx` = the data visible through fsm_event_data in this context"""
    outs = []
    for s1, vals in ex.evs(e.args, st):
        if isinstance(vals, Raise): outs.append((s1, vals)); continue
        s1 = s1.copy(); s1.ghost['ctx'] = ex.as_dict(s1, vals[0]); outs.append((s1, P_NONE))
    return outs


def mapping_proxy(ex, e, st):
    """types.MappingProxyType(data): a read-only view with the same items"""
    return ex.ev(e.args[0], st)


fsm_out = Function('fsm_calc_output', IntSort(), Val, DictS, Val)       # calc_output() of an FSM: a function of state and state data
fsm_out_raises = Function('fsm_calc_output_raises', IntSort(), Val, DictS, BoolSort())


def fsm_calc_output_iface(ex, e, st):
    me = as_kind(st.env['self'], Ref(), st)
    v = fsm_out(me, st.readz('_state', me), st.readz('sdata', me))
    s2 = st.copy(); ex.emit(s2, rec('calc_output', Val.Obj(me))); s2.ghost['calc_val'] = v
    s2.assume(Not(fsm_out_raises(me, st.readz('_state', me), st.readz('sdata', me))))
    bad = st.copy(); ex.emit(bad, rec('calc_output', Val.Obj(me))); bad.label('calc_output:raises')
    bad.assume(fsm_out_raises(me, st.readz('_state', me), st.readz('sdata', me)))
    return [(s2, ZV('val', v)), (bad, Raise(PExc('OtherException', val=Val.Obj(fresh('exc', IntSort())), where='callee')))]


def ctx_event_requires(c, me, etype):
    T = c.pre('_ct_transition', me)
    s0 = c.pre('_state', me)
    NT, nNT = c.pre('_on_notrans', me)
    active0 = c.pre('_fsm_event_active', me)
    c.requires('valid', valid_fsm(c.S, me))
    c.requires('guard_is_set', c.pre('_event_active', me))                      # _ctx_event runs inside event()
    c.requires('tables', And(tkey_axioms(etype, s0), tkey_axioms(etype, Val.VNone), nNT >= 0))
    ok_target = lambda cell: Implies(OV.is_Some(cell), Or(OV.v(cell) == Val.VNone, Val.is_S(OV.v(cell))))
    c.requires('table_targets_are_states_or_none', And(ok_target(T[tkey(etype, s0)]), ok_target(T[tkey(etype, Val.VNone)])))
    c.requires('idle_fsm_has_no_pending_request', Implies(Not(active0), c.pre('_next_event', me) == Val.VNone))
    c.requires('timer_invariant', timer_invariant(c.S, me))
    c.requires('uninitialized_fsm_has_no_timer', Implies(c.pre('_output', me) == Val.Undef, timer_free(c.S, me)))


P_PRE, P_EXITED, P_SENT_EXIT, P_HOP, P_ENTERED, P_TIMED, P_CALC, P_OUT, P_DONE = -1, 1, 2, 3, 4, 5, 7, 8, 9


# ghost:ctx -- _ctx_event sets the context variable fsm_event_data of the context it runs in (a caller that must not see that runs it in a copy)
@contract('FSM._ctx_event', qual=Q + '_ctx_event', params={'data': DICT}, modifies=FSM_EFFECTS + ('ghost:ctx',), self_cls='FSM')
def _ctx_event(c):
    me, etype = c.z('self'), c.v('etype')
    data = c.z('data')
    T = c.pre('_ct_transition', me)
    s0, o0 = c.pre('_state', me), c.pre('_output', me)
    init0 = o0 != Val.Undef
    active0 = c.pre('_fsm_event_active', me)
    goto = Val.is_Goto(etype)
    table_ev = And(Not(goto), Val.is_S(etype), c.pre('_ct_events', me)[Val.s(etype)])
    target = If(goto, S(Val.gs(etype)), rule(T, etype, s0))
    NT, nNT = c.pre('_on_notrans', me)
    ctx_event_requires(c, me, etype)
    unchanged_fsm = lambda post: [post.f('_state', me) == s0, post.f('_next_event', me) == c.pre('_next_event', me),
                                 post.f('_fsm_event_active', me) == active0, post.f('_active_timer', me) == c.pre('_active_timer', me),
                                 post.f('_output', me) == o0]
    # ---- rejections
    c.raises('EdzedUnknownEvent', when=And(Not(goto), Not(table_ev)), iff=True, unchanged=False, label='unknown_event_type',
             ensures=lambda post, exc: unchanged_fsm(post) + [post.tn == 0])
    goto_bad = And(goto, Not(c.pre('_ct_states', me)[Val.gs(etype)]))
    c.raises('AssertionError', when=And(table_ev, s0 == Val.Undef), unchanged=False, label='table_event_to_uninitialized_fsm')
    accepted_syntax = Or(And(goto, c.pre('_ct_states', me)[Val.gs(etype)]), And(table_ev, s0 != Val.Undef, target != Val.VNone))
    c.raises('EdzedCircuitError', when=accepted_syntax, unchanged=False, label='second_chained_request_or_endless_chain')
    for cls in ('OtherException', 'DeliveryError', 'TypeError'):
        c.raises(cls, when=Or(accepted_syntax, And(table_ev, target == Val.VNone)), unchanged=False, label=f'action_or_delivery_failed:{cls}',
                 ensures=lambda post, exc: [post.f('_fsm_event_active', me) == active0])
    c.raises('ValueError', when=Or(goto_bad, accepted_syntax), unchanged=False, label='goto_to_unknown_state_or_bad_duration')
    # ---- normal returns
    r = c.rv
    no_rule = And(table_ev, s0 != Val.Undef, target == Val.VNone)
    c.ensures('returns_bool', Val.is_B(r))
    c.ensures('goto_target_is_a_known_state', Not(goto_bad))
    c.ensures('no_transition_rejects_and_changes_nothing', Implies(no_rule, And(r == B_(False), c.T.tn == nNT, *unchanged_fsm(c.T))))
    c.ensures('rejected_event_changes_nothing', Implies(r == B_(False), And(*unchanged_fsm(c.T))))
    c.ensures('accepted_only_with_a_rule_or_goto', Implies(r == B_(True), accepted_syntax))
    c.ensures('flag_released', c.post('_fsm_event_active', me) == active0)
    conds = cb_results(me, S(StringVal('cond')), etype, IntVal(0))
    all_true = And(Implies(tup_len(Val.tk(conds)) > 0, truthy(tup_item(Val.tk(conds), 0))), Implies(tup_len(Val.tk(conds)) > 1, truthy(tup_item(Val.tk(conds), 1))))
    consulted = And(table_ev, s0 != Val.Undef, target != Val.VNone, init0)
    c.ensures('all_conditions_must_be_true', Implies(consulted, And(Implies(r == B_(True), all_true), Implies(Not(all_true), r == B_(False)))))
    c.ensures('reentrant_request_is_recorded_once', Implies(And(active0, r == B_(True)), And(
        c.pre('_next_event', me) == Val.VNone, is_triple(c.post('_next_event', me)),
        tup_item(Val.tk(c.post('_next_event', me)), 0) == etype, tup_item(Val.tk(c.post('_next_event', me)), 2) == target,
        c.post('_state', me) == s0, c.T.tn == If(And(table_ev, init0), 1, 0))))
    if c.verifying:
        final_target = c.T.st.env.get('newstate')
        c.ensures('state_is_the_last_requested_target', Implies(And(Not(active0), r == B_(True)), And(
            c.post('_state', me) == to_val(final_target, c.T.st) if final_target is not None else BoolVal(True),
            c.post('_next_event', me) == Val.VNone, c.T.g('phase') == P_DONE)))
        TE = c.pre('_ct_timed_event', me)
        circ_data = data
        def expected(k, r_, st):
            """order automaton of DESIGN 2.8: which traced call is allowed in which phase, and what it must carry.
            The kind of the call is static on each path, so the conditions stay small."""
            ph = st.ghost['phase']
            name = z3.simplify(Rec.fn(r_)).as_string()
            cur = st.readz('_state', me)
            pending = st.readz('_next_event', me) != Val.VNone
            lifted = Not(st.readz('_event_active', me))
            cur_data = ex_dict(st.env.get('data'), st)
            ctx = st.ghost['ctx']
            timed = OV.is_Some(TE[Val.s(cur)])
            goals, nxt = [], IntVal(-99)
            if name == 'send':
                goals = [('on_notrans_only_without_a_rule', And(ph == P_PRE, no_rule, Rec.recv(r_) == NT[k], Rec.a0(r_) == Val.Obj(me))),
                         ('on_notrans_data', Rec.kw(r_) == dict_of(trigger=S(StringVal('notrans')), event=etype, state=s0))]
                nxt = IntVal(P_PRE)
            elif name == 'run_cb':
                typ = z3.simplify(Val.s(Rec.a0(r_))).as_string()
                nm = Rec.a1(r_)
                own = Rec.recv(r_) == Val.Obj(me)
                if typ == 'cond':
                    goals = [('conditions_only_for_table_events_of_an_initialised_fsm', And(own, ph == P_PRE, table_ev, target != Val.VNone, init0, k == 0, nm == etype)),
                             ('condition_sees_the_data_of_its_event', ctx == cur_data)]
                    nxt = IntVal(P_PRE)
                elif typ == 'exit':
                    first = And(ph == P_PRE, init0, Not(active0), cur == s0)
                    mid = And(Or(ph == P_ENTERED, ph == P_TIMED), pending)
                    goals = [('exit_action_of_the_old_state_first__of_an_intermediate_state_only_when_chained', And(own, nm == cur, Or(first, mid))),
                             ('exit_action_sees_the_data_of_the_event_that_caused_it',
                              If(ph == P_PRE, ctx == cur_data, ctx == dict_c(Val.dk(tup_item(Val.tk(st.readz('_next_event', me)), 1)))))]
                    nxt = If(ph == P_PRE, IntVal(P_EXITED), IntVal(P_HOP))
                elif typ == 'enter':
                    ns = st.env.get('newstate')
                    goals = [('entry_action_of_the_new_state_after_the_exit_part', And(own, nm == cur, lifted, cur == to_val(ns, st),
                                                                                       Or(ph == P_HOP, And(ph == P_PRE, Not(init0), Not(active0))))),
                             ('entry_action_sees_the_data_of_the_event_that_caused_it', ctx == cur_data)]
                    nxt = IntVal(P_ENTERED)
            elif name == 'send_events':
                trig = z3.simplify(Val.s(Rec.a0(r_))).as_string()
                if trig == 'on_exit':
                    goals = [('on_exit_after_the_exit_action_with_old_state_and_output', And(ph == P_EXITED, cur == s0, st.readz('_output', me) == o0))]
                    nxt = IntVal(P_SENT_EXIT)
                else:
                    cv = st.ghost.get('calc_val')
                    goals = [('on_enter_after_the_output_update', Or(ph == P_OUT, And(ph == P_CALC, cv == Val.Undef)))]
                    nxt = IntVal(P_DONE)
            elif name == 'stop_timer':
                goals = [('timer_stopped_after_on_exit', ph == P_SENT_EXIT)]; nxt = IntVal(P_HOP)
            elif name == 'start_timer':
                goals = [('timer_started_after_entry_unless_chained', And(ph == P_ENTERED, Not(pending), timed, lifted, Rec.a1(r_) == OV.v(TE[Val.s(cur)]))),
                         ('event_duration_item_is_passed_on', Rec.a0(r_) == If(Opt.is_Some(cur_data[StringVal('duration')]), Opt.v(cur_data[StringVal('duration')]), Val.VNone))]
                nxt = IntVal(P_TIMED)
            elif name == 'calc_output':
                goals = [('output_calculated_in_the_final_state_only', And(Not(pending), Or(And(ph == P_ENTERED, Not(timed)), ph == P_TIMED)))]
                nxt = IntVal(P_CALC)
            elif name == 'set_output':
                goals = [('output_set_to_the_calculated_value', And(ph == P_CALC, Rec.a0(r_) == st.ghost.get('calc_val'), Rec.a0(r_) != Val.Undef))]
                nxt = IntVal(P_OUT)
            else:
                goals = [('no_other_traced_call', BoolVal(False))]
            st.ghost['phase'] = nxt
            return goals
        c.expect_trace(expected, None, normal_len=None, predicate=True)


def ex_dict(v, st):
    if v is None: return EMPTY_DICT
    if isinstance(v, PDict): return v.arr
    return dict_c(Val.dk(to_val(v, st)))


def ctx_ok_next(st):
    """the exit action of an intermediate state is caused by the chained event: it must see that event's data"""
    ne = st.env.get('self')
    me = as_kind(ne, Ref(), st)
    nxt = st.readz('_next_event', me)
    return st.ghost['ctx'] == dict_c(Val.dk(tup_item(Val.tk(nxt), 1)))


def inv_chain(lc):
    st = lc.st.st
    me = as_kind(lc.pre.args['self'], Ref())
    pre = lc.pre
    s0, o0 = pre.f('_state', me), pre.f('_output', me)
    init0 = o0 != Val.Undef
    ne = lc.st.f('_next_event', me)
    ph = st.ghost['phase']
    newstate = to_val(lc.local('newstate'), st)
    data = lc.local('data')
    first = lc.i == 0
    return [('activation_flags', And(lc.st.f('_fsm_event_active', me), lc.st.whole('_event_active') == pre.whole('_event_active'),
                                     lc.st.whole('_fsm_event_active') == Store(pre.whole('_fsm_event_active'), me, BoolVal(True)))),
            ('tables_unchanged', And(*[lc.st.whole(f) == pre.whole(f) for f in ('_ct_transition', '_ct_timed_event')])),
            ('pending_request_iff_chained_hop', And(Or(ne == Val.VNone, is_triple(ne)), Implies(first, ne == Val.VNone), Implies(Not(first), ne != Val.VNone))),
            ('phase', If(first, If(init0, ph == P_HOP, ph == P_PRE), Or(ph == P_ENTERED, ph == P_TIMED))),
            ('target_is_a_state', And(Val.is_S(newstate), Implies(first, st.ghost['ctx'] == ex_dict(data, st)), Implies(Not(first), Val.is_S(lc.st.f('_state', me))))),
            ('no_timer_pending', timer_free(lc.st, me))]


def timer_free(S_, me):
    """no timer of this FSM is pending"""
    return And(S_.f('_active_timer', me) == Val.VNone, S_.f('n_live', me) == 0)


def inv_notrans(lc):
    me = as_kind(lc.pre.args['self'], Ref())
    NT, n = lc.pre.f('_on_notrans', me)
    return [('trace_position', lc.st.tn == lc.i),
            ('nothing_changed', And(lc.st.f('_state', me) == lc.pre.f('_state', me), lc.st.f('_output', me) == lc.pre.f('_output', me),
                                    lc.st.g('phase') == P_PRE)),
            ('assume:events_are_objects@i', Implies(lc.i < n, Val.is_Obj(NT[lc.i])))]


def ctx_copy_run(ex, e, st):
    """contextvars.copy_context().run(self._ctx_event, etype, data): runs _ctx_event in a copy of the context"""
    outs = []
    for s1, vals in ex.evs(e.args[1:], st):
        me = s1.env['self']
        k = CONTRACTS['FSM._ctx_event']
        for s2, r in calls.apply_contract(ex, s1, k, me, [vals[0], vals[1]], {}, [], [], e):
            s2 = s2.copy(); s2.ghost['ctx'] = s1.ghost.get('ctx')        # the callee ran in a copy: the caller's context variable is as before
            outs.append((s2, r))
    return outs


@contract('FSM._event', qual=Q + '_event', params={'data': DICT}, modifies=FSM_EFFECTS, self_cls='FSM')
def _fsm_event(c):
    ctx_event_requires(c, c.z('self'), c.v('etype'))
    for cls in ('EdzedUnknownEvent', 'ValueError', 'AssertionError', 'EdzedCircuitError', 'OtherException', 'DeliveryError', 'TypeError'):
        c.raises(cls, unchanged=False)
    if c.verifying:
        c.ensures('context_variable_of_the_caller_is_untouched', c.T.g('ctx') == c.S.g('ctx'))


def verify_fsm(run, what=('c03', 'c04')):
    G = dict(ctx=Const('ctx0', DictS), phase=IntVal(P_PRE), now=z3.Real('now'), calc_val=Val.VNone, timer_callback=None)
    hooks = {'goto_state_attr': True, 'with': event_entry.with_enable_event}
    if 'c03' in what:
        run.verify('FSM._check_state', cls='FSM')
        run.verify('FSM.calc_output', cls='FSM')
        run.verify('FSM.init_from_value', cls='FSM')
        run.verify('FSM._run_cb', cls='FSM', calls={'*value*': cb_call})
        run.verify('FSM._send_events', cls='FSM', invariants={'for event in events': inv_send_events})
        run.verify('FSM._ctx_event', cls='FSM', ghost=G, hooks=hooks,
                   invariants={'for _ in range(self._ct_chainlimit)': inv_chain, 'for event in self._on_notrans': inv_notrans},
                   calls={'fsm_event_data.set': ctx_set, 'types.MappingProxyType': mapping_proxy, 'self.calc_output': fsm_calc_output_iface})
        run.verify('FSM._event', cls='FSM', ghost=G, calls={'contextvars.copy_context().run': ctx_copy_run})
    if 'c04' in what:
        tcalls = {'timer.cancelled': timer_cancelled, 'timer.cancel': timer_cancel, 'timer.when': timer_when, 'getattr': getattr_scheduled}
        run.verify('FSM._stop_timer', cls='FSM', calls=tcalls, ghost=G)
        run.verify('FSM._set_timer', cls='FSM', ghost=G, calls={'asyncio.get_running_loop().call_later': call_later})
        run.verify('FSM._start_timer', cls='FSM', ghost=G, calls={'utils.time_period': time_period_call})
        run.verify('FSM.stop', cls='FSM', calls={'super().stop': super_stop}, ghost=G)
        run.verify('FSM._timer_expired', cls='FSM', ghost=G)
