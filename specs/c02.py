"""C02 - output events reproduce the source block's output history exactly.  DESIGN section 3, C02."""
import z3
from pyvc.sorts import *
from pyvc.values import *
from pyvc.state import declare_fields, View
from pyvc.contract import contract, CONTRACTS, Param
from pyvc.engine import Raise
from pyvc import calls, scan
from specs.common import *
from specs import event_send

calc = Function('calc_output_of', IntSort(), ArraySort(IntSort(), Val), Val)      # F_b(sigma): value of b.calc_output() in state sigma
calc_raises = Function('calc_output_raises', IntSort(), ArraySort(IntSort(), Val), BoolSort())


def calc_output_iface(ex, e, st):
    """`self.calc_output()`: the block's function of the current outputs (abstract method; per-class contracts: C01)"""
    me = as_kind(st.env['self'], Ref(), st)
    out = st.comp('_output', Val)
    outs = []
    ok = st.copy(); ok.assume(Not(calc_raises(me, out)))
    outs.append((ok, ZV('val', calc(me, out))))
    bad = st.copy(); bad.assume(calc_raises(me, out)); bad.label('calc_output:raises')
    if ex.feasible(bad): outs.append((bad, Raise(PExc('OtherException', val=Val.Obj(fresh('exc', IntSort())), where='callee'))))
    return outs


@contract('CBlock.eval_block', qual='edzed.block:CBlock.eval_block', modifies=DELIVERY, self_cls='CBlock')
def _eval_block(c):
    me = c.z('self')
    p = c.pre('_output', me)
    v = calc(me, c.pre_whole('_output'))
    changed = Not(py_eq(p, v))
    c.raises('OtherException', when=calc_raises(me, c.pre_whole('_output')), iff=True, label='calc_output_raised')
    c.raises('ValueError', when=And(Not(calc_raises(me, c.pre_whole('_output'))), v == Val.Undef), iff=True, label='undef_output_refused')
    c.raises('DeliveryError', when=And(v != Val.Undef, changed), unchanged=False,
             ensures=lambda post, exc: [post.f('_output', me) == v])
    c.ensures('returns_change_indicator', c.rv == Val.B(changed))
    c.ensures('output_is_calculated_value', c.post('_output', me) == If(changed, v, p))
    if c.verifying:
        E, nE = c.pre('_output_events', me)
        c.requires('event_tuple', And(nE >= 0, events_are_objects(E, nE)))
        c.expect_trace(lambda k: send_rec(E, k, me, p, v), If(changed, nE, 0))      # the on_output events, in order, iff changed
        c.ensures('unchanged:nothing_changes', Implies(Not(changed), c.post_whole('_output') == c.pre_whole('_output')))


def inv_eval_block(lc):
    me = as_kind(lc.pre.args['self'], Ref())
    p = lc.pre.f('_output', me)
    v = calc(me, lc.pre.whole('_output'))
    E, nE = lc.pre.f('_output_events', me)
    return [('trace_position', lc.st.tn == lc.i),
            ('output_assigned_before_first_send', lc.st.f('_output', me) == v)]


# ---- tuples of events / filters ------------------------------------------------------------------------------------
is_iterator = Function('is_iterator', Val, BoolSort())


def _iter_hook(ex, st, v, cls):
    import collections.abc as abc
    if cls is abc.Iterator:
        z = to_val(v, st)
        return And(Val.is_Opq(z), is_iterator(z))
    return None


@contract('_is_multiple', qual='edzed.block:_is_multiple', modifies=())
def _is_multiple(c):
    a = c.v('arg')
    c.ensures('sequences_but_not_str', c.rv == Val.B(Or(Val.is_T(a), And(Val.is_Opq(a), is_iterator(a)))))


@contract('_to_tuple', qual='edzed.block:_to_tuple', modifies=())
def _to_tuple(c):
    a, val = c.v('args'), c.v('validator')
    c.requires('no_iterator_argument', Not(And(Val.is_Opq(a), is_iterator(a))))       # deprecated usage, outside the property
    r = c.rv
    n = tup_len(Val.tk(r))
    j = Int('j!t')
    c.raises('OtherException', label='validator_rejected_an_item')
    c.ensures('is_a_tuple', And(Val.is_T(r), tup_is_tuple(Val.tk(r))))
    c.ensures('none_is_empty', Implies(a == Val.VNone, n == 0))
    c.ensures('tuple_is_kept', Implies(And(Val.is_T(a), tup_is_tuple(Val.tk(a))), r == a))
    c.ensures('sequence_keeps_items_and_order', Implies(Val.is_T(a), And(
        n == tup_len(Val.tk(a)), ForAll([j], Implies(And(0 <= j, j < n), tup_item(Val.tk(r), j) == tup_item(Val.tk(a), j))))))
    c.ensures('scalar_becomes_one_tuple', Implies(And(a != Val.VNone, Not(Val.is_T(a))), And(n == 1, tup_item(Val.tk(r), 0) == a)))
    if c.verifying:
        # every item is validated exactly once, in order (item k of the result = item k of the argument sequence,
        # or the scalar itself)
        item = lambda k: If(Val.is_T(a), tup_item(Val.tk(a), k), a)
        c.expect_trace(lambda k: rec('usercall', val, item(k)), If(a == Val.VNone, 0, If(Val.is_T(a), tup_len(Val.tk(a)), 1)))


def inv_to_tuple(lc):
    val = to_val(lc.pre.args['validator'], lc.pre.st)
    j = Int('j!u')
    return [('trace_position', lc.st.tn == lc.i)]


@contract('event_tuple.validator', qual='edzed.block:event_tuple.<locals>.validator', modifies=())
def _ev_validator(c):
    c.raises('TypeError', when=Not(calls.has_attr(c.v('event'), StringVal('send'))), iff=True, label='not_event_like')


@contract('efilter_tuple.validator', qual='edzed.block:efilter_tuple.<locals>.validator', modifies=())
def _ef_validator(c):
    f = c.v('efilter')
    c.raises('TypeError', when=Not(And(Or(Val.is_Obj(f), Val.is_Opq(f)), calls.is_callable(f))), iff=True, label='not_callable')


def _same_as_to_tuple(argname):
    def body(c):
        a = c.v(argname)
        c.requires('no_iterator_argument', Not(And(Val.is_Opq(a), is_iterator(a))))
        c.raises('OtherException', label='validator_rejected_an_item')
        if c.verifying:
            c.ensures('delegates_to_to_tuple_with_its_validator', And(c.T.tn == 1, Rec.fn(c.T.tr[0]) == StringVal('_to_tuple'),
                                                                     Rec.a0(c.T.tr[0]) == a, c.rv == to_tuple_res(a, Rec.a1(c.T.tr[0]))))
    return body


to_tuple_res = Function('to_tuple_result', Val, Val, Val)
contract('event_tuple', qual='edzed.block:event_tuple', modifies=())(_same_as_to_tuple('events'))
contract('efilter_tuple', qual='edzed.block:efilter_tuple', modifies=())(_same_as_to_tuple('efilters'))


def _to_tuple_call(ex, e, st):
    """call of _to_tuple inside event_tuple/efilter_tuple: recorded with its arguments; result = the contract's result"""
    outs = []
    for s1, vals in ex.evs(e.args, st):
        a, v = to_val(vals[0], s1), to_val(vals[1], s1)
        s1 = s1.copy(); ex.emit(s1, rec('_to_tuple', a0=a, a1=v))
        outs.append((s1, ZV('val', to_tuple_res(a, v))))
        bad = s1.copy(); bad.label('_to_tuple:raises')
        outs.append((bad, Raise(PExc('OtherException', val=Val.Obj(fresh('exc', IntSort())), where='callee'))))
    return outs


def build(run):
    from pyvc import calls as _calls
    import edzed.block as B
    run.verify('SBlock.set_output', cls='SBlock', invariants=SET_OUTPUT_INVARIANTS)
    run.verify('CBlock.eval_block', cls='CBlock', invariants={'for event in self._output_events': inv_eval_block},
               calls={'self.calc_output': calc_output_iface})
    event_send.verify_send(run)
    _calls.ISINSTANCE_HOOKS.append(_iter_hook)
    try:
        run.verify('_is_multiple')
        run.verify('_to_tuple', calls={'*value*': user_call}, invariants={'for arg in args': inv_to_tuple})
        run.verify('event_tuple.validator')
        run.verify('efilter_tuple.validator')
        run.verify('event_tuple', calls={'_to_tuple': _to_tuple_call})
        run.verify('efilter_tuple', calls={'_to_tuple': _to_tuple_call})
    finally:
        _calls.ISINSTANCE_HOOKS.remove(_iter_hook)

    # ---- derived lemmas ---------------------------------------------------------------------------------------------
    p, v, v2 = Const('p', Val), Const('v', Val), Const('v2', Val)
    # chain: after an assignment that sent on_output events (p -> v), the next change reports previous == v
    run.lemma('chain/previous_of_next_change_is_value_of_this_one',
              [Not(py_eq(p, v))], set_output_result(p, v) == v)
    run.lemma('chain/unchanged_assignment_keeps_the_reported_value',
              [py_eq(p, v)], set_output_result(p, v) == p)
    run.lemma('event_data/carries_previous_value_trigger',
              [], And(dget(output_event_data(p, v), 'previous') == Opt.Some(p), dget(output_event_data(p, v), 'value') == Opt.Some(v),
                      dget(output_event_data(p, v), 'trigger') == Opt.Some(S_('output'))))

    # ---- scan obligations -------------------------------------------------------------------------------------------
    w = scan.attr_writers('_output')
    run.scan('writers_of__output', w == ['edzed/block.py:Block.__init__', 'edzed/block.py:CBlock.eval_block', 'edzed/block.py:Const.__init__',
                                         'edzed/block.py:SBlock.set_output'],
             f'the output field is assigned only by the two constructors (UNDEF / the constant) and the two verified writers: {w}')
    for field in ('_output_events', '_every_output_events'):
        w = scan.attr_writers(field)
        expected = {'_output_events': ['edzed/block.py:Block.__init__'], '_every_output_events': ['edzed/block.py:SBlock.__init__']}[field]
        extra = [x for x in w if x not in expected]
        ok = not extra and all(x in w for x in expected)
        run.scans.append(dict(name=f'C02/scan/writers_of_{field}', ok=ok, replay=REPLAY_INITASYNC if not ok else None,
                              detail=f'the configured events of a block are set once, by the constructor; writers found: {w}', extra=extra))
    run.scan('no_dynamic_setattr_besides_known_sites', scan.dynamic_setattr_sites() == ['edzed/block.py:Block.__init__', 'edzed/simulator.py:_BlockResolver.resolve'],
             f'setattr with a computed name occurs only at: {scan.dynamic_setattr_sites()} (x_ attributes; resolver: registered names _dest/_ctrl_blk/block)')
    run.scan('eval_block_called_only_by_simulator', scan.method_callers('eval_block') == ['edzed/simulator.py:Circuit._simulate'],
             f'eval_block callers: {scan.method_callers("eval_block")}')
    run.assume('A-C02: while the output events of one assignment are delivered, the same block output is not assigned again by a nested call '
               '(inside event() the C11 guard enforces it; for assignments made outside a handler it is an assumption)')
    run.assume('tuples of events contain event objects (established by event_tuple at construction)')
    run.unclaim('iterator arguments to event_tuple/efilter_tuple (deprecated)')
    run.trust('Event.send as seen by a sender (specs/event_send.py): delivery does not re-assign the sender output (A-C02)')


REPLAY_INITASYNC = r'''
import sys, asyncio, edzed
edzed.reset_circuit()
log = []
class Mem(edzed.SBlock):
    def _event(self, etype, data): log.append(dict(data)); self.set_output(data.get('value'))
    def init_regular(self): self.set_output(None)
async def failing(): raise RuntimeError('sensor offline')
Mem('mem')
ia = edzed.InitAsync('ia', init_coro=[failing], on_output=edzed.Event('mem'))
async def main():
    t = asyncio.create_task(edzed.get_circuit().run_forever())
    try:
        await edzed.get_circuit().wait_init()
    finally:
        await edzed.get_circuit().shutdown() if not t.done() else None
try:
    asyncio.run(main())
except Exception as err:
    pass
print('output of ia:', ia.output, '; on_output events delivered:', log, '; configured events now:', ia._output_events)
# the output changed UNDEF -> None, but no on_output event reported it and the configured events were dropped
sys.exit(1 if (ia.output is None and not log) else 0)
'''
