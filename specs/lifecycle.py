"""Life cycle of the simulation task (simulator.py): _run_tasks, _init_sblocks_async, _stop_sblocks, run_forever, wait_init,
shutdown, check_not_finalized (C08, C05, C06, C09).

Coroutines are executed as sequential code; every `await` is an environment step (everything other tasks may change is
forgotten, subject to the guarantees proved elsewhere) followed by the outcome of the awaited thing (its contract).

Cancellation of the simulation task (A-cancel): Circuit.abort cancels it iff it records the first error (contract of abort, C09),
and abort is the only edzed code that cancels it (scan).  From outside the task is cancelled at most while no error is recorded
(that is how run_forever is stopped according to its documentation).  Hence a CancelledError arrives at an await of the simulation
task only if a request is pending or no error has been recorded yet."""
import ast
import z3
from pyvc.sorts import *
from pyvc.values import *
from pyvc.state import declare_fields, View
from pyvc.contract import contract, CONTRACTS, Param
from pyvc.engine import Raise, NEXT, PyObjStub
from pyvc import calls
from specs.common import *
from specs import event_entry, startup
from specs.event_entry import handler_effects, HANDLER_EFFECTS
from specs.startup import has_method, block_call, has_method_call, sblocks_of

declare_fields(_simtask=VAL, _finalized=BOOL, ev_set=BOOL, _init_done=Ref('AsyncEvent'))
Q = 'edzed.simulator:Circuit.'
CIRC, TASK = Int('the_circuit'), Int('the_simulation_task')
AA = lambda: calls.C_class('AddonAsync')
task_coro = Function('task_coro', IntSort(), Val)             # the coroutine a task was created for
coro_of = Function('coro_of', StringSort(), IntSort(), Val)   # the coroutine object returned by <block>.<name>()
coro_name = Function('coro_name', Val, StringSort())
coro_recv = Function('coro_recv', Val, IntSort())
ENV_FIELDS = tuple(dict.fromkeys(HANDLER_EFFECTS + ('task_done', 'task_cancelled', 'task_exception', 'ev_set', 'st_items', '__cause__')))
LIFE_EFFECTS = ENV_FIELDS


def in_simtask(S, me=None):
    """the code runs inside the simulation task of the (only) circuit"""
    out = [S.f('_simtask', CIRC) == Val.Obj(TASK), Not(S.f('task_done', TASK))]
    if me is not None: out.append(me == CIRC)
    return And(*out)


def can_be_cancelled(S):
    return Or(S.f('cancel_requested', TASK), S.f('_error', CIRC) == Val.VNone)


def impose_tasks_stay_done(S, T):
    tx = Int('t!sd')
    for f in ('task_done', 'task_cancelled', 'task_exception'):
        new, old = T.whole(f), S.whole(f)
        T.st.heap[f] = z3.Lambda([tx], If(S.whole('task_done')[tx], old[tx], new[tx]))


def impose_events_stay_set(S, T):
    ex_ = Int('e!ss')
    new, old = T.whole('ev_set'), S.whole('ev_set')
    T.st.heap['ev_set'] = z3.Lambda([ex_], Or(old[ex_], new[ex_]))      # nothing calls clear() (scan)


def impose_no_cancel_after_error(S, T):
    """abort() requests the cancellation of the simulation task only together with recording the first error"""
    new, old = T.whole('cancel_requested'), S.whole('cancel_requested')
    T.st.heap['cancel_requested'] = Store(new, TASK, If(S.f('_error', CIRC) != Val.VNone, old[TASK], new[TASK]))


def env_step(ex, st, sync=False):
    """what other tasks (or, with sync=True, code called synchronously from this task: handlers, stop(), start()) may do"""
    post = st.copy()
    for f in (HANDLER_EFFECTS + ('st_items', '__cause__') if sync else ENV_FIELDS): post.havoc_field(f)
    S, T = View(st), View(post)
    impose_error_write_once(S, T); impose_outputs_stay_defined(S, T); impose_steps_only_advance(S, T); impose_no_cancel_after_error(S, T)
    if sync: impose_queues_only_grow(S, T)
    else: impose_tasks_stay_done(S, T); impose_events_stay_set(S, T)
    return post


def sim_await(ex, st, results):
    """an await inside the simulation task.  `results(state)` -> outcomes of the awaited thing after the environment step"""
    S = View(st)
    outs = []
    ok = env_step(ex, st); T = View(ok)
    ok.assume(Not(S.f('cancel_requested', TASK)), Not(T.f('cancel_requested', TASK)), T.f('_error', CIRC) == S.f('_error', CIRC),
              Not(T.f('task_done', TASK)))
    if ex.feasible(ok): outs.extend(results(ok))
    ca = env_step(ex, st); T = View(ca)
    ca.assume(can_be_cancelled(S), Not(T.f('task_done', TASK)))
    ca.heap['cancel_requested'] = Store(ca.heap['cancel_requested'], TASK, BoolVal(False))
    ca.label('await:cancelled')
    if ex.feasible(ca): outs.append((ca, Raise(PExc('CancelledError', val=Val.Obj(fresh('exc', IntSort())), where='callee'))))
    return outs


def await_sleep0(ex, node, st):
    return sim_await(ex, st, lambda s: [(s, P_NONE)])


def await_contracted(ex, node, st):
    """`await self.<coroutine under contract>(...)`: the callee's contract (which contains its own awaits)"""
    return ex.ev(node, st)


# ---- asyncio pieces (trusted interface) ---------------------------------------------------------------------------------------
def create_task_call(ex, e, st):
    """asyncio.create_task(coro, name=...): a new task for `coro`"""
    outs = []
    for s1, cv in ex.ev(e.args[0], st):
        if isinstance(cv, Raise): outs.append((s1, cv)); continue
        s1 = s1.copy(); t = fresh('task', IntSort())
        cz = to_val(cv, s1)
        s1.assume(task_coro(t) == cz, t != TASK)          # a new task, not the running one
        ex.emit(s1, rec('create_task', Val.Obj(t), cz))
        outs.append((s1, ZV('val', Val.Obj(t))))
    return outs


def coroutine_call(name):
    """blk.<name>(): calling a coroutine function only creates the coroutine object"""
    def h(ex, e, st):
        blk = as_kind(st.env['blk'], Ref(), st)
        c = coro_of(StringVal(name), blk)
        st = st.copy(); st.assume(coro_name(c) == StringVal(name), coro_recv(c) == blk)
        return [(st, ZV('val', c))]
    return h


def task_exception_call(ex, e, st):
    """task.exception(): needs a finished, not cancelled task"""
    outs = []
    for s1, tv in ex.ev(e.func.value, st):
        t = Val.ref(to_val(tv, s1))
        ex.oblige('call:task.exception/pre:task_finished_and_not_cancelled', s1, And(s1.readz('task_done', t), Not(s1.readz('task_cancelled', t))), kind='pre')
        outs.append((s1, ZV('val', s1.readz('task_exception', t))))
    return outs


def task_pred(field):
    def h(ex, e, st):
        outs = []
        for s1, tv in ex.ev(e.func.value, st):
            outs.append((s1, ZV('bool', s1.readz(field, Val.ref(to_val(tv, s1))))))
        return outs
    return h


class ClockStub(PyObjStub):
    """the bound method loop.time"""


def _loop_getattr(self, ex, st, attr):
    if attr == 'time': return [(st, PConst(ClockStub()))]
    raise Unsupported(f'event loop attribute {attr}')
LoopStub.getattr = _loop_getattr


def clock_call(ex, e, st):
    return [(st, ZV('real', st.ghost['now']))]


def T3(v):
    """(block, task, timeout) of a list entry"""
    k = Val.tk(v)
    return Val.ref(tup_item(k, 0)), Val.ref(tup_item(k, 1)), tup_item(k, 2)


def wf_entry(v):
    k = Val.tk(v)
    return And(Val.is_T(v), tup_len(k) == 3, Val.is_Obj(tup_item(k, 0)), Val.is_Obj(tup_item(k, 1)), Val.is_R(tup_item(k, 2)))


ENV_GUARANTEES = lambda S, T: (impose_error_write_once(S, T), impose_outputs_stay_defined(S, T), impose_steps_only_advance(S, T),
                               impose_tasks_stay_done(S, T), impose_events_stay_set(S, T), impose_no_cancel_after_error(S, T))


# ---- Circuit._run_tasks ----------------------------------------------------------------------------------------------------------
@contract('Circuit._run_tasks', qual=Q + '_run_tasks', params={'jobname': VAL, 'btt_list': Seq()}, modifies=LIFE_EFFECTS, self_cls=None,
          traced=lambda a, st: rec('_run_tasks', a0=to_val(a['jobname'], st), a1=to_val(a['btt_list'], st)))
def _run_tasks(c):
    arr, n = c.arg('btt_list').arr, c.arg('btt_list').n
    i = Int('i!rt')
    if not c.verifying: ENV_GUARANTEES(c.S, c.T)          # (before any clause reads the post-state)
    c.requires('list_not_empty', n > 0)
    c.requires('entries_are_block_task_timeout', ForAll([i], Implies(And(0 <= i, i < n), wf_entry(arr[i]))))
    c.requires('inside_the_simulation_task', in_simtask(c.S))
    c.requires('the_tasks_are_other_tasks', ForAll([i], Implies(And(0 <= i, i < n), T3(arr[i])[1] != TASK)))
    # the body is verified for the list in the order produced by sorted(); lemma `sorted_is_a_permutation` carries the
    # statements over to btt_list itself (what the callers see)
    def all_done(post, also_requested=False):
        a = post.g('sorted_arr') if c.verifying and not also_requested else arr
        if a is None: a = arr                                  # exits before sorted() was called
        t = lambda k: T3(a[k])[1]
        return ForAll([i], Implies(And(0 <= i, i < n), Or(post.f('task_done', t(i)), post.f('cancel_requested', t(i))) if also_requested
                                                      else post.f('task_done', t(i))))
    c.ensures('every_task_is_finished', all_done(c.T))
    c.ensures('simulation_task_state', And(c.post('_error', CIRC) == c.pre('_error', CIRC), Implies(c.post('cancel_requested', TASK), c.pre('cancel_requested', TASK)),
                                           Not(c.post('task_done', TASK)), c.post('_simtask', CIRC) == c.pre('_simtask', CIRC)))
    c.raises('CancelledError', when=can_be_cancelled(c.S), unchanged=False, label='cancelled_while_waiting', impose=ENV_GUARANTEES,
             ensures=lambda post, exc: [Not(post.f('cancel_requested', TASK)), Not(post.f('task_done', TASK)),
                                        # no task is left behind: each one is finished or its cancellation has been requested
                                        all_done(post, also_requested=True)])
    if not c.verifying: return
    # every wait is bounded by the entry's own timeout, counted from the start of _run_tasks
    def expected(k, r, st):
        t0 = st.ghost['t_start']
        return [('each_wait_ends_at_start_plus_the_entry_timeout',
                 Or(Rec.fn(r) == StringVal('cancel'),
                    And(Rec.fn(r) == StringVal('wait_for'), Val.is_R(Rec.a1(r)), Val.r(Rec.a1(r)) + st.ghost['now'] == t0 + num_r(st.ghost['cur_timeout']))))]
    c.expect_trace(expected, None, normal_len=None, predicate=True)


def num_r(v): return If(Val.is_R(v), Val.r(v), If(Val.is_I(v), ToReal(Val.i(v)), RealVal(0)))


def sorted_call(ex, e, st):
    """sorted(btt_list, key=..., reverse=True): a permutation of the list.  Inside the body only `entries keep their shape` is used;
    the permutation axioms live in the lemma `sorted_is_a_permutation` (the order is irrelevant for what is proved)"""
    outs = []
    for s1, v in ex.ev(e.args[0], st):
        arr, n = seq_of(v, s1)
        s1 = s1.copy()
        out = fresh('sorted', SeqArr)
        i = Int('i!so')
        s1.assume(ForAll([i], Implies(And(0 <= i, i < n), wf_entry(out[i]))))
        s1.ghost['sorted_arr'] = out
        outs.append((s1, PSeq(out, n, 'val', True)))
    return outs


def permutation_lemmas(run):
    arr, out = Const('btt', SeqArr), Const('sorted', SeqArr)
    perm, inv = Const('perm', ArraySort(IntSort(), IntSort())), Const('perm_inv', ArraySort(IntSort(), IntSort()))
    n, i = Int('n'), Int('i!pl')
    P = Function('P', Val, BoolSort())          # any property of an entry
    is_perm = [ForAll([i], Implies(And(0 <= i, i < n), And(0 <= perm[i], perm[i] < n, out[i] == arr[perm[i]]))),
               ForAll([i], Implies(And(0 <= i, i < n), And(0 <= inv[i], inv[i] < n, out[inv[i]] == arr[i])))]
    run.lemma('sorted_is_a_permutation/what_holds_for_every_sorted_entry_holds_for_every_entry',
              is_perm + [ForAll([i], Implies(And(0 <= i, i < n), P(out[i])))], ForAll([i], Implies(And(0 <= i, i < n), P(arr[i]))))
    run.lemma('sorted_is_a_permutation/entries_keep_their_shape',
              is_perm + [ForAll([i], Implies(And(0 <= i, i < n), P(arr[i])))], ForAll([i], Implies(And(0 <= i, i < n), P(out[i]))))


def inv_run_tasks(lc):
    i = Int('i!ir')
    st = lc.st
    return [('visited_tasks_are_finished', ForAll([i], Implies(And(0 <= i, i < lc.i), st.f('task_done', T3(lc.arr[i])[1])))),
            ('simulation_task_state', And(st.f('_error', CIRC) == lc.pre.f('_error', CIRC), Implies(st.f('cancel_requested', TASK), lc.pre.f('cancel_requested', TASK)),
                                          Not(st.f('task_done', TASK)), st.f('_simtask', CIRC) == lc.pre.f('_simtask', CIRC))),
            ('clock_moves_forward', st.st.ghost['now'] >= lc.entry.st.ghost['now'])]


def inv_cancel_rest(lc):
    i = Int('i!cr')
    st = lc.st
    return [('visited_tasks_have_a_cancellation_request', ForAll([i], Implies(And(0 <= i, i < lc.i), st.f('cancel_requested', T3(lc.arr[i])[1])))),
            ('simulation_task_state', And(Not(st.f('cancel_requested', TASK)), Not(st.f('task_done', TASK))))]


def await_wait_for(ex, node, st):
    outs = []
    for s1, vals in ex.evs(node.args, st):
        if isinstance(vals, Raise): outs.append((s1, vals)); continue
        t = Val.ref(to_val(vals[0], s1)); tmo = as_kind(vals[1], REAL, s1)
        s1 = s1.copy()
        s1.ghost['cur_timeout'] = to_val(s1.env['timeout'], s1)
        ex.emit(s1, rec('wait_for', Val.Obj(t), a1=Val.R(tmo)))
        def results(s, t=t):
            r = []
            a = s.copy(); a.assume(s.readz('task_done', t), Not(s.readz('task_cancelled', t)), s.readz('task_exception', t) == Val.VNone)
            r.append((a, ZV('val', fresh('result', Val))))
            b = s.copy(); b.assume(s.readz('task_done', t)); b.label('wait_for:timeout')
            r.append((b, Raise(PExc('TimeoutError', val=Val.Obj(fresh('exc', IntSort())), where='callee'))))
            d = s.copy(); d.assume(s.readz('task_done', t), Not(s.readz('task_cancelled', t)), s.readz('task_exception', t) != Val.VNone)
            d.label('wait_for:task_failed')
            r.append((d, Raise(PExc('OtherException', val=Val.Obj(fresh('exc', IntSort())), where='callee'))))
            return r
        for s2, v in sim_await(ex, s1, results):
            if isinstance(v, Raise) and v.exc.cls == 'CancelledError':
                s2.assume(s2.readz('task_done', t))       # the awaited task is cancelled with the waiting one and awaited (asyncio.wait_for)
            outs.append((s2, v))
    return outs


def advance_clock(st):
    now = fresh('now', RealSort()); st.assume(now >= st.ghost['now']); st.ghost['now'] = now


_env_step0 = env_step
def env_step(ex, st, sync=False):
    post = _env_step0(ex, st, sync)
    if not sync and post.ghost.get('now') is not None: advance_clock(post)
    return post


def verify_run_tasks(run):
    G = {'now': z3.Real('now0'), 't_start': z3.Real('now0'), 'cur_timeout': Val.VNone, 'sorted_arr': None}
    permutation_lemmas(run)
    run.verify('Circuit._run_tasks', cls='Circuit', ghost=G,
               invariants={'for (_blk, other, _timeout) in btt_list': inv_cancel_rest,
                           'for (blk, task, timeout) in sorted(btt_list, key=operator.itemgetter(2), reverse=True)': inv_run_tasks},
               calls={'sorted': sorted_call, 'get_time': clock_call, 'task.done': task_pred('task_done'), 'task.cancelled': task_pred('task_cancelled'),
                      'task.exception': task_exception_call},
               hooks={'await': awaits({'asyncio.wait_for(task, timeout - get_time() + start_time)': await_wait_for})})


# ---- Circuit._stop_sblocks ---------------------------------------------------------------------------------------------------------
declare_fields(stop_timeout=REAL, init_timeout=REAL)


def has_async_cleanup(S, blocks, me):
    return lambda b: And(blocks[b], S.whole('circuit')[b] == me, calls.inst_of(b, AA()), has_method(b, StringVal('stop_async')),
                         S.whole('stop_timeout')[b] > 0)


def lifecycle_call(name, effects=True):
    """blk.stop() / blk.start(): block code behind an interface contract: it may deliver events and fail with an Exception"""
    def h(ex, e, st):
        blk = as_kind(st.env['blk'], Ref(), st)
        outs = []
        for fail in (False, True):
            s0 = st.copy(); ex.emit(s0, rec(name, Val.Obj(blk)))
            s2 = env_step(ex, s0, sync=True)
            if fail:
                s2.label(f'{name}:raises')
                outs.append((s2, Raise(PExc('OtherException', val=Val.Obj(fresh('exc', IntSort())), where='callee'))))
            else:
                outs.append((s2, P_NONE))
        return outs
    return h


@contract('Circuit._stop_sblocks', qual=Q + '_stop_sblocks', params={'blocks': REFSET}, modifies=LIFE_EFFECTS, self_cls='Circuit',
          traced=lambda a, st: rec('_stop_sblocks', to_val(a['self'], st)))
def _stop_sblocks(c):
    me, blocks = c.z('self'), c.z('blocks')
    b = Int('b!st')
    c.requires('inside_the_simulation_task', in_simtask(c.S, me))
    c.requires('an_error_is_recorded_and_no_cancellation_is_pending', And(c.pre('_error', me) != Val.VNone, Not(c.pre('cancel_requested', TASK))))
    if not c.verifying:
        ENV_GUARANTEES(c.S, c.T)
        c.ensures('simulation_task_state', And(c.post('_error', CIRC) == c.pre('_error', CIRC), Not(c.post('cancel_requested', TASK)),
                                               Not(c.post('task_done', TASK)), c.post('_simtask', CIRC) == c.pre('_simtask', CIRC)))
        return
    is_async = has_async_cleanup(c.S, blocks, me)
    w = Int('some_async_block')              # names a block with asynchronous clean-up, if there is one
    c.requires('witness', ForAll([b], Implies(is_async(b), is_async(w))))
    c.ensures('simulation_task_state', And(c.post('_error', CIRC) == c.pre('_error', CIRC), Not(c.post('cancel_requested', TASK)),
                                           Not(c.post('task_done', TASK)), c.post('_simtask', CIRC) == c.pre('_simtask', CIRC)))
    # the order automaton: ghost sets `stopped`, `tasked` and the phase (0: async blocks are being stopped, 1: their tasks are created,
    # 2: the clean-up was awaited, the remaining blocks are being stopped)
    def expected(k, r, st):
        g = st.ghost
        fn = z3.simplify(Rec.fn(r)).as_string()
        x = Val.ref(Rec.recv(r))
        if fn == 'stop':
            goals = [('stop_only_for_the_given_blocks', blocks[x]),
                     ('stop_at_most_once_per_block', Not(g['stopped'][x])),
                     ('blocks_with_async_cleanup_are_stopped_first', If(is_async(x), g['phase'] == 0, And(g['phase'] != 1, Implies(g['phase'] == 0, Not(is_async(w))))))]
            g['stopped'] = Store(g['stopped'], x, BoolVal(True))
            return goals
        if fn == 'create_task':
            co = Rec.a0(r); bb = coro_recv(co)
            goals = [('cleanup_task_only_for_a_stopped_block_with_async_cleanup',
                      And(coro_name(co) == StringVal('stop_async'), is_async(bb), g['stopped'][bb], Not(g['tasked'][bb]), g['phase'] <= 1))]
            g['tasked'] = Store(g['tasked'], bb, BoolVal(True)); g['phase'] = IntVal(1)
            return goals
        if fn == '_run_tasks':
            lst = Val.tk(Rec.a1(r)); i = Int('i!rt2')
            ent = lambda k: T3(tup_item(lst, k))
            goals = [('async_cleanup_is_awaited_for_every_such_block', And(ForAll([b], Implies(is_async(b), And(g['stopped'][b], g['tasked'][b]))), g['phase'] <= 1,
                                                                       Rec.a0(r) == Val.S(StringVal('stop')))),
                     ('each_cleanup_is_bounded_by_the_stop_timeout_of_its_block',
                      ForAll([i], Implies(And(0 <= i, i < tup_len(lst)),
                                          And(is_async(ent(i)[0]), task_coro(ent(i)[1]) == coro_of(StringVal('stop_async'), ent(i)[0]),
                                              ent(i)[2] == Val.R(c.pre('stop_timeout', ent(i)[0]))))))]
            g['phase'] = IntVal(2)
            return goals
        return [('no_other_call', BoolVal(False))]
    c.expect_trace(expected, None, normal_len=None, predicate=True)
    c.ensures('every_given_block_was_stopped', ForAll([b], c.T.g('stopped')[b] == blocks[b]))
    c.ensures('async_cleanup_was_awaited', Implies(is_async(w), c.T.g('phase') == 2))
    c.raises('CancelledError', when=BoolVal(False), unchanged=False, label='clean-up_is_not_interrupted')


def inv_stop_async(lc):
    g = lc.st.st.ghost; b = Int('b!ia')
    return [('stopped_are_the_visited', ForAll([b], g['stopped'][b] == lc.done[b])),
            ('phase', g['phase'] == 0),
            ('nothing_tasked', ForAll([b], Not(g['tasked'][b])))] + _sim_state(lc)


def _sim_state(lc):
    st = lc.st
    return [('simulation_task_state', And(st.f('_error', CIRC) == lc.pre.f('_error', CIRC), Not(st.f('cancel_requested', TASK)),
                                          Not(st.f('task_done', TASK)), st.f('_simtask', CIRC) == lc.pre.f('_simtask', CIRC))),
            ('membership_unchanged', And(st.whole('circuit') == lc.pre.whole('circuit'), st.whole('stop_timeout') == lc.pre.whole('stop_timeout')))]


def inv_stop_tasks(lc):
    """the comprehension creating the clean-up tasks"""
    g = lc.st.st.ghost; b, i = Int('b!it'), Int('i!it')
    res = lc.local('_comp_result')
    S = lc.S
    return [('tasked_are_the_visited', ForAll([b], g['tasked'][b] == lc.done[b])),
            ('stopped_unchanged', ForAll([b], g['stopped'][b] == S[b])),
            ('phase', Or(g['phase'] == 1, And(g['phase'] == 0, ForAll([b], Not(lc.done[b]))))),
            ('entries', ForAll([i], Implies(And(0 <= i, i < res.n), And(wf_entry(res.arr[i]), T3(res.arr[i])[1] != TASK, S[T3(res.arr[i])[0]],
                                                                         task_coro(T3(res.arr[i])[1]) == coro_of(StringVal('stop_async'), T3(res.arr[i])[0]),
                                                                         T3(res.arr[i])[2] == Val.R(lc.pre.f('stop_timeout', T3(res.arr[i])[0])))))),
            ('count', And(res.n >= 0, (res.n > 0) == Exists([b], lc.done[b])))] + _sim_state(lc)


def inv_stop_sync(lc):
    g = lc.st.st.ghost; b = Int('b!is')
    e = lc.entry.st.ghost
    return [('stopped_are_the_earlier_ones_and_the_visited', ForAll([b], g['stopped'][b] == Or(e['stopped'][b], lc.done[b]))),
            ('phase_unchanged', g['phase'] == e['phase']),
            ('tasked_unchanged', ForAll([b], g['tasked'][b] == e['tasked'][b]))] + _sim_state(lc)


def verify_stop_sblocks(run):
    none = K(IntSort(), BoolVal(False))
    G = {'stopped': none, 'tasked': none, 'phase': IntVal(0), 'now': z3.Real('now0')}
    run.verify('Circuit._stop_sblocks', cls='Circuit', ghost=G,
               invariants={'for blk in async_blocks': inv_stop_async, 'comp:for blk in async_blocks': inv_stop_tasks, 'for blk in sync_blocks': inv_stop_sync},
               calls={'self.getblocks': sblocks_of, 'blk.has_method': has_method_call, 'blk.stop': lifecycle_call('stop'),
                      'blk.stop_async': coroutine_call('stop_async'), 'asyncio.create_task': create_task_call},
               hooks={'await': awaits({'asyncio.sleep(0)': await_sleep0, '*': await_contracted})})


# ---- Circuit._init_sblocks_async -----------------------------------------------------------------------------------------------------
def wants_async_init(S, me):
    return lambda b: And(S.whole('circuit')[b] == me, calls.inst_of(b, AA()), S.whole('_output')[b] == Val.Undef,
                         has_method(b, StringVal('init_async')), S.whole('init_timeout')[b] > 0)


@contract('Circuit._init_sblocks_async', qual=Q + '_init_sblocks_async', modifies=LIFE_EFFECTS, self_cls='Circuit',
          traced=lambda a, st: rec('_init_sblocks_async', to_val(a['self'], st)))
def _init_async(c):
    me = c.z('self')
    b = Int('b!ia')
    if not c.verifying: ENV_GUARANTEES(c.S, c.T)
    c.requires('inside_the_simulation_task', in_simtask(c.S, me))
    sim_state = lambda post: And(post.f('_error', CIRC) == c.pre('_error', CIRC), Implies(post.f('cancel_requested', TASK), c.pre('cancel_requested', TASK)),
                                 Not(post.f('task_done', TASK)), post.f('_simtask', CIRC) == c.pre('_simtask', CIRC))
    c.ensures('simulation_task_state', sim_state(c.T))
    c.raises('CancelledError', when=can_be_cancelled(c.S), unchanged=False, label='cancelled_while_waiting', impose=ENV_GUARANTEES,
             ensures=lambda post, exc: [Not(post.f('cancel_requested', TASK)), Not(post.f('task_done', TASK))])
    if not c.verifying: return
    eligible = wants_async_init(c.S, me)
    w = Int('some_eligible_block')
    c.requires('witness', ForAll([b], Implies(eligible(b), eligible(w))))
    def expected(k, r, st):
        g = st.ghost
        fn = z3.simplify(Rec.fn(r)).as_string()
        if fn == 'create_task':
            co = Rec.a0(r); bb = coro_recv(co)
            goals = [('init_async_only_for_uninitialised_blocks_with_a_positive_timeout',
                      And(coro_name(co) == StringVal('init_async'), eligible(bb), st.readz('_output', bb) == Val.Undef)),
                     ('init_async_at_most_once_per_block', And(Not(g['tasked'][bb]), g['phase'] == 0))]
            g['tasked'] = Store(g['tasked'], bb, BoolVal(True))
            return goals
        if fn == '_run_tasks':
            lst = Val.tk(Rec.a1(r)); i = Int('i!rt3')
            ent = lambda k: T3(tup_item(lst, k))
            goals = [('the_async_routines_are_awaited_once', And(g['phase'] == 0, Rec.a0(r) == Val.S(StringVal('async init')),
                                                                 ForAll([b], Implies(eligible(b), g['tasked'][b])))),
                     ('each_routine_is_bounded_by_the_init_timeout_of_its_block',
                      ForAll([i], Implies(And(0 <= i, i < tup_len(lst)),
                                          And(eligible(ent(i)[0]), task_coro(ent(i)[1]) == coro_of(StringVal('init_async'), ent(i)[0]),
                                              ent(i)[2] == Val.R(c.pre('init_timeout', ent(i)[0]))))))]
            g['phase'] = IntVal(1)
            return goals
        return [('no_other_call', BoolVal(False))]
    c.expect_trace(expected, None, normal_len=None, predicate=True)
    c.ensures('async_initialisation_was_awaited_if_needed', Implies(eligible(w), c.T.g('phase') == 1))


def inv_init_tasks(lc):
    g = lc.st.st.ghost; b, i = Int('b!ii'), Int('i!ii')
    res = lc.local('_comp_result')
    me = as_kind(lc.pre.args['self'], Ref())
    eligible = wants_async_init(lc.pre, me)
    st = lc.st
    return [('tasked_are_the_visited_eligible_blocks', ForAll([b], g['tasked'][b] == And(lc.done[b], eligible(b)))),
            ('phase', g['phase'] == 0),
            ('nothing_else_changed', And(st.whole('_output') == lc.pre.whole('_output'), st.whole('circuit') == lc.pre.whole('circuit'),
                                         st.whole('init_timeout') == lc.pre.whole('init_timeout'), st.whole('_error') == lc.pre.whole('_error'),
                                         st.whole('cancel_requested') == lc.pre.whole('cancel_requested'), st.whole('task_done') == lc.pre.whole('task_done'),
                                         st.whole('_simtask') == lc.pre.whole('_simtask'))),
            ('entries', ForAll([i], Implies(And(0 <= i, i < res.n), And(wf_entry(res.arr[i]), T3(res.arr[i])[1] != TASK, eligible(T3(res.arr[i])[0]),
                                                                         task_coro(T3(res.arr[i])[1]) == coro_of(StringVal('init_async'), T3(res.arr[i])[0]),
                                                                         T3(res.arr[i])[2] == Val.R(lc.pre.f('init_timeout', T3(res.arr[i])[0])))))),
            ('count', And(res.n >= 0, (res.n > 0) == Exists([b], And(lc.done[b], eligible(b)))))]


def verify_init_async(run):
    none = K(IntSort(), BoolVal(False))
    G = {'tasked': none, 'phase': IntVal(0), 'now': z3.Real('now0')}
    run.verify('Circuit._init_sblocks_async', cls='Circuit', ghost=G,
               invariants={'comp:for blk in self.getblocks(addons.AddonAsync)': inv_init_tasks},
               calls={'self.getblocks': sblocks_of, 'blk.has_method': has_method_call, 'blk.init_async': coroutine_call('init_async'),
                      'asyncio.create_task': create_task_call},
               hooks={'await': awaits({'*': await_contracted})})
