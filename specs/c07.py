"""C07 - TimeDate and TimeSpan outputs follow the wall clock.  DESIGN section 3, C07."""
from pyvc.sorts import *
from pyvc import scan
from specs.common import *
from specs import timedate


def build(run):
    timedate.verify_recalc(run)
    timedate.verify_flag(run)
    timedate.verify_cron_registration(run)
    timedate.verify_reconfig(run)
    timedate.verify_ts_reconfig(run)
    timedate.verify_maintask(run)
    run.replayer('Cron._maintask/call:set.union/pre:at_least_one_set_is_given', lambda run_, ob, model: open('/verif/specs/replay_c07a.py').read())
    run.replayer('Cron._maintask/trace:sleeps_only_while_the_wakeup_time_is_ahead_and_never_beyond_it', lambda run_, ob, model: open('/verif/specs/replay_c07b.py').read())
