"""C08 - every started block is stopped exactly once and nothing outlives the simulation.  DESIGN section 3, C08."""
from pyvc.sorts import *
from pyvc import scan
from specs.common import *
from specs import lifecycle


def build(run):
    lifecycle.verify_run_tasks(run)
    lifecycle.verify_stop_sblocks(run)
    lifecycle.verify_run_forever(run)
    run.replayer('Circuit._run_tasks/raises:cancelled_while_waiting/post2', lambda run_, ob, model: open('/verif/specs/replay_c08a.py').read())
