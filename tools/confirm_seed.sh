#!/bin/sh
# usage: tools/confirm_seed.sh <Cnn[suffix]> <deliver-dir>      (second-round changes: C19b, C19c, ...)
# Confirms a seeded change in a fresh scratch worktree of /repo (current HEAD): patch applies, the existing test-suite
# passes with it, the demonstration fails with it and passes without it.  Writes /verif/seeded/<id>/{patch.diff,demo*,notes.md,meta.json}
# and removes the worktree.
ID="$1"; SRC="$2"
HERE="$(cd "$(dirname "$0")/.." && pwd)"
WT="/tmp/confirm_$ID"
git -C /repo worktree remove --force "$WT" 2>/dev/null
git -C /repo worktree add -q --detach "$WT" HEAD || exit 3
cleanup(){ git -C /repo worktree remove --force "$WT" 2>/dev/null; rm -rf "$WT"; }
trap cleanup EXIT
mkdir -p "$WT/_deliver" "$HERE/seeded/$ID"
cp "$SRC"/demo* "$WT/_deliver/" 2>/dev/null
DEMO=$(ls "$WT/_deliver" | grep -E '^demo' | head -1)
case "$DEMO" in *_test.py) RUN="/venv/bin/python -m pytest -q -p no:cacheprovider _deliver/$DEMO";; *) RUN="/venv/bin/python _deliver/$DEMO";; esac
cd "$WT" || exit 3
$RUN > /tmp/confirm_$ID.clean.log 2>&1; CLEAN=$?
git apply "$SRC/patch.diff" 2>/tmp/confirm_$ID.apply.log || patch -p1 -s < "$SRC/patch.diff" || { echo "$ID: patch does not apply"; exit 3; }
/venv/bin/python -m pytest -q -p no:cacheprovider --timeout=900 -q --deselect tests/test_outputasync.py::test_executor --deselect tests/test_outputasync.py::test_executor_args > /tmp/confirm_$ID.suite.log 2>&1; SUITE=$?
if [ $SUITE -ne 0 ]; then   # timing tests flake under load: retry once
  /venv/bin/python -m pytest -q -p no:cacheprovider --timeout=900 -q --deselect tests/test_outputasync.py::test_executor --deselect tests/test_outputasync.py::test_executor_args > /tmp/confirm_$ID.suite.log 2>&1; SUITE=$?
fi
$RUN > /tmp/confirm_$ID.mut.log 2>&1; MUT=$?
git diff -- edzed > "$HERE/seeded/$ID/patch.diff"
cp "$SRC"/demo* "$SRC/notes.md" "$HERE/seeded/$ID/" 2>/dev/null
python3 - "$ID" "$CLEAN" "$SUITE" "$MUT" "$DEMO" "$HERE" <<'PY'
import json, sys, subprocess
i, clean, suite, mut, demo, here = sys.argv[1:7]
notes = open(f'{here}/seeded/{i}/notes.md').read() if True else ''
ok = clean == '0' and suite == '0' and mut != '0'
meta = dict(property=i[:3], seed_id=i, confirmed=ok,
            repo_head=subprocess.run(['git', '-C', '/repo', 'rev-parse', '--short', 'HEAD'], capture_output=True, text=True).stdout.strip(),
            demo=demo, demo_exit_unchanged_tree=int(clean), test_suite_exit_with_change=int(suite), demo_exit_with_change=int(mut),
            what_ran=["fresh scratch worktree of /repo HEAD under /tmp (removed afterwards)",
                      f"demonstration on the unchanged tree: copy {demo} to <worktree>/_deliver/ and run it from the worktree root",
                      "git apply patch.diff",
                      "existing test-suite with the change (the two known-flaky executor tests deselected)",
                      "demonstration with the change"],
            needs_to_manifest="see notes.md (written by the sub-agent that produced the change)",
            origin="independent sub-agent given only the property text and its own scratch worktree")
json.dump(meta, open(f'{here}/seeded/{i}/meta.json', 'w'), indent=1)
print(i, 'CONFIRMED' if ok else 'NOT CONFIRMED', meta['demo_exit_unchanged_tree'], meta['test_suite_exit_with_change'], meta['demo_exit_with_change'])
PY
