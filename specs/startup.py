"""Start-up of the simulation (simulator.py): init_sblock, _init_sblocks_sync_1/2, _init_sblocks_async, wait_init (C05)."""
import z3
from pyvc.sorts import *
from pyvc.values import *
from pyvc.state import declare_fields, View
from pyvc.contract import contract, CONTRACTS, Param
from pyvc.engine import Raise, NEXT
from pyvc import calls
from specs.common import *
from specs import event_entry
from specs.event_entry import handler_effects, HANDLER_EFFECTS

declare_fields(st_items=DICT, persistent=BOOL, persistent_dict=VAL, _init_done=Ref('AsyncEvent'), ev_set=BOOL)
Q = 'edzed.simulator:Circuit.'
has_method = Function('has_method', IntSort(), StringSort(), BoolSort())
AP = lambda: calls.C_class('AddonPersistence')
SB = lambda: calls.C_class('SBlock')
INIT_EFFECTS = HANDLER_EFFECTS + ('__cause__',)


def block_call(name, nargs=0, ghost_flag=None):
    """`blk.<name>(...)`: an initialisation routine of a block (interface contract): it may set outputs and deliver events;
    it does not touch init_steps_completed (only init_sblock does: scan); it may fail"""
    def h(ex, e, st):
        outs = []
        for s1, vals in ex.evs(e.args, st):
            if isinstance(vals, Raise): outs.append((s1, vals)); continue
            blk = as_kind(s1.env['blk'], Ref(), s1)
            a0 = to_val(vals[0], s1) if vals else Val.VNone
            steps = s1.readz('init_steps_completed', blk)
            for fail in (False, True):
                s0 = s1.copy(); ex.emit(s0, rec(name, Val.Obj(blk), a0))       # the trace predicate sees the state before the call
                s2 = handler_effects(ex, s0)
                s2.write('init_steps_completed', blk, ZV('int', steps))      # unchanged for this block
                if ghost_flag: s2.ghost[ghost_flag] = True
                if fail:
                    s2.label(f'{name}:raises')
                    outs.append((s2, Raise(PExc('OtherException', val=Val.Obj(fresh('exc', IntSort())), where='callee'))))
                else:
                    outs.append((s2, P_NONE))
        return outs
    return h


def has_method_call(ex, e, st):
    outs = []
    for s1, vals in ex.evs(e.args, st):
        blk = as_kind(s1.env['blk'], Ref(), s1)
        outs.append((s1, ZV('bool', has_method(blk, ex.as_str(s1, vals[0])))))
    return outs


@contract('Circuit.init_sblock', qual=Q + 'init_sblock', params={'blk': Ref('SBlock'), 'full': VAL}, modifies=INIT_EFFECTS, self_cls='Circuit',
          traced=lambda a, st: rec('init_sblock', a0=to_val(a['blk'], st), a1=Val.B(truth(a['full'], st))))
def _init_sblock(c):
    blk, full = c.z('blk'), truthy(c.v('full'))
    s = c.pre('init_steps_completed', blk)
    first = s == 0
    second = Or(s == 1, And(s == 0, full))
    def env(S, T):
        impose_steps_only_advance(S, T); impose_outputs_stay_defined(S, T); impose_queues_only_grow(S, T); impose_error_write_once(S, T)
    final = If(second, 2, If(first, 1, s))
    if not c.verifying:
        # what a caller may rely on for the other blocks: their progress markers only advance (events delivered during the
        # initialisation may trigger the early initialisation of other blocks), defined outputs stay defined
        env(c.S, c.T)
    bm = Int('b!ma')
    advance = lambda post: ForAll([bm], step_rank(post.whole('init_steps_completed')[bm]) >= step_rank(c.pre_whole('init_steps_completed')[bm]))
    c.raises('OtherException', when=Or(first, second), unchanged=False, label='an_initialisation_routine_failed', impose=env,
             ensures=lambda post, exc: [post.f('init_steps_completed', blk) < 0]          # the failed step is never repeated
                                       + ([advance(post)] if c.verifying else []))
    c.ensures('progress_is_recorded', c.post('init_steps_completed', blk) == final)
    if not c.verifying:
        return
    c.ensures('markers_only_advance', advance(c.T))
    persistent = And(calls.inst_of(blk, AP()), c.pre('persistent', blk))
    initdef = c.pre('initdef', blk)
    def expected(k, r, st):
        name = z3.simplify(Rec.fn(r)).as_string()
        cur = st.readz('init_steps_completed', blk)
        own = Rec.recv(r) == Val.Obj(blk)
        if name == 'init_from_persistent_data':
            return [('saved_state_first_and_only_for_persistent_blocks', And(own, first, persistent, cur == -1, k == 0))]
        if name == 'init_regular':
            return [('regular_routine_after_the_saved_state', And(own, second, cur == -2, k == If(And(first, persistent), 1, 0)))]
        if name == 'init_from_value':
            return [('initdef_last_and_only_if_still_uninitialised', And(own, second, cur == -2, st.readz('_output', blk) == Val.Undef,
                     has_method(blk, StringVal('init_from_value')), initdef != Val.Undef, Rec.a0(r) == initdef,
                     k == If(And(first, persistent), 2, 1)))]
        return [('no_other_routine', BoolVal(False))]
    c.expect_trace(expected, 3, normal_len=None, predicate=True)
    n_first = If(And(first, persistent), 1, 0)
    called_ifv = c.T.tn == n_first + 2
    c.ensures('routines_run_at_most_once_in_order', And(c.T.tn >= n_first + If(second, 1, 0), c.T.tn <= n_first + If(second, 2, 0)))
    c.ensures('initdef_is_used_when_needed', Implies(second, Or(called_ifv, Not(has_method(blk, StringVal('init_from_value'))), initdef == Val.Undef,
                                                             c.post('_output', blk) != Val.Undef)))


# ---- the loops over all sequential blocks ----------------------------------------------------------------------------------------------------
def sblocks_of(ex, e, st):
    """self.getblocks(block.SBlock) / (addons.AddonPersistence): the blocks of this circuit of that kind"""
    import ast
    me = as_kind(st.env['self'], Ref(), st)
    kind = ast.unparse(e.args[0]).split('.')[-1] if e.args else 'Block'
    b = Int('b!sb')
    circ = st.comp('circuit', IntSort())
    return [(st, PSet(z3.Lambda([b], And(circ[b] == me, calls.inst_of(b, calls.C_class(kind)))), 'ref'))]


def my_sblocks(S, me):
    return lambda b: And(S.whole('circuit')[b] == me, calls.inst_of(b, SB()))


@contract('Circuit._init_sblocks_sync_1', qual=Q + '_init_sblocks_sync_1', modifies=INIT_EFFECTS, self_cls='Circuit',
          traced=lambda a, st: rec('_init_sblocks_sync_1', to_val(a['self'], st)))
def _sync1(c):
    me = c.z('self')
    if not c.verifying: impose_callee_guarantees(c.S, c.T)
    c.raises('OtherException', unchanged=False, label='initialisation_error_stops_the_start', impose=impose_callee_guarantees)
    b = Int('b!s1')
    steps0, steps1 = c.pre_whole('init_steps_completed'), c.post_whole('init_steps_completed')
    # (a block whose early initialisation failed inside an event delivered by another block's routine keeps a negative marker)
    c.ensures('first_step_started_for_every_block', ForAll([b], Implies(my_sblocks(c.S, me)(b), steps1[b] != 0)))


def inv_sync1(lc):
    b = Int('b!i1')
    steps0, steps = lc.pre.whole('init_steps_completed'), lc.st.whole('init_steps_completed')
    return [('visited_blocks_have_started_their_first_step', ForAll([b], Implies(lc.done[b], steps[b] != 0))),
            ('membership_unchanged', lc.st.whole('circuit') == lc.pre.whole('circuit'))]


def init_sblock_env(S, T):
    """what init_sblock (of another block) may do to the progress markers: they only advance"""
    b = Int('b!env')
    return ForAll([b], Implies(S.whole('init_steps_completed')[b] >= 1, T.whole('init_steps_completed')[b] >= S.whole('init_steps_completed')[b]))


@contract('Circuit._init_sblocks_sync_2', qual=Q + '_init_sblocks_sync_2', modifies=INIT_EFFECTS + ('st_items', 'q_set'), self_cls='Circuit',
          traced=lambda a, st: rec('_init_sblocks_sync_2', to_val(a['self'], st)))
def _sync2(c):
    me = c.z('self')
    if not c.verifying: impose_callee_guarantees(c.S, c.T)
    c.raises('OtherException', unchanged=False, label='initialisation_error_stops_the_start', impose=impose_callee_guarantees)
    c.raises('EdzedCircuitError', unchanged=False, label='a_block_is_still_uninitialised', impose=impose_callee_guarantees)
    b = Int('b!s2')
    c.ensures('every_sequential_block_is_initialised', ForAll([b], Implies(my_sblocks(c.S, me)(b), c.post_whole('_output')[b] != Val.Undef)))
    q = c.pre('sblock_queue', me)
    c.ensures('change_queue_is_empty', ForAll([b], Not(c.post_whole('q_set')[q][b])))


def inv_sync2_a(lc):
    return [('membership_unchanged', lc.st.whole('circuit') == lc.pre.whole('circuit'))]


def inv_sync2_b(lc):
    b = Int('b!i2')
    return [('visited_blocks_are_initialised', ForAll([b], Implies(lc.done[b], lc.st.whole('_output')[b] != Val.Undef))),
            ('membership_unchanged', lc.st.whole('circuit') == lc.pre.whole('circuit'))]


def inv_sync2_c(lc):
    b = Int('b!i3')
    me = as_kind(lc.pre.args['self'], Ref())
    return [('outputs_untouched_while_saving', lc.st.whole('_output') == lc.entry.whole('_output')),
            ('membership_unchanged', lc.st.whole('circuit') == lc.pre.whole('circuit'))]


def inv_sync2_drain(lc):
    return [('outputs_untouched', lc.st.whole('_output') == lc.entry.whole('_output')),
            ('queue_identity', lc.st.whole('sblock_queue') == lc.pre.whole('sblock_queue'))]


def save_call(ex, e, st):
    """blk.save_persistent_state() (contract: C06): writes the storage only"""
    st = st.copy(); blk = as_kind(st.env['blk'], Ref(), st)
    ex.emit(st, rec('save_persistent_state', Val.Obj(blk)))
    st.havoc_field('st_items')
    return [(st, P_NONE)]


def q_empty(ex, e, st):
    q = as_kind(st.env['queue'], Ref(), st); b = Int('b!qe')
    return [(st, ZV('bool', Not(Exists([b], st.comp('q_set', RefSet)[q][b]))))]


def q_get_nowait(ex, e, st):
    st = st.copy(); q = as_kind(st.env['queue'], Ref(), st)
    got = fresh('taken', IntSort()); q1 = st.comp('q_set', RefSet)
    st.assume(q1[q][got])
    rest = fresh('qrest', RefSet); b = Int('b!qg')
    st.heap['q_set'] = Store(q1, q, rest)
    st.assume(ForAll([b], Implies(rest[b], q1[q][b])))
    return [(st, ZV('ref', got))]


def verify_startup(run):
    run.verify('Circuit.init_sblock', cls='Circuit',
               calls={'blk.init_from_persistent_data': block_call('init_from_persistent_data'), 'blk.init_regular': block_call('init_regular'),
                      'blk.init_from_value': block_call('init_from_value'), 'blk.has_method': has_method_call})
    run.verify('Circuit._init_sblocks_sync_1', cls='Circuit', calls={'self.getblocks': sblocks_of},
               invariants={'for blk in self.getblocks(block.SBlock)': inv_sync1})
    run.verify('Circuit._init_sblocks_sync_2', cls='Circuit',
               calls={'self.getblocks': sblocks_of, 'blk.save_persistent_state': save_call, 'queue.empty': q_empty, 'queue.get_nowait': q_get_nowait},
               invariants={'for blk in self.getblocks(block.SBlock)': inv_sync2_a, 'for blk in self.getblocks(block.SBlock)#1': inv_sync2_b,
                           'for blk in self.getblocks(addons.AddonPersistence)': inv_sync2_c, 'while not queue.empty()': inv_sync2_drain})


# ---- AddonAsyncInit: init_async waits for the first output value -------------------------------------------------------------------------------------
declare_fields(_init_event=VAL, ev_set=BOOL)
QAI = 'edzed.addons:AddonAsyncInit.'


def aai_super_set_output(ex, e, st):
    """super().set_output(value): the contract of SBlock.set_output"""
    from pyvc import calls as _c
    k = CONTRACTS['SBlock.set_output']
    outs = []
    for s1, vals in ex.evs(e.args, st):
        outs.extend(_c.apply_bound(ex, s1, k, {'self': ZV('ref', as_kind(s1.env['self'], Ref(), s1), 'SBlock'), 'value': ZV('val', to_val(vals[0], s1))},
                                   'call:SBlock.set_output'))
    return outs


def ev_is_set(ex, e, st):
    me = as_kind(st.env['self'], Ref(), st)
    return [(st, ZV('bool', st.readz('ev_set', Val.ref(st.readz('_init_event', me)))))]


def ev_set_call(ex, e, st):
    st = st.copy(); me = as_kind(st.env['self'], Ref(), st)
    ev = Val.ref(st.readz('_init_event', me))
    ex.emit(st, rec('event.set', Val.Obj(ev)))
    st.heap['ev_set'] = Store(st.comp('ev_set', BoolSort()), ev, BoolVal(True))
    return [(st, P_NONE)]


@contract('AddonAsyncInit.set_output', qual=QAI + 'set_output', modifies=DELIVERY + ('ev_set',), self_cls='AddonAsyncInit')
def _aai_set_output(c):
    me, v = c.z('self'), c.v('value')
    ev = c.pre('_init_event', me)
    c.requires('started', Val.is_Obj(ev))
    c.raises('ValueError', when=v == Val.Undef, iff=True)
    c.raises('DeliveryError', when=v != Val.Undef, unchanged=False)
    c.ensures('output_assigned_and_the_waiting_init_async_released', And(c.post('_output', me) == set_output_result(c.pre('_output', me), v),
                                                                        c.post('ev_set', Val.ref(ev))))
    c.ensures('event_means_output', Implies(c.post('ev_set', Val.ref(ev)), c.post('_output', me) != Val.Undef))


def await_init_event(ex, node, st):
    """await self._init_event.wait(): returns only after the event was set (other tasks run meanwhile)"""
    me = as_kind(st.env['self'], Ref(), st)
    ev = Val.ref(st.readz('_init_event', me))
    post = st.copy()
    for f in HANDLER_EFFECTS + ('ev_set',): post.havoc_field(f)
    impose_callee_guarantees(View(st), View(post))
    post.assume(post.readz('ev_set', ev))
    # invariant of the block (proved for set_output above, the only code that sets the event: scan): event set => output defined
    post.assume(Implies(post.readz('ev_set', ev), post.readz('_output', me) != Val.Undef))
    ca = st.copy(); ca.label('cancelled')
    return [(post, P_NONE), (ca, Raise(PExc('CancelledError', val=Val.Obj(fresh('exc', IntSort())), where='callee')))]


@contract('AddonAsyncInit.init_async', qual=QAI + 'init_async', modifies=HANDLER_EFFECTS + ('ev_set',), self_cls='AddonAsyncInit')
def _aai_init_async(c):
    me = c.z('self')
    c.requires('started', Val.is_Obj(c.pre('_init_event', me)))
    c.ensures('returns_only_when_the_block_has_an_output', c.post('_output', me) != Val.Undef)
    c.raises('CancelledError', label='timed_out_or_shut_down')


def verify_async_init_addon(run):
    from pyvc import scan
    run.verify('AddonAsyncInit.set_output', cls='AddonAsyncInit', hooks={'opaque_fstrings': True},
               calls={'super().set_output': aai_super_set_output, 'self._init_event.is_set': ev_is_set, 'self._init_event.set': ev_set_call})
    run.verify('AddonAsyncInit.init_async', cls='AddonAsyncInit', hooks={'opaque_fstrings': True, 'await': awaits({'self._init_event.wait()': await_init_event})})
    w = scan.attr_writers('_init_event')
    run.scan('writers_of__init_event', w == ['edzed/addons.py:AddonAsyncInit.__init__', 'edzed/addons.py:AddonAsyncInit.start'], f'{w}')


# ---- InitAsync.init_regular: the fallback that prevents a start-up failure ----------------------------------------------------------------------------
@contract('InitAsync.init_regular', qual='edzed.blocklib.sblocks2:InitAsync.init_regular', modifies=DELIVERY + ('_output_events',), self_cls='InitAsync')
def _ia_init_regular(c):
    me = c.z('self')
    out0 = c.pre('_output', me); initdef = c.pre('initdef', me)
    needed = And(out0 == Val.Undef, initdef == Val.Undef)
    c.raises('DeliveryError', when=needed, unchanged=False)
    c.ensures('nothing_to_do_when_initialised_or_an_initdef_will_follow', Implies(Not(needed), And(c.post('_output', me) == out0,
              c.post('_output_events', me)[1] == c.pre('_output_events', me)[1])))
    c.ensures('otherwise_the_output_becomes_none', Implies(needed, c.post('_output', me) == Val.VNone))
    if c.verifying:
        # documented: this fallback does not announce itself with output events (known finding F-C02: they are removed for good)
        c.expect_trace(lambda k: rec('set_output', Val.Obj(me), Val.VNone), If(needed, 1, 0))


def verify_initasync(run):
    run.verify('InitAsync.init_regular', cls='InitAsync')
    run.verify('InitAsync.init_async', cls='InitAsync', hooks={'await': awaits({'coro(*args)': await_init_coro})})


# ---- ValuePoll._maintask: periodic acquisition of the output value ----------------------------------------------------------------------------------
declare_fields(_func=VAL, _interval=VAL)
is_coro = Function('is_coroutine', Val, BoolSort())
awaited = Function('awaited_result', Val, Val)


def vp_iscoroutine(ex, e, st):
    return [(s1, ZV('bool', is_coro(to_val(vals[0], s1)))) for s1, vals in ex.evs(e.args, st)]


def vp_await_value(ex, node, st):
    v = to_val(st.env['value'], st)
    ok = st.copy()
    for f in HANDLER_EFFECTS: ok.havoc_field(f)
    impose_callee_guarantees(View(st), View(ok))
    bad = ok.copy(); bad.label('acquisition:raises')
    ca = ok.copy(); ca.label('cancelled')
    return [(ok, ZV('val', awaited(v))), (bad, Raise(PExc('OtherException', val=Val.Obj(fresh('exc', IntSort())), where='callee'))),
            (ca, Raise(PExc('CancelledError', val=Val.Obj(fresh('exc', IntSort())), where='callee')))]


def vp_await_sleep(ex, node, st):
    outs = []
    for s1, vals in ex.evs(node.args, st):
        s1 = s1.copy(); ex.emit(s1, rec('sleep', a0=to_val(vals[0], s1)))
        for f in HANDLER_EFFECTS: s1.havoc_field(f)
        impose_callee_guarantees(View(st), View(s1))
        outs.append((s1, P_NONE))
        ca = s1.copy(); ca.label('cancelled'); outs.append((ca, Raise(PExc('CancelledError', val=Val.Obj(fresh('exc', IntSort())), where='callee'))))
    return outs


def vp_func_call(ex, st, f, pos, named, stars, sargs, node):
    outs = []
    for s1, v in user_call(ex, st, f, pos, named, stars, sargs, node):
        if not isinstance(v, Raise): s1.ghost['acquired'] = to_val(v, s1)
        outs.append((s1, v))
    return outs


@contract('ValuePoll._maintask', qual='edzed.blocklib.sblocks1:ValuePoll._maintask', modifies=HANDLER_EFFECTS + ('ev_set',), self_cls='ValuePoll')
def _vp_maintask(c):
    me = c.z('self')
    c.requires('started', Val.is_Obj(c.pre('_init_event', me)))       # the main task is created by start() (AddonMainTask.start, C08)
    c.ensures('never_returns', BoolVal(False))
    c.raises('CancelledError', unchanged=False, label='runs_until_cancelled')
    c.raises('OtherException', unchanged=False, label='acquisition_error_ends_the_task')        # (reported by the task monitor: C09)
    c.raises('DeliveryError', unchanged=False, label='delivery_of_an_output_event_failed')
    c.raises('ValueError', unchanged=False, label='never')        # set_output(UNDEF) is excluded by the test before it
    if c.verifying:
        c.out.raises[3].when = BoolVal(False)
        def expected(k, r, st):
            fn = z3.simplify(Rec.fn(r)).as_string()
            g = st.ghost
            if fn == 'usercall':
                goals = [('one_acquisition_per_round', And(g['phase'] == 0, Rec.recv(r) == c.pre('_func', me)))]; g['phase'] = 1
                return goals
            if fn == 'set_output':
                v = g['acquired']; val = If(is_coro(v), awaited(v), v)
                goals = [('the_output_is_the_acquired_value_unless_undefined', And(g['phase'] == 1, Rec.recv(r) == Val.Obj(me), Rec.a0(r) == val, val != Val.Undef))]
                g['phase'] = 2
                return goals
            if fn == 'sleep':
                goals = [('then_the_block_sleeps_for_the_polling_interval', And(Or(g['phase'] == 1, g['phase'] == 2), Rec.a0(r) == c.pre('_interval', me)))]
                g['phase'] = 0
                return goals
            return [('no_other_call', BoolVal(False))]
        c.expect_trace(expected, None, normal_len=None, predicate=True)


def inv_valuepoll(lc):
    return [('a_round_starts_with_an_acquisition', BoolVal(lc.st.st.ghost['phase'] == 0))]


def verify_valuepoll(run):
    run.verify('ValuePoll._maintask', cls='ValuePoll', ghost={'phase': 0, 'acquired': Val.VNone}, invariants={'while True': inv_valuepoll},
               calls={'*value*': vp_func_call, 'asyncio.iscoroutine': vp_iscoroutine},
               hooks={'await': awaits({'value': vp_await_value, 'asyncio.sleep(*': vp_await_sleep})})


# ---- InitAsync.init_async: the block's output becomes the result of the configured coroutine -----------------------------------------------------------
declare_fields(_init_coro=VAL)
coro_app = Function('init_coro_result', Val, Val, Val)        # result of awaiting coro(*args) (user code)


def await_init_coro(ex, node, st):
    """await coro(*args): the user's coroutine function called with the configured arguments"""
    f = to_val(st.env['coro'], st); a = to_val(st.env['args'], st)
    ok = st.copy(); ex.emit(ok, rec('await_coro', f, a))
    for fld in HANDLER_EFFECTS: ok.havoc_field(fld)
    impose_callee_guarantees(View(st), View(ok))
    bad = ok.copy(); bad.label('coro:raises'); ca = ok.copy(); ca.label('cancelled')
    return [(ok, ZV('val', coro_app(f, a))), (bad, Raise(PExc('OtherException', val=Val.Obj(fresh('exc', IntSort())), where='callee'))),
            (ca, Raise(PExc('CancelledError', val=Val.Obj(fresh('exc', IntSort())), where='callee')))]


@contract('InitAsync.init_async', qual='edzed.blocklib.sblocks2:InitAsync.init_async', modifies=HANDLER_EFFECTS, self_cls='InitAsync')
def _ia_init_async(c):
    me = c.z('self')
    ic = c.pre('_init_coro', me); k = Val.tk(ic)
    c.requires('a_non_empty_sequence', And(Val.is_T(ic), tup_len(k) >= 1))        # checked by InitAsync.__init__
    c.raises('OtherException', unchanged=False, label='the_coroutine_failed')
    c.raises('CancelledError', unchanged=False, label='timed_out_or_shut_down')
    c.raises('ValueError', unchanged=False, label='the_coroutine_returned_undef')
    c.raises('DeliveryError', unchanged=False, label='delivery_of_an_output_event_failed')
    if c.verifying:
        def expected(kk, r, st):
            fn = z3.simplify(Rec.fn(r)).as_string()
            if fn == 'await_coro':
                a = Rec.a0(r); ak = Val.tk(a); j = Int('j!ia')
                return [('the_configured_coroutine_is_awaited_with_the_configured_arguments',
                         And(kk == 0, Rec.recv(r) == tup_item(k, 0), Val.is_T(a), tup_len(ak) == tup_len(k) - 1,
                             ForAll([j], Implies(And(0 <= j, j < tup_len(ak)), tup_item(ak, j) == tup_item(k, j + 1)))))]
            if fn == 'set_output':
                return [('the_result_becomes_the_output', And(kk == 1, Rec.recv(r) == Val.Obj(me), Rec.a0(r) == coro_app(tup_item(k, 0), Rec.a0(st.tr[0]))))]
            return [('no_other_call', BoolVal(False))]
        c.expect_trace(expected, 2, normal_len=2, predicate=True)
