#!/venv/bin/python
"""Bounded stand-in for C13 (labelled bounded, never counted as proved): the string notations, the numeric/string round trips,
weekday normalisation and the membership rules on a boundary grid, against the real functions."""
import datetime as dt, itertools, json, os, random, sys
sys.path.insert(0, os.environ.get('VERIF_REPO', '/repo'))
from edzed.blocklib import timeinterval as TI
from edzed.blocklib.timedate import TimeDate
from edzed.utils.tconst import MONTH_NAMES

rnd = random.Random(int(os.environ.get('VERIF_SEED', '0') or 0))
cases, failures = 0, []


def fail(kind, inp, got, want):
    if len(failures) < 8: failures.append(dict(kind=kind, input=repr(inp), got=repr(got), expected=repr(want)))


def same(kind, cls, text, numeric):
    """one notation of an interval normalises to the expected numeric form, and both round trips are the identity"""
    global cases
    cases += 1
    try:
        iv = cls(text)
        got = iv.as_list()
    except Exception as err:
        fail(kind, text, repr(err), numeric); return
    if got != numeric: fail(kind, text, got, numeric); return
    try:
        if cls(got).as_list() != got: fail(kind + ' numeric round trip', text, cls(got).as_list(), got)
        if cls(iv.as_string()).as_list() != got: fail(kind + ' string round trip', (text, iv.as_string()), cls(iv.as_string()).as_list(), got)
    except Exception as err:
        fail(kind + ' round trip', text, repr(err), got)


def rejects(kind, fn, arg):
    global cases
    cases += 1
    try:
        r = fn(arg)
    except (ValueError, TypeError):
        return
    except Exception as err:
        fail(kind, arg, repr(err), 'ValueError/TypeError'); return
    fail(kind, arg, getattr(r, 'as_list', lambda: r)(), 'ValueError/TypeError')


# ---- times
for h in range(24):
    for m in (0, 1, 29, 30, 59):
        for sec, frac in ((None, None), (0, None), (1, None), (59, None), (59, '.5'), (7, ',5'), (3, '.000001')):
            us = 0 if frac is None else int(float('0' + frac.replace(',', '.')) * 1_000_000 + 0.5)
            num = [h, m, sec or 0, us]
            end = [(h + 1) % 24, m, sec or 0, us]
            texts = []
            if sec is None:
                texts += [f'{h}:{m}', f'{h:02d}:{m:02d}']
            else:
                texts += [f'{h}:{m}:{sec}{frac or ""}', f'{h:02d}:{m:02d}:{sec:02d}{(frac or "").replace(",", ".")}']
            for t in texts:
                t2 = t.replace(f'{h}:', f'{(h + 1) % 24}:', 1) if t.startswith(f'{h}:') else t.replace(f'{h:02d}:', f'{(h + 1) % 24:02d}:', 1)
                want = sorted([[num, end]])
                for sep in (' - ', '-', '/'):
                    # a decimal comma needs the ';' delimiter (',' alone is the legacy delimiter between ranges)
                    same('time', TI.TimeInterval, f'{t}{sep}{t2}' + (';' if ',' in t else ''), want)
                same('time seq', TI.TimeInterval, [[num[:2] if sec is None else num, end]], want)

# ---- dates (all 366 days of the leap dummy year)
day = dt.date(404, 1, 1)
while day.year == 404:
    mo, d = day.month, day.day
    want = [[[mo, d], [mo, d]]]
    name = MONTH_NAMES[mo]
    forms = [f'{name[:3]} {d}', f'{name[:3].lower()} {d}', f'{name.upper()} {d}', f'{d}. {name[:4].lower() if len(name) > 3 else name.lower()}', f'{d} {name}',
             f'--{mo:02d}{d:02d}', f'--{mo:02d}-{d:02d}', f'{name[:3]}. {d}.']
    for f in forms:
        same('date', TI.DateInterval, f, want)
    same('date seq', TI.DateInterval, [[[mo, d]]], want)
    nxt = day + dt.timedelta(days=1)
    if nxt.year == 404:
        same('date range', TI.DateInterval, f'{name[:3]} {d} - {MONTH_NAMES[nxt.month][:3]} {nxt.day}', [[[mo, d], [nxt.month, nxt.day]]])
    day = nxt

# ---- date-times (sample)
for i in range(97):
    y, mo, d = rnd.randrange(1990, 2090), rnd.randrange(1, 13), rnd.randrange(1, 29)
    h, m, s = rnd.randrange(24), rnd.randrange(60), rnd.randrange(60)
    a = [y, mo, d, h, m, s, 0]; b = [y + 1, mo, d, h, m, s, 0]
    want = [[a, b]]
    name = MONTH_NAMES[mo]
    forms = [f'{y}-{mo:02d}-{d:02d}T{h:02d}:{m:02d}:{s:02d} / {y + 1}-{mo:02d}-{d:02d}T{h:02d}:{m:02d}:{s:02d}',
             f'{y}-{mo:02d}-{d:02d} {h}:{m}:{s} / {y + 1}-{mo:02d}-{d:02d} {h}:{m}:{s}',
             f'{d}. {name} {y} {h}:{m}:{s} / {d}. {name} {y + 1} {h}:{m}:{s}',
             f'{h}:{m}:{s} {name[:3]} {d} {y} / {h}:{m}:{s} {name[:3]} {d} {y + 1}']
    for f in forms: same('datetime', TI.DateTimeInterval, f, want)
    same('datetime seq', TI.DateTimeInterval, [[a[:5] if s == 0 else a[:6], b]], want)

# ---- several ranges, delimiters, sorting
same('multi', TI.TimeInterval, '10:00-11:00; 1:0-2:0', [[[1, 0, 0, 0], [2, 0, 0, 0]], [[10, 0, 0, 0], [11, 0, 0, 0]]])
same('multi legacy delimiter', TI.TimeInterval, '10:00-11:00, 1:0-2:0,', [[[1, 0, 0, 0], [2, 0, 0, 0]], [[10, 0, 0, 0], [11, 0, 0, 0]]])
same('empty', TI.TimeInterval, '', [])

# ---- membership on the boundaries (independent statement of the rules)
def t(h, m=0): return dt.time(h, m)
for lo, hi in [(1, 5), (22, 3), (7, 7), (0, 0), (23, 0)]:
    iv = TI.TimeInterval([[[lo, 0], [hi, 0]]])
    for x in range(24):
        for mm in (0, 59):
            cases += 1
            xv = x * 60 + mm; a, b = lo * 60, hi * 60
            want = (a <= xv < b) if a < b else (xv >= a or xv < b)
            if (t(x, mm) in iv) != want: fail('time membership', ((lo, hi), (x, mm)), t(x, mm) in iv, want)
for (m1, d1), (m2, d2) in [((3, 1), (3, 31)), ((12, 20), (1, 10)), ((2, 29), (2, 29)), ((1, 1), (12, 31))]:
    iv = TI.DateInterval([[[m1, d1], [m2, d2]]])
    day = dt.date(404, 1, 1)
    while day.year == 404:
        cases += 1
        k, a, b = (day.month, day.day), (m1, d1), (m2, d2)
        want = (a <= k <= b) if a <= b else (k >= a or k <= b)
        if (day in iv) != want: fail('date membership', ((m1, d1), (m2, d2), k), day in iv, want)
        day += dt.timedelta(days=1)
iv = TI.DateTimeInterval([[[2020, 1, 1, 0, 0], [2020, 1, 2, 0, 0]], [[2021, 1, 2, 0, 0], [2021, 1, 1, 0, 0]]])
for x, want in [(dt.datetime(2020, 1, 1), True), (dt.datetime(2020, 1, 1, 23, 59, 59), True), (dt.datetime(2020, 1, 2), False),
                (dt.datetime(2021, 1, 1, 12), False), (dt.datetime(2019, 12, 31, 23, 59), False)]:
    cases += 1
    if (x in iv) != want: fail('datetime membership', x, x in iv, want)

# ---- malformed input
for text in ['25:00-1:00', '1:60-2:00', '1:00', '1:00-2:00-3:00', 'abc', '1:00 - ', 'x:y-1:2', '12:00:00+01:00 - 13:00']:
    rejects('malformed time', TI.TimeInterval, text)
for text in ['Feb 30', 'Foo 1', '13.13.', 'Jan', '1', 'Jan 1 - Feb 2 - Mar 3', '--1301', 'Ja 1', 'Jan 32', 'Jan 1 2020']:
    rejects('malformed date', TI.DateInterval, text)
for text in ['2020-01-01T10:00', '2020-13-01 10:00 / 2021-01-01 10:00', '10:00 Jan 1 / 11:00 Jan 2', '2020-01-01 / 2020-01-02', 'Jan 1 2020 10:00']:
    rejects('malformed datetime', TI.DateTimeInterval, text)
# a token glued between digits must not make the digits merge into a number that is not in the input
for a in range(0, 4):
    for b in range(0, 10):
        for mon in ('May', 'jan', 'SEP', 'december'):
            rejects('glued date', TI.DateInterval, f'{a}{mon}{b}')
for y1, y2 in (('20', '24'), ('19', '99'), ('2', '024')):
    rejects('glued datetime', TI.DateTimeInterval, f'{y1}10:30{y2} jul 5 / 2030-01-01 10:00')
    rejects('glued datetime', TI.DateTimeInterval, f'10:30 {y1}jul{y2} 5 / 2030-01-01 10:00')
for val in [5, None, 3.5, {1: 2}]:
    rejects('wrong type', TI.TimeInterval, val)
for seqs in [[[[1, 2, 3, 4, 5], [1]]], [[[1], [2], [3]]], [[[]]]]:
    rejects('bad sequences', TI.TimeInterval, seqs)
rejects('date seq length', TI.DateInterval, [[[1, 2, 3]]])
rejects('datetime seq length', TI.DateTimeInterval, [[[2020, 1, 1, 0], [2021, 1, 1, 0, 0]]])

# ---- weekdays
for wd, want in [('0123456', [1, 2, 3, 4, 5, 6, 7]), ('7', [7]), ('0', [7]), ('07', [7]), ([0, 7, 1], [1, 7]), ('1 3\t5', [1, 3, 5]), ([], []), ('', [])]:
    cases += 1
    try:
        got = TimeDate.parse(None, None, wd)['weekdays']
    except Exception as err:
        fail('weekdays', wd, repr(err), want); continue
    if got != want: fail('weekdays', wd, got, want)
for wd in ['8', [9], [-1], 'x']:
    rejects('malformed weekdays', lambda w: TimeDate.parse(None, None, w), wd)

print(json.dumps(dict(cases=cases, failures=failures)))
