"""Semantic prelude of pyvc: z3 sorts for Python values and the meaning of the primitive
operations (truthiness, ==, numeric tower, floor modulo).  DESIGN.md section 2.3.

Everything here is part of the trusted base: it is the place where Python's semantics is
written down for the solver."""
from z3 import (Datatype, IntSort, RealSort, BoolSort, StringSort, ArraySort, Function, If, And, Or, Not,
                ToReal, ToInt, Length, IntVal, RealVal, BoolVal, StringVal, Const, K, Store, Select,
                PrefixOf, Concat, is_quantifier, Implies, ForAll, Exists, Int, is_expr)
import z3

# ------------------------------------------------------------------------------------ Val
Val = Datatype('Val')
Val.declare('VNone')
Val.declare('Undef')
Val.declare('B', ('val_b', BoolSort()))
Val.declare('I', ('val_i', IntSort()))
Val.declare('R', ('val_r', RealSort()))          # Python float, treated as a mathematical real ("real-arith")
Val.declare('S', ('val_s', StringSort()))
Val.declare('Obj', ('val_ref', IntSort()))       # heap object: block, event, circuit, task, exception, ...
Val.declare('Opq', ('val_k', IntSort()))         # arbitrary user value: only truthy/py_eq/hashable known
Val.declare('D', ('val_dk', IntSort()))          # dict value (immutable snapshot): content dict_c(dk)
Val.declare('T', ('val_tk', IntSort()))          # tuple/list value: tup_len(tk), tup_item(tk, i)
Val.declare('EC', ('val_ek', IntSort()))         # block.EventCond(etrue, efalse)  (frozen dataclass)
Val.declare('Goto', ('val_gs', StringSort()))    # fsm.Goto(state)                 (frozen dataclass)
Val.declare('FS', ('val_fk', IntSort()))         # frozenset/set value: members fs_c(fk) (indexed by normalised key)
Val = Val.create()
# short python-side names for the accessors (the SMT-LIB names carry a prefix so that they cannot clash with
# constants such as `v`, `i`, `k` in exported queries)
for _n in ('b', 'i', 'r', 's', 'ref', 'k', 'dk', 'tk', 'ek', 'gs', 'fk'):
    setattr(Val, _n, getattr(Val, 'val_' + _n))

_opt_cache = {}


def OptOf(sort):
    """Option sort over `sort` (Absent | Some(v))."""
    key = str(sort)
    if key not in _opt_cache:
        name = 'Opt_' + ''.join(ch if ch.isalnum() else '_' for ch in key)
        d = Datatype(name)
        # constructor names are unique per sort: SMT-LIB cannot disambiguate overloaded datatype constructors
        d.declare('Absent_' + name)
        d.declare('Some_' + name, ('some_' + name, sort))
        dt = d.create()
        dt.v = getattr(dt, 'some_' + name)
        dt.Absent = getattr(dt, 'Absent_' + name)
        dt.Some = getattr(dt, 'Some_' + name)
        dt.is_Some = getattr(dt, 'is_Some_' + name)
        dt.is_Absent = getattr(dt, 'is_Absent_' + name)
        _opt_cache[key] = dt
    return _opt_cache[key]


Opt = OptOf(Val)
DictS = ArraySort(StringSort(), Opt)        # str-keyed dict (event data, kwargs); insertion order abstracted
SeqArr = ArraySort(IntSort(), Val)
RefSet = ArraySort(IntSort(), BoolSort())   # set of heap objects
ValSet = ArraySort(Val, BoolSort())         # set of arbitrary (hashable) values

EMPTY_DICT = K(StringSort(), Opt.Absent)
EMPTY_REFSET = K(IntSort(), BoolVal(False))

# immutable container values reachable from Val
dict_c = Function('dict_c', IntSort(), DictS)
mkD = Function('mkD', DictS, IntSort())
tup_len = Function('tup_len', IntSort(), IntSort())
tup_item = Function('tup_item', IntSort(), IntSort(), Val)
tup_is_tuple = Function('tup_is_tuple', IntSort(), BoolSort())    # tuple (True) or list (False)
fs_c = Function('fs_c', IntSort(), ValSet)
mkFS = Function('mkFS', ValSet, IntSort())
ec_true = Function('ec_true', IntSort(), Val)
ec_false = Function('ec_false', IntSort(), Val)

# uninterpreted knowledge about opaque values
opq_truthy = Function('opq_truthy', IntSort(), BoolSort())
opq_eq = Function('opq_eq', Val, Val, BoolSort())                 # not assumed reflexive (NaN-like values exist)
opq_hashable = Function('opq_hashable', IntSort(), BoolSort())
dict_nonempty = Function('dict_nonempty', IntSort(), BoolSort())
fs_nonempty = Function('fs_nonempty', IntSort(), BoolSort())
class_name = Function('class_name', IntSort(), StringSort())        # class id -> __name__
class_of = Function('class_of', IntSort(), IntSort())             # heap object -> class id
subclass = Function('subclass', IntSort(), IntSort(), BoolSort())  # class id lattice (pinned by spec axioms)

_tuple_fns = {}


def mkT(n):
    """Constructor function for a tuple of static length n: Val^n -> tk."""
    if n not in _tuple_fns:
        _tuple_fns[n] = Function(f'mkT{n}', *([Val] * n), IntSort())
    return _tuple_fns[n]


# ------------------------------------------------------------------------------------ semantics
def is_int(v):
    return Or(Val.is_I(v), Val.is_B(v))          # bool is a subclass of int


def is_num(v):
    return Or(Val.is_B(v), Val.is_I(v), Val.is_R(v))


def num(v):
    """numeric value of a number as a real"""
    return If(Val.is_B(v), If(Val.b(v), RealVal(1), RealVal(0)), If(Val.is_I(v), ToReal(Val.i(v)), Val.r(v)))


def intval(v):
    """integer value of an int-like (I or B)"""
    return If(Val.is_B(v), If(Val.b(v), IntVal(1), IntVal(0)), Val.i(v))


def truthy(v):
    return If(Val.is_B(v), Val.b(v),
           If(Val.is_I(v), Val.i(v) != 0,
           If(Val.is_R(v), Val.r(v) != 0,
           If(Val.is_S(v), Length(Val.s(v)) > 0,
           If(Val.is_Opq(v), opq_truthy(Val.k(v)),
           If(Val.is_D(v), dict_nonempty(Val.dk(v)),
           If(Val.is_T(v), tup_len(Val.tk(v)) > 0,
           If(Val.is_FS(v), fs_nonempty(Val.fk(v)),
           Or(Val.is_Obj(v), Val.is_EC(v), Val.is_Goto(v))))))))))      # None, UNDEF -> False


def py_eq(a, b):
    """Python's a == b for the modelled values.  Encoding assumption A-undef-eq: no user value claims to be equal to the
    UNDEF sentinel (an object whose __eq__ answers True for everything, like unittest.mock.ANY, is outside the model)."""
    return If(Or(a == Val.Undef, b == Val.Undef), a == b,
           If(And(is_num(a), is_num(b)), num(a) == num(b),
           If(Or(Val.is_Opq(a), Val.is_Opq(b)), opq_eq(a, b),
           If(And(Val.is_D(a), Val.is_D(b)), dict_c(Val.dk(a)) == dict_c(Val.dk(b)),
           If(And(Val.is_T(a), Val.is_T(b)), Or(a == b, opq_eq(a, b)),
           If(And(Val.is_EC(a), Val.is_EC(b)),
              And(ec_true(Val.ek(a)) == ec_true(Val.ek(b)), ec_false(Val.ek(a)) == ec_false(Val.ek(b))),
              a == b))))))


def norm_key(v):
    """hash/== normalisation of a set member or dict key: 1 == 1.0 == True are the same key"""
    return If(is_num(v), Val.R(num(v)), v)


def fs_member(fk, v):
    """v in <frozenset fk> for a hashable v"""
    return Select(fs_c(fk), norm_key(v))


def hashable(v):
    return If(Val.is_Opq(v), opq_hashable(Val.k(v)),
           If(Val.is_D(v), BoolVal(False),
           If(Val.is_T(v), tup_is_tuple(Val.tk(v)), BoolVal(True))))     # lists unhashable; tuples of hashables assumed


def floormod_int(a, b):
    """Python a % b on integers, b != 0 (sign follows the divisor)."""
    return If(b > 0, a % b, -((-a) % (-b)))


def floordiv_int(a, b):
    """Python a // b on integers, b != 0."""
    return If(b > 0, a / b, (-a) / (-b))      # z3 Int '/' is Euclidean div; for positive divisor == floor


# membership in a sequence prefix: seq_has(arr, n, v)  <=>  exists j in [0, n): v == arr[j]   (Python ==)
# defined by recursion on n; specs instantiate the two defining equations where they need them
seq_has = Function('seq_has', SeqArr, IntSort(), Val, BoolSort())


def seq_has_base(arr, v):
    return Not(seq_has(arr, IntVal(0), v))


def seq_has_step(arr, i, v):
    return seq_has(arr, i + 1, v) == Or(seq_has(arr, i, v), py_eq(v, Select(arr, i)))


# number of truthy items in a sequence prefix (defined by recursion on n, like seq_has)
seq_count_truthy = Function('seq_count_truthy', SeqArr, IntSort(), IntSort())


floorq = Function('floorq', RealSort(), RealSort(), IntSort())      # floor(a/b) for reals, b != 0


def floorq_axioms(a, b):
    """defining property of floor division over the reals ("real-arith")"""
    q = ToReal(floorq(a, b))
    return [q <= a / b, a / b < q + 1]


def real_floormod(a, b):
    """Python float a % b over the reals: a - b*floor(a/b)"""
    return a - b * ToReal(floorq(a, b))


def asel(arr, i):
    """arr[i]; a lambda-defined array is applied at once (beta reduction), so that the term contains no binder"""
    if z3.is_quantifier(arr) and arr.is_lambda() and arr.num_vars() == 1:
        return z3.substitute_vars(arr.body(), i if is_expr(i) else IntVal(i))
    return arr[i]


def has_quant(f):
    """does the term contain a quantifier or lambda?  (terms are DAGs: every node is visited once)"""
    todo, seen = [f], set()
    while todo:
        t = todo.pop()
        i = t.get_id()
        if i in seen: continue
        seen.add(i)
        if is_quantifier(t): return True
        todo.extend(t.children())
    return False


def S_(x):
    return Val.S(StringVal(x))


def I_(x):
    return Val.I(IntVal(x))


def B_(x):
    return Val.B(BoolVal(x))


def dict_of(**kw):
    d = EMPTY_DICT
    for k, v in kw.items():
        d = Store(d, StringVal(k), Opt.Some(v))
    return d


def dget(d, key):
    """Opt cell of dict d at python-string key"""
    return Select(d, StringVal(key) if isinstance(key, str) else key)


# ------------------------------------------------------------------------------------ call trace records
Rec = Datatype('Rec')
Rec.declare('call', ('rec_fn', StringSort()), ('rec_recv', Val), ('rec_a0', Val), ('rec_a1', Val), ('rec_kw', DictS))
Rec = Rec.create()
for _n in ('fn', 'recv', 'a0', 'a1', 'kw'):
    setattr(Rec, _n, getattr(Rec, 'rec_' + _n))
TraceArr = ArraySort(IntSort(), Rec)


def rec(fn, recv=None, a0=None, a1=None, kw=None):
    return Rec.call(StringVal(fn), Val.VNone if recv is None else recv, Val.VNone if a0 is None else a0,
                    Val.VNone if a1 is None else a1, EMPTY_DICT if kw is None else kw)


# ------------------------------------------------------------------------------------ exact type of a value (type(x) is type(y))
opq_type = Function('opq_type', IntSort(), IntSort())          # exact class of an arbitrary user value (never one of the modelled built-in types)
PRIMITIVE_TYPE_TAGS = {type(None): 1, bool: 3, int: 4, float: 5, str: 6, dict: 7, tuple: 8, list: 9}


def type_tag(v):
    """an integer naming the exact class of a value: equal tags <=> `type(a) is type(b)`.  Heap objects: 1000 + 2*class id of the
    object's class; arbitrary user values: odd numbers above 1000 (unknown classes, distinct from every modelled one)."""
    o = opq_type(Val.k(v))
    cases = [(v == Val.VNone, 1), (v == Val.Undef, 2), (Val.is_B(v), 3), (Val.is_I(v), 4), (Val.is_R(v), 5), (Val.is_S(v), 6), (Val.is_D(v), 7),
             (Val.is_T(v), If(tup_is_tuple(Val.tk(v)), 8, 9)), (Val.is_EC(v), 10), (Val.is_Goto(v), 11), (Val.is_FS(v), 12),
             (Val.is_Obj(v), 1000 + 2 * class_of(Val.ref(v)))]
    r = 1001 + 2 * If(o >= 0, o, -o)
    for c, t in reversed(cases): r = If(c, t, r)
    return r
