"""Circuit.check_not_finalized / finalize / set_persistent_data / addblock: the circuit is frozen after finalisation and after
the end of the simulation (C15, C08)."""
import z3
from pyvc.sorts import *
from pyvc.values import *
from pyvc.state import declare_fields, View
from pyvc.contract import contract, CONTRACTS, Param
from pyvc.engine import Raise, NEXT
from pyvc import calls
from specs.common import *

declare_fields(_blocks=Map(STR, Ref('Block')), persistent_dict=VAL, inputs=Map(STR, VAL), _finalized=BOOL)
Q = 'edzed.simulator:'
OI = OptOf(IntSort())
BL = lambda: calls.C_class('Block')


def frozen(S, me):
    """the statement: after finalisation (or once the simulation has ended) the circuit cannot be modified"""
    return Or(S.f('_error', me) != Val.VNone, S.f('_finalized', me))


@contract('Circuit.check_not_finalized', qual=Q + 'Circuit.check_not_finalized', modifies=(), self_cls='Circuit')
def _cnf(c):
    me = c.z('self')
    c.requires('error_is_an_exception_or_none', Or(c.pre('_error', me) == Val.VNone, Val.is_Obj(c.pre('_error', me))))
    c.raises('EdzedInvalidState', when=frozen(c.S, me), iff=True, label='finalized_or_shut_down')


@contract('Circuit.finalize', qual=Q + 'Circuit.finalize', modifies=('_finalized', 'inputs', 'iconnections', 'oconnections', '_blocks'), self_cls='Circuit',
          traced=lambda a, st: rec('finalize', to_val(a['self'], st)))
def _finalize_wrapper(c):
    me = c.z('self')
    c.raises('OtherException', unchanged=False, label='unresolvable_reference', ensures=lambda post, exc: [post.f('_finalized', me) == c.pre('_finalized', me)])
    c.ensures('finalized_afterwards', c.post('_finalized', me))
    if c.verifying:
        c.expect_trace(lambda k: rec('_finalize', Val.Obj(me)), If(c.pre('_finalized', me), 0, 1))      # idempotent: the work is done once


def _finalize_call(ex, e, st):
    me = as_kind(st.env['self'], Ref(), st)
    ok = st.copy(); ex.emit(ok, rec('_finalize', Val.Obj(me)))
    for f in ('inputs', 'iconnections', 'oconnections', '_blocks'): ok.havoc_field(f)
    bad = st.copy(); ex.emit(bad, rec('_finalize', Val.Obj(me))); bad.label('_finalize:raises')
    for f in ('inputs', 'iconnections', 'oconnections', '_blocks'): bad.havoc_field(f)
    return [(ok, P_NONE), (bad, Raise(PExc('OtherException', val=Val.Obj(fresh('exc', IntSort())), where='callee')))]


@contract('Circuit.set_persistent_data', qual=Q + 'Circuit.set_persistent_data', modifies=('persistent_dict',), self_cls='Circuit')
def _spd(c):
    me = c.z('self')
    c.requires('error_is_an_exception_or_none', Or(c.pre('_error', me) == Val.VNone, Val.is_Obj(c.pre('_error', me))))
    c.raises('EdzedInvalidState', when=frozen(c.S, me), iff=True, label='storage_cannot_be_replaced_after_finalisation')
    c.ensures('storage_set', c.post('persistent_dict', me) == c.v('persistent_dict'))


@contract('Circuit.addblock', qual=Q + 'Circuit.addblock', modifies=('_blocks',), self_cls='Circuit')
def _addblock(c):
    me, blk = c.z('self'), c.v('blk')
    c.requires('error_is_an_exception_or_none', Or(c.pre('_error', me) == Val.VNone, Val.is_Obj(c.pre('_error', me))))
    is_block = And(Val.is_Obj(blk), calls.inst_of(Val.ref(blk), BL()))
    name = c.pre('name', Val.ref(blk))
    dup = OI.is_Some(c.pre('_blocks', me)[name])
    c.raises('EdzedInvalidState', when=frozen(c.S, me), iff=True, label='no_new_block_after_finalisation')
    c.raises('TypeError', when=And(Not(frozen(c.S, me)), Not(is_block)), iff=True, label='not_a_block')
    c.raises('ValueError', when=And(Not(frozen(c.S, me)), is_block, dup), iff=True, label='duplicate_name')
    c.ensures('registered_under_its_name', c.post('_blocks', me) == Store(c.pre('_blocks', me), name, OI.Some(Val.ref(blk))))


