#!/usr/bin/env python3-vt
"""dev tool: run the corpus of changes for the given properties (default: all) -> /tmp/scr/corpus_<id>.json"""
import sys, json, os
sys.path.insert(0, '/verif')
from pyvc import thorough
props = sys.argv[1:] or [f'C{i:02d}' for i in range(1, 21)]
os.makedirs('/tmp/scr', exist_ok=True)
for p in props:
    r = thorough.run_mutants(p, '/repo', workers=6)
    json.dump(r, open(f'/tmp/scr/corpus_{p}.json', 'w'), indent=1)
    print(p, 'breaks', r['breaking_changes'], 'reported', r['reported'], 'missed', [x['name'] + ':' + x['outcome'] for x in r['not_reported']],
          '| harmless', r['harmless_edits'], 'silent', r['silent'], 'not silent', [x['name'] + ':' + x['outcome'] for x in r['false_alarms']], flush=True)
