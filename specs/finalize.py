"""Circuit._finalize: resolution of the connect() data into the three connection relations (C15)."""
import z3
from pyvc.sorts import *
from pyvc.values import *
from pyvc.state import declare_fields, View
from pyvc.contract import contract, CONTRACTS, Param
from pyvc.engine import Raise, NEXT
from pyvc import calls
from specs.common import *
from specs import frozen

declare_fields(_blocks=Map(STR, Ref('Block')), inputs=Map(STR, VAL), iconnections=REFSET, oconnections=REFSET)
Q = 'edzed.simulator:'
OI = OptOf(IntSort()); OV = OptOf(Val)
BL = lambda: calls.C_class('Block')
CONST = lambda: calls.C_class('Const')
FIN_EFFECTS = ('_blocks', 'inputs', 'iconnections', 'oconnections', 'name', 'circuit', '_output')


def member(S, me, r):
    """r is a block registered in this circuit under its own name"""
    return And(calls.inst_of(r, BL()), OI.is_Some(S.f('_blocks', me)[S.f('name', r)]), OI.v(S.f('_blocks', me)[S.f('name', r)]) == r)


def resolved(S, me, v):
    """a connect() item after resolution: a block of this circuit or a Const object"""
    return And(Val.is_Obj(v), Or(calls.inst_of(Val.ref(v), CONST()), member(S, me, Val.ref(v))), Not(And(calls.inst_of(Val.ref(v), CONST()), calls.inst_of(Val.ref(v), BL()))))


def vb_stub(ex, e, st):
    """self._validate_blk(oblk) inside validate_output: result / exception remembered for the wrapper's contract"""
    outs = []
    for s1, vals in ex.evs(e.args, st):
        s1 = s1.copy(); ex.emit(s1, rec('_validate_blk', a0=to_val(vals[0], s1)))
        ok = s1.copy(); r = fresh('vb', Val); ok.ghost['vb_result'] = r; outs.append((ok, ZV('val', r)))
        for cls in ('KeyError', 'ValueError', 'OtherException'):
            b = s1.copy(); x = Val.Obj(fresh('exc', IntSort())); b.ghost['vb_exc'] = x; b.label(f'_validate_blk:{cls}')
            outs.append((b, Raise(PExc(cls, val=x, where='callee'))))
    return outs


@contract('Circuit._finalize.validate_output', qual=Q + 'Circuit._finalize.<locals>.validate_output', modifies=(), closure={'self': Ref('Circuit')})
def _validate_output(c):
    """the wrapper only adds a note to the exception: same result, same exception object"""
    for cls in ('KeyError', 'ValueError', 'OtherException'):
        c.raises(cls, label=f'failed_connection:{cls}', ensures=lambda post, exc: [exc == post.g('vb_exc')])
    if c.verifying:
        c.ensures('result_of__validate_blk', c.rv == c.T.g('vb_result'))
        c.expect_trace(lambda k: rec('_validate_blk', a0=c.v('oblk')), 1)


def validate_output_call(ex, e, st):
    """validate_output(blk, x) as seen by _finalize: the contract of Circuit._validate_blk applied to x (the wrapper is verified above)"""
    k = CONTRACTS['Circuit._validate_blk']
    me = as_kind(st.env['self'], Ref(), st)
    outs = []
    for s1, vals in ex.evs(e.args, st):
        for s2, r in calls.apply_bound(ex, s1, k, {'self': ZV('ref', me, 'Circuit'), 'blk': ZV('val', to_val(vals[1], s1))}, 'call:Circuit._validate_blk'):
            if not isinstance(r, Raise):
                rr = Val.ref(to_val(r, s2))
                s2.assume(Not(And(calls.inst_of(rr, CONST()), calls.inst_of(rr, BL()))))      # instance of the precondition const_objects_are_not_blocks
            outs.append((s2, r))
    return outs


def list_snapshot(ex, e, st):
    outs = []
    for s1, vals in ex.evs(e.args, st): outs.append((s1, vals[0]))
    return outs


def blocks_of_type(ex, e, st):
    """self.getblocks(btype): the blocks of this circuit of that type (registered under their names)"""
    me = as_kind(st.env['self'], Ref(), st)
    if 'btype' not in st.env: raise Unsupported('self.getblocks(...) in _finalize outside the loop over block types (restructured code: no contract)')
    bt = st.env['btype']
    if not (isinstance(bt, PConst) and isinstance(bt.obj, type)): raise Unsupported('getblocks with a symbolic type')
    b = Int('b!gb')
    S = View(st)
    if bt.obj.__name__ == 'Not':
        st = st.copy(); st.ghost['blocks_at_second_pass'] = S.f('_blocks', me)
    return [(st, PSet(z3.Lambda([b], And(member(S, me, b), calls.inst_of(b, bt.obj))), 'ref'))]


def G(pre, st, me):
    """global invariant of _finalize (holds at every loop head)"""
    n = Const('n!G', StringSort()); a, b = Int('a!G'), Int('b!G')
    blocks0, blocks = pre.f('_blocks', me), st.f('_blocks', me)
    ic0, ic = pre.whole('iconnections'), st.whole('iconnections')
    oc0, oc = pre.whole('oconnections'), st.whole('oconnections')
    nm = st.whole('name')
    return [('names_map_to_the_blocks_of_that_name', ForAll([n], Implies(OI.is_Some(blocks[n]), And(calls.inst_of(OI.v(blocks[n]), BL()), nm[OI.v(blocks[n])] == n)))),
            ('registered_blocks_stay_registered', ForAll([n], Implies(OI.is_Some(blocks0[n]), blocks[n] == blocks0[n]))),
            ('every_new_output_connection_has_its_input_connection', ForAll([a, b], Implies(oc[a][b], Or(oc0[a][b], ic[b][a])))),
            ('every_new_input_connection_has_its_output_connection', ForAll([a, b], Implies(ic[b][a], Or(ic0[b][a], oc[a][b])))),
            ('new_input_connections_are_blocks_of_this_circuit', ForAll([a, b], Implies(And(ic[b][a], Not(ic0[b][a])), member(st, me, a)))),
            ('nothing_else', And(st.whole('name') == pre.whole('name'), st.whole('circuit') == pre.whole('circuit')))]


def disjoint_classes():
    r = Int('r!dc')
    return ForAll([r], Not(And(calls.inst_of(r, CONST()), calls.inst_of(r, BL()))))


@contract('Circuit._finalize', qual=Q + 'Circuit._finalize', modifies=('_blocks', 'inputs', 'iconnections', 'oconnections'), self_cls='Circuit')
def _finalize(c):
    me = c.z('self')
    n = Const('n!F', StringSort()); a, b = Int('a!F'), Int('b!F')
    blocks0 = c.pre('_blocks', me)
    c.requires('names_map_to_the_blocks_of_that_name', ForAll([n], Implies(OI.is_Some(blocks0[n]), And(calls.inst_of(OI.v(blocks0[n]), BL()), c.pre('name', OI.v(blocks0[n])) == n))))
    c.requires('const_objects_are_not_blocks', disjoint_classes())
    for cls in ('KeyError', 'ValueError'): c.raises(cls, unchanged=False, label=f'unresolvable_reference:{cls}')
    ic0, oc0 = c.pre_whole('iconnections'), c.pre_whole('oconnections')
    c.requires('no_connection_has_been_made_yet', ForAll([a, b], And(Not(ic0[b][a]), Not(oc0[a][b]))))        # finalize() runs _finalize once (C15: Circuit.finalize)
    if not c.verifying: return
    for lab, f in G(c.S, c.T, me)[:5]: c.ensures(lab, f)
    ic, oc = c.post_whole('iconnections'), c.post_whole('oconnections')
    CB, NOT = calls.C_class('CBlock'), calls.C_class('Not')
    c.ensures('B_is_an_output_connection_of_A_exactly_if_A_is_an_input_connection_of_B', ForAll([a, b], oc[a][b] == ic[b][a]))
    c.ensures('every_combinational_block_given_by_the_user_has_resolved_and_connected_inputs',
              ForAll([b], Implies(And(member(c.S, me, b), calls.inst_of(b, CB)), connected_inputs(c.T, me, b))))
    c.ensures('an_input_connection_of_a_user_block_that_is_not_an_inverter_is_one_of_its_inputs',
              ForAll([a, b], Implies(And(member(c.S, me, b), calls.inst_of(b, CB), Not(calls.inst_of(b, NOT)), ic[b][a]), fed(c.T, a, b))))
    at2 = c.T.g('blocks_at_second_pass')
    c.ensures('qf:a_second_pass_over_the_inverters_takes_place', BoolVal(at2 is not None))       # the first pass may create inverter blocks
    if at2 is not None:
        reg2 = lambda r: And(calls.inst_of(r, BL()), OI.is_Some(at2[c.pre('name', r)]), OI.v(at2[c.pre('name', r)]) == r)
        c.ensures('every_inverter_existing_when_the_second_pass_starts_has_resolved_and_connected_inputs',
                  ForAll([b], Implies(And(reg2(b), calls.inst_of(b, NOT)), connected_inputs(c.T, me, b))))
        c.ensures('an_input_connection_of_an_inverter_created_by_a_shortcut_is_its_input',
                  ForAll([a, b], Implies(And(reg2(b), calls.inst_of(b, NOT), Not(member(c.S, me, b)), ic[b][a]), fed(c.T, a, b))))


def all_resolved(st, me, arr, n):
    i = Int('i!ar')
    return ForAll([i], Implies(And(0 <= i, i < n), resolved(st, me, asel(arr, i))))


def input_ok(st, me, v, collected=None):
    """a resolved connect() item: a resolved object, or a group (tuple) of resolved objects; with `collected` = (arr, n): each
    of them also occurs in the list of collected inputs"""
    j, i = Int('j!io'), Int('i!io')
    def one(x):
        if collected is None: return resolved(st, me, x)
        return And(resolved(st, me, x), collected(x))
    k = Val.tk(v)
    return Or(And(Not(Val.is_T(v)), one(v)), And(Val.is_T(v), ForAll([j], Implies(And(0 <= j, j < tup_len(k)), one(tup_item(k, j))))))


def connected_inputs(st, me, b):
    """(processed block) every input item is resolved, and every block among the items is an input connection of b"""
    kk, j = Const('k!ci', StringSort()), Int('j!ci')
    ins = st.f('inputs', b); ic = st.whole('iconnections')
    def linked(x): return Implies(Not(calls.inst_of(Val.ref(x), CONST())), ic[b][Val.ref(x)])
    v = OV.v(ins[kk]); k = Val.tk(v)
    return ForAll([kk], Implies(OV.is_Some(ins[kk]), And(input_ok(st, me, v),
                   If(Val.is_T(v), ForAll([j], Implies(And(0 <= j, j < tup_len(k)), linked(tup_item(k, j)))), linked(v)))))


def frame(entry, st, me, blk, inputs_of_blk_too=False):
    """what the inner loops keep: input connections only grow; the inputs of the blocks registered before stay as they are
    (a shortcut creates a new block with inputs of its own); optionally also the inputs of the block being processed"""
    a, b = Int('a!fr'), Int('b!fr')
    ic0, ic = entry.whole('iconnections'), st.whole('iconnections')
    in0, in1 = entry.whole('inputs'), st.whole('inputs')
    keep = member(entry, me, b) if inputs_of_blk_too else And(member(entry, me, b), b != blk)
    n = Const('n!fr', StringSort())
    bl0, bl1 = entry.f('_blocks', me), st.f('_blocks', me)
    return [('input_connections_only_grow', ForAll([a, b], Implies(ic0[b][a], ic[b][a]))),
            ('blocks_registered_at_loop_entry_stay_registered', ForAll([n], Implies(OI.is_Some(bl0[n]), bl1[n] == bl0[n]))),
            ('inputs_of_the_other_registered_blocks_are_untouched', ForAll([b], Implies(keep, in1[b] == in0[b])))]


POS = ArraySort(Val, IntSort())


def in_list(pos, arr, n):
    """x occurs in the list (arr, n) at the position the ghost array remembers for it"""
    return lambda x: And(0 <= pos[x], pos[x] < n, asel(arr, pos[x]) == x)


def ai_append(ex, e, st):
    """all_inputs.append(x) + ghost: remember where x was put"""
    outs = []
    for s1, vals in ex.evs(e.args, st):
        s1 = s1.copy(); arr, n = seq_of(s1.env['all_inputs'], s1); x = to_val(vals[0], s1)
        s1.env['all_inputs'] = PSeq(Store(arr, n, x), n + 1, 'val', True)
        s1.ghost['pos'] = Store(s1.ghost['pos'], x, n)
        s1.ghost['src_key'] = Store(s1.ghost['src_key'], n, ex.as_str(s1, s1.env['iname'])); s1.ghost['src_j'] = Store(s1.ghost['src_j'], n, IntVal(-1))
        outs.append((s1, P_NONE))
    return outs


def ai_extend(ex, e, st):
    """all_inputs.extend(newgroup) + ghost: every new item comes from the input name being visited, at its place in the group"""
    outs = []
    for s1, vals in ex.evs(e.args, st):
        s1 = s1.copy(); arr, n = seq_of(s1.env['all_inputs'], s1); arr2, n2 = seq_of(vals[0], s1)
        j = Int('j!ae')
        s1.env['all_inputs'] = PSeq(z3.Lambda([j], If(j < n, asel(arr, j), asel(arr2, j - n))), n + n2, 'val', True)
        key = ex.as_str(s1, s1.env['iname'])
        s1.ghost['src_key'] = z3.Lambda([j], If(And(n <= j, j < n + n2), key, s1.ghost['src_key'][j]))
        s1.ghost['src_j'] = z3.Lambda([j], If(And(n <= j, j < n + n2), j - n, s1.ghost['src_j'][j]))
        outs.append((s1, P_NONE))
    return outs


def group_append(ex, e, st):
    """_comp_result.append(validate_output(blk, i)) + ghost: the position the item will have in all_inputs after extend()"""
    outs = []
    for s1, vals in ex.evs(e.args, st):
        if isinstance(vals, Raise): outs.append((s1, vals)); continue
        s1 = s1.copy(); res = s1.env['_comp_result']; x = to_val(vals[0], s1)
        ai_n = seq_of(s1.env['all_inputs'], s1)[1]
        s1.ghost['pos'] = Store(s1.ghost['pos'], x, ai_n + res.n)
        s1.env['_comp_result'] = PSeq(Store(res.arr, res.n, x), res.n + 1, 'val', True)
        outs.append((s1, P_NONE))
    return outs


def positions_valid(pos, arr, n):
    i = Int('i!pvv')
    return ForAll([i], Implies(And(0 <= i, i < n), in_list(pos, arr, n)(asel(arr, i))))


def fed(st, a, b):
    """A feeds one of B's inputs: the block A is the value, or a member of the group, given for one of B's input names"""
    kk, j = Const('k!fd', StringSort()), Int('j!fd')
    ins = st.f('inputs', b); v = OV.v(ins[kk]); t = Val.tk(v)
    return Exists([kk], And(OV.is_Some(ins[kk]), Or(And(Not(Val.is_T(v)), v == Val.Obj(a)),
                                                   And(Val.is_T(v), Exists([j], And(0 <= j, j < tup_len(t), tup_item(t, j) == Val.Obj(a)))))))


def fed_at(st, a, b, k, j):
    """`fed` with the witnesses given: input name k (and group position j, or j < 0 for a single value)"""
    ins = st.f('inputs', b); v = OV.v(ins[k]); t = Val.tk(v)
    return And(OV.is_Some(ins[k]), If(j < 0, And(Not(Val.is_T(v)), v == Val.Obj(a)), And(Val.is_T(v), 0 <= j, j < tup_len(t), tup_item(t, j) == Val.Obj(a))))


WK = ArraySort(IntSort(), ArraySort(IntSort(), StringSort())); WJ = ArraySort(IntSort(), ArraySort(IntSort(), IntSort()))


def iconn_add(ex, e, st):
    """blk.iconnections.add(inp) + ghost: remember which input name (and group position) made this connection"""
    outs = []
    for s1, vals in ex.evs(e.args, st):
        s1 = s1.copy(); blk = s1.env['blk'].z; x = to_val(vals[0], s1); a = Val.ref(x)
        # quantifier-free: what is connected is the collected input being handled (nothing else ever becomes an input connection)
        from pyvc.sorts import has_quant
        slim = s1.copy(); slim.pc = [f for f in s1.pc if not has_quant(f)]
        ex.oblige('call:iconnections.add/pre:only_the_collected_input_being_handled_is_connected', slim, x == to_val(s1.env['inp'], s1), kind='pre')
        ic = s1.comp('iconnections', RefSet)
        s1.heap['iconnections'] = Store(ic, blk, Store(ic[blk], a, BoolVal(True)))
        g = s1.ghost; i = g['pos'][x]
        g['w_key'] = Store(g['w_key'], blk, Store(g['w_key'][blk], a, g['src_key'][i]))
        g['w_j'] = Store(g['w_j'], blk, Store(g['w_j'][blk], a, g['src_j'][i]))
        outs.append((s1, P_NONE))
    return outs


def provenance(st, blk, arr, n, done=None):
    """ghost provenance of the collected inputs: item i is the value of input name src_key[i], or its src_j[i]-th group member"""
    i = Int('i!pv')
    g = st.st.ghost
    ins = st.f('inputs', blk)
    k = g['src_key'][i]; jj = g['src_j'][i]
    v = OV.v(ins[k]); t = Val.tk(v)
    return ForAll([i], Implies(And(0 <= i, i < n), And(done[k] if done is not None else BoolVal(True), OV.is_Some(ins[k]),
                   If(jj < 0, And(Not(Val.is_T(v)), v == asel(arr, i)), And(Val.is_T(v), jj < tup_len(t), tup_item(t, jj) == asel(arr, i))))))


def inv_blocks(lc):
    me = as_kind(lc.pre.args['self'], Ref())
    b = Int('b!ib')
    n = Const('n!ib', StringSort())
    bl0, bl1 = lc.entry.f('_blocks', me), lc.st.f('_blocks', me)
    return G(lc.pre, lc.st, me) + [('blocks_registered_at_loop_entry_stay_registered', ForAll([n], Implies(OI.is_Some(bl0[n]), bl1[n] == bl0[n]))),
                                   ('input_connections_only_grow_in_this_pass', ForAll([Int('a!ib'), b], Implies(lc.entry.whole('iconnections')[b][Int('a!ib')],
                                                                                                          lc.st.whole('iconnections')[b][Int('a!ib')]))),
                                   ('inputs_of_blocks_not_processed_in_this_pass_are_untouched',
                                    ForAll([b], Implies(And(member(lc.entry, me, b), Not(lc.done[b])), lc.st.whole('inputs')[b] == lc.entry.whole('inputs')[b]))),
                                   ('blocks_not_yet_processed_in_this_pass_have_no_new_input_connection',
                                    ForAll([b], Implies(Not(lc.done[b]), And(lc.st.whole('iconnections')[b] == lc.entry.whole('iconnections')[b],
                                                                             lc.st.st.ghost['w_key'][b] == lc.entry.st.ghost['w_key'][b],
                                                                             lc.st.st.ghost['w_j'][b] == lc.entry.st.ghost['w_j'][b])))),
                                   ('input_connections_of_processed_blocks_come_from_their_inputs',
                                    ForAll([b, Int('a!ib2')], Implies(And(lc.done[b], lc.st.whole('iconnections')[b][Int('a!ib2')],
                                                                          Not(lc.entry.whole('iconnections')[b][Int('a!ib2')])),
                                                                      fed_at(lc.st, Int('a!ib2'), b, lc.st.st.ghost['w_key'][b][Int('a!ib2')], lc.st.st.ghost['w_j'][b][Int('a!ib2')])))),
                                   ('processed_blocks_have_resolved_and_connected_inputs', ForAll([b], Implies(lc.done[b], connected_inputs(lc.st, me, b))))]


def inv_items(lc):
    me = as_kind(lc.pre.args['self'], Ref())
    s = lc.st.st
    ai_arr, ai_n = seq_of(lc.local('all_inputs'), s)
    blk = lc.st.st.env['blk'].z
    kk = Const('k!i2', StringSort())
    ins, ins0 = lc.st.f('inputs', blk), lc.entry.f('inputs', blk)
    last = []
    if z3.is_store(lc.done):
        # quantifier-free instances, for the input name just visited, of the clause `visited_inputs_are_resolved_and_collected`
        k0 = lc.done.arg(1); v0 = OV.v(ins[k0]); t0 = Val.tk(v0)
        col = in_list(lc.st.st.ghost['pos'], ai_arr, ai_n)
        last = [('qf:the_input_just_visited_is_stored_resolved_and_collected',
                 And(OV.is_Some(ins[k0]), Implies(Not(Val.is_T(v0)), And(resolved(lc.st, me, v0), col(v0))))),
                ('qf:the_first_member_of_the_group_just_visited_is_resolved_and_collected',
                 Implies(And(Val.is_T(v0), tup_len(t0) > 0), And(resolved(lc.st, me, tup_item(t0, 0)), col(tup_item(t0, 0)))))]
    return (last + G(lc.pre, lc.st, me) + frame(lc.entry, lc.st, me, blk) +
            [('list_length', ai_n >= 0), ('collected_inputs_are_resolved', all_resolved(lc.st, me, ai_arr, ai_n)),
             ('the_block_being_processed', And(blk == lc.entry.st.env['blk'].z, member(lc.st, me, blk))),
             ('visited_inputs_are_resolved_and_collected', ForAll([kk], Implies(lc.done[kk], And(OV.is_Some(ins[kk]), input_ok(lc.st, me, OV.v(ins[kk]), in_list(lc.st.st.ghost['pos'], ai_arr, ai_n)))))),
             ('other_inputs_are_as_given', ForAll([kk], Implies(Not(lc.done[kk]), ins[kk] == ins0[kk]))),
             ('every_collected_input_comes_from_a_visited_input', provenance(lc.st, blk, ai_arr, ai_n, lc.done)),
             ('every_collected_input_knows_a_position', positions_valid(lc.st.st.ghost['pos'], ai_arr, ai_n)),
             ('no_connection_is_made_while_the_inputs_are_resolved', And(lc.st.whole('iconnections') == lc.entry.whole('iconnections'),
                                                                         lc.st.st.ghost['w_key'] == lc.entry.st.ghost['w_key'], lc.st.st.ghost['w_j'] == lc.entry.st.ghost['w_j']))])


def _group_positions(lc, ai_arr, ai_n, res):
    """ghost positions while a group is being resolved: an item is where it was in all_inputs, or where it will be after extend()"""
    x = Const('x!gp', Val); j = Int('j!gp')
    pos, pos0 = lc.st.st.ghost['pos'], lc.entry.st.ghost['pos']
    was = in_list(pos0, ai_arr, ai_n)
    first = asel(res.arr, 0)
    me_ = as_kind(lc.pre.args['self'], Ref())
    inst0 = [('assume:instances_for_the_first_group_member', Implies(res.n > 0, And(resolved(lc.st, me_, first), ai_n <= pos[first], pos[first] < ai_n + res.n,
                                                                                     asel(res.arr, pos[first] - ai_n) == first)))]
    return inst0 + [('earlier_items_keep_a_valid_position', ForAll([x], Implies(was(x), Or(And(pos[x] == pos0[x]),
                                                                                 And(ai_n <= pos[x], pos[x] < ai_n + res.n, asel(res.arr, pos[x] - ai_n) == x))))),
            ('own:group_items_know_their_future_position', ForAll([j], Implies(And(0 <= j, j < res.n),
                                                       And(ai_n <= pos[asel(res.arr, j)], pos[asel(res.arr, j)] < ai_n + res.n,
                                                           asel(res.arr, pos[asel(res.arr, j)] - ai_n) == asel(res.arr, j))))),
            ('the_list_itself_is_untouched', And(ai_n == seq_of(lc.entry_local('all_inputs'), lc.entry.st)[1], ai_arr == seq_of(lc.entry_local('all_inputs'), lc.entry.st)[0]))]


def inv_group(lc):
    me = as_kind(lc.pre.args['self'], Ref())
    res = lc.local('_comp_result')
    ai_arr, ai_n = seq_of(lc.local('all_inputs'), lc.st.st)
    blk = lc.st.st.env['blk'].z
    return (G(lc.pre, lc.st, me) + frame(lc.entry, lc.st, me, blk, inputs_of_blk_too=True) +
            _group_positions(lc, ai_arr, ai_n, res) +
            [('no_connection_is_made_while_the_inputs_are_resolved', And(lc.st.whole('iconnections') == lc.entry.whole('iconnections'),
                                                                        lc.st.st.ghost['w_key'] == lc.entry.st.ghost['w_key'], lc.st.st.ghost['w_j'] == lc.entry.st.ghost['w_j'])),
             ('lengths', And(res.n == lc.i, ai_n >= 0)), ('group_members_so_far_are_resolved', all_resolved(lc.st, me, res.arr, res.n)),
             ('collected_inputs_are_resolved', all_resolved(lc.st, me, ai_arr, ai_n)),
             ('the_block_being_processed', And(blk == lc.entry.st.env['blk'].z, member(lc.st, me, blk)))])


def inv_connect(lc):
    me = as_kind(lc.pre.args['self'], Ref())
    blk = lc.st.st.env['blk'].z
    x = asel(lc.arr, lc.i - 1); rx = Val.ref(x)
    ic, oc, ic0 = lc.st.whole('iconnections'), lc.st.whole('oconnections'), lc.pre.whole('iconnections')
    is_const = calls.inst_of(rx, CONST())
    # quantifier-free instances of the clauses of G for the input handled last (decidable also when they fail)
    last = [('qf:the_input_just_handled_is_connected_both_ways_unless_it_is_a_const',
             Implies(And(lc.i >= 1, Not(is_const)), And(ic[blk][rx], oc[rx][blk]))),
            ('qf:a_const_is_never_connected', Implies(And(lc.i >= 1, is_const, Not(ic0[blk][rx])), Not(ic[blk][rx])))]
    cur = asel(lc.arr, lc.i); rc = Val.ref(cur)
    # instances (at the element handled next) of invariant clauses that are themselves obligations: available as quantifier-free facts
    inst = [('assume:instance_of_collected_inputs_are_resolved', Implies(And(0 <= lc.i, lc.i < lc.n), resolved(lc.st, me, cur))),
            ('assume:instance_of_new_input_connections_are_blocks_of_this_circuit', Implies(And(ic[blk][rc], Not(ic0[blk][rc])), member(lc.st, me, rc)))]
    i = Int('i!i4')
    linked = lambda x_: Implies(Not(calls.inst_of(Val.ref(x_), CONST())), ic[blk][Val.ref(x_)])
    return (inst + last + G(lc.pre, lc.st, me) + frame(lc.entry, lc.st, me, blk, inputs_of_blk_too=True)[:2] +
            [('collected_inputs_are_resolved', all_resolved(lc.st, me, lc.arr, lc.n)),
             ('the_block_being_processed', blk == lc.entry.st.env['blk'].z),
             ('inputs_and_registrations_untouched', And(lc.st.whole('inputs') == lc.entry.whole('inputs'), lc.st.whole('_blocks') == lc.entry.whole('_blocks'))),
             ('collected_inputs_handled_so_far_are_connected', ForAll([i], Implies(And(0 <= i, i < lc.i), linked(asel(lc.arr, i))))),
             ('ghosts_untouched', And(lc.st.st.ghost['pos'] == lc.entry.st.ghost['pos'], lc.st.st.ghost['src_key'] == lc.entry.st.ghost['src_key'],
                                      lc.st.st.ghost['src_j'] == lc.entry.st.ghost['src_j'])),
             ('new_input_connections_of_this_block_are_collected_inputs',
              ForAll([Int('a!i4')], Implies(And(ic[blk][Int('a!i4')], Not(lc.entry.whole('iconnections')[blk][Int('a!i4')])),
                                            in_list(lc.st.st.ghost['pos'], lc.arr, lc.n)(Val.Obj(Int('a!i4')))))),
             ('new_input_connections_of_this_block_know_where_they_come_from',
              ForAll([Int('a!i5')], Implies(And(ic[blk][Int('a!i5')], Not(lc.entry.whole('iconnections')[blk][Int('a!i5')])),
                                            fed_at(lc.st, Int('a!i5'), blk, lc.st.st.ghost['w_key'][blk][Int('a!i5')], lc.st.st.ghost['w_j'][blk][Int('a!i5')])))),
             ('witnesses_of_other_blocks_untouched', ForAll([Int('b!i5')], Implies(Int('b!i5') != blk,
                                                      And(lc.st.st.ghost['w_key'][Int('b!i5')] == lc.entry.st.ghost['w_key'][Int('b!i5')],
                                                          lc.st.st.ghost['w_j'][Int('b!i5')] == lc.entry.st.ghost['w_j'][Int('b!i5')])))),
             ('input_connections_of_other_blocks_untouched', ForAll([Int('b!i4')], Implies(Int('b!i4') != blk,
                                                              ic[Int('b!i4')] == lc.entry.whole('iconnections')[Int('b!i4')])))])


def verify_finalize(run):
    run.verify('Circuit._finalize.validate_output', ghost={'vb_result': Val.VNone, 'vb_exc': Val.VNone},
               calls={'add_note': lambda ex, e, st: [(st, P_NONE)], 'self._validate_blk': vb_stub})
    from specs import c15
    c15.SUMMARY_ONLY[0] = True
    try:
        _verify_finalize_body(run)
    finally:
        c15.SUMMARY_ONLY[0] = False


def _verify_finalize_body(run):
    run.verify('Circuit._finalize', cls='Circuit',
               invariants={'for blk in list(self.getblocks(btype))': inv_blocks, 'for (iname, inp) in blk.inputs.items()': inv_items,
                           'comp[6898ad]:for i in inp': inv_group, 'for inp in all_inputs': inv_connect},
               ghost={'pos': K(Val, IntVal(-1)), 'blocks_at_second_pass': None, 'src_key': K(IntSort(), StringVal('')), 'src_j': K(IntSort(), IntVal(-1)),
                      'w_key': K(IntSort(), K(IntSort(), StringVal(''))), 'w_j': K(IntSort(), K(IntSort(), IntVal(-1)))},
               calls={'validate_output': validate_output_call, 'list': list_snapshot, 'self.getblocks': blocks_of_type,
                      'all_inputs.append': ai_append, 'all_inputs.extend': ai_extend, '_comp_result.append': group_append,
                      'blk.iconnections.add': iconn_add})
