"""Contracts (sidecar), their use at call sites (assume) and on bodies (prove).  DESIGN 2.4/2.5."""
import ast
import hashlib
import importlib
import inspect
import os
import sys
from .sorts import *
from .values import *
from .state import *

REPO = os.environ.get('VERIF_REPO', '/repo')
if REPO not in sys.path:
    sys.path.insert(0, REPO)

_real_undef = None


def REAL_UNDEF():
    global _real_undef
    if _real_undef is None:
        _real_undef = importlib.import_module('edzed.block').UNDEF
    return _real_undef


# ------------------------------------------------------------------------------ exception lattice
PSEUDO_EXC = {
    # pseudo classes for "some exception the contract does not name": (bases)
    'OtherException': (Exception,),            # an Exception that is none of the classes named in edzed
    'OtherBaseException': (BaseException,),
    'StoredException': (Exception,),           # `raise <exception object kept in a field>`: an Exception other than CancelledError
    'StoredBaseException': (BaseException,),   # ... a BaseException that is neither
}


def exc_class(name):
    import asyncio, builtins
    ex = importlib.import_module('edzed.exceptions')
    for src in (builtins, ex, asyncio):
        c = getattr(src, name, None)
        if isinstance(c, type) and issubclass(c, BaseException): return c
    return None


def exc_issubclass(name, handler_cls):
    """is an exception of (pseudo) class `name` caught by `except handler_cls`?"""
    if name in PSEUDO_EXC:
        return any(issubclass(b, handler_cls) for b in PSEUDO_EXC[name])
    c = exc_class(name)
    if c is None: raise Unsupported(f'unknown exception class {name}')
    return issubclass(c, handler_cls)


# ------------------------------------------------------------------------------ extraction
_ast_cache = {}


def module_ast(modname):
    if modname not in _ast_cache:
        mod = importlib.import_module(modname)
        path = inspect.getsourcefile(mod)
        src = open(path).read()
        _ast_cache[modname] = (mod, path, src, ast.parse(src))
    return _ast_cache[modname]


def find_def(modname, path):
    """locate a def by qualified path 'Class.func', 'func', 'Class.func.<locals>.inner', '...<lambda#k>'"""
    mod, file, src, tree = module_ast(modname)
    node = tree
    parts = [p for p in path.split('.') if p != '<locals>']
    for part in parts:
        if part.startswith('<lambda'):
            k = int(part[8:-1]) if '#' in part else 0
            lams = [n for n in ast.walk(node) if isinstance(n, ast.Lambda)]
            lams.sort(key=lambda n: (n.lineno, n.col_offset))
            if k >= len(lams): raise Unsupported(f'{modname}:{path}: lambda #{k} not found in the current source')
            node = lams[k]; continue
        body = node.body if not isinstance(node, ast.Lambda) else []
        found = None
        pool = list(body)
        # search nested statements too (defs inside if/try/for bodies) but not inside other defs/classes
        while pool:
            n = pool.pop(0)
            if isinstance(n, (ast.FunctionDef, ast.AsyncFunctionDef, ast.ClassDef)):
                if n.name == part and not any(ast.unparse(d).split('.')[-1] == 'overload' for d in n.decorator_list):
                    found = n            # keep scanning: the last definition of a name is the one that is bound
                continue
            for ch in ast.iter_child_nodes(n):
                if isinstance(ch, ast.stmt): pool.append(ch)
        if found is None:
            raise Unsupported(f'{modname}:{path}: definition {part!r} not found in the current source')
        node = found
    seg = ast.get_source_segment(src, node) or ''
    return mod, file, node, hashlib.sha256(seg.encode()).hexdigest()[:16]


KNOWN_DECORATORS = {'staticmethod', 'classmethod', 'property', 'abc.abstractmethod', 'overload', '_dualmethod'}


def check_decorators(node, qual):
    for d in getattr(node, 'decorator_list', []):
        txt = ast.unparse(d)
        if txt not in KNOWN_DECORATORS:
            raise Unsupported(f'{qual}: decorator @{txt} is outside the verified subset')


# ------------------------------------------------------------------------------ contracts
CONTRACTS = {}        # key -> Contract     keys: 'Class.method', 'module:func', 'iface:name'
REQUIRED = object()


class Param:
    def __init__(self, name, kind=VAL, default=REQUIRED, kwonly=False, posonly=False):
        self.name, self.kind, self.default, self.kwonly, self.posonly = name, kind, default, kwonly, posonly


class Clauses:
    """what one evaluation of a contract body produced"""
    def __init__(self):
        self.requires, self.ensures, self.raises, self.emits = [], [], [], []
        self.result_pv = None
        self.trace_spec = None


class RaiseCase:
    def __init__(self, cls, when, ensures, iff, label, unchanged, where=None):
        self.cls, self.when, self.ensures, self.iff, self.label, self.unchanged = cls, when, ensures, iff, label, unchanged
        self.where = where          # None: any; 'call': raised at a call (no callee frame); 'inside': anything else


class Ctx:
    """handed to the contract body; gives access to arguments, pre/post state and the result"""
    def __init__(self, contract, args, pre, post, result, verifying=False):
        self.k, self.args, self._pre, self._post, self.result = contract, args, pre, post, result
        self.verifying = verifying      # True: clauses become obligations on the body; False: use at a call site
        self.out = Clauses()

    @property
    def rv(self):
        """the result as a z3 Val"""
        return to_val(self.result, self._post.st)

    # arguments
    def arg(self, name):            # PV
        return self.args[name]
    def z(self, name, kind=None):   # z3 term in the parameter's kind
        p = self.k.param(name)
        return as_kind(self.args[name], kind or p.kind, self._pre.st)
    def v(self, name):              # z3 Val
        return to_val(self.args[name], self._pre.st)
    # state
    def pre(self, field, ref): return self._pre.f(field, ref)
    def post(self, field, ref): return self._post.f(field, ref)
    def pre_whole(self, field): return self._pre.whole(field)
    def post_whole(self, field): return self._post.whole(field)
    @property
    def S(self): return self._pre
    @property
    def T(self): return self._post
    # clauses
    def requires(self, label, f): self.out.requires.append((label, f))
    def ensures(self, label, f): self.out.ensures.append((label, f))
    def raises(self, cls, when=None, ensures=None, iff=False, label=None, unchanged=True, where=None, impose=None):
        rc = RaiseCase(cls, when, ensures, iff, label or cls, unchanged, where)
        rc.impose = impose          # impose(S, T): constructive guarantees on the havocked post-state of this exit (call sites only)
        self.out.raises.append(rc)
    def emit(self, record): self.out.emits.append(record)
    def expect_trace(self, fn, length, normal_len='same', predicate=False):
        """the activation's own trace of traced calls: fn(k) is the k-th record (a function of the pre-state), `length`
        an upper bound for every exit, `normal_len` the exact number of records on a normal return (None: not fixed).
        With predicate=True, fn(k, record, state) is a condition on the k-th record instead."""
        self.out.trace_spec = (fn, length, length if isinstance(normal_len, str) and normal_len == 'same' else normal_len, predicate)
    def returns(self, pv):
        """fix the result to a specific value"""
        self.out.result_pv = pv


class Contract:
    def __init__(self, key, body, qual=None, params=None, result=VAL, modifies=(), self_cls=None, traced=None,
                 sig=None, pure=False, may_raise_other=False, closure=None, trusted=None, emits_trace=False, kinds=None,
                 propagates_delivery_errors=False):
        self.key, self.body, self.qual = key, body, qual
        self.kinds = dict(kinds or params or {})
        self.result, self.modifies, self.self_cls = result, tuple(modifies), self_cls
        self.traced = traced            # None | callable(args, st) -> Rec  (record appended to the caller's trace)
        self.pure = pure
        self.trusted = trusted          # reason string if this contract is assumed (no verified body)
        self.closure = closure or {}    # name -> Kind of free variables (nested functions)
        self.emits_trace = emits_trace
        self.propagates_delivery_errors = propagates_delivery_errors   # a failed delivery must leave the function as an exception  # body may append to the trace (for verification the trace is compared in ensures)
        self._sig = sig
        self.node = self.file = self.hash = self.module = None
        self.verified = False

    # ------------------------------------------------------------ signature
    def load(self):
        if self.qual and self.node is None:
            modname, path = self.qual.split(':')
            self.module, self.file, self.node, self.hash = find_def(modname, path)
            from . import alpha
            self.node, self.alpha_note = alpha.normalise(self.qual, self.node)
            check_decorators(self.node, self.qual)
        return self

    def signature(self):
        if self._sig is not None: return self._sig
        self.load()
        a = self.node.args
        ps, varargs, varkw = [], None, None
        pos = list(a.posonlyargs) + list(a.args)
        defaults = [REQUIRED] * (len(pos) - len(a.defaults)) + list(a.defaults)
        deco = {ast.unparse(d) for d in getattr(self.node, 'decorator_list', [])}
        for i, (p, d) in enumerate(zip(pos, defaults)):
            kind = self.kinds.get(p.arg, VAL)
            if i == 0 and p.arg in ('self', 'cls') and 'staticmethod' not in deco and p.arg not in self.kinds:
                kind = Ref(self.self_cls)
            ps.append(Param(p.arg, kind, d, posonly=p in a.posonlyargs))
        for p, d in zip(a.kwonlyargs, a.kw_defaults):
            ps.append(Param(p.arg, self.kinds.get(p.arg, VAL), REQUIRED if d is None else d, kwonly=True))
        if a.vararg: varargs = a.vararg.arg
        if a.kwarg: varkw = a.kwarg.arg
        self._sig = (ps, varargs, varkw)
        return self._sig

    def param(self, name):
        ps, va, vk = self.signature()
        for p in ps:
            if p.name == name: return p
        if name == vk: return Param(name, DICT)
        if name == va: return Param(name, Seq())
        raise KeyError(name)

    # ------------------------------------------------------------ evaluation of the body
    def clauses(self, args, pre_st, post_st, result, verifying=False):
        c = Ctx(self, args, View(pre_st, args), View(post_st, args), result, verifying)
        self.body(c)
        return c.out


def contract(key, qual=None, **kw):
    def deco(fn):
        c = Contract(key, fn, qual=qual, **kw)
        if key in CONTRACTS: raise RuntimeError(f'duplicate contract {key}')
        CONTRACTS[key] = c
        return c
    return deco


# ------------------------------------------------------------------------------ function under verification
class FnSpec:
    """everything the executor needs to know while it runs one function body"""
    def __init__(self, contract, prop, cls=None, invariants=None, calls=None, hooks=None):
        contract.load()
        self.contract, self.prop = contract, prop
        self.qual = contract.qual
        self.module = contract.module
        self.node = contract.node
        self.cls = cls                    # real class object whose MRO resolves self.method()
        self.invariants = invariants or {}
        self.calls = calls or {}          # unparse(call.func) -> Contract | handler
        h = hooks or {}
        self.attr_hooks = h.get('attr', {})
        self.eq_hook = h.get('eq')
        self.order_hook = h.get('order')
        self.with_hook = h.get('with')
        self._await = h.get('await')
        self._comp = h.get('comp')
        self.field_write = h.get('field_write')
        self.contains_hook = h.get('contains')          # (ex, st, container, item) -> outcomes | None: `item in container` for objects with __contains__
        self.closure_vals = {}
        self.trace_spec = None
        self.opaque_fstrings = h.get('opaque_fstrings', False)
        self.goto_state_attr = h.get('goto_state_attr', False)
        self.heap_dicts = h.get('heap_dicts', False)     # dict-valued objects reached through the heap (shared, mutable): field st_items
        self.assumptions = set()
        self.written_fields = set()

    def note_assumption(self, text): self.assumptions.add(text)

    def contract_keys(self):
        """names under which calls are given a meaning in this proof: contract keys and the call overrides of the spec"""
        return list(CONTRACTS.keys()) + list(self.calls.keys())

    def on_field_write(self, ex, st, attr, ref):
        self.written_fields.add(FIELD_ALIAS.get(attr, attr))
        if self.field_write: self.field_write(ex, st, attr, ref)

    def await_hook(self, ex, e, st):
        if self._await is None: raise Unsupported(f'await in {self.qual}: no rely/guarantee given')
        return self._await(ex, e, st)

    def comp_hook(self, ex, e, st):
        from . import comps
        if self._comp is not None:
            r = self._comp(ex, e, st)
            if r is not None: return r
        return comps.eval_comp(ex, e, st)
