"""FSM._build_tables (fsm.py): STATES / TIMERS / EVENTS -> control tables (C03, C04)."""
import z3
from pyvc.sorts import *
from pyvc.values import *
from pyvc.state import declare_fields, View
from pyvc.contract import contract, CONTRACTS, Param
from pyvc.engine import Raise, NEXT
from pyvc import calls
from specs.common import *
from specs import fsm
from specs.fsm import MSV, OV, tkey, tkey_axioms

declare_fields(STATES=VAL, TIMERS=MSV, EVENTS=VAL, _ct_handlers=MSV, _ct_default_state=VAL, _ct_prefixes=VAL)
Q = 'edzed.fsm:FSM.'


@contract('FSM._build_tables', qual=Q + '_build_tables', modifies=('_ct_states', '_ct_events', '_ct_transition', '_ct_default_duration', '_ct_timed_event',
          '_ct_methods', '_ct_prefixes', '_ct_default_state', '_ct_chainlimit'), self_cls='FSM')
def _build_tables(c):
    me = c.z('cls')
    c.raises('ValueError', unchanged=False, label='malformed_definition')
    c.raises('TypeError', unchanged=False, label='malformed_definition_type')
    EV = c.pre('EVENTS', me)
    T = c.post('_ct_transition', me)
    i, j = Int('i!bt'), Int('j!bt')
    s_ = Const('s!bt', StringSort())
    st0 = c.pre('STATES', me)
    c.requires('states_is_a_sequence_of_names_or_mistakenly_a_string', Or(Val.is_S(st0), And(Val.is_T(st0), ForAll([i], Implies(And(0 <= i, i < tup_len(Val.tk(st0))), Val.is_S(tup_item(Val.tk(st0), i)))))))
    c.requires('events_is_a_sequence_of_triples', And(Val.is_T(EV), ForAll([i], Implies(And(0 <= i, i < tup_len(Val.tk(EV))), is_rule(tup_item(Val.tk(EV), i))))))
    c.requires('timers_map_states_to_pairs', ForAll([s_], Implies(OV.is_Some(c.pre('TIMERS', me)[s_]), is_pair(OV.v(c.pre('TIMERS', me)[s_])))))
    # ---- the statement: the table holds every rule of the definition, with the target the definition gives (None targets included) ----
    c.ensures('every_rule_of_the_definition_is_in_the_transition_table',
              ForAll([i, j], Implies(And(0 <= i, i < tup_len(Val.tk(EV))), rule_entered(T, EV, i, j))))
    i0, j0 = Int('i0!bt'), Int('j0!bt')
    c.ensures('rule_in_the_table@i0_j0', Implies(And(0 <= i0, i0 < tup_len(Val.tk(EV))), rule_entered(T, EV, i0, j0)))
    c.ensures('states_are_STATES_and_timed_states', Implies(Val.is_T(c.pre('STATES', me)), c.post('_ct_states', me) == states_of(c.S, me)))
    c.ensures('every_event_of_the_definition_is_known', ForAll([i], Implies(And(0 <= i, i < tup_len(Val.tk(EV))), c.post('_ct_events', me)[Val.s(ev_triple(EV, i)[0])])))
    tm = c.pre('TIMERS', me)
    c.ensures('timed_states_have_their_event_and_default_duration',
              ForAll([s_], Implies(OV.is_Some(tm[s_]), And(c.post('_ct_timed_event', me)[s_] == OV.Some(tup_item(Val.tk(OV.v(tm[s_])), 1)),
                                                           c.post('_ct_default_duration', me)[s_] == OV.Some(fsm.tp_result(tup_item(Val.tk(OV.v(tm[s_])), 0)))))))
    c.ensures('only_timed_states_have_a_timed_event', ForAll([s_], Implies(Not(OV.is_Some(tm[s_])), Not(OV.is_Some(c.post('_ct_timed_event', me)[s_])))))


def states_of(S, me):
    """the statement: the states of an FSM are the names in STATES and the timed states (keys of TIMERS)"""
    st = S.f('STATES', me); tm = S.f('TIMERS', me)
    s, j = Const('s!so', StringSort()), Int('j!so')
    return z3.Lambda([s], Or(And(Val.is_T(st), Exists([j], And(0 <= j, j < tup_len(Val.tk(st)), tup_item(Val.tk(st), j) == Val.S(s)))), OV.is_Some(tm[s])))


def all_states(ex, e, st):
    """set(cls.STATES).union(cls.TIMERS)"""
    me = as_kind(st.env['cls'], Ref(), st)
    stv = st.readz('STATES', me)
    outs = []
    for s1, is_seq in ex.fork(st, Val.is_T(stv), f'L{e.lineno}.states_seq'):
        if is_seq: outs.append((s1, PSet(states_of(View(s1), me), 'str')))
        else: outs.append((s1, PSet(fresh('chars', ArraySort(StringSort(), BoolSort())), 'str')))      # set('ab'): refused a few lines later
    return outs


@contract('FSM._build_tables.add_transition', qual=Q + '_build_tables.<locals>.add_transition', closure={'cls': Ref('FSM')}, modifies=('_ct_transition',))
def _add_transition(c):
    me = as_kind(c.arg('cls'), Ref())
    ev, frm, nxt = c.v('event'), c.v('from_state'), c.v('next_state')
    T0, T1 = c.pre('_ct_transition', me), c.post('_ct_transition', me)
    key = tkey(ev, frm)
    c.requires('source_is_none_or_a_name', Or(frm == Val.VNone, Val.is_S(frm)))
    unknown = And(frm != Val.VNone, Not(c.pre('_ct_states', me)[Val.s(frm)]))
    c.raises('ValueError', when=Or(unknown, OV.is_Some(T0[key])), iff=True, label='unknown_source_state_or_second_rule_for_the_same_event_and_state')
    c.ensures('the_rule_is_entered_under_event_and_source__nothing_else_changes', T1 == Store(T0, key, OV.Some(nxt)))
    c.ensures('key_is_a_pair', tkey_axioms(ev, frm))


def is_rule(v):
    """(event, from_states, next_state): event a name; from_states None, a '|' separated string or a sequence of names; next_state None or a name"""
    t = Val.tk(v); frm = tup_item(t, 1); j = Int('j!ir')
    return And(Val.is_T(v), tup_len(t) == 3, Val.is_S(tup_item(t, 0)), Or(tup_item(t, 2) == Val.VNone, Val.is_S(tup_item(t, 2))),
               Or(frm == Val.VNone, Val.is_S(frm), And(Val.is_T(frm), ForAll([j], Implies(And(0 <= j, j < tup_len(Val.tk(frm))), Val.is_S(tup_item(Val.tk(frm), j)))))))


def is_pair(v):
    return And(Val.is_T(v), tup_len(Val.tk(v)) == 2)


first_key = Function('first_key', MSV.sort(), StringSort())      # next(iter(d)) of a non-empty dict: its first key (dicts keep insertion order)


def first_timer(ex, e, st):
    """next(iter(cls.TIMERS)): the first key of the (non-empty) TIMERS mapping"""
    me = as_kind(st.env['cls'], Ref(), st)
    tm = st.readz('TIMERS', me)
    k = Const('k!ft', StringSort())
    ex.oblige('call:next/pre:the_mapping_is_not_empty', st, Exists([k], OV.is_Some(tm[k])), kind='pre')
    st = st.copy(); st.assume(OV.is_Some(tm[first_key(tm)]))
    return [(st, ZV('str', first_key(tm)))]


def methods_loop(ex, s, st, it):
    """`for method_name, method in vars(cls).items()`: collects the cond_/enter_/exit_ methods of the class into _ct_methods (reflection over the
    class dictionary: outside the model).  Only _ct_methods changes; what it then holds is not claimed here (bounded stand-in)."""
    st = st.copy(); st.havoc_field('_ct_methods')
    return [(st, NEXT)]
methods_loop.no_iter = True


# ---- the EVENTS loop: every rule of the definition is in the transition table ---------------------------------------------------------------------
def ev_triple(EV, i):
    """the i-th entry of EVENTS as (event, from_states, next_state)"""
    t = Val.tk(tup_item(Val.tk(EV), i))
    return tup_item(t, 0), tup_item(t, 1), tup_item(t, 2)


def sources(frm):
    """the statement's reading of the from_states item: (is_any, tuple key of the list of names, name at position j)"""
    lk = If(Val.is_S(frm), calls.str_split(Val.s(frm), StringVal('|')), Val.tk(frm))
    return lk, (lambda j: Val.S(calls.str_strip(Val.s(tup_item(lk, j)))))


def rule_entered(T, EV, i, j):
    """rule i of the definition, for its j-th source state (or for any state), is in the table with the target the definition gives"""
    ev, frm, nxt = ev_triple(EV, i)
    lk, name = sources(frm)
    return If(frm == Val.VNone, T[tkey(ev, Val.VNone)] == OV.Some(nxt), Implies(And(0 <= j, j < tup_len(lk)), T[tkey(ev, name(j))] == OV.Some(nxt)))


def inv_events(lc):
    me = as_kind(lc.pre.args['cls'], Ref())
    EV = lc.pre.f('EVENTS', me)
    T, T0 = lc.st.f('_ct_transition', me), lc.entry.f('_ct_transition', me)
    i2, j2 = Int('i!ie'), Int('j!ie')
    k = Const('k!ie', Val)
    s_ = Const('s!ie', StringSort())
    evs = lc.st.f('_ct_events', me)
    out = [('rules_of_the_visited_entries_are_in_the_table', ForAll([i2, j2], Implies(And(0 <= i2, i2 < lc.i), rule_entered(T, EV, i2, j2)))),
           ('events_of_the_visited_entries_are_known', ForAll([i2], Implies(And(0 <= i2, i2 < lc.i), evs[Val.s(ev_triple(EV, i2)[0])]))),
           # quantifier-free instance for the entry just visited, any-state form (decides a refutation: a rule that is skipped or entered differently)
           ('qf:any_state_rule_of_the_entry_just_visited_is_in_the_table',
            Implies(And(lc.i > 0, ev_triple(EV, lc.i - 1)[1] == Val.VNone), T[tkey(ev_triple(EV, lc.i - 1)[0], Val.VNone)] == OV.Some(ev_triple(EV, lc.i - 1)[2]))),
           ('states_unchanged', lc.st.f('_ct_states', me) == lc.entry.f('_ct_states', me)),
           ('other_tables_unchanged', And(*[lc.st.f(f, me) == lc.entry.f(f, me) for f in ('_ct_default_duration', '_ct_timed_event', '_ct_chainlimit', '_ct_default_state')]))]
    return out


def inv_sources(lc):
    """inner loop `for fstate in from_states` of the entry being visited: its first j sources are entered, earlier rules are still there"""
    me = as_kind(lc.pre.args['cls'], Ref())
    st = lc.st.st
    EV = lc.pre.f('EVENTS', me)
    T, T0 = lc.st.f('_ct_transition', me), lc.entry.f('_ct_transition', me)
    ev, nxt = to_val(lc.local('event'), st), to_val(lc.local('next_state'), st)
    j2 = Int('j!is'); k = Const('k!is', Val)
    item = lambda j: Val.S(calls.str_strip(Val.s(asel(lc.arr, j))))
    return [('visited_sources_are_entered', ForAll([j2], Implies(And(0 <= j2, j2 < lc.i), T[tkey(ev, item(j2))] == OV.Some(nxt)))),
            ('earlier_rules_are_kept', ForAll([k], Implies(OV.is_Some(T0[k]), T[k] == T0[k]))),
            ('only_the_table_changes', And(*[lc.st.f(f, me) == lc.entry.f(f, me) for f in ('_ct_states', '_ct_events', '_ct_default_duration', '_ct_timed_event', '_ct_chainlimit', '_ct_default_state')]))]


def inv_check_names(lc):
    me = as_kind(lc.pre.args['cls'], Ref())
    return [('nothing_changes', And(*[lc.st.f(f, me) == lc.entry.f(f, me) for f in ('_ct_states', '_ct_events', '_ct_transition', '_ct_default_duration', '_ct_timed_event')]))]


def inv_timers(lc):
    me = as_kind(lc.pre.args['cls'], Ref())
    tm = lc.pre.f('TIMERS', me)
    s_ = Const('s!it', StringSort())
    te, dd = lc.st.f('_ct_timed_event', me), lc.st.f('_ct_default_duration', me)
    pair = lambda s: Val.tk(OV.v(tm[s]))
    return [('visited_timed_states_have_their_event_and_duration', ForAll([s_], Implies(lc.done[s_], And(te[s_] == OV.Some(tup_item(pair(s_), 1)),
                                                                                                     dd[s_] == OV.Some(fsm.tp_result(tup_item(pair(s_), 0))))))),
            ('other_states_have_none_yet', ForAll([s_], Implies(Not(lc.done[s_]), And(te[s_] == lc.entry.f('_ct_timed_event', me)[s_], dd[s_] == lc.entry.f('_ct_default_duration', me)[s_])))),
            ('transitions_and_events_unchanged', And(*[lc.st.f(f, me) == lc.entry.f(f, me) for f in ('_ct_states', '_ct_events', '_ct_transition', '_ct_chainlimit', '_ct_default_state')]))]


def verify_tables(run):
    run.verify('FSM._build_tables.add_transition', cls='FSM')
    run.verify('FSM._build_tables', cls='FSM',
               calls={'set(cls.STATES).union': all_states, 'next': first_timer, 'utils.time_period': fsm.time_period_call,
                      'for:for (method_name, method) in vars(cls).items()': methods_loop},
               invariants={'for state in cls._ct_states': inv_check_names, 'for (event, from_states, next_state) in cls.EVENTS': inv_events,
                           'for fstate in from_states': inv_sources, 'for (state, (duration, event)) in cls.TIMERS.items()': inv_timers})
