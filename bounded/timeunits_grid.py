#!/venv/bin/python
"""Bounded stand-in for C19 (labelled bounded, never counted as proved): exhaustive grid against the real functions."""
import itertools, json, os, random, sys
sys.path.insert(0, os.environ.get('VERIF_REPO', '/repo'))
from edzed.utils import timeunits as TU
from edzed.utils.timeunits import convert, timestr, timestr_approx, time_period

SEED = int(os.environ.get('VERIF_SEED', '0') or 0)
rnd = random.Random(SEED)
cases, failures = 0, []


def fail(kind, inp, got, want):
    if len(failures) < 8: failures.append(dict(kind=kind, input=repr(inp), got=repr(got), expected=repr(want)))


def expect_raises(kind, fn, arg):
    global cases
    cases += 1
    try:
        r = fn(arg)
    except ValueError:
        return
    except Exception as err:
        fail(kind, arg, type(err).__name__, 'ValueError'); return
    fail(kind, arg, r, 'ValueError')


# 1. integer round trip
ints = set(range(0, 20001))
for base in (60, 3600, 86400):
    k = 0
    while k * base <= 10_000_000:
        for dlt in range(-3, 4):
            if k * base + dlt >= 0: ints.add(k * base + dlt)
        k += 1 if base == 86400 else 37
for n in sorted(ints):
    cases += 1
    s = timestr(n)
    try:
        back = convert(s)
    except Exception as err:
        fail('int round trip', n, repr(err), n); continue
    if back != n: fail('int round trip', n, back, n)
    d, rest = divmod(n, 86400); h, rest = divmod(rest, 3600); m, sec = divmod(rest, 60)
    want = (f'{d}d' if d else '') + (f'{h}h' if d or h else '') + f'{m}m{sec}s'
    if s != want: fail('timestr text', n, s, want)

# 2. float round trip up to the requested precision
for n in sorted(ints)[::53]:
    for j in range(0, 7):
        x = n + rnd.randrange(0, 10 ** j) / 10 ** j
        for prec in (j, 3):
            cases += 1
            s = timestr(float(x), prec=prec)
            try:
                back = convert(s)
            except Exception as err:
                fail('float round trip', (x, prec), repr(err), x); continue
            if abs(back - x) > 0.5 * 10 ** -prec + 1e-9 * max(1.0, x): fail('float round trip', (x, prec), back, x)

# 3. unit arithmetic in both notations
def variants(parts):
    """parts: list of (value_text, unit); traditional and ISO spellings"""
    trad = ''.join(f'{v}{u}' for v, u in parts)
    yield trad
    yield trad.upper()
    yield ' ' + ' '.join(f'{v} {u}' for v, u in parts) + ' '
    d = ''.join(f'{v}D' for v, u in parts if u == 'd')
    t = ''.join(f'{v}{u.upper()}' for v, u in parts if u != 'd')
    yield 'P' + d + ('T' + t if t else '')


SC = dict(d=86400, h=3600, m=60, s=1)
for units in itertools.chain.from_iterable(itertools.combinations('dhms', k) for k in range(1, 5)):
    for rep in range(6):
        vals = [rnd.randrange(0, 100) for _ in units]
        frac = rnd.choice(['', '.5', ',25', '.125'])
        parts = [(str(v) + (frac if i == len(units) - 1 else ''), u) for i, (v, u) in enumerate(zip(vals, units))]
        want = sum((v + (float('0' + frac.replace(',', '.')) if i == len(units) - 1 and frac else 0)) * SC[u] for i, (v, u) in enumerate(zip(vals, units)))
        for text in variants(parts):
            cases += 1
            try:
                got = convert(text)
            except Exception as err:
                fail('unit arithmetic', text, repr(err), want); continue
            if abs(got - want) > 1e-9 * max(1.0, want): fail('unit arithmetic', text, got, want)
        # the same fraction in a larger unit must be rejected
        if len(units) >= 2:
            bad = [(str(v) + ('.5' if i == 0 else ''), u) for i, (v, u) in enumerate(zip(vals, units))]
            for text in variants(bad): expect_raises('fraction in a larger unit', convert, text)

# 4. malformed input
for text in ['', ' ', 'P', 'PT', 'P1Y', 'P1M', 'P1Y2M', '1Y', '1.5h3m', '1,5,2s', '-5s', '+5s', '1e3s', '5x', 's', 'h5', '1h2h', '1m2h', 'PT1M2H',
             '1d2h3m4.5s5', 'T1H', '1 2', '１２s', 'P0.5DT1H', '1.h', '.5s', '1..5s', '1,.5s', 'P1D2H']:
    expect_raises('malformed', convert, text)
for text, want in [('P0Y0M1D', 86400.0), ('P0YT1S', 1.0), ('0', 0.0), ('5', 5.0), ('1m', 60.0), ('P1DT2H3M4.5S', 93784.5), ('1d2h3m4.5s', 93784.5)]:
    cases += 1
    try: got = convert(text)
    except Exception as err: fail('accepted forms', text, repr(err), want); continue
    if got != want: fail('accepted forms', text, got, want)

# 5. time_period
for x, want in [(None, None), (5, 5.0), (-3, 0.0), (2.5, 2.5), (-0.1, 0.0), (True, 1.0), ('1m30s', 90.0)]:
    cases += 1
    got = time_period(x)
    if got != want or (want is not None and not isinstance(got, float)): fail('time_period', x, got, want)
for bad in ([1], (2,), {'a': 1}, b'1s'):
    cases += 1
    try: time_period(bad); fail('time_period type', bad, 'no error', 'TypeError')
    except TypeError: pass

# 6. timestr_approx: documented rounding steps
def parse_approx(s):
    return convert(s) if s else 0.0
for n in sorted(ints)[::7] + [x / 1000 for x in range(0, 70000, 37)] + [10 ** 6 + 0.49, 863999.5, 35999.4999, 35999.5, 59.95, 9.995, 0.9995]:
    cases += 1
    s = timestr_approx(n)
    got = parse_approx(s)
    x = float(n)
    step = 0.001 if got < 1 else 0.01 if got < 10 else 0.1 if got < 60 else 1 if got < 36000 else 60 if got < 864000 else 3600
    if isinstance(n, int) and got < 36000: step = 0
    if abs(got - x) > step / 2 + 1e-9 * max(1.0, x): fail('timestr_approx', n, (s, got), x)

print(json.dumps(dict(cases=cases, failures=failures)))
