"""C08 - every started block is stopped exactly once and nothing outlives the simulation.  DESIGN section 3, C08."""
from pyvc.sorts import *
from pyvc import scan
from specs.common import *
from specs import lifecycle


def build(run):
    lifecycle.verify_run_tasks(run)
    lifecycle.verify_stop_sblocks(run)
    lifecycle.verify_init_async(run)         # the initialisation tasks are handed to _run_tasks as a list it can walk again when it is cancelled
    lifecycle.verify_run_forever(run)
    lifecycle.verify_api(run, helper_task=True)
    run.replayer('Circuit.wait_init/raises:not_running_or_failed/post0', lambda run_, ob, model: open('/verif/specs/replay_c08c.py').read())
    lifecycle.verify_shutdown(run)
    lifecycle.lifecycle_scans(run)
    lifecycle.verify_no_modification(run)
    lifecycle.verify_maintask_addon(run)
    from specs import outputfunc, outputasync
    outputfunc.verify_outputfunc(run)
    outputfunc.verify_outputfunc_stop(run)      # stop_data delivered as the last action of an output block
    outputasync.verify_stop_start(run)
    # 'nothing outlives the simulation': the output tasks an OutputAsync creates are finished (awaited, or cancelled and awaited) when its
    # control task ends -- the three control strategies and the wrapper they start (contracts shared with C12)
    outputasync.verify_wrapper(run)
    outputasync.verify_ctrl_wait(run)
    outputasync.verify_ctrl_start(run)
    outputasync.verify_ctrl_cancel(run)
    run.replayer('Circuit._run_tasks/raises:cancelled_while_waiting/post2', lambda run_, ob, model: open('/verif/specs/replay_c08a.py').read())
    run.unclaim("AddonAsync.__init__ (init_timeout / stop_timeout: given value, else the default; an explicit None means the default) is not under "
                "contract: the timeouts are typed fields (reals) in the model, so 'a block whose stop_timeout is None' cannot be expressed; "
                "_stop_sblocks and _init_sblocks_async take numeric timeouts as given")
