"""C01 - combinational outputs agree with their inputs whenever the circuit is idle.  DESIGN section 3, C01.

Two layers: (1) the simulator loop invariant (specs/simulate.py): idle => every CBlock output == calc(b, outputs);
(2) here: each library block's calc_output computes the documented function of its inputs' outputs (spec functions F_*),
depends only on them (frame) and is idempotent (lemma idem, needed by the loop proof)."""
import z3
from z3 import Real
from pyvc.sorts import *
from pyvc.values import *
from pyvc.state import declare_fields, View
from pyvc.contract import contract, CONTRACTS, Param
from pyvc.engine import Raise
from pyvc import calls, scan
from specs.common import *
from specs import simulate, event_send

declare_fields(inputs=Map(STR, VAL), _in=Ref('InputGetter'), _blk=Ref('CBlock'), _func=VAL, _unpack=VAL, _null=VAL, _low=VAL, _high=VAL)
OutMap = ArraySort(IntSort(), Val)
OV = OptOf(Val)
Qb = 'edzed.block:CBlock.InputGetter.'
Qc = 'edzed.blocklib.cblocks:'

# ---- values of inputs ---------------------------------------------------------------------------------------------------------
mk_group = Function('mk_group', Val, OutMap, IntSort())        # the tuple of the output values of an input group


def group_def(x, out):
    """defining equations of mk_group(x, out): same length as the group, item j = output of the j-th member"""
    j = Int('j!g')
    k = mk_group(x, out)
    return And(tup_len(k) == tup_len(Val.tk(x)), tup_is_tuple(k),
               ForAll([j], Implies(And(0 <= j, j < tup_len(Val.tk(x))), tup_item(k, j) == out[Val.ref(tup_item(Val.tk(x), j))])))


def input_value(x, out):
    """what the InputGetter yields for an input specification x: a group gives the tuple of its members' outputs,
    a single input (block or Const) its output"""
    return If(Val.is_T(x), Val.T(mk_group(x, out)), out[Val.ref(x)])


def resolved_input(x):
    """after Circuit.finalize (C15) an input is a block/Const object, or a tuple of such objects"""
    j = Int('j!r')
    return Or(Val.is_Obj(x), And(Val.is_T(x), tup_is_tuple(Val.tk(x)), tup_len(Val.tk(x)) >= 0,
                                 ForAll([j], Implies(And(0 <= j, j < tup_len(Val.tk(x))), Val.is_Obj(tup_item(Val.tk(x), j))))))


@contract('InputGetter.__getitem__', qual=Qb + '__getitem__', params={'name': STR}, modifies=(), self_cls='InputGetter')
def _ig_getitem(c):
    me, name = c.z('self'), c.z('name')
    blk = c.pre('_blk', me)
    cell = c.pre('inputs', blk)[name]
    x = OV.v(cell)
    out = c.pre_whole('_output')
    c.requires('inputs_are_resolved', Implies(OV.is_Some(cell), resolved_input(x)))
    c.raises('KeyError', when=Not(OV.is_Some(cell)), iff=True, label='no_such_input')
    c.ensures('input_exists', OV.is_Some(cell))
    if c.verifying:
        r = c.rv
        j = Int('j!i')
        c.ensures('single_input_yields_its_output', Implies(Not(Val.is_T(x)), r == out[Val.ref(x)]))
        c.ensures('group_yields_tuple_of_member_outputs', Implies(Val.is_T(x), And(
            Val.is_T(r), tup_is_tuple(Val.tk(r)), tup_len(Val.tk(r)) == tup_len(Val.tk(x)),
            ForAll([j], Implies(And(0 <= j, j < tup_len(Val.tk(x))), tup_item(Val.tk(r), j) == out[Val.ref(tup_item(Val.tk(x), j))])))))
    else:
        c.returns(ZV('val', input_value(x, out)))
        c.ensures('group_definition', Implies(Val.is_T(x), group_def(x, out)))


@contract('InputGetter.__getattr__', qual=Qb + '__getattr__', params={'name': STR}, modifies=(), self_cls='InputGetter')
def _ig_getattr(c):
    me, name = c.z('self'), c.z('name')
    blk = c.pre('_blk', me)
    cell = c.pre('inputs', blk)[name]
    x = OV.v(cell)
    out = c.pre_whole('_output')
    c.requires('inputs_are_resolved', Implies(OV.is_Some(cell), resolved_input(x)))
    c.raises('AttributeError', when=Not(OV.is_Some(cell)), iff=True, label='no_such_input')
    if c.verifying:
        c.ensures('same_as_item_access', c.rv == input_value(x, out))
    else:
        c.returns(ZV('val', input_value(x, out)))
        c.ensures('group_definition', Implies(Val.is_T(x), group_def(x, out)))


# ---- the blocks: spec functions from the statement -----------------------------------------------------------------------------
def unnamed(S, me):
    """the unnamed input group '_' of block me"""
    return OV.v(S.f('inputs', me)[StringVal('_')])


def valid_cblock(S, me):
    """type invariant after start(): the getter belongs to the block, inputs are resolved"""
    k = Const('k!in', StringSort())
    ins = S.f('inputs', me)
    return And(S.f('_blk', S.f('_in', me)) == me, ForAll([k], Implies(OV.is_Some(ins[k]), resolved_input(OV.v(ins[k])))))


def F_not(S, me):
    g = unnamed(S, me)
    return Val.B(Not(truthy(S.whole('_output')[Val.ref(tup_item(Val.tk(g), 0))])))


@contract('Not.calc_output', qual=Qc + 'Not.calc_output', modifies=(), self_cls='Not')
def _not_calc(c):
    me = c.z('self')
    g = c.pre('inputs', me)[StringVal('_')]
    c.requires('valid', valid_cblock(c.S, me))
    c.requires('signature_one_unnamed_input', And(OV.is_Some(g), Val.is_T(OV.v(g)), tup_len(Val.tk(OV.v(g))) == 1))   # check_signature({'_': 1})
    c.ensures('negation_of_its_input', c.rv == F_not(c.S, me))


def F_override(S, me):
    out = S.whole('_output'); ins = S.f('inputs', me)
    ov = out[Val.ref(OV.v(ins[StringVal('override')]))]
    inp = out[Val.ref(OV.v(ins[StringVal('input')]))]
    return If(py_eq(ov, S.f('_null', me)), inp, ov)


@contract('Override.calc_output', qual=Qc + 'Override.calc_output', modifies=(), self_cls='Override')
def _override_calc(c):
    me = c.z('self')
    ins = c.pre('inputs', me)
    c.requires('valid', valid_cblock(c.S, me))
    c.requires('signature_input_and_override_single', And(*[And(OV.is_Some(ins[StringVal(n)]), Val.is_Obj(OV.v(ins[StringVal(n)]))) for n in ('input', 'override')]))
    c.ensures('input_unless_overridden', c.rv == F_override(c.S, me))


def thr_of(S, me):
    low, high, o = S.f('_low', me), S.f('_high', me), S.f('_output', me)
    return If(o == Val.Undef, (num(low) + num(high)) / 2, If(truthy(o), num(low), num(high)))


def F_compare(S, me):
    g = unnamed(S, me)
    x = S.whole('_output')[Val.ref(tup_item(Val.tk(g), 0))]
    return Val.B(num(x) >= thr_of(S, me))


@contract('Compare.calc_output', qual=Qc + 'Compare.calc_output', modifies=(), self_cls='Compare')
def _compare_calc(c):
    me = c.z('self')
    g = c.pre('inputs', me)[StringVal('_')]
    c.requires('valid', valid_cblock(c.S, me))
    c.requires('signature_one_unnamed_input', And(OV.is_Some(g), Val.is_T(OV.v(g)), tup_len(Val.tk(OV.v(g))) == 1))
    x = c.pre_whole('_output')[Val.ref(tup_item(Val.tk(OV.v(g)), 0))]
    c.requires('numeric_thresholds_and_input', And(is_num(c.pre('_low', me)), is_num(c.pre('_high', me)), is_num(x)))
    c.ensures('comparison_with_hysteresis', c.rv == F_compare(c.S, me))


@contract('Compare.__init__', qual=Qc + 'Compare.__init__', modifies=('_low', '_high'), self_cls='Compare')
def _compare_init(c):
    me, low, high = c.z('self'), c.v('low'), c.v('high')
    c.requires('numeric_thresholds', And(is_num(low), is_num(high)))
    c.raises('ValueError', when=num(high) < num(low), iff=True, label='high_below_low_refused')
    c.ensures('thresholds_stored_and_ordered', And(c.post('_low', me) == low, c.post('_high', me) == high, num(low) <= num(high)))


# FuncBlock: func applied to the gathered inputs; `call_pack(pos, kw)` is the argument pack of a call f(*pos, **kw)
def call_pack(pos_tuple_val, kw_dict):
    return Val.T(mkT(2)(pos_tuple_val, Val.D(mkD(kw_dict))))


def named_inputs(S, me):
    """kwargs of the function call: every named input (all but '_') with its value"""
    kq = Const('k!n', StringSort())
    ins = S.f('inputs', me); out = S.whole('_output')
    return z3.Lambda([kq], If(And(OV.is_Some(ins[kq]), kq != StringVal('_')), Opt.Some(input_value(OV.v(ins[kq]), out)), Opt.Absent))


def F_funcblock(S, me):
    ins = S.f('inputs', me); out = S.whole('_output')
    g = ins[StringVal('_')]
    args = If(OV.is_Some(g), input_value(OV.v(g), out), EMPTY_TUPLE)
    pos = If(truthy(S.f('_unpack', me)), args, Val.T(mkT(1)(args)))
    return app(S.f('_func', me), call_pack(pos, named_inputs(S, me)))


EMPTY_TUPLE = Val.T(IntVal(-1))


@contract('FuncBlock.calc_output', qual=Qc + 'FuncBlock.calc_output', modifies=(), self_cls='FuncBlock')
def _func_calc(c):
    me = c.z('self')
    c.requires('valid', valid_cblock(c.S, me))
    g = c.pre('inputs', me)[StringVal('_')]
    c.requires('unnamed_inputs_form_a_group', Implies(OV.is_Some(g), Val.is_T(OV.v(g))))     # connect(): inputs['_'] = args (a tuple)
    c.raises('OtherException', when=app_raises(c.pre('_func', me), Const('anyarg', Val)) if False else None, label='user_function_raised')
    c.ensures('function_of_the_inputs', c.rv == F_funcblock(c.S, me))


def func_call(ex, st, f, pos, named, stars, sargs, node):
    """`self._func(*args, **kwargs)` / `self._func(args, **kwargs)`: result = app(func, call_pack(positional tuple, kwargs))"""
    fv = to_val(f, st)
    if sargs: posv = to_val(sargs[0], st)
    else: posv = to_val(PTuple(list(pos)), st)
    kw = ex.as_dict(st, stars[0]) if stars else EMPTY_DICT
    a = call_pack(posv, kw)
    outs = []
    ok = st.copy(); ok.assume(Not(app_raises(fv, a)))
    outs.append((ok, ZV('val', app(fv, a))))
    bad = st.copy(); bad.assume(app_raises(fv, a)); bad.label('func:raises')
    if ex.feasible(bad): outs.append((bad, Raise(PExc('OtherException', val=Val.Obj(fresh('exc', IntSort())), where='callee'))))
    return outs


XOR_PARITY = Val.Opq(IntVal(-203))       # the closure `lambda inputs: bool(sum(1 for v in inputs if v) % 2)` created by Xor.__init__


@contract('Xor.parity', qual=Qc + 'Xor.__init__.<lambda#0>', modifies=())
def _xor_lambda(c):
    x = c.v('inputs')
    c.requires('a_sequence', Val.is_T(x))
    arr, n = seq_of(ZV('val', x))
    c.ensures('true_iff_an_odd_number_of_inputs_is_true', c.rv == Val.B(seq_count_truthy(arr, n) % 2 == 1))


@contract('FuncBlock.__init__', qual=Qc + 'FuncBlock.__init__', modifies=('_func', '_unpack'), self_cls='FuncBlock')
def _fb_init(c):
    me = c.z('self')
    c.ensures('function_and_unpack_flag_stored', And(c.post('_func', me) == c.v('func'), c.post('_unpack', me) == c.v('unpack')))


def _gate_init(func_val, label):
    def body(c):
        if c.verifying:
            c.expect_trace(lambda k, r, st: And(k == 0, Rec.fn(r) == StringVal('super().__init__'),
                                                Rec.kw(r)[StringVal('func')] == Opt.Some(func_val),
                                                Rec.kw(r)[StringVal('unpack')] == Opt.Some(B_(False))), 1, predicate=True)
    return body


contract('And.__init__', qual=Qc + 'And.__init__', modifies=(), self_cls='And')(_gate_init(BUILTIN_ALL, 'all'))
contract('Or.__init__', qual=Qc + 'Or.__init__', modifies=(), self_cls='Or')(_gate_init(BUILTIN_ANY, 'any'))
contract('Xor.__init__', qual=Qc + 'Xor.__init__', modifies=(), self_cls='Xor')(_gate_init(XOR_PARITY, 'parity'))


def super_init_kw(ex, e, st):
    """super().__init__(*args, func=..., unpack=..., **kwargs): recorded with its func/unpack keyword values"""
    kw = {k.arg: k.value for k in e.keywords if k.arg}
    outs = []
    for s1, vals in ex.evs([kw['func'], kw['unpack']], st):
        f = vals[0]
        fv = XOR_PARITY if isinstance(f, PClosure) else to_val(f, s1)
        s1 = s1.copy(); ex.emit(s1, rec('super().__init__', kw=dict_of(func=fv, unpack=to_val(vals[1], s1))))
        outs.append((s1, P_NONE))
    return outs


def build(run):
    import edzed
    from edzed.blocklib import cblocks
    simulate.verify_simulate(run)
    run.verify('SBlock.set_output', cls='SBlock', invariants=SET_OUTPUT_INVARIANTS)     # a changed sequential block is queued on every exit edge
    run.verify('InputGetter.__getitem__', cls='InputGetter')
    run.verify('InputGetter.__getattr__', cls='InputGetter')
    run.verify('Not.calc_output', cls='Not')
    run.verify('Override.calc_output', cls='Override')
    run.verify('Compare.__init__', cls='Compare', calls={'super().__init__': lambda ex, e, st: [(st, P_NONE)]})
    run.verify('Compare.calc_output', cls='Compare')
    run.verify('FuncBlock.calc_output', cls='FuncBlock', calls={'*value*': func_call})
    run.verify('FuncBlock.__init__', cls='FuncBlock', calls={'super().__init__': lambda ex, e, st: [(st, P_NONE)]})
    for g in ('And', 'Or', 'Xor'):
        run.verify(f'{g}.__init__', cls=g, calls={'super().__init__': super_init_kw})
    run.verify('Xor.parity')

    # ---- lemma idem for Compare (real arithmetic, uses low <= high established by __init__) --------------------------------------
    low, high, x, o = Real('low'), Real('high'), Real('x'), Const('o', Val)
    thr = lambda ov: If(ov == Val.Undef, (low + high) / 2, If(truthy(ov), low, high))
    F = lambda ov: Val.B(x >= thr(ov))
    run.lemma('idem/Compare', [low <= high], F(o) == F(F(o)))
    run.lemma('hysteresis/Compare_switches_on_at_high_and_off_below_low',
              [low <= high], And(Implies(And(o == B_(False), x >= high), F(o) == B_(True)), Implies(And(o == B_(True), x < low), F(o) == B_(False)),
                                 Implies(And(o == B_(True), x >= low), F(o) == B_(True)), Implies(And(o == B_(False), x < high), F(o) == B_(False))))
    # ---- scans --------------------------------------------------------------------------------------------------------------------
    for cls in ('Not', 'Override', 'FuncBlock'):
        reads = _reads_attr(getattr(cblocks, cls), 'calc_output', '_output')
        run.scan(f'calc_output_does_not_read_own_output:{cls}', not reads, f'{cls}.calc_output does not read self._output (idem is then reflexivity of ==)')
    run.scan('queue_consumers', scan.method_callers('get_nowait') and all(x.split(':')[1] in ('Circuit._simulate', 'Circuit._init_sblocks_sync_2', 'OutputAsync._ctrl_cancel')
                                    for x in scan.method_callers('get_nowait')),
             f'queues are emptied only by: {scan.method_callers("get_nowait")}')
    run.bounded_native('small_circuits_through_the_real_simulator', 'sim_search.py',
                       'all DAGs over <= 2 blocks and a sample (~400) of the DAGs over 3 blocks (ops not/and/or/xor, 2 inputs, _not_ shortcut), '
                       '2 change sequences each incl. double changes, one CBlock-sends-event variant')
    run.assume('wired(circuit) (C15); FuncBlock func is a deterministic function of its arguments; == is reflexive on computed outputs (no NaN-like values); '
               'user subclasses of CBlock satisfy idem; Compare compares numbers (real-arith)')
    run.trust("built-ins all()/any() as FuncBlock functions: app(all, pack((x,), {})) is 'every item of x is true', app(any, ...) 'some item is true'; "
              "the closure created by Xor.__init__ behaves as its verified lambda (contract Xor.parity)")


def _reads_attr(cls, method, attr):
    import ast, inspect, textwrap
    tree = ast.parse(textwrap.dedent(inspect.getsource(getattr(cls, method))))
    return any(isinstance(n, ast.Attribute) and n.attr == attr for n in ast.walk(tree))
