"""C16 - event filters form an ordered pipeline that can edit or veto an event.  DESIGN section 3, C16.

Event data is a finite map d : str -> Val (array of options).  The postconditions are the dictionary algebra
the statement names; `(+)` is right-biased union."""
import z3
from pyvc.sorts import *
from pyvc.values import *
from pyvc.state import declare_fields, View
from pyvc.contract import contract, CONTRACTS
from pyvc.engine import Raise, SentinelStub
from pyvc import loops
from specs.common import *
from specs import event_send

declare_fields(_rise=BOOL, _fall=BOOL, _urise=BOOL, _ufall=BOOL, _delta=VAL, _last=VAL, _ctrl_blk=VAL,
               _editlist=Seq('val'), block=VAL)
Q = 'edzed.blocklib.filters:'
kq = Const('kq', StringSort())


def dget_or(d, key, default):
    cell = d[StringVal(key)]
    return If(Opt.is_Some(cell), Opt.v(cell), default)


def is_dict_result(c, expected):
    """the result is a mapping with exactly the content `expected` (an array, or a python function key -> Opt cell);
    stated pointwise so that a refutation only needs one witness key"""
    exp = expected(kq) if callable(expected) else expected[kq]
    if isinstance(c.result, PDict):         # statically a dict: compare its content directly
        return ForAll([kq], c.result.arr[kq] == exp)
    got = dict_c(Val.dk(c.rv))
    return And(Val.is_D(c.rv), ForAll([kq], got[kq] == exp))


# ------------------------------------------------------------------------------------------ not_from_undef
@contract('not_from_undef', qual=Q + 'not_from_undef', params={'data': DICT}, modifies=())
def _nfu(c):
    d = c.z('data')
    c.ensures('drops_only_change_from_undef', c.rv == Val.B(dget_or(d, 'previous', Val.Undef) != Val.Undef))


# ------------------------------------------------------------------------------------------ Edge
@contract('Edge.__init__', qual=Q + 'Edge.__init__', modifies=('_rise', '_fall', '_urise', '_ufall'), self_cls='Edge')
def _edge_init(c):
    me = c.z('self')
    rise, fall, u_rise, u_fall = c.v('rise'), c.v('fall'), c.v('u_rise'), c.v('u_fall')
    c.ensures('rise', c.post('_rise', me) == truthy(rise))
    c.ensures('fall', c.post('_fall', me) == truthy(fall))
    c.ensures('u_rise_defaults_to_rise', c.post('_urise', me) == If(u_rise == Val.VNone, truthy(rise), truthy(u_rise)))
    c.ensures('u_fall', c.post('_ufall', me) == truthy(u_fall))


@contract('Edge.__call__', qual=Q + 'Edge.__call__', params={'data': DICT}, modifies=(), self_cls='Edge')
def _edge_call(c):
    me, d = c.z('self'), c.z('data')
    pc, vc = d[StringVal('previous')], d[StringVal('value')]
    c.requires('output_event_data', And(Opt.is_Some(pc), Opt.is_Some(vc)))
    p, v = Opt.v(pc), Opt.v(vc)
    rise, fall, urise, ufall = (c.pre(f, me) for f in ('_rise', '_fall', '_urise', '_ufall'))
    # the statement: exactly the enabled rising, falling and from-UNDEF transitions pass
    passes = If(p == Val.Undef,
                If(truthy(v), urise, ufall),
                Or(And(truthy(v), Not(truthy(p)), rise), And(Not(truthy(v)), truthy(p), fall)))
    c.ensures('passes_exactly_enabled_transitions', c.rv == Val.B(passes))


# ------------------------------------------------------------------------------------------ Delta
def sp_absdiff_ge(a, b, delta):
    """abs(a - b) >= delta on numbers"""
    x = num(a) - num(b)
    return If(x < 0, -x, x) >= num(delta)


@contract('Delta.__init__', qual=Q + 'Delta.__init__', modifies=('_delta', '_last'), self_cls='Delta')
def _delta_init(c):
    me = c.z('self')
    c.ensures('delta', c.post('_delta', me) == c.v('delta'))
    c.ensures('nothing_passed_yet', c.post('_last', me) == Val.Undef)


@contract('Delta.__call__', qual=Q + 'Delta.__call__', params={'data': DICT}, modifies=('_last',), self_cls='Delta')
def _delta_call(c):
    me, d = c.z('self'), c.z('data')
    vc = d[StringVal('value')]
    last, delta = c.pre('_last', me), c.pre('_delta', me)
    c.requires('value_present', Opt.is_Some(vc))
    v = Opt.v(vc)
    c.requires('numeric', And(is_num(v), is_num(delta), Or(last == Val.Undef, is_num(last))))
    passes = Or(last == Val.Undef, sp_absdiff_ge(last, v, delta))
    c.ensures('passes_iff_differs_from_last_passed', c.rv == Val.B(passes))
    c.ensures('last_is_last_passed_value', c.post('_last', me) == If(passes, v, last))
    c.ensures('invariant', Or(c.post('_last', me) == Val.Undef, is_num(c.post('_last', me))))


# ------------------------------------------------------------------------------------------ IfOutput / IfNotIitialized
def _resolved_block(ex, st, v, cls):
    """hook for `isinstance(self._ctrl_blk, block.Block)`: names are resolved to blocks by Circuit finalisation (C15)"""
    return None


@contract('IfOutput.__call__', qual=Q + 'IfOutput.__call__', params={'data': DICT}, modifies=(), self_cls='IfOutput')
def _ifoutput(c):
    me, d = c.z('self'), c.z('data')
    ctrl = c.pre('_ctrl_blk', me)
    c.requires('name_resolved', And(Val.is_Obj(ctrl), calls.inst_of(Val.ref(ctrl), calls.C_class('Block'))))
    out = c.pre('_output', Val.ref(ctrl))
    c.ensures('follows_control_output', If(truthy(out), is_dict_result(c, d), c.rv == Val.VNone))


@contract('IfNotIitialized.__call__', qual=Q + 'IfNotIitialized.__call__', params={'data': DICT}, modifies=(), self_cls='IfNotIitialized')
def _ifnotinit(c):
    me, d = c.z('self'), c.z('data')
    ctrl = c.pre('_ctrl_blk', me)
    c.requires('name_resolved', And(Val.is_Obj(ctrl), calls.inst_of(Val.ref(ctrl), calls.C_class('SBlock'))))
    out = c.pre('_output', Val.ref(ctrl))
    c.ensures('follows_initialisation_state', If(out != Val.Undef, c.rv == Val.VNone, is_dict_result(c, d)))


# ------------------------------------------------------------------------------------------ DataEdit closures
def str_keys(c, *names):
    return And(*[Val.is_S(c.v(n)) for n in names])


@contract('DataEdit.add.<lambda>', qual=Q + 'DataEdit.add.<lambda#0>', params={'data': DICT}, closure={'kwargs': DICT}, modifies=())
def _de_add(c):
    d, k = c.z('data'), as_kind(c.arg('kwargs'), DICT)
    c.ensures('d_plus_k', is_dict_result(c, lambda q: If(Opt.is_Some(k[q]), k[q], d[q])))


@contract('DataEdit.setdefault.<lambda>', qual=Q + 'DataEdit.setdefault.<lambda#0>', params={'data': DICT}, closure={'kwargs': DICT}, modifies=())
def _de_setdefault(c):
    d, k = c.z('data'), as_kind(c.arg('kwargs'), DICT)
    c.ensures('k_plus_d', is_dict_result(c, lambda q: If(Opt.is_Some(d[q]), d[q], k[q])))


@contract('DataEdit.add_output.<lambda>', qual=Q + 'DataEdit.add_output.<lambda#0>', params={'data': DICT},
          closure={'key': VAL, 'src': Ref('Namespace')}, modifies=())
def _de_add_output(c):
    d, key, src = c.z('data'), c.v('key'), as_kind(c.arg('src'), Ref())
    blk = c.pre('block', src)
    c.requires('key_is_str', Val.is_S(key))
    c.requires('name_resolved', Val.is_Obj(blk))
    c.ensures('d_with_key_output', is_dict_result(c, Store(d, Val.s(key), Opt.Some(c.pre('_output', Val.ref(blk))))))


@contract('DataEdit.copy._edit', qual=Q + 'DataEdit.copy.<locals>._edit', params={'data': DICT}, closure={'src': VAL, 'dst': VAL}, modifies=())
def _de_copy(c):
    d, s, t = c.z('data'), c.v('src'), c.v('dst')
    c.requires('keys_are_str', And(Val.is_S(s), Val.is_S(t)))
    cell = d[Val.s(s)]
    c.raises('KeyError', when=Not(Opt.is_Some(cell)), iff=True, label='missing_source_key')
    c.ensures('d_with_dst_eq_src', is_dict_result(c, Store(d, Val.s(t), cell)))


@contract('DataEdit.rename._edit', qual=Q + 'DataEdit.rename.<locals>._edit', params={'data': DICT}, closure={'src': VAL, 'dst': VAL}, modifies=())
def _de_rename(c):
    d, s, t = c.z('data'), c.v('src'), c.v('dst')
    c.requires('keys_are_str', And(Val.is_S(s), Val.is_S(t)))
    cell = d[Val.s(s)]
    c.raises('KeyError', when=Not(Opt.is_Some(cell)), iff=True, label='missing_source_key')
    # (d \ s)[t -> d(s)]: the value moves from key s to key t; renaming a key to itself changes nothing
    c.ensures('d_minus_src_with_dst', is_dict_result(c, Store(Store(d, Val.s(s), Opt.Absent), Val.s(t), cell)))


def _args_are_strings(c):
    arr, n = seq_of(c.arg('args'))
    j = Int('j!a')
    return ForAll([j], Implies(And(0 <= j, j < n), Val.is_S(arr[j])))


def in_args(c, k):
    """key k is one of `args` (membership as defined by sorts.seq_has)"""
    arr, n = seq_of(c.arg('args'))
    return seq_has(arr, n, Val.S(k))


@contract('DataEdit.delete._edit', qual=Q + 'DataEdit.delete.<locals>._edit', params={'data': DICT}, closure={'args': Seq()}, modifies=())
def _de_delete(c):
    d = c.z('data')
    c.requires('keys_are_str', _args_are_strings(c))
    c.ensures('d_minus_keys', is_dict_result(c, lambda q: If(in_args(c, q), Opt.Absent, d[q])))


def inv_delete(lc):
    d0 = lc.pre.args['data'].arr
    d = lc.local('data').arr
    arr, i = lc.arr, lc.i
    return [('prefix_removed', ForAll([kq], d[kq] == If(seq_has(arr, i, Val.S(kq)), Opt.Absent, d0[kq]))),
            ('assume:seq_has_definition@i', And(ForAll([kq], seq_has_base(arr, Val.S(kq))), ForAll([kq], seq_has_step(arr, i, Val.S(kq)))))]


@contract('DataEdit.permit._edit', qual=Q + 'DataEdit.permit.<locals>._edit', params={'data': DICT}, closure={'args': Seq()}, modifies=())
def _de_permit(c):
    d = c.z('data')
    c.requires('keys_are_str', _args_are_strings(c))
    c.ensures('d_restricted_to_keys', is_dict_result(c, lambda q: If(in_args(c, q), d[q], Opt.Absent)))


def inv_permit(lc):
    d0 = lc.pre.args['data'].arr
    d = lc.local('data').arr
    arr, n = seq_of(lc.pre.args['args'])
    isin = seq_has(arr, n, Val.S(kq))
    return [('visited_keys_filtered', ForAll([kq], d[kq] == If(And(lc.done[kq], Not(isin)), Opt.Absent, d0[kq])))]


REJECT, DELETE = Val.Opq(IntVal(-101)), Val.Opq(IntVal(-102))


def sentinel_hooks():
    return {'REJECT': lambda ex, st, o: [(st, PConst(SentinelStub('REJECT', REJECT)))],
            'DELETE': lambda ex, st, o: [(st, PConst(SentinelStub('DELETE', DELETE)))]}


@contract('DataEdit.modify._edit', qual=Q + 'DataEdit.modify.<locals>._edit', params={'data': DICT},
          closure={'key': VAL, 'func': VAL, 'self': Ref('DataEdit')}, modifies=())
def _de_modify(c):
    d, key, func = c.z('data'), c.v('key'), c.v('func')
    c.requires('key_is_str', Val.is_S(key))
    cell = d[Val.s(key)]
    c.raises('KeyError', when=Not(Opt.is_Some(cell)), iff=True, label='missing_key')
    cur = Opt.v(cell)
    c.raises('OtherException', when=And(Opt.is_Some(cell), app_raises(func, cur)), iff=True, label='func_raised')
    r = app(func, cur)
    c.ensures('reject_delete_or_replace',
              If(r == REJECT, c.rv == Val.VNone,
                 If(r == DELETE, is_dict_result(c, Store(d, Val.s(key), Opt.Absent)),
                    is_dict_result(c, Store(d, Val.s(key), Opt.Some(r))))))


# ------------------------------------------------------------------------------------------ DataEdit.__call__: chains
# dfold(F, d0, i): the data after the first i edit functions, a non-mapping result being absorbing
dfold = Function('dfold', SeqArr, Val, IntSort(), Val)


def dfold_step(F, d0, i):
    cur = dfold(F, d0, i)
    return dfold(F, d0, i + 1) == If(Val.is_D(cur), app(F[i], cur), cur)


@contract('DataEdit.__call__', qual=Q + 'DataEdit.__call__', params={'data': DICT}, modifies=(), self_cls='DataEdit')
def _de_call(c):
    me = c.z('self')
    F, n = c.pre('_editlist', me)
    d0 = c.v('data')
    c.requires('fold_definition_base', dfold(F, d0, 0) == d0)
    c.ensures('left_fold_of_the_edit_list', c.rv == dfold(F, d0, n))


def inv_de_call(lc):
    me = as_kind(lc.pre.args['self'], Ref())
    F, n = lc.pre.f('_editlist', me)
    d0 = to_val(lc.pre.args['data'], lc.pre.st)
    cur = to_val(lc.local('data'), lc.st.st)
    i = lc.i
    return [('data_is_fold_of_prefix', And(cur == dfold(F, d0, i), Val.is_D(cur))),
            # instances at the current index of: the definition of the fold, "edit functions do not raise" (assumption),
            # and the lemma `chain_absorbing` (proved below by induction)
            ('assume:fold_definition@i', Implies(i < n, dfold_step(F, d0, i))),
            ('assume:edit_function_total@i', Implies(i < n, Not(app_raises(F[i], dfold(F, d0, i))))),
            ('assume:absorbing@i+1', Implies(And(i < n, Not(Val.is_D(dfold(F, d0, i + 1)))), dfold(F, d0, n) == dfold(F, d0, i + 1)))]


@contract('DataEdit.add', qual=Q + 'DataEdit.add', modifies=('_editlist',), self_cls='DataEdit')
def _de_add_method(c):
    _appends_one(c)


def _appends_one(c):
    me = c.z('self')
    F0, n0 = c.pre('_editlist', me)
    F1, n1 = c.post('_editlist', me)
    j = Int('j!f')
    c.ensures('appends_exactly_one_edit', And(n1 == n0 + 1, ForAll([j], Implies(And(0 <= j, j < n0), F1[j] == F0[j]))))
    c.ensures('returns_the_instance', c.rv == Val.Obj(me))


for _m in ('add_output', 'copy', 'delete', 'modify', 'permit', 'rename', 'setdefault'):
    contract(f'DataEdit.{_m}', qual=Q + f'DataEdit.{_m}', modifies=('_editlist', 'block'), self_cls='DataEdit')(_appends_one)


def opaque(name, result=P_NONE):
    def h(ex, e, st):
        st = st.copy(); st.emit(rec(name)); return [(st, result() if callable(result) else result)]
    return h


def build(run):
    from edzed.blocklib import filters
    UC = {'*value*': user_call}
    for key in ('not_from_undef', 'Edge.__init__', 'Edge.__call__', 'Delta.__init__', 'Delta.__call__'):
        run.verify(key)
    run.verify('Block.is_initialized', cls='SBlock')
    run.verify('IfOutput.__call__')
    run.verify('IfNotIitialized.__call__')
    for key in ('DataEdit.add.<lambda>', 'DataEdit.setdefault.<lambda>', 'DataEdit.add_output.<lambda>', 'DataEdit.copy._edit',
                'DataEdit.rename._edit'):
        run.verify(key)
    run.verify('DataEdit.delete._edit', invariants={'for key in args': inv_delete})
    run.verify('DataEdit.permit._edit', invariants={'for key in list(data)': inv_permit})
    run.verify('DataEdit.modify._edit', calls=UC, hooks={'attr': sentinel_hooks()})
    run.verify('DataEdit.__call__', calls=UC, invariants={'for func in self._editlist': inv_de_call})
    ns = lambda: ZV('ref', fresh('ns', IntSort()), 'Namespace')
    for m in ('add', 'add_output', 'copy', 'delete', 'modify', 'permit', 'rename', 'setdefault'):
        run.verify(f'DataEdit.{m}', calls={'types.SimpleNamespace': _mk_namespace,
                                           'simulator.get_circuit().resolve_name': opaque('resolve_name')})
    event_send.verify_send(run)

    # ---- lemma `absorbing`, by induction on j (two solver obligations over the fold definition) ---------------
    F, d0 = Const('F', SeqArr), Const('d0', Val)
    i, j = Int('i'), Int('j')
    P = lambda jj: dfold(F, d0, jj) == dfold(F, d0, i)
    run.lemma('chain_absorbing/base', [Not(Val.is_D(dfold(F, d0, i)))], P(i))
    run.lemma('chain_absorbing/step', [Not(Val.is_D(dfold(F, d0, i))), i <= j, P(j), dfold_step(F, d0, j)], P(j + 1))
    # chain = composition: e1.e2 applied to d is e2(e1(d)) when e1(d) is a mapping, e1(d) otherwise
    run.lemma('chain_is_left_to_right_composition',
              [dfold(F, d0, 0) == d0, dfold_step(F, d0, 0), dfold_step(F, d0, 1), Val.is_D(d0)],
              dfold(F, d0, 2) == If(Val.is_D(app(F[0], d0)), app(F[1], app(F[0], d0)), app(F[0], d0)))

    # ---- scans -------------------------------------------------------------------------------------------------
    run.scan('dualmethod_class_access_creates_instance', _dual_ok(filters),
             '_dualmethod.__get__(None, cls) binds the method to a fresh cls() instance; instance access binds to that instance')
    d = vars(filters.DataEdit)
    run.scan('sentinels_distinct', d['DELETE'] is not d['REJECT'] and d['DELETE'] is not None and d['REJECT'] is not None,
             'DataEdit.DELETE and DataEdit.REJECT are distinct sentinel objects')
    run.unclaim("the docs call the filter NotIfInitialized; the code exports IfNotIitialized (documentation mismatch, not a behavioural obligation)")
    run.assume('edit functions / modify callbacks / filters are deterministic functions of their argument')
    run.assume('filter control blocks given by name are resolved before use (C15)')
    run.assume('real-arith: Delta compares floats as reals')
    run.replayer('DataEdit.rename', replay_rename)


def _mk_namespace(ex, e, st):
    outs = []
    kw = {k.arg: k.value for k in e.keywords}
    for s1, v in ex.ev(kw['block'], st):
        s1 = s1.copy(); r = fresh('ns', IntSort()); s1.write('block', r, v)
        outs.append((s1, ZV('ref', r, 'Namespace')))
    return outs


def _dual_ok(filters):
    try:
        a = filters.DataEdit.add(x=1); b = filters.DataEdit.add(x=2)
        c = a.add(y=3)
        return isinstance(a, filters.DataEdit) and a is not b and c is a and len(a._editlist) == 2 and len(b._editlist) == 1
    except Exception:
        return False


def replay_rename(run, ob, model):
    return r'''
import sys, edzed
f = edzed.DataEdit.rename('a', 'a')
d = f({'a': 1, 'b': 2})
print("rename('a','a') applied to {'a': 1, 'b': 2} ->", d)
sys.exit(0 if d == {'a': 1, 'b': 2} else 1)
'''
