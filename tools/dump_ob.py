#!/usr/bin/env python3-vt
"""dev tool: write the SMT-LIB query of the obligations whose name contains a text: tools/dump_ob.py Cnn <contract key> <text> <outfile-prefix>"""
import sys, importlib, signal
import os; sys.path.insert(0, '/verif'); sys.path.insert(0, os.environ.get('VERIF_REPO', '/repo'))
from pyvc import main, solve
prop, key, text, out = sys.argv[1:5]
m = importlib.import_module(f'specs.{prop.lower()}')
class R(main.Run):
    def verify(self, k, **kw):
        kk = kw.get('label') or (k if isinstance(k, str) else k.key)
        if kk != key: return []
        return super().verify(k, **kw)
    def bounded_native(self, *a, **k): pass
run = R(prop, 'quick', 0); signal.alarm(900); m.build(run)
n = 0
for o in run.obligations:
    if text in o.name and o.kind != 'canary':
        open(f'{out}{n}.smt2', 'w').write(solve.to_smt2(o.hyps, o.goal) if hasattr(o, 'hyps') else solve.to_smt2(o.pc, o.goal)); n += 1
        print(o.name, o.labels[-5:])
print(n, 'written')
