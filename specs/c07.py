"""C07 - TimeDate and TimeSpan outputs follow the wall clock.  DESIGN section 3, C07."""
from pyvc.sorts import *
from pyvc import scan
from specs.common import *
from specs import timedate


def build(run):
    timedate.verify_recalc(run)
    timedate.verify_flag(run)
    timedate.verify_cron_registration(run)
    timedate.verify_reconfig(run)
    timedate.verify_ts_reconfig(run)
    timedate.verify_maintask(run)
    timedate.verify_range_endpoints(run)
    # 'True exactly when the current time of day and date match': recalc() asks the interval objects; their membership test and the
    # comparison functions behind it are verified here too (contracts shared with C13)
    from specs import c13
    H = {'order': c13.order_hook}
    run.verify('_Interval._cmp_open', hooks=H)
    run.verify('_Interval._cmp_closed', hooks=H)
    run.verify('DateTimeInterval._cmp_open', hooks=H)
    for k in ('TimeInterval', 'DateInterval', 'DateTimeInterval'):
        run.verify(f'{k}._cmp', cls=k, label=f'{k}._cmp', hooks=H)
        run.verify(f'{k}.__contains__', cls=k, label=f'{k}.__contains__', hooks=H)
    run.replayer('Cron._maintask/call:set.union/pre:at_least_one_set_is_given', lambda run_, ob, model: open('/verif/specs/replay_c07a.py').read())
    run.replayer('Cron._maintask/trace:sleeps_only_while_the_wakeup_time_is_ahead_and_never_beyond_it', lambda run_, ob, model: open('/verif/specs/replay_c07b.py').read())

    # ---- lemmas -----------------------------------------------------------------------------------------------------------------------------
    import z3
    from specs.timedate import cyc, DAY
    d = z3.Real('d')
    run.lemma('clock_arithmetic/short_way_round_is_within_half_a_day', [d > -DAY, d < DAY], And(cyc(d) > -DAY / 2, cyc(d) <= DAY / 2))
    run.lemma('clock_arithmetic/short_way_round_keeps_small_differences', [d >= -3600, d <= 3600], cyc(d) == d)
    run.lemma('clock_arithmetic/just_after_midnight_an_alarm_in_hour_23_has_just_passed', [d > DAY - 3600, d < DAY], And(cyc(d) < 0, cyc(d) > -3600))
    # ---- scans ------------------------------------------------------------------------------------------------------------------------------
    import ast
    for file, tree in scan.trees().items():
        if not file.endswith('blocklib/cron.py'): continue
        for n in ast.walk(tree):
            if isinstance(n, ast.AsyncFunctionDef) and n.name == '_maintask':
                ok = True
                for x in ast.walk(n):
                    if isinstance(x, ast.If) and ast.unparse(x.test) == 'self.debug':
                        for stmt in x.body:
                            ok &= isinstance(stmt, ast.Expr) and isinstance(stmt.value, ast.Call) and ast.unparse(stmt.value.func).startswith('self.log_')
                run.scan('debug_branches_only_log', ok, 'every `if self.debug:` body in Cron._maintask consists of log calls only (they are executed as if debug were off)')
    w = scan.attr_writers('_alarms')
    run.scan('writers_of__alarms', w == ['edzed/blocklib/cron.py:Cron.__init__'], f'{w}')
    m = scan.container_mutators('_alarms')
    run.scan('alarm_table_mutators', m == ['edzed/blocklib/cron.py:Cron.add_block', 'edzed/blocklib/cron.py:Cron.remove_block'], f'{m}')
    callers = scan.method_callers('recalc')
    run.scan('recalc_callers', callers == ['edzed/blocklib/cron.py:Cron._maintask', 'edzed/blocklib/timedate.py:TimeDate._event_reconfig',
                                           'edzed/blocklib/timedate.py:TimeSpan._event_reconfig'], f'{callers}')
    from edzed.blocklib import timedate as TD
    run.scan('handlers_registered', TD.TimeDate._ct_handlers.get('reconfig') is vars(TD.TimeDate).get('_event_reconfig')
             and TD.TimeSpan._ct_handlers.get('reconfig') is vars(TD.TimeSpan).get('_event_reconfig')
             and TD.TimeDate.init_from_value is not None and TD.TimeDate._restore_state is TD.TimeDate.init_from_value,
             "the 'reconfig' handlers are the verified functions; _restore_state is init_from_value (which calls _event_reconfig)")
    run.unclaim("'at every moment ... the output is True exactly when ...' as one whole-history theorem: it is the composition of the contracts here "
                "(recalc computes the statement's predicate; every reconfiguration registers all boundaries and midnight, reloads the scheduler and "
                "recalculates at once; the scheduler recalculates the blocks of a time within 2.5 s after it, never sleeps past it, and after "
                "a clock problem recalculates everything), plus timing accuracy in the millisecond range, which depends on the event loop and the OS")
    run.unclaim('the hourly wake-ups as a bound on how long a wrong output can persist after a forward jump (<= 1 h): stated, follows from the sleep '
                'obligation and the timetable containing every full hour; DST detection message; Cron.dtnow/start/init_regular (two-line functions)')
    run.assume('the clock reads are arbitrary (the system clock may be stepped at any time); time-of-day arithmetic over the reals')
    run.trust('datetime (naive values, attribute ranges, ordering: C13), bisect.bisect_left and sorted by their textbook contracts, asyncio.wait_for/sleep, '
              'interval parsing (C13: _parse3, DateTimeInterval) behind interface contracts')
