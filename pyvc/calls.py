"""Call sites: dispatch, Python's argument binding rules (incl. the implicit TypeErrors raised *at the
call*), application of callee contracts, built-in functions and container methods."""
import ast
import builtins as _bi
import z3
from .sorts import *
from .values import *
from .state import *
from .engine import Raise, NEXT, _is_log_call, PyObjStub, SentinelStub
from . import contract as C

BUILTIN_HANDLERS = {}      # real python object (by id) -> handler(ex, st, pos, named, node) -> [(st, PV|Raise)]
METHOD_HANDLERS = {}       # (wrapper class, method name) -> handler(ex, st, recv, pos, named, node, recv_node)
BY_OBJECT = {}             # id(real function object) -> Contract


def builtin(obj):
    def deco(fn): BUILTIN_HANDLERS[id(obj)] = fn; return fn
    return deco


def method(cls, name):
    def deco(fn): METHOD_HANDLERS[(cls, name)] = fn; return fn
    return deco


def register_object(obj, contract):
    BY_OBJECT[id(getattr(obj, '__func__', obj))] = contract


# =========================================================================================== dispatch
def ev_call(ex, e, st):
    ftxt = ast.unparse(e.func)
    if _is_log_call(e): return [(st, P_NONE)]
    if ftxt == 'sum' and 'sum' not in ex.spec.calls and len(e.args) == 1 and isinstance(e.args[0], ast.GeneratorExp):
        r = _sum_count(ex, e.args[0], st)
        if r is not None: return r
    if ftxt in ('any', 'all') and ftxt not in ex.spec.calls and len(e.args) == 1 and isinstance(e.args[0], ast.GeneratorExp) and not e.keywords:
        r = _any_all_gen(ex, e.args[0], st, ftxt == 'all')
        if r is not None: return r
    # 1. function-specific overrides, keyed by the text of the callee expression
    ov = ex.spec.calls.get(ftxt)
    if ov is not None and not isinstance(ov, C.Contract):
        return ov(ex, e, st)
    # evaluate callee
    outs = []
    if isinstance(e.func, ast.Attribute):
        for s1, recv in ex.ev(e.func.value, st):
            if isinstance(recv, Raise): outs.append((s1, recv)); continue
            outs.extend(_with_args(ex, e, s1, lambda s2, pos, named, stars, sargs: call_method(
                ex, s2, recv, e.func.attr, pos, named, stars, sargs, e, ov)))
        return outs
    for s1, f in ex.ev(e.func, st):
        if isinstance(f, Raise): outs.append((s1, f)); continue
        outs.extend(_with_args(ex, e, s1, lambda s2, pos, named, stars, sargs: call_value(
            ex, s2, f, pos, named, stars, sargs, e, ov)))
    return outs


refset_card = Function('refset_card', RefSet, IntSort())        # number of elements of a finite set of heap objects


def _sum_count(ex, g, st):
    """sum(1 for v in X if v): the number of truthy items of X;  sum(1 for v in X if v in Y) over sets of objects: |X & Y|"""
    if not (isinstance(g.elt, ast.Constant) and g.elt.value == 1 and len(g.generators) == 1): return None
    gen = g.generators[0]
    if (len(gen.ifs) == 1 and isinstance(gen.target, ast.Name) and isinstance(gen.ifs[0], ast.Compare) and len(gen.ifs[0].ops) == 1
            and isinstance(gen.ifs[0].ops[0], ast.In) and isinstance(gen.ifs[0].left, ast.Name) and gen.ifs[0].left.id == gen.target.id):
        outs = []
        for s1, vals in ex.evs([gen.iter, gen.ifs[0].comparators[0]], st):
            if isinstance(vals, Raise): outs.append((s1, vals)); continue
            X, Y = vals
            if not (isinstance(X, PSet) and isinstance(Y, PSet) and X.ekind == 'ref' and Y.ekind == 'ref'): return None
            y = fresh('y', IntSort())
            n = refset_card(z3.Lambda([y], And(X.arr[y], Y.arr[y])))
            A = Const('A!card', RefSet)
            s1 = s1.copy(); s1.assume(n >= 0, ForAll([A], refset_card(A) >= 0))
            outs.append((s1, ZV('int', n)))
        return outs
    if not (len(gen.ifs) == 1 and isinstance(gen.ifs[0], ast.Name) and isinstance(gen.target, ast.Name) and gen.ifs[0].id == gen.target.id):
        return None
    outs = []
    for s1, it in ex.ev(gen.iter, st):
        if isinstance(it, Raise): outs.append((s1, it)); continue
        arr, n = seq_of(it, s1)
        outs.append((s1, ZV('int', seq_count_truthy(arr, n))))
    return outs


def _any_all_gen(ex, g, st, is_all):
    """any(...)/all(...) of a generator over a symbolic set or map (its keys, or its values with `.values()`): the element
    expression is evaluated for one arbitrary member; it has to be pure and without exceptional outcome.  -> outcomes | None"""
    if len(g.generators) != 1 or g.generators[0].is_async: return None
    gen = g.generators[0]
    outs = []
    for s1, it in ex.ev(gen.iter, st):
        if isinstance(it, Raise): outs.append((s1, it)); continue
        if isinstance(it, PMap):
            O = OptOf(it.vkind.sort()); k = fresh('k', it.kkind.sort())
            by_value = isinstance(gen.iter, ast.Call) and isinstance(gen.iter.func, ast.Attribute) and gen.iter.func.attr == 'values'
            if by_value:
                x = fresh('x', it.vkind.sort()); dom = Exists([k], And(O.is_Some(it.arr[k]), O.v(it.arr[k]) == x)); item = it.vkind.wrap(x)
            else:
                x = k; dom = O.is_Some(it.arr[k]); item = it.kkind.wrap(x)
        elif isinstance(it, PSet):
            x = fresh('x', it.arr.sort().domain()); dom = it.arr[x]
            item = ZV('ref', x) if it.ekind == 'ref' else ZV('val', x) if it.ekind == 'val' else ZV('str', x)
        else:
            return None
        base = s1.copy(); base.assume(dom); npc = len(base.pc)
        starts = [s2 for s2, fl in ex.assign(base, gen.target, item) if fl is NEXT]
        if len(starts) != 1: return None
        b = starts[0]
        def pure(s2): return s2.tn.eq(s1.tn) and all(arr.eq(s1.heap[c]) for c, arr in s2.heap.items() if c in s1.heap)
        cond = BoolVal(True)
        for test in gen.ifs:
            alts = []
            for s2, v in ex.ev(test, b):
                if isinstance(v, Raise) or not pure(s2): return None
                alts.append(And(*s2.pc[npc:], truth(v, s2)))
            cond = And(cond, Or(*alts) if alts else BoolVal(False))
        alts = []
        for s2, v in ex.ev(g.elt, b):
            if isinstance(v, Raise) or not pure(s2): return None
            alts.append(And(*s2.pc[npc:], truth(v, s2)))
        T = Or(*alts) if alts else BoolVal(False)
        outs.append((s1, ZV('bool', ForAll([x], Implies(And(dom, cond), T)) if is_all else Exists([x], And(dom, cond, T)))))
    return outs


def _with_args(ex, e, st, k):
    """evaluate call arguments left to right, then continue with k(state, pos, named, stars, starargs)"""
    plain = [a for a in e.args if not isinstance(a, ast.Starred)]
    starred = [a.value for a in e.args if isinstance(a, ast.Starred)]
    if starred and any(isinstance(a, ast.Starred) for a in e.args[:len(e.args) - len(starred)]):
        raise Unsupported('*args before positional arguments')
    kws = e.keywords
    outs = []
    for s1, vals in ex.evs(plain + starred + [kw.value for kw in kws], st):
        if isinstance(vals, Raise): outs.append((s1, vals)); continue
        pos = vals[:len(plain)]
        sargs = vals[len(plain):len(plain) + len(starred)]
        kvals = vals[len(plain) + len(starred):]
        named, stars = {}, []
        for kw, v in zip(kws, kvals):
            if kw.arg is None: stars.append(v)
            else: named[kw.arg] = v
        outs.extend(k(s1, pos, named, stars, sargs))
    return outs


def call_value(ex, st, f, pos, named, stars, sargs, node, ov=None):
    if isinstance(ov, C.Contract): return apply_contract(ex, st, ov, None, pos, named, stars, sargs, node)
    if isinstance(f, PConst):
        h = BUILTIN_HANDLERS.get(id(f.obj))
        if h is not None:
            _nostar(stars, sargs, node)
            return h(ex, st, pos, named, node)
        k = BY_OBJECT.get(id(getattr(f.obj, '__func__', f.obj))) or contract_by_qual(f.obj)
        if k is not None: return apply_contract(ex, st, k, None, pos, named, stars, sargs, node)
        if isinstance(f.obj, type) and issubclass(f.obj, BaseException):
            r = fresh('exc', IntSort()); st = st.copy()
            st.assume(inst_of(r, f.obj), inst_of(r, BaseException))
            return [(st, PExc(f.obj.__name__, val=Val.Obj(r), where='raise'))]
        if isinstance(f.obj, type):
            k = C.CONTRACTS.get(f'new:{f.obj.__name__}')
            if k is not None: return apply_contract(ex, st, k, None, pos, named, stars, sargs, node)
        r = inline_call(ex, st, f.obj, None, pos, named, stars, sargs, node)
        if r is not None: return r
        raise Unsupported(f'no contract for call of {f.obj!r} (line {node.lineno} in {ex.spec.qual})')
    if isinstance(f, PClosure):
        k = C.CONTRACTS.get(f.qual.split(':')[-1]) or C.CONTRACTS.get(f.qual) or next((c for c in C.CONTRACTS.values() if c.qual == f.qual), None)
        if k is None: raise Unsupported(f'no contract for nested function {f.qual}')
        if not k.closure: return apply_contract(ex, st, k, None, pos, named, stars, sargs, node)
        # a nested function called from the function that defines it: its free variables are the caller's locals of the same name
        outs = []
        for s1, b in bind_args(ex, st, k, None, pos, named, stars, sargs, node):
            if isinstance(b, Raise): outs.append((s1, b)); continue
            for name in k.closure:
                if name not in s1.env: raise Unsupported(f'{f.qual}: free variable {name} is not a local of the caller')
                b[name] = s1.env[name]
            outs.extend(apply_bound(ex, s1, k, b, f'call:{k.key}'))
        return outs
    if isinstance(f, PBound):
        return call_method(ex, st, f.recv, f.name, pos, named, stars, sargs, node, None)
    h = ex.spec.calls.get('*value*')
    if h is not None: return h(ex, st, f, pos, named, stars, sargs, node)
    raise Unsupported(f'call of a value {f!r} (line {node.lineno} in {ex.spec.qual}): no interface contract')


_INLINE = {}
_inline_depth = [0]


def inline_call(ex, st, fobj, recv, pos, named, stars, sargs, node):
    """A call of a module-level edzed function that has no contract (typically a helper introduced by a refactoring):
    its current body is executed in place, in the caller's proof.  Only straight-line helpers are taken (no loop, await,
    yield, nested definition, global statement); anything else stays 'no contract' (exit 3).  The inlined text is re-read
    from the working tree like every other function; the fact is recorded as an assumption-free note in evidence."""
    import types
    fobj = getattr(fobj, '__func__', fobj)
    if not isinstance(fobj, types.FunctionType): return None
    modname, qn = getattr(fobj, '__module__', ''), getattr(fobj, '__qualname__', '')
    if not modname.startswith('edzed') or '<' in qn or qn.count('.') > 1: return None
    if ('.' in qn) != (recv is not None): return None
    q = f'{modname}:{qn}'
    k = _INLINE.get(q)
    if k is None:
        k = C.Contract('inline:' + q, lambda c: None, qual=q, self_cls=qn.split('.')[0] if '.' in qn else None)
        try: k.load()
        except Unsupported: return None
        _INLINE[q] = k
    banned = (ast.For, ast.While, ast.Await, ast.Yield, ast.YieldFrom, ast.AsyncFor, ast.AsyncWith, ast.Global, ast.Nonlocal, ast.ClassDef, ast.With)
    for n in ast.walk(k.node):
        if isinstance(n, banned) or (isinstance(n, (ast.FunctionDef, ast.AsyncFunctionDef)) and n is not k.node): return None
    if isinstance(k.node, ast.AsyncFunctionDef) or _inline_depth[0] >= 3: return None
    ex.spec.note_assumption(f'{q} has no contract of its own: its body is executed in place at the call in {ex.spec.qual} (inlined, re-read from the working tree)')
    outs = []
    saved_mod = ex.spec.module
    _inline_depth[0] += 1
    try:
        for s1, b in bind_args(ex, st, k, recv, pos, named, stars, sargs, node):
            if isinstance(b, Raise): outs.append((s1, b)); continue
            s1 = s1.copy(); caller_env = s1.env; s1.env = dict(b)
            ex.spec.module = k.module
            try: flows = ex.run_block(k.node.body, s1)
            finally: ex.spec.module = saved_mod
            for s2, fl in flows:
                s2.env = dict(caller_env)
                if fl is NEXT: outs.append((s2, P_NONE))
                elif fl[0] == 'return': outs.append((s2, fl[1]))
                elif fl[0] == 'raise':
                    exc = fl[1]
                    if isinstance(exc, PExc) and exc.where in (None, 'raise', 'call'): exc = PExc(exc.cls, exc.val, exc.cause, 'callee')
                    outs.append((s2, Raise(exc)))
                else: raise Unsupported(f'{q}: {fl[0]} at the top level of an inlined function')
    finally:
        _inline_depth[0] -= 1
    return outs


def contract_by_qual(obj):
    obj = getattr(obj, '__func__', obj)
    q = f"{getattr(obj, '__module__', '?')}:{getattr(obj, '__qualname__', '?')}"
    for c in C.CONTRACTS.values():
        if c.qual == q: return c
    return None


def _nostar(stars, sargs, node):
    if stars or sargs: raise Unsupported(f'*/** arguments to a built-in (line {node.lineno})')


def resolve_method(cls, name, after=None):
    """contract of method `name` for objects of real class `cls` (MRO order; `after` = super() start)"""
    mro = list(cls.__mro__)
    if after is not None: mro = mro[mro.index(after) + 1:]
    else:
        c = C.CONTRACTS.get(f'{cls.__name__}.{name}')       # a contract stated for this very class (proof instance)
        if c is not None: return c
    for k in mro:
        if name in vars(k):
            obj = vars(k)[name]
            fobj = getattr(obj, '__func__', obj)
            c = BY_OBJECT.get(id(fobj))
            if c is not None: return c
            c = C.CONTRACTS.get(f'{k.__name__}.{name}') or C.CONTRACTS.get(f'*.{name}')
            if c is not None: return c
            raise Unsupported(f'no contract for {k.__name__}.{name}')
    return None


def call_method(ex, st, recv, name, pos, named, stars, sargs, node, ov):
    if isinstance(ov, C.Contract): return apply_contract(ex, st, ov, recv, pos, named, stars, sargs, node)
    for wcls in type(recv).__mro__:
        h = METHOD_HANDLERS.get((wcls, name))
        if h is not None:
            r = h(ex, st, recv, pos, named, node)
            if r is not None: return r
    if isinstance(recv, PConst):
        if isinstance(recv.obj, PyObjStub):
            return recv.obj.call(ex, st, name, pos, named, node)
        if hasattr(recv.obj, name):
            return call_value(ex, st, ex.lift_const(getattr(recv.obj, name)), pos, named, stars, sargs, node)
    if isinstance(recv, PSuper):
        k = resolve_method(ex.spec.cls, name, after=recv.after)
        if k is None: raise Unsupported(f'super().{name}: not found after {recv.after.__name__}')
        return apply_contract(ex, st, k, recv.selfv, pos, named, stars, sargs, node)
    if isinstance(recv, ZV) and recv.kind in ('ref', 'val'):
        r = recv if recv.kind == 'ref' else ZV('ref', Val.ref(recv.z))
        if FIELD_ALIAS.get(name, name) in FIELDS:
            # an attribute holding a callable (user function, bound coroutine, ...), not a method
            return call_value(ex, st, st.read(name, r.z), pos, named, stars, sargs, node)
        k = None
        if r.cls is not None:
            k = C.CONTRACTS.get(f'{r.cls}.{name}') if C_class(r.cls) is None else None      # pseudo classes (Queue, Task, ...)
            real = C_class(r.cls)
            if real is not None:
                try: k = resolve_method(real, name)
                except Unsupported: k = None          # defined, but without a contract: inlined below if it is a straight-line helper
        if k is None: k = C.CONTRACTS.get(f'*.{name}')
        if k is None:
            cands = [c for key, c in C.CONTRACTS.items() if key.endswith('.' + name)]
            if len(cands) == 1: k = cands[0]
        if k is None and r.cls is not None and C_class(r.cls) is not None:
            # a method without a contract (typically a helper introduced by a refactoring): straight-line bodies are executed in place
            fobj = next((vars(c)[name] for c in C_class(r.cls).__mro__ if name in vars(c)), None)
            if fobj is not None:
                res = inline_call(ex, st, fobj, r, pos, named, stars, sargs, node)
                if res is not None: return res
        if k is None and r.cls is None:
            # receiver of unknown class: if exactly one edzed class defines a method of this name, that is the one meant
            defs = _definers(name)
            if len(defs) == 1:
                res = inline_call(ex, st, defs[0], r, pos, named, stars, sargs, node)
                if res is not None: return res
        if k is None: raise Unsupported(f'no contract for method .{name}() on {r.cls or "object"} (line {node.lineno} in {ex.spec.qual})')
        return apply_contract(ex, st, k, r, pos, named, stars, sargs, node)
    if isinstance(recv, PType):
        return call_method(ex, st, recv.of, name, pos, named, stars, sargs, node, ov)
    raise Unsupported(f'method {name} on {recv!r} (line {node.lineno} in {ex.spec.qual})')


def _definers(name):
    """plain functions called `name` defined in the body of a class of the edzed package"""
    import importlib, types
    out = []
    for m in ['edzed.block', 'edzed.simulator', 'edzed.addons', 'edzed.fsm', 'edzed.blocklib.sblocks1', 'edzed.blocklib.sblocks2', 'edzed.blocklib.cblocks',
              'edzed.blocklib.fsms', 'edzed.blocklib.filters', 'edzed.blocklib.cron', 'edzed.blocklib.timedate', 'edzed.blocklib.timeinterval']:
        mod = importlib.import_module(m)
        for c in vars(mod).values():
            if isinstance(c, type) and c.__module__ == m and isinstance(vars(c).get(name), types.FunctionType): out.append(vars(c)[name])
    return out


_class_cache = {}
NESTED_CLASSES = {'InputGetter': ('edzed.block', 'CBlock')}


def C_class(name):
    """real class object by simple name (searched in the edzed package)"""
    if name in _class_cache: return _class_cache[name]
    import importlib, pkgutil
    import edzed
    found = None
    if name in NESTED_CLASSES:
        mod, outer = NESTED_CLASSES[name]
        found = getattr(getattr(importlib.import_module(mod), outer), name)
        _class_cache[name] = found
        return found
    for m in ['edzed.block', 'edzed.simulator', 'edzed.addons', 'edzed.fsm', 'edzed.blocklib.sblocks1', 'edzed.blocklib.sblocks2',
              'edzed.blocklib.cblocks', 'edzed.blocklib.fsms', 'edzed.blocklib.filters', 'edzed.blocklib.cron',
              'edzed.blocklib.timedate', 'edzed.blocklib.timeinterval']:
        mod = importlib.import_module(m)
        if isinstance(getattr(mod, name, None), type): found = getattr(mod, name); break
    _class_cache[name] = found
    return found


# =========================================================================================== argument binding
def bind_args(ex, st, k, recv, pos, named, stars, sargs, node):
    """Python's binding rules -> list of (state, {name: PV} | Raise).  TypeErrors raised here carry where='call'."""
    ps, varargs, varkw = k.signature()
    pos = list(pos)
    if recv is not None and ps and ps[0].name in ('self', 'cls'):
        pos = [recv] + pos
    symbolic = None
    for sa in sargs:
        if isinstance(sa, PTuple): pos.extend(sa.items)
        elif isinstance(sa, PConst) and isinstance(sa.obj, tuple): pos.extend(PConst(x) for x in sa.obj)
        elif symbolic is None and sa is sargs[-1] and (isinstance(sa, PSeq) or (isinstance(sa, ZV) and sa.kind == 'val')):
            symbolic = sa
        else: raise Unsupported('*args of symbolic length at a contract call')
    if symbolic is not None:
        # f(*seq) with a sequence of symbolic length: it has to fill exactly the remaining positional parameters
        arr, n = seq_of(symbolic, st)
        need = len([p for p in ps if not p.kwonly]) - len(pos)
        if varargs is not None or need < 0 or any(p.default is not REQ for p in [p for p in ps if not p.kwonly][len(pos):]):
            raise Unsupported('*args of symbolic length into a variadic / defaulted signature')
        outs = []
        for s1, fits in ex.fork(st, n == need, f'L{node.lineno}.star_len'):
            if not fits:
                outs.append((s1, Raise(PExc('TypeError', val=Val.Obj(fresh('exc', IntSort())), where='call')))); continue
            more = [ZV('val', arr[IntVal(i)]) for i in range(need)]
            outs.extend(bind_args(ex, s1, k, None, pos + more, named, stars, [], node))
        return outs
    def terr(s): return Raise(PExc('TypeError', val=Val.Obj(fresh('exc', IntSort())), where='call'))
    bound = {}
    posparams = [p for p in ps if not p.kwonly]
    if len(pos) > len(posparams):
        if varargs is None: return [(st, terr(st))]
        bound[varargs] = PTuple(pos[len(posparams):]); pos = pos[:len(posparams)]
    elif varargs is not None:
        bound[varargs] = PTuple([])
    for p, v in zip(posparams, pos): bound[p.name] = v
    extra = {}
    for n, v in named.items():
        p = next((p for p in ps if p.name == n and not p.posonly), None)
        if p is None:
            if varkw is None: return [(st, terr(st))]
            extra[n] = v
        elif n in bound: return [(st, terr(st))]
        else: bound[n] = v
    if len(stars) > 1: raise Unsupported('more than one ** argument')
    star = ex.as_dict(st, stars[0]) if stars else None
    states = [(st, bound)]
    if star is not None:
        # duplicate keyword: a name given explicitly and also present in the ** mapping
        for n in list(named):
            nxt = []
            for s1, b in states:
                if isinstance(b, Raise): nxt.append((s1, b)); continue
                for s2, dup in ex.fork(s1, Opt.is_Some(star[StringVal(n)]), f'L{node.lineno}.dupkw:{n}'):
                    nxt.append((s2, terr(s2) if dup else b))
            states = nxt
    # parameters still unbound: from ** mapping, default, or TypeError
    for p in ps:
        nxt = []
        for s1, b in states:
            if isinstance(b, Raise) or p.name in b: nxt.append((s1, b)); continue
            if star is not None and not p.posonly:
                cell = star[StringVal(p.name)]
                for s2, present in ex.fork(s1, Opt.is_Some(cell), f'L{node.lineno}.kw:{p.name}'):
                    if present:
                        b2 = dict(b); b2[p.name] = _typed(ZV('val', Opt.v(cell)), p.kind, s2); nxt.append((s2, b2))
                    elif p.default is REQ: nxt.append((s2, terr(s2)))
                    else: b2 = dict(b); b2[p.name] = _default(ex, k, p, s2); nxt.append((s2, b2))
            elif p.default is REQ: nxt.append((s1, terr(s1)))
            else: b2 = dict(b); b2[p.name] = _default(ex, k, p, s1); nxt.append((s1, b2))
        states = nxt
    # the rest of the ** mapping goes to **kwargs, or must be empty
    outs = []
    for s1, b in states:
        if isinstance(b, Raise): outs.append((s1, b)); continue
        if star is None:
            if varkw is not None:
                arr = EMPTY_DICT
                for n, v in extra.items(): arr = Store(arr, StringVal(n), Opt.Some(to_val(v, s1)))
                b[varkw] = PDict(arr)
            outs.append((s1, b)); continue
        rest = star
        for p in ps:
            if not p.posonly: rest = Store(rest, StringVal(p.name), Opt.Absent)
        if varkw is not None:
            for n, v in extra.items(): rest = Store(rest, StringVal(n), Opt.Some(to_val(v, s1)))
            b[varkw] = PDict(rest); outs.append((s1, b))
        else:
            kq = fresh('k', StringSort())
            for s2, clean in ex.fork(s1, rest == EMPTY_DICT, f'L{node.lineno}.extra_kw'):
                outs.append((s2, b if clean else terr(s2)))
    return outs


REQ = C.REQUIRED


def _typed(v, kind, st):
    if kind.tag == 'val': return v
    if kind.tag == 'seq':
        arr, n = seq_of(v, st)
        return PSeq(arr, n, kind.elem or 'val', getattr(v, 'is_list', False))
    return kind.wrap(as_kind(v, kind, st))


def _default(ex, k, p, st):
    d = p.default
    if isinstance(d, PV): return d
    if isinstance(d, ast.AST):
        if isinstance(d, ast.Constant): return PConst(d.value)
        # default expressions are evaluated in the callee's module
        mod = k.module
        try:
            val = eval(compile(ast.Expression(d), '<default>', 'eval'), vars(mod))
        except Exception as err:
            raise Unsupported(f'default of {p.name}: {err}')
        return ex.lift_const(val)
    return PConst(d)


# =========================================================================================== contract application
def havoc(st, k):
    for f in k.modifies:
        if f == 'trace': st.havoc_trace()
        elif f.startswith('ghost:'):
            cur = st.ghost.get(f[6:])
            st.ghost[f[6:]] = fresh('ghost_' + f[6:], cur.sort()) if is_expr(cur) else None
        else: st.havoc_field(f)


def apply_contract(ex, st, k, recv, pos, named, stars, sargs, node):
    site = f'call:{k.key}@L{node.lineno}' if ex.spec.name_lines else f'call:{k.key}'
    outs = []
    for s1, b in bind_args(ex, st, k, recv, pos, named, stars, sargs, node):
        if isinstance(b, Raise): outs.append((s1, b)); continue
        outs.extend(apply_bound(ex, s1, k, b, site))
    return outs


def apply_bound(ex, st, k, args, site):
    ps, va, vk = k.signature()
    # coerce typed parameters
    for p in ps:
        if p.name in args and p.kind.tag != 'val':
            args[p.name] = _typed(args[p.name], p.kind, st)
        elif p.name in args and isinstance(args[p.name], (PTuple, PSeq)):
            # a literal tuple/list passed as a value: fix its identity now, so that the defining facts are part of the
            # caller's state before the outcome states are derived from it
            st = st.copy(); args[p.name] = ZV('val', to_val(args[p.name], st))
    outs = []
    st1 = st
    if k.traced is not None:
        st1 = st.copy(); ex.emit(st1, k.traced(args, st1))     # the call is part of the trace whatever its outcome
    post = st1.copy()
    havoc(post, k)
    result = k.result.fresh('ret') if k.result is not None else P_NONE
    cl = k.clauses(args, st, post, result)
    for label, f in cl.requires:
        ex.oblige(f'{site}/pre:{label}', st, f, kind='pre')
    for r in cl.emits: ex.emit(post, r)
    if cl.result_pv is not None: result = cl.result_pv
    for label, f in cl.ensures: post.assume(f)
    for rc in cl.raises:
        if rc.iff and rc.when is not None: post.assume(Not(rc.when))       # "raises iff": a normal return excludes the condition
    never = any(z3.is_false(z3.simplify(f)) for _, f in cl.ensures if is_expr(f))
    if not never and ex.feasible(post): outs.append((post, result))
    for rc in cl.raises:
        s2 = st1.copy()
        if not rc.unchanged: havoc(s2, k)
        if getattr(rc, 'impose', None) is not None: rc.impose(View(st, args), View(s2, args))
        if rc.when is not None: s2.assume(rc.when)
        excv = Val.Obj(fresh('exc', IntSort()))
        if rc.ensures is not None:
            for f in rc.ensures(View(s2, args), excv): s2.assume(f)
        s2.label(f'{k.key}:raises:{rc.label}')
        if rc.cls == 'DeliveryError': s2.ghost['delivery_failed'] = True
        if ex.feasible(s2): outs.append((s2, Raise(PExc(rc.cls, val=excv, where=rc.where or 'callee'))))
    return outs


# =========================================================================================== built-ins
def _z3bool(c): return ZV('bool', c)


@builtin(isinstance)
def _isinstance(ex, st, pos, named, node):
    v, c = pos
    classes = c.items if isinstance(c, PTuple) else [PConst(x) for x in c.obj] if isinstance(c, PConst) and isinstance(c.obj, tuple) else [c]
    conds = []
    for k in classes:
        if not (isinstance(k, PConst) and (isinstance(k.obj, type) or hasattr(k.obj, '__instancecheck__'))):
            raise Unsupported(f'isinstance with non-class {k!r}')
        conds.append(isinstance_cond(ex, st, v, k.obj))
    r = z3.simplify(Or(*conds)) if len(conds) > 1 else conds[0]
    if z3.is_true(r): return [(st, P_TRUE)]
    if z3.is_false(r): return [(st, P_FALSE)]
    return [(st, _z3bool(r))]


ISINSTANCE_HOOKS = []    # (ex, st, value, cls) -> z3 Bool | None


def isinstance_cond(ex, st, v, cls):
    import collections.abc as abc
    for h in ISINSTANCE_HOOKS:
        r = h(ex, st, v, cls)
        if r is not None: return r
    if isinstance(v, PConst):
        if v.obj is UNDEF: return BoolVal(cls is type(C.REAL_UNDEF()) or cls is object)
        return BoolVal(isinstance(v.obj, cls))
    if isinstance(v, ZV) and v.kind != 'val':
        py = {'bool': bool, 'int': int, 'real': float, 'str': str}.get(v.kind)
        if py is not None: return BoolVal(issubclass(py, cls) if isinstance(cls, type) and not _is_abc(cls) else _abc_check(py, cls))
        if v.kind == 'ref': return inst_of(v.z, cls)
    if isinstance(v, PDict): return BoolVal(_abc_check(dict, cls))
    if isinstance(v, PTuple): return BoolVal(_abc_check(list if v.is_list else tuple, cls))
    if isinstance(v, PSet): return BoolVal(_abc_check(set, cls))
    if isinstance(v, PExc):
        c = C.exc_class(v.cls) if v.cls else None
        if c is None and v.cls in C.PSEUDO_EXC and isinstance(cls, type):
            # a pseudo class stands for "an exception of its base class that is none of the classes named elsewhere"
            # (HandlerTypeError: a TypeError; OtherException: an Exception that is not a TypeError, ValueError, edzed error, ...)
            return BoolVal(any(issubclass(b, cls) for b in C.PSEUDO_EXC[v.cls]))
        if c is None: raise Unsupported('isinstance on exception of unknown class')
        return BoolVal(issubclass(c, cls))
    if isinstance(v, (PClosure, PBound)): return BoolVal(False if cls in (str, int, float, tuple, dict) else _unsup(cls))
    z = to_val(v, st)
    parts = []
    for tester, py in ((Val.is_VNone, type(None)), (Val.is_B, bool), (Val.is_I, int), (Val.is_R, float), (Val.is_S, str),
                       (Val.is_D, dict)):
        if _abc_check(py, cls): parts.append(tester(z))
    tup_ok, list_ok = _abc_check(tuple, cls), _abc_check(list, cls)
    if tup_ok and list_ok: parts.append(Val.is_T(z))
    elif tup_ok: parts.append(And(Val.is_T(z), tup_is_tuple(Val.tk(z))))
    elif list_ok: parts.append(And(Val.is_T(z), Not(tup_is_tuple(Val.tk(z)))))
    ec, gt = C_class('EventCond'), None
    import edzed.fsm as _fsm, edzed.block as _blk
    if issubclass(_blk.EventCond, cls): parts.append(Val.is_EC(z))
    if issubclass(_fsm.Goto, cls): parts.append(Val.is_Goto(z))
    if issubclass(type(C.REAL_UNDEF()), cls): parts.append(Val.is_Undef(z))
    if cls is _blk.EventCond or cls is _fsm.Goto or cls in (int, float, bool, str, bytes, type(None), complex):
        pass        # value classes: modelled by their own constructors of Val, never as heap objects / opaque values
    elif not _is_container_abc(cls):
        # encoding assumption: mappings / sequences / sets that reach edzed are the built-in ones (dict, tuple, list,
        # str, frozenset); user-defined container classes are outside the model
        parts.append(And(Val.is_Obj(z), inst_of(Val.ref(z), cls)))
        parts.append(And(Val.is_Opq(z), opq_inst(Val.k(z), cls)))
    if _abc_check(frozenset, cls) or _abc_check(set, cls): parts.append(Val.is_FS(z))
    return Or(*parts) if parts else BoolVal(False)


def _is_container_abc(cls):
    import collections.abc as abc
    return cls in (abc.Mapping, abc.MutableMapping, abc.Sequence, abc.MutableSequence, abc.Set, abc.MutableSet, abc.Collection,
                   abc.Iterator, dict, tuple, list, str, set, frozenset)


def _is_abc(cls):
    import abc
    return isinstance(cls, abc.ABCMeta)


def _abc_check(py, cls):
    try: return issubclass(py, cls)
    except TypeError: raise Unsupported(f'isinstance against {cls!r}')


def _unsup(cls): raise Unsupported(f'isinstance of a function value against {cls}')


CLASS_IDS = {}


def class_id(cls):
    if cls not in CLASS_IDS: CLASS_IDS[cls] = len(CLASS_IDS) + 1
    return CLASS_IDS[cls]


_inst = Function('instance_of', IntSort(), IntSort(), BoolSort())
_opq_inst = Function('opq_instance_of', IntSort(), IntSort(), BoolSort())


def inst_of(ref, cls):
    """heap object `ref` is an instance of real class `cls`.  Defined as the conjunction of one uninterpreted bit per class
    over `cls` and all its (non-trivial) base classes, so that `instance of A  =>  instance of B` holds by construction for
    every base class B of A -- no quantified lattice axioms are needed."""
    if cls is object: return BoolVal(True)
    bits = [_inst(ref, IntVal(class_id(b))) for b in cls.__mro__ if b is not object and getattr(b, '__module__', '') != 'abc'
            and b.__name__ not in ('Generic',)]
    return And(*bits) if len(bits) > 1 else bits[0]


def opq_inst(k, cls):
    if cls is object: return BoolVal(True)
    if cls in (str, int, float, bool, dict, tuple, list, type(None)): return BoolVal(False)
    if getattr(cls, '__module__', '').startswith('edzed') or (isinstance(cls, type) and issubclass(cls, BaseException)):
        return BoolVal(False)        # encoding: instances of edzed classes and exceptions are heap objects (Obj), never opaque values
    return _opq_inst(k, IntVal(class_id(cls)))


def exc_cls(name):
    return C.exc_class(name)


def lattice_axioms():
    """(kept for the callers' sake) the class lattice needs no axioms: see inst_of"""
    return []


def class_axioms(ref, classes):
    """lattice facts for one object and the given real classes: subclass => superclass, disjoint leaves are not assumed"""
    out = []
    for a in classes:
        for b in classes:
            if a is not b and issubclass(a, b): out.append(Implies(inst_of(ref, a), inst_of(ref, b)))
    return out


@builtin(dict)
def _dict(ex, st, pos, named, node):
    """dict() / dict(<str-keyed mapping>): a new dict with the same items (mappings that reach edzed are built-in dicts)"""
    if named: raise Unsupported('dict(**kw)')
    if not pos: return [(st, PDict(EMPTY_DICT))]
    v, = pos
    if isinstance(v, PDict): return [(st, PDict(v.arr))]
    if isinstance(v, ZV) and v.kind == 'val':
        outs = []
        for s1, isd in ex.fork(st, Val.is_D(v.z), f'L{node.lineno}.dict_of_dict'):
            if isd: outs.append((s1, PDict(dict_c(Val.dk(v.z)))))
            else: raise Unsupported('dict(<non-dict value>)')
        return outs
    raise Unsupported(f'dict({v!r})')


@builtin(len)
def _len(ex, st, pos, named, node):
    v, = pos
    if isinstance(v, PConst): return [(st, PConst(len(v.obj)))]
    if isinstance(v, PTuple): return [(st, PConst(len(v.items)))]
    if isinstance(v, PSeq): return [(st, ZV('int', v.n))]
    if isinstance(v, ZV) and v.kind == 'str': return [(st, ZV('int', Length(v.z)))]
    if isinstance(v, ZV) and v.kind == 'val':
        outs = []
        for s1, t in ex.fork(st, Val.is_T(v.z), f'L{node.lineno}.len_seq'):
            if t: outs.append((s1, ZV('int', tup_len(Val.tk(v.z)))))
            else:
                for s2, s in ex.fork(s1, Val.is_S(v.z), f'L{node.lineno}.len_str'):
                    outs.append((s2, ZV('int', Length(Val.s(v.z)))) if s else (s2, ex.raise_(s2, 'TypeError', where='builtin')))
        return outs
    h = ex.spec.calls.get('builtin:len')
    if h: return h(ex, st, v, node)
    if isinstance(v, (PSet, PMap, PDict)):
        n = fresh('card', IntSort()); st = st.copy(); st.assume(n >= 0, (n > 0) == truth(v, st))
        return [(st, ZV('int', n))]
    raise Unsupported(f'len({v!r})')


@builtin(bool)
def _bool(ex, st, pos, named, node):
    if not pos: return [(st, P_FALSE)]
    if isinstance(pos[0], PConst): return [(st, PConst(bool(pos[0].obj) if pos[0].obj is not UNDEF else False))]
    return [(st, _z3bool(truth(pos[0], st)))]


@builtin(callable)
def _callable(ex, st, pos, named, node):
    v, = pos
    if isinstance(v, (PClosure, PBound)): return [(st, P_TRUE)]
    if isinstance(v, PConst): return [(st, PConst(callable(v.obj)))]
    z = to_val(v, st)
    return [(st, _z3bool(And(Or(Val.is_Obj(z), Val.is_Opq(z)), is_callable(z))))]


is_callable = Function('is_callable', Val, BoolSort())
has_attr = Function('has_attr', Val, StringSort(), BoolSort())


@builtin(hasattr)
def _hasattr(ex, st, pos, named, node):
    v, a = pos
    z = to_val(v, st)
    return [(st, _z3bool(has_attr(z, ex.as_str(st, a))))]


@builtin(abs)
def _abs(ex, st, pos, named, node):
    v, = pos
    nk = ex._numkind(v)
    if nk in ('int', 'real'):
        z = as_kind(ex._b2i(v), INT if nk == 'int' else REAL, st)
        return [(st, ZV(nk, If(z < 0, -z, z)))]
    z = to_val(v, st); outs = []
    for s1, isn in ex.fork(st, is_num(z), f'L{node.lineno}.abs_num'):
        if not isn: outs.append((s1, ex.raise_(s1, 'TypeError', where='builtin'))); continue
        for s2, ii in ex.fork(s1, is_int(z), f'L{node.lineno}.abs_int'):
            if ii: a = intval(z); outs.append((s2, ZV('int', If(a < 0, -a, a))))
            else: a = num(z); outs.append((s2, ZV('real', If(a < 0, -a, a))))
    return outs


@builtin(float)
def _float(ex, st, pos, named, node):
    v, = pos
    if isinstance(v, PConst) and isinstance(v.obj, (int, float)): return [(st, PConst(float(v.obj)))]
    nk = ex._numkind(v)
    if nk in ('int', 'real'): return [(st, ZV('real', as_kind(ex._b2i(v), REAL, st)))]
    if nk == 'val':
        z = to_val(v, st); outs = []
        for s1, isn in ex.fork(st, is_num(z), f'L{node.lineno}.float_num'):
            if isn: outs.append((s1, ZV('real', num(z))))
            else:
                h = ex.spec.calls.get('float(str)') or _float_of_str
                outs.extend(h(ex, s1, v, node))
        return outs
    h = ex.spec.calls.get('float(str)')
    if h is not None: return h(ex, st, v, node)
    if isinstance(v, ZV) and v.kind == 'str': return _float_of_str(ex, st, v, node)
    raise Unsupported(f'float({v!r})')


float_parse = Function('float_parse', StringSort(), RealSort())        # float(s) for a string that Python's float() accepts


def _float_of_str(ex, st, v, node):
    """float(x) for x that is not a number: a string either parses (uninterpreted value; which strings parse is not modelled:
    both outcomes are possible for every string) or raises ValueError; anything else raises TypeError"""
    from .engine import Raise
    z = to_val(v, st); outs = []
    for s1, is_s in ex.fork(st, Val.is_S(z), f'L{node.lineno}.float_str'):
        if is_s:
            ok = s1.copy(); ok.label(f'L{node.lineno}.float_str_parses'); outs.append((ok, ZV('real', float_parse(Val.s(z)))))
            bad = s1.copy(); bad.label(f'L{node.lineno}.float_str_rejected')
            outs.append((bad, Raise(PExc('ValueError', val=Val.Obj(fresh('exc', IntSort())), where='call'))))
        else:
            outs.append((s1, Raise(PExc('TypeError', val=Val.Obj(fresh('exc', IntSort())), where='call'))))
    return outs


@builtin(int)
def _int(ex, st, pos, named, node):
    v, = pos
    if isinstance(v, PConst) and isinstance(v.obj, (int, float)): return [(st, PConst(int(v.obj)))]
    nk = ex._numkind(v)
    if nk == 'int': return [(st, ZV('int', as_kind(ex._b2i(v), INT, st)))]
    if nk == 'real':
        r = as_kind(v, REAL, st)      # truncation toward zero
        return [(st, ZV('int', If(r >= 0, ToInt(r), -ToInt(-r))))]
    h = ex.spec.calls.get('int()')
    if h is not None: return h(ex, st, v, node)
    raise Unsupported(f'int({v!r})')


@builtin(str)
def _str(ex, st, pos, named, node):
    v, = pos
    if isinstance(v, PConst) and isinstance(v.obj, (str, int)): return [(st, PConst(str(v.obj)))]
    if isinstance(v, ZV) and v.kind == 'str': return [(st, v)]
    if isinstance(v, ZV) and v.kind == 'int': return [(st, ZV('str', z3.IntToStr(v.z)))]     # non-negative ints only
    h = ex.spec.calls.get('str()')
    if h is not None: return h(ex, st, v, node)
    return [(st, ZV('str', fresh('str', StringSort())))]


@builtin(type)
def _type(ex, st, pos, named, node):
    v, = pos
    return [(st, PType(v))]


@builtin(super)
def _super(ex, st, pos, named, node):
    if pos: raise Unsupported('super() with arguments')
    owner = ex.spec.owner_class()
    return [(st, PSuper(st.env.get('self', st.env.get('cls')), owner))]


@builtin(tuple)
def _tuple(ex, st, pos, named, node):
    if not pos: return [(st, PTuple([]))]
    v, = pos
    if isinstance(v, PTuple): return [(st, PTuple(v.items, False))]
    if isinstance(v, PSeq): return [(st, PSeq(v.arr, v.n, v.elem, False))]
    if isinstance(v, PConst) and isinstance(v.obj, (tuple, list)): return [(st, PConst(tuple(v.obj)))]
    if isinstance(v, ZV) and v.kind == 'val':
        arr, n = seq_of(v, st); return [(st, PSeq(arr, n, 'val', False))]
    raise Unsupported(f'tuple({v!r})')


@builtin(list)
def _list(ex, st, pos, named, node):
    if not pos: return [(st, PTuple([], True))]
    v, = pos
    if isinstance(v, PTuple): return [(st, PTuple(v.items, True))]
    if isinstance(v, PSeq): return [(st, PSeq(v.arr, v.n, v.elem, True))]
    if isinstance(v, (PSet, PDict, PMap)): return [(st, v)]      # a snapshot: value semantics make it free
    raise Unsupported(f'list({v!r})')


@builtin(set)
def _set(ex, st, pos, named, node):
    if not pos: return [(st, PSet(EMPTY_REFSET, 'ref'))]
    v, = pos
    if isinstance(v, PSet): return [(st, v)]
    raise Unsupported(f'set({v!r})')


@builtin(frozenset)
def _frozenset(ex, st, pos, named, node):
    v, = pos
    if isinstance(v, PSet): return [(st, v)]
    if isinstance(v, ZV) and v.kind == 'val':
        # frozenset(iterable of arbitrary values): the member set is an uninterpreted function of the iterable
        # (a TypeError for unhashable members is outside the model: assumption "allowed members are hashable")
        return [(st, PSet(members_of(v.z), 'val'))]
    raise Unsupported(f'frozenset({v!r})')


members_of = Function('members_of', Val, ValSet)


@builtin(max)
def _max(ex, st, pos, named, node): return _minmax(ex, st, pos, node, True)


@builtin(min)
def _min(ex, st, pos, named, node): return _minmax(ex, st, pos, node, False)


def _minmax(ex, st, pos, node, is_max):
    if len(pos) != 2: raise Unsupported('min/max of an iterable')
    a, b = pos
    ka, kb = ex._numkind(a), ex._numkind(b)
    if ka in ('int', 'real') and kb in ('int', 'real'):
        if isinstance(a, PConst) and isinstance(b, PConst): return [(st, PConst(max(a.obj, b.obj) if is_max else min(a.obj, b.obj)))]
        real = 'real' in (ka, kb); k = REAL if real else INT
        x, y = as_kind(ex._b2i(a), k, st), as_kind(ex._b2i(b), k, st)
        # Python returns the first argument on ties; with mixed int/float the *value* is the same real
        return [(st, ZV('real' if real else 'int', If(y > x, y, x) if is_max else If(y < x, y, x)))]
    if ka in ('int', 'real', 'val') and kb in ('int', 'real', 'val'):
        za, zb = to_val(a, st), to_val(b, st); outs = []
        for s1, ok in ex.fork(st, And(is_num(za), is_num(zb)), f'L{node.lineno}.minmax_num'):
            if not ok: outs.append((s1, ex.raise_(s1, 'TypeError', where='builtin'))); continue
            x, y = num(za), num(zb)
            # the *value* of the result (Python returns one of the argument objects; their numeric value is what matters here)
            outs.append((s1, ZV('real', If(y > x, y, x) if is_max else If(y < x, y, x))))
        return outs
    raise Unsupported('min/max on non-numbers')


# =========================================================================================== container methods
@method(PDict, 'get')
def _d_get(ex, st, recv, pos, named, node):
    cell = recv.arr[ex.as_str(st, pos[0])]
    dflt = to_val(pos[1], st) if len(pos) > 1 else Val.VNone
    return [(st, ZV('val', If(Opt.is_Some(cell), Opt.v(cell), dflt)))]


@method(PDict, 'copy')
def _d_copy(ex, st, recv, pos, named, node): return [(st, PDict(recv.arr))]


@method(PDict, 'keys')
def _d_view(ex, st, recv, pos, named, node): return [(st, recv)]


@method(PDict, 'items')
def _d_items(ex, st, recv, pos, named, node): return [(st, PItems(recv))]


class PItems(PV):
    """dict.items() view: iterated as (key, value) pairs in arbitrary order"""
    def __init__(self, d): self.d = d


@builtin(setattr)
def _setattr(ex, st, pos, named, node):
    h = ex.spec.calls.get('builtin:setattr')
    if h is not None: return h(ex, st, pos, node)
    # dynamic attribute stores are not part of the heap model: the (two) sites are checked by scan obligations
    ex.spec.note_assumption('setattr with a dynamic name is outside the heap model (sites checked by scan: x_ attributes, resolver)')
    return [(st, P_NONE)]


@builtin(getattr)
def _getattr(ex, st, pos, named, node):
    h = ex.spec.calls.get('builtin:getattr')
    if h is not None: return h(ex, st, pos, node)
    raise Unsupported('getattr with a dynamic name: no contract')


@method(PMap, 'get')
def _m_get(ex, st, recv, pos, named, node):
    O = OptOf(recv.vkind.sort()); cell = recv.arr[as_kind(pos[0], recv.kkind, st)]
    dflt = pos[1] if len(pos) > 1 else P_NONE
    if recv.vkind.tag == 'val' or True:
        outs = []
        for s1, present in ex.fork(st, O.is_Some(cell), f'L{node.lineno}.get'):
            outs.append((s1, recv.vkind.wrap(O.v(cell)) if present else dflt))
        return outs


@method(PMap, 'copy')
def _m_copy(ex, st, recv, pos, named, node): return [(st, recv)]


@method(PMap, 'items')
def _m_items(ex, st, recv, pos, named, node):
    if recv.kkind.tag == 'str' and recv.vkind.tag == 'val': return [(st, PItems(PDict(recv.arr)))]      # same shape as a str-keyed dict
    return [(st, recv)]


@method(PMap, 'keys')
@method(PMap, 'values')
def _m_view(ex, st, recv, pos, named, node): return [(st, recv)]


def _mutating(fn):
    """container method that updates the receiver: the new value is written back through the receiver's lvalue"""
    def h(ex, st, recv, pos, named, node):
        outs = []
        for s1, newrecv, result in fn(ex, st, recv, pos, named, node):
            if isinstance(result, Raise): outs.append((s1, result)); continue
            for s2, fl in ex.store_back(s1, node.func.value, newrecv):
                outs.append((s2, result))
        return outs
    return h


@method(PDict, 'pop')
@_mutating
def _d_pop(ex, st, recv, pos, named, node):
    key = ex.as_str(st, pos[0]); cell = recv.arr[key]; outs = []
    for s1, present in ex.fork(st, Opt.is_Some(cell), f'L{node.lineno}.pop'):
        if present: outs.append((s1, PDict(Store(recv.arr, key, Opt.Absent)), ZV('val', Opt.v(cell))))
        elif len(pos) > 1: outs.append((s1, recv, pos[1]))
        else: outs.append((s1, recv, ex.raise_(s1, 'KeyError', where='method')))
    return outs


@method(PDict, 'setdefault')
@_mutating
def _d_setdefault(ex, st, recv, pos, named, node):
    key = ex.as_str(st, pos[0]); cell = recv.arr[key]; d = to_val(pos[1] if len(pos) > 1 else P_NONE, st)
    v = If(Opt.is_Some(cell), Opt.v(cell), d)
    return [(st, PDict(Store(recv.arr, key, Opt.Some(v))), ZV('val', v))]


@method(PSet, 'add')
@_mutating
def _s_add(ex, st, recv, pos, named, node):
    e = _elem(ex, st, recv, pos[0])
    return [(st, PSet(Store(recv.arr, e, BoolVal(True)), recv.ekind), P_NONE)]


@method(PSet, 'discard')
@_mutating
def _s_discard(ex, st, recv, pos, named, node):
    e = _elem(ex, st, recv, pos[0])
    return [(st, PSet(Store(recv.arr, e, BoolVal(False)), recv.ekind), P_NONE)]


@method(PSet, 'remove')
@_mutating
def _s_remove(ex, st, recv, pos, named, node):
    e = _elem(ex, st, recv, pos[0])
    outs = []
    for s1, present in ex.fork(st, recv.arr[e], f'L{node.lineno}.setremove'):
        if present: outs.append((s1, PSet(Store(recv.arr, e, BoolVal(False)), recv.ekind), P_NONE))
        else: outs.append((s1, recv, ex.raise_(s1, 'KeyError', where='method')))
    return outs


@method(PSet, 'pop')
@_mutating
def _s_pop(ex, st, recv, pos, named, node):
    outs = []
    for s1, ne in ex.fork(st, truth(recv, st), f'L{node.lineno}.setpop'):
        if not ne: outs.append((s1, recv, ex.raise_(s1, 'KeyError', where='method'))); continue
        e = fresh('popped', recv.arr.sort().domain()); s1.assume(recv.arr[e])
        item = ZV('ref', e) if recv.ekind == 'ref' else ZV('val', e) if recv.ekind == 'val' else ZV('str', e)
        outs.append((s1, PSet(Store(recv.arr, e, BoolVal(False)), recv.ekind), item))
    return outs


def _elem(ex, st, recv, v):
    if recv.ekind == 'ref': return as_kind(v, Ref(), st)
    if recv.ekind == 'str': return ex.as_str(st, v)
    return norm_key(to_val(v, st))


@method(PSet, 'union')
def _s_union(ex, st, recv, pos, named, node):
    x = fresh('x', recv.arr.sort().domain()); body = recv.arr[x]
    for p in pos:
        if isinstance(p, PSet): body = Or(body, p.arr[x])
        elif isinstance(p, PMap) and recv.ekind in ('str', 'val'):     # set(...).union(dict) -> keys
            body = Or(body, Not(p.arr[x] == OptOf(p.vkind.sort()).Absent))
        else: raise Unsupported(f'set.union({p!r})')
    return [(st, PSet(z3.Lambda([x], body), recv.ekind))]


@method(PSet, 'intersection')
def _s_inter(ex, st, recv, pos, named, node):
    x = fresh('x', recv.arr.sort().domain()); body = recv.arr[x]
    for p in pos:
        if not isinstance(p, PSet): raise Unsupported(f'set.intersection({p!r})')
        body = And(body, p.arr[x])
    return [(st, PSet(z3.Lambda([x], body), recv.ekind))]


@method(PSet, 'difference')
def _s_diff(ex, st, recv, pos, named, node):
    x = fresh('x', recv.arr.sort().domain()); body = recv.arr[x]
    for p in pos:
        if not isinstance(p, PSet): raise Unsupported(f'set.difference({p!r})')
        body = And(body, Not(p.arr[x]))
    return [(st, PSet(z3.Lambda([x], body), recv.ekind))]


# strings
def _strrecv(ex, st, recv): return ex.as_str(st, recv)


@method(ZV, 'startswith')
@method(PConst, 'startswith')
def _startswith(ex, st, recv, pos, named, node):
    if isinstance(recv, ZV) and recv.kind not in ('str', 'val'): return None
    if isinstance(recv, PConst) and not isinstance(recv.obj, str): return None
    if isinstance(recv, PConst) and isinstance(pos[0], PConst): return [(st, PConst(recv.obj.startswith(pos[0].obj)))]
    return [(st, _z3bool(PrefixOf(ex.as_str(st, pos[0]), ex.as_str(st, recv))))]


@method(ZV, 'removeprefix')
def _removeprefix(ex, st, recv, pos, named, node):
    if recv.kind not in ('str', 'val'): return None
    s, p = ex.as_str(st, recv), ex.as_str(st, pos[0])
    return [(st, ZV('str', If(PrefixOf(p, s), z3.SubString(s, Length(p), Length(s) - Length(p)), s)))]


# lists / tuples
@method(PSeq, 'append')
@_mutating
def _seq_append(ex, st, recv, pos, named, node):
    return [(st, PSeq(Store(recv.arr, recv.n, to_val(pos[0], st)), recv.n + 1, recv.elem, recv.is_list), P_NONE)]


@method(PSeq, 'extend')
@_mutating
def _seq_extend(ex, st, recv, pos, named, node):
    """list.extend(<sequence>): concatenation"""
    arr2, n2 = seq_of(pos[0], st)
    j = fresh('j', IntSort())
    new = z3.Lambda([j], If(j < recv.n, asel(recv.arr, j), asel(arr2, j - recv.n)))
    return [(st, PSeq(new, recv.n + n2, recv.elem, recv.is_list), P_NONE)]


@method(PTuple, 'append')
@_mutating
def _list_append(ex, st, recv, pos, named, node):
    return [(st, PTuple(recv.items + [pos[0]], True), P_NONE)]


@method(PTuple, 'extend')
@_mutating
def _list_extend(ex, st, recv, pos, named, node):
    v = pos[0]
    if isinstance(v, PTuple): return [(st, PTuple(recv.items + v.items, True), P_NONE)]
    raise Unsupported('list.extend with a symbolic-length sequence')


@builtin(reversed)
def _reversed(ex, st, pos, named, node):
    v, = pos
    if isinstance(v, PTuple): return [(st, PTuple(list(reversed(v.items)), True))]
    if isinstance(v, PConst) and isinstance(v.obj, (tuple, list)): return [(st, PConst(tuple(reversed(v.obj))))]
    arr, n = seq_of(v, st); j = fresh('j', IntSort())
    return [(st, PSeq(z3.Lambda([j], arr[n - 1 - j]), n, getattr(v, 'elem', 'val'), True))]


class PRange(PV):
    """range(n) with a symbolic bound"""
    def __init__(self, n): self.n = n


@builtin(range)
def _range(ex, st, pos, named, node):
    if all(isinstance(p, PConst) for p in pos): return [(st, PConst(range(*[p.obj for p in pos])))]
    if len(pos) != 1: raise Unsupported('range with a symbolic start/step')
    return [(st, PRange(as_kind(pos[0], INT, st)))]


def _all_any(is_all):
    def h(ex, st, pos, named, node):
        v, = pos
        if isinstance(v, PTuple):
            cs = [truth(x, st) for x in v.items]
            return [(st, ZV('bool', (And(*cs) if is_all else Or(*cs)) if cs else BoolVal(is_all)))]
        arr, n = seq_of(v, st); j = fresh('j', IntSort())
        if is_all: return [(st, ZV('bool', ForAll([j], Implies(And(0 <= j, j < n), truthy(arr[j])))))]
        return [(st, ZV('bool', Exists([j], And(0 <= j, j < n, truthy(arr[j])))))]
    return h


BUILTIN_HANDLERS[id(all)] = _all_any(True)
BUILTIN_HANDLERS[id(any)] = _all_any(False)


@method(ZV, 'get')
def _val_get(ex, st, recv, pos, named, node):
    """mapping.get on a value that is a dict"""
    if recv.kind != 'val': return None
    arr = dict_c(Val.dk(recv.z))
    cell = arr[ex.as_str(st, pos[0])]
    dflt = to_val(pos[1], st) if len(pos) > 1 else Val.VNone
    return [(st, ZV('val', If(Opt.is_Some(cell), Opt.v(cell), dflt)))]


def _register_value_classes():
    import edzed.fsm as _f, edzed.block as _b
    def goto(ex, st, pos, named, node):
        v = pos[0] if pos else named['state']
        return [(st, ZV('val', Val.Goto(ex.as_str(st, v))))]
    def eventcond(ex, st, pos, named, node):
        a = pos[0] if len(pos) > 0 else named['etrue']; b = pos[1] if len(pos) > 1 else named['efalse']
        k = fresh('ec', IntSort()); st = st.copy()
        st.assume(ec_true(k) == to_val(a, st), ec_false(k) == to_val(b, st))
        return [(st, ZV('val', Val.EC(k)))]
    BUILTIN_HANDLERS[id(_f.Goto)] = goto
    BUILTIN_HANDLERS[id(_b.EventCond)] = eventcond


_register_value_classes()


@builtin(divmod)
def _divmod(ex, st, pos, named, node):
    a, b = pos
    outs = []
    for s1, q in ex.binop(st, ast.FloorDiv(), a, b, node):
        if isinstance(q, Raise): outs.append((s1, q)); continue
        for s2, m in ex.binop(s1, ast.Mod(), a, b, node):
            outs.append((s2, m if isinstance(m, Raise) else PTuple([q, m])))
    return outs


round_half = Function('py_round', RealSort(), IntSort())              # round(x): nearest integer (ties to even)
round_dec = Function('py_round_dec', RealSort(), IntSort(), RealSort())  # round(x, p) for floats


def round_axioms(x):
    r = ToReal(round_half(x))
    return [r - x <= RealVal('1/2'), x - r <= RealVal('1/2')]


def round_dec_term(x, p_py):
    """round(x, p) for a concrete precision p: the nearest multiple of 10^-p, i.e. round(x * 10^p) / 10^p
    (real-arith: floats as reals; which neighbour is chosen on an exact tie is left open)"""
    scale = 10 ** p_py
    return ToReal(round_half(x * scale)) / scale, round_axioms(x * scale)


@builtin(round)
def _round(ex, st, pos, named, node):
    x = pos[0]
    nk = ex._numkind(x)
    if nk == 'int' and len(pos) == 1: return [(st, x)]
    if nk != 'real': raise Unsupported(f'round({x!r})')
    xz = as_kind(x, REAL, st); st = st.copy()
    ex.spec.note_assumption('real-arith: round() is a spec function with |round(x, p) - x| <= 10^-p / 2 (IEEE-754 rounding not modelled)')
    if len(pos) == 1:
        st.assume(*round_axioms(xz)); return [(st, ZV('int', round_half(xz)))]
    p = pos[1]
    if isinstance(p, PConst) and isinstance(p.obj, int):
        t, ax = round_dec_term(xz, p.obj)
        st.assume(*ax); return [(st, ZV('real', t))]
    h = ex.spec.calls.get('builtin:round')
    if h is not None: return h(ex, st, xz, p, node)
    return [(st, ZV('real', round_dec(xz, as_kind(p, INT, st))))]


@builtin(zip)
def _zip(ex, st, pos, named, node):
    from .loops import static_items, StaticIter
    cols = [static_items(ex, p) for p in pos]
    if any(c is None for c in cols): raise Unsupported('zip of a symbolic-length sequence')
    return [(st, PConst(StaticIter([PTuple(list(t)) for t in zip(*cols)])))]


@builtin(enumerate)
def _enumerate(ex, st, pos, named, node):
    from .loops import static_items, StaticIter
    items = static_items(ex, pos[0])
    if items is None: raise Unsupported('enumerate of a symbolic-length sequence')
    start = named.get('start', pos[1] if len(pos) > 1 else PConst(0))
    return [(st, PConst(StaticIter([PTuple([PConst(start.obj + i), it]) for i, it in enumerate(items)])))]


@method(ZV, 'join')
@method(PConst, 'join')
def _join(ex, st, recv, pos, named, node):
    if isinstance(recv, ZV) and recv.kind not in ('str', 'val'): return None
    if isinstance(recv, PConst) and not isinstance(recv.obj, str): return None
    v = pos[0]
    if not isinstance(v, PTuple): raise Unsupported('str.join of a symbolic-length sequence')
    sep = ex.as_str(st, recv)
    acc = None
    for it in v.items:
        z = ex.as_str(st, it); acc = z if acc is None else Concat(acc, sep, z)
    return [(st, ZV('str', acc if acc is not None else StringVal('')))]


@method(ZV, 'replace')
def _replace(ex, st, recv, pos, named, node):
    if recv.kind not in ('str', 'val'): return None
    if len(pos) == 3 and isinstance(pos[2], PConst) and pos[2].obj == 1:
        return [(st, ZV('str', z3.Replace(ex.as_str(st, recv), ex.as_str(st, pos[0]), ex.as_str(st, pos[1]))))]
    raise Unsupported('str.replace of all occurrences')


str_capitalize = Function('str_capitalize', StringSort(), StringSort())
str_strip = Function('str_strip', StringSort(), StringSort())


@method(ZV, 'capitalize')
def _capitalize(ex, st, recv, pos, named, node):
    if recv.kind not in ('str', 'val'): return None
    return [(st, ZV('str', str_capitalize(ex.as_str(st, recv))))]


@method(ZV, 'strip')
def _strip(ex, st, recv, pos, named, node):
    if recv.kind not in ('str', 'val') or pos: return None
    return [(st, ZV('str', str_strip(ex.as_str(st, recv))))]


@method(ZV, 'pop')
def _heapdict_pop(ex, st, recv, pos, named, node):
    """mapping.pop(key[, default]) on a shared dict object (heap_dicts)"""
    if not (ex.spec.heap_dicts and recv.kind == 'val'): return None
    r = Val.ref(recv.z); arr = st.readz('st_items', r); key = ex.as_str(st, pos[0]); cell = arr[key]
    outs = []
    for s1, present in ex.fork(st, Opt.is_Some(cell), f'L{node.lineno}.pop'):
        if present:
            s1 = s1.copy(); s1.write('st_items', r, PDict(Store(arr, key, Opt.Absent))); outs.append((s1, ZV('val', Opt.v(cell))))
        elif len(pos) > 1: outs.append((s1, pos[1]))
        else: outs.append((s1, ex.raise_(s1, 'KeyError', where='method')))
    return outs


@method(ZV, 'keys')
def _heapdict_keys(ex, st, recv, pos, named, node):
    if not (ex.spec.heap_dicts and recv.kind == 'val'): return None
    arr = st.readz('st_items', Val.ref(recv.z)); k = fresh('k', StringSort())
    return [(st, PSet(z3.Lambda([k], Opt.is_Some(arr[k])), 'str'))]


# ---- sequence.count(x): number of items equal to x (uninterpreted beyond its bounds: which items are equal to x is py_eq's business) ---------------
seq_count_eq = Function('seq_count_eq', SeqArr, IntSort(), Val, IntSort())


def _seq_count(ex, st, recv, pos, named, node):
    if isinstance(recv, ZV) and recv.kind != 'val': return None
    if len(pos) != 1: return None
    arr, n = seq_of(recv, st)
    r = seq_count_eq(arr, n, to_val(pos[0], st))
    st = st.copy(); st.assume(0 <= r, r <= n)
    return [(st, ZV('int', r))]


for _w in (ZV, PSeq, PTuple): METHOD_HANDLERS[(_w, 'count')] = _seq_count


# ---- str.split(sep): a non-empty list of strings (which pieces: uninterpreted function of the string and the separator) ---------------------------
str_split = Function('str_split', StringSort(), StringSort(), IntSort())         # -> tuple key of the resulting list


def _str_split(ex, st, recv, pos, named, node):
    if named or len(pos) > 2: return None
    if isinstance(recv, ZV) and recv.kind not in ('str', 'val'): return None
    if not pos: return None
    outs = []
    z = to_val(recv, st)
    for s1, is_s in ex.fork(st, Val.is_S(z), f'L{node.lineno}.split_str'):
        if not is_s:
            outs.append((s1, Raise(PExc('AttributeError', val=Val.Obj(fresh('exc', IntSort())), where='call')))); continue
        sep = ex.as_str(s1, pos[0])
        k = str_split(Val.s(z), sep) if len(pos) == 1 else fresh('split', IntSort())       # with maxsplit: some list of strings
        j = Int('j!sp')
        s1 = s1.copy()
        s1.assume(tup_len(k) >= 1, Not(tup_is_tuple(k)), ForAll([j], Implies(And(0 <= j, j < tup_len(k)), Val.is_S(tup_item(k, j)))))
        if len(pos) == 2: s1.assume(tup_len(k) <= 1 + as_kind(pos[1], INT, s1))
        outs.append((s1, ZV('val', Val.T(k))))
    return outs


for _w in (ZV, PConst): METHOD_HANDLERS[(_w, 'split')] = _str_split
