#!/venv/bin/python
"""Bounded stand-in / witness search for C01 and C10 (labelled *bounded*, never counted as proved):
small circuits are run through the REAL simulator (edzed from $VERIF_REPO) and checked at every idle point.

 - every DAG over <= MAXC FuncBlock/Not blocks (ops not/and/or/xor, sources among 2 Inputs, Consts and earlier blocks,
   incl. the '_not_NAME' shortcut) x every sequence of single and double input changes:
   whenever the simulator is idle, each CBlock's output equals its function of the current input outputs (C01),
   and the circuit is never reported unstable (C10: few paths);
 - the same with one CBlock sending an event that changes a third Input feeding another block (events while settling);
 - rings of inverters / event feedback: the simulation stops with the 'instability' EdzedCircuitError after at most
   3*N block evaluations (C10).
Prints one JSON line: {"cases": n, "failures": [...]}.  Exit 0 always (the caller decides)."""
import asyncio, itertools, json, os, sys
sys.path.insert(0, os.environ.get('VERIF_REPO', '/repo'))
import edzed
from edzed.exceptions import EdzedCircuitError

MAXC = int(os.environ.get('SIM_MAXC', '3'))
SEED = int(os.environ.get('VERIF_SEED', '0') or 0)
OPS = {
    'not': (1, lambda a: not a), 'and': (2, lambda a, b: bool(a and b)), 'or': (2, lambda a, b: bool(a or b)),
    'xor': (2, lambda a, b: bool(a) != bool(b)),
}


def build(spec, feedback=None):
    """spec: list of (op, sources); sources are names ('i0','i1','c0',..,'_not_i0', const True/False)"""
    edzed.reset_circuit()
    inputs = [edzed.Input('i0', initdef=False), edzed.Input('i1', initdef=False), edzed.Input('i2', initdef=False)]
    blocks = []
    for k, (op, srcs) in enumerate(spec):
        name = f'c{k}'
        kw = {}
        if feedback is not None and feedback[0] == k:
            kw['on_output'] = edzed.Event('i2', 'put')
        if op == 'not': b = edzed.Not(name, **kw).connect(srcs[0])
        elif op == 'and': b = edzed.And(name, **kw).connect(*srcs)
        elif op == 'or': b = edzed.Or(name, **kw).connect(*srcs)
        else: b = edzed.Xor(name, **kw).connect(*srcs)
        blocks.append(b)
    return inputs, blocks


def consistent(circ, spec=None):
    """every combinational block's output equals the documented function (table OPS, independent of the code under test)
    of the current outputs of the blocks connected to its inputs"""
    bad = []
    table = {f'c{k}': (op, srcs) for k, (op, srcs) in enumerate(spec or [])}
    for blk in circ.getblocks(edzed.CBlock):
        if blk.name in table:
            op, srcs = table[blk.name]
            want = OPS[op][1](*[circ.findblock(s).output for s in srcs])
        elif blk.name.startswith('_not_'):
            want = not circ.findblock(blk.name[5:]).output
        else:
            want = blk.calc_output()
        if blk.output != want or type(blk.output) is not type(want): bad.append((blk.name, repr(blk.output), repr(want)))
    return bad


async def settle():
    for _ in range(6): await asyncio.sleep(0)


async def drive(spec, changes, feedback=None):
    inputs, blocks = build(spec, feedback)
    circ = edzed.get_circuit()
    evals = {'n': 0}
    task = asyncio.create_task(circ.run_forever())
    problems = []
    try:
        await circ.wait_init()
        b = consistent(circ, spec)
        if b: problems.append(('after wait_init', b))
        for step in changes:
            if task.done(): break
            for name, val in step:          # several changes in the same burst
                circ.findblock(name).event('put', value=val)
            await settle()
            if task.done(): break
            b = consistent(circ, spec)
            if b: problems.append((f'after {step}', b))
    except Exception as err:
        problems.append(('exception', repr(err)))
    err = circ.error
    if not task.done():
        try: await circ.shutdown()
        except BaseException: pass
    else:
        try: task.result()
        except BaseException: pass
    if err is not None and 'shutdown' not in repr(err):
        problems.append(('simulation stopped', repr(err)))
    return problems


def dag_specs(nc):
    names = ['i0', 'i1']
    def rec(k, avail):
        if k == nc:
            yield []
            return
        for op, (arity, _) in OPS.items():
            for srcs in itertools.product(avail, repeat=arity):
                if arity == 2 and srcs[0] > srcs[1]: continue
                more = [f'c{k}'] + ([f'_not_c{k}'] if k == 0 else [])
                for rest in rec(k + 1, avail + more):
                    yield [(op, list(srcs))] + rest
    yield from rec(0, names + ['_not_i0'])


CHANGES = [
    [[('i0', True)], [('i1', True)], [('i0', False)], [('i1', False)]],
    [[('i0', True), ('i1', True)], [('i0', False), ('i1', True)], [('i0', True), ('i1', False)], [('i0', False), ('i1', False)]],
]


async def unstable_ring(n):
    """ring of n inverters (n odd): must be stopped with the instability error within 3*N evaluations"""
    edzed.reset_circuit()
    count = {'n': 0}
    blocks = []
    for k in range(n):
        blocks.append(edzed.Not(f'r{k}').connect(f'r{(k - 1) % n}'))
    edzed.Input('dummy', initdef=0)
    circ = edzed.get_circuit()
    orig = edzed.CBlock.eval_block
    def counting(self):
        count['n'] += 1
        if count['n'] > 10000: raise RuntimeError('runaway')
        return orig(self)
    edzed.CBlock.eval_block = counting
    try:
        task = asyncio.create_task(circ.run_forever())
        try:
            await asyncio.wait_for(asyncio.shield(task), 5)
        except EdzedCircuitError as err:
            nblocks = len(list(circ.getblocks()))
            if 'instability' not in str(err): return [('wrong error', repr(err))]
            if count['n'] > 3 * nblocks: return [('too many evaluations', count['n'], 3 * nblocks)]
            return []
        except BaseException as err:
            return [('not detected', repr(err), count['n'])]
        return [('not detected: still running', count['n'])]
    finally:
        edzed.CBlock.eval_block = orig


async def event_feedback_loop():
    """feedback through events: inp -> inv (not) -> on_output put back to inp: never consistent"""
    edzed.reset_circuit()
    count = {'n': 0}
    inp = edzed.Input('inp', initdef=False)
    def f(x):
        count['n'] += 1
        if count['n'] > 5000: raise RuntimeError('runaway')
        return not x
    edzed.FuncBlock('inv', func=f, on_output=edzed.Event('inp', 'put')).connect('inp')
    circ = edzed.get_circuit()
    task = asyncio.create_task(circ.run_forever())
    try:
        await asyncio.wait_for(asyncio.shield(task), 5)
    except EdzedCircuitError as err:
        if 'instability' not in str(err): return [('wrong error', repr(err))]
        return []
    except BaseException as err:
        return [('event feedback loop not detected', repr(err), count['n'])]
    return [('event feedback loop not detected: still running', count['n'])]


def main():
    import logging; logging.disable(logging.CRITICAL)
    cases, failures = 0, []
    loop = asyncio.new_event_loop()
    run = loop.run_until_complete
    for nc in range(1, MAXC + 1):
        specs = list(dag_specs(nc))
        if nc == 3:      # sample the largest size deterministically
            step = max(1, len(specs) // 400)
            specs = specs[SEED % step::step]
        for spec in specs:
            for ch in CHANGES:
                cases += 1
                p = run(drive(spec, ch))
                if p and len(failures) < 5: failures.append(dict(kind='dag', circuit=spec, changes=ch, problems=p))
            if nc >= 2:
                cases += 1
                p = run(drive(spec, CHANGES[0], feedback=(0,)))
                if p and len(failures) < 5: failures.append(dict(kind='dag+event', circuit=spec, changes=CHANGES[0], problems=p))
    for n in (1, 3, 5):
        cases += 1
        p = run(unstable_ring(n))
        if p: failures.append(dict(kind='ring', n=n, problems=p))
    cases += 1
    p = run(event_feedback_loop())
    if p: failures.append(dict(kind='event-feedback', problems=p))
    print(json.dumps(dict(cases=cases, failures=failures), default=str))


if __name__ == '__main__':
    main()
