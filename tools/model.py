#!/usr/bin/env python3-vt
"""dev tool: show a counter-model of the first refuted query of an obligation
usage: PYTHONPATH=/verif:/repo python3-vt tools/model.py Cnn <label of the verify() call> <substring of obligation name>"""
import sys, importlib
sys.path.insert(0, '/verif'); sys.path.insert(0, '/repo')
from pyvc import main
import z3
prop, lab, pat = sys.argv[1], sys.argv[2], sys.argv[3]
m = importlib.import_module(f'specs.{prop.lower()}')


class R(main.Run):
    def verify(self, k, **kw):
        kk = kw.get('label') or (k if isinstance(k, str) else k.key)
        return super().verify(k, **kw) if kk == lab else []
    def bounded_native(self, *a, **k): pass


def walk(md, t, depth=0, maxd=3):
    if depth > maxd: return
    try: print('  ' * depth, str(t)[:140].replace('\n', ' '), '=>', str(md.eval(t, model_completion=True))[:80])
    except Exception: pass
    for ch in t.children()[:8]: walk(md, ch, depth + 1, maxd)


run = R(prop, 'quick', 0); m.build(run)
for o in run.obligations:
    if pat in o.name and o.kind != 'canary':
        s = z3.Solver(); s.set('timeout', 10000); s.add(*o.hyps); s.add(z3.Not(o.goal))
        if s.check() == z3.sat:
            md = s.model(); print(o.name, o.labels)
            for d in md.decls():
                if d.arity() == 0: print('  ', d.name(), str(md[d])[:100])
            walk(md, o.goal, maxd=int(sys.argv[4]) if len(sys.argv) > 4 else 3)
            break
