"""Circuit._simulate: the evaluation loop (C01 idle => consistent, C10 bounded bursts).  DESIGN section 3, C01/C10.

Vocabulary: isC(b) - b is a combinational block; feeds(a, b) - a's output is connected to an input of b;
calc(b, out) - the value of b.calc_output() when the outputs are `out`; consistent(b, out) := out[b] == calc(b, out)."""
import z3
from pyvc.sorts import *
from pyvc.values import *
from pyvc.state import declare_fields, View
from pyvc.contract import contract, CONTRACTS, Param
from pyvc.engine import Raise, NEXT
from pyvc import calls
from specs.common import *
from specs.c02 import calc, calc_raises

declare_fields(_blocks=Map(STR, Ref('Block')))
OutMap = ArraySort(IntSort(), Val)
feeds = Function('feeds', IntSort(), IntSort(), BoolSort())
b_, a_, s_ = Int('b!s'), Int('a!s'), Int('s!s')


def isC(b): return calls.inst_of(b, calls.C_class('CBlock'))


def isS(b): return calls.inst_of(b, calls.C_class('SBlock'))


def consistent(out, b): return py_eq(out[b], calc(b, out))


def frame_ax(o1, o2):
    """calc_output of a block depends only on its own output and on the outputs of the blocks feeding it
    (contracts of the calc_output functions, C01) -- instance for one pair of output maps"""
    return ForAll([b_], Implies(And(o1[b_] == o2[b_], ForAll([a_], Implies(feeds(a_, b_), o1[a_] == o2[a_]))),
                                calc(b_, o1) == calc(b_, o2)))


def note_out(st):
    """generator-side instantiation of the frame axiom for every pair of output maps seen on this path"""
    o = st.comp('_output', Val)
    seen = list(st.ghost.get('outs_seen') or [])
    for p in seen:
        if not p.eq(o): st.assume(frame_ax(p, o))
    if not any(p.eq(o) for p in seen): seen.append(o)
    st.ghost['outs_seen'] = seen


def wired(st, circ):
    """result of Circuit.finalize (C15): oconnections is exactly the `feeds` relation, and only CBlocks have inputs"""
    oc = st.comp('oconnections', RefSet)
    return [ForAll([a_, b_], oc[a_][b_] == feeds(a_, b_)), ForAll([a_, b_], Implies(feeds(a_, b_), isC(b_)))]


def qset(st, q): return st.comp('q_set', RefSet)[q]


def delivery_step(st, q, out1):
    """environment step of event delivery (guarantee G_set, proved for set_output under C02): no combinational output
    changes, every sequential block whose output changed is in the queue afterwards, the queue only grows"""
    out2 = fresh('H__output', OutMap)
    q1 = st.comp('q_set', RefSet)
    qq2 = fresh('qset', RefSet)
    st.heap['_output'] = out2
    st.heap['q_set'] = Store(q1, q, qq2)
    st.assume(ForAll([b_], Implies(isC(b_), out2[b_] == out1[b_])),
              ForAll([b_], Implies(out2[b_] != out1[b_], qq2[b_])),
              ForAll([b_], Implies(q1[q][b_], qq2[b_])),
              ForAll([b_], Implies(qq2[b_], Or(q1[q][b_], Not(isC(b_))))),      # only sequential blocks are ever queued
              ForAll([b_], Implies(out1[b_] != Val.Undef, out2[b_] != Val.Undef)))   # no output returns to UNDEF (set_output refuses it, C02)
    note_out(st)


# ---- contracts of what _simulate calls -------------------------------------------------------------------------------------
def c_getblocks_cblock(ex, e, st):
    """set(self.getblocks(block.CBlock)): all combinational blocks of the circuit"""
    return [(st, PSet(z3.Lambda([b_], isC(b_)), 'ref'))]


def c_len_blocks(ex, e, st):
    n = st.ghost['nblocks']
    return [(st, ZV('int', n))]


def _queue_of(st):
    return st.readz('sblock_queue', as_kind(st.env['self'], Ref(), st))


def c_queue_empty(ex, e, st):
    q = _queue_of(st)
    return [(st, ZV('bool', Not(Exists([s_], qset(st, q)[s_]))))]


def _take(st, q):
    got = fresh('sblk', IntSort())
    q1 = st.comp('q_set', RefSet)
    st.assume(q1[q][got], Not(isC(got)))
    # the taken block may have been queued several times: after the removal it may or may not still be in the queue
    q3 = fresh('qset', RefSet)
    st.heap['q_set'] = Store(q1, q, q3)
    st.assume(ForAll([b_], Implies(And(q1[q][b_], b_ != got), q3[b_])), ForAll([b_], Implies(q3[b_], q1[q][b_])))
    return ZV('ref', got, 'SBlock')


def c_get_nowait(ex, e, st):
    st = st.copy(); q = _queue_of(st)
    return [(st, _take(st, q))]


def await_queue_get(ex, node, st):
    """`await queue.get()`: the idle point.  Obligation: every combinational block is consistent here (C01).
    Then the environment runs (rely = G_set*) until some block is queued; a new burst starts (C10)."""
    q = _queue_of(st)
    out = st.comp('_output', Val)
    idle = ForAll([b_], Implies(isC(b_), consistent(out, b_)))
    ex.oblige('await:idle_implies_every_cblock_consistent', st, idle, kind='code')
    # (C05) at every suspension point of the simulation every block has an output: part of the cross-task invariant J
    ex.oblige('await:every_block_has_an_output_when_idle', st, ForAll([b_], Implies(Or(isC(b_), isS(b_)), out[b_] != Val.Undef)), kind='code')
    st = st.copy(); st.assume(idle)            # proved just above: available from here on
    s2 = st.copy()
    delivery_step(s2, q, out)
    s2.ghost['burst'] = IntVal(0)
    res = _take(s2, q)
    outs = [(s2, res)]
    ca = st.copy(); delivery_step(ca, q, out); ca.label('await:cancelled')
    outs.append((ca, Raise(PExc('CancelledError', val=Val.Obj(fresh('exc', IntSort())), where='callee'))))
    return outs


def c_eval_block(ex, e, st):
    """cblk.eval_block() as seen by the simulator: contract of CBlock.eval_block (C02) + the delivery guarantee G_set
    + the block-level lemma idem (proved per class in C01)"""
    outs = []
    c = as_kind(st.env['cblk'], Ref(), st)
    q = _queue_of(st)
    out = st.comp('_output', Val)
    v = calc(c, out)
    chg = Not(py_eq(out[c], v))
    ex.oblige('call:eval_block/pre:only_combinational_blocks_are_evaluated', st, isC(c), kind='pre')
    for changed in (True, False):
        s2 = st.copy()
        s2.assume(chg if changed else Not(chg), v != Val.Undef, Not(calc_raises(c, out)))
        out1 = Store(out, c, v) if changed else out
        if changed:
            s2.heap['_output'] = out1; note_out(s2)
            s2.assume(py_eq(v, calc(c, out1)))             # idem(c): re-evaluating right away gives an equal value
            delivery_step(s2, q, out1)
        s2.ghost['burst'] = s2.ghost['burst'] + 1
        s2.label(f'eval_block:changed={changed}')
        if ex.feasible(s2): outs.append((s2, PConst(changed)))
    for cls in ('OtherException', 'ValueError', 'DeliveryError'):
        s3 = st.copy(); s3.ghost['burst'] = s3.ghost['burst'] + 1; s3.label(f'eval_block:raises:{cls}')
        if cls == 'DeliveryError':
            s3.assume(chg, v != Val.Undef); out1 = Store(out, c, v); s3.heap['_output'] = out1; note_out(s3); delivery_step(s3, q, out1)
        outs.append((s3, Raise(PExc(cls, val=Val.Obj(fresh('exc', IntSort())), where='callee'))))
    return outs


def c_len_evalset(ex, st, v, node):
    if isinstance(v, PMap): return [(st, ZV('int', st.ghost['nblocks']))]      # len(self._blocks)
    n = fresh('card', IntSort()); st = st.copy()
    st.assume(n >= 0, (n > 0) == truth(v, st))
    return [(st, ZV('int', n))]


def idep(st, x, S):
    """number of inputs of block x that are connected to a block of the set S (the value select_blk computes for x)"""
    y = Int('y!idep')
    ic = st.comp('iconnections', RefSet) if not hasattr(st, 'whole') else st.whole('iconnections')
    return calls.refset_card(z3.Lambda([y], And(ic[x][y], S[y])))


@contract('Circuit._simulate.select_blk', qual='edzed.simulator:Circuit._simulate.<locals>.select_blk', params={'block_set': REFSET},
          modifies=(), result=Ref('CBlock'))
def _select_blk(c):
    S = c.z('block_set')
    r = as_kind(c.result, Ref())
    x = Int('x!sb')
    c.requires('set_not_empty', Exists([s_], S[s_]))
    c.ensures('returns_a_member', S[r])
    # the evaluation order heuristic (docstring of select_blk; C10: a change that reaches every block along few paths settles within the
    # limit only if blocks whose inputs are still pending wait for them): no member has fewer inputs pending inside the set
    c.ensures('no_member_has_fewer_inputs_from_within_the_set', ForAll([x], Implies(S[x], idep(c.S, r, S) <= idep(c.S, x, S))))
    x0 = Int('x0!sb')
    c.ensures('fewest_inputs_from_within_the_set@x0', Implies(S[x0], idep(c.S, r, S) <= idep(c.S, x0, S)))


def inv_select(lc):
    S = as_kind(lc.pre.args['block_set'], REFSET)
    mb, mi = lc.local('min_blk'), lc.local('min_idep')
    mbz, miz = to_val(mb, lc.st.st), to_val(mi, lc.st.st)
    x = Int('x!sel')
    dep = lambda b: idep(lc.pre, b, S)
    return [('min_blk_is_none_or_a_member_with_its_count', Or(And(mbz == Val.VNone, miz == Val.VNone),
                                                             And(Val.is_Obj(mbz), S[Val.ref(mbz)], miz == Val.I(dep(Val.ref(mbz)))))),
            ('found_once_something_was_visited', Implies(Exists([x], lc.done[x]), mbz != Val.VNone)),
            ('no_visited_member_has_fewer', ForAll([x], Implies(lc.done[x], And(mbz != Val.VNone, dep(Val.ref(mbz)) <= dep(x)))))]


# ---- the loop invariant (C01 + C10) ------------------------------------------------------------------------------------------
def INV(lc):
    st = lc.st.st
    note_out(st)          # the output map at this point takes part in the frame-axiom instances
    me = as_kind(lc.pre.args['self'], Ref())
    es = as_kind(lc.local('eval_set'), REFSET)
    out = st.comp('_output', Val)
    q = st.readz('sblock_queue', me)
    qs = qset(st, q)
    cnt, lim = as_kind(lc.local('eval_cnt'), INT, st), as_kind(lc.local('eval_limit'), INT, st)
    n = st.ghost['nblocks']
    return [('stale_blocks_are_scheduled', ForAll([b_], Implies(isC(b_), Or(es[b_], Exists([s_], And(qs[s_], feeds(s_, b_))), consistent(out, b_))))),
            ('only_cblocks_in_eval_set', ForAll([b_], Implies(es[b_], isC(b_)))),
            ('every_block_has_an_output_or_is_scheduled', ForAll([b_], Implies(Or(isC(b_), isS(b_)), Or(And(isC(b_), es[b_]), out[b_] != Val.Undef)))),
            ('burst_counter', And(st.ghost['burst'] == cnt, cnt >= 0, cnt <= lim, lim == 3 * n)),
            ('queue_is_the_circuit_queue', st.readz('sblock_queue', me) == lc.pre.f('sblock_queue', me))]


@contract('Circuit._simulate', qual='edzed.simulator:Circuit._simulate', modifies=DELIVERY, self_cls='Circuit')
def _simulate(c):
    me = c.z('self')
    n = c.S.g('nblocks')
    c.requires('block_count', n >= 0)
    c.requires('sequential_blocks_are_initialised', ForAll([b_], Implies(isS(b_), c.pre_whole('_output')[b_] != Val.Undef)))
    c.raises('CancelledError', unchanged=False, label='runs_until_cancelled')
    c.raises('EdzedCircuitError', unchanged=False, label='instability_only_after_the_evaluation_limit',
             ensures=lambda post, exc: [post.g('burst') == 3 * n])
    for cls in ('OtherException', 'ValueError', 'DeliveryError'):
        c.raises(cls, unchanged=False, label=f'evaluation_error_propagates:{cls}')
    c.ensures('never_returns', BoolVal(False))


def verify_simulate(run):
    G = {'nblocks': Int('nblocks'), 'burst': IntVal(0), 'outs_seen': None}
    def extra_pre(pre):
        st = pre.st
        me = as_kind(pre.args['self'], Ref())
        hyps = wired(st, me)
        note_out(st)
        return hyps
    run.verify('Circuit._simulate.select_blk', invariants={'for blk in block_set': inv_select})
    run.verify('Circuit._simulate', cls='Circuit', ghost=G, extra_pre=extra_pre,
               invariants={'while True': INV, 'while not queue.empty()': INV},
               calls={'set': c_getblocks_cblock, 'queue.empty': c_queue_empty, 'queue.get_nowait': c_get_nowait,
                      'cblk.eval_block': c_eval_block, 'builtin:len': c_len_evalset},
               hooks={'await': awaits({'queue.get()': await_queue_get})})
