"""C09 - the first error stops the simulation and is the one that gets reported.  DESIGN section 3, C09."""
import z3
from pyvc.sorts import *
from pyvc.values import *
from pyvc.state import declare_fields, View
from pyvc.contract import contract, CONTRACTS, Param
from pyvc.engine import Raise
from pyvc import calls, scan
from specs.common import *
from specs import event_entry, event_send
from specs.event_entry import handler_effects, error_write_once

CE = lambda: calls.exc_cls('CancelledError')
ECE = lambda: calls.exc_cls('EdzedCircuitError')


def abort_rec_pred(r, circ, cls):
    return And(Rec.fn(r) == StringVal('abort'), Rec.recv(r) == Val.Obj(circ), Val.is_Obj(Rec.a0(r)), calls.inst_of(Val.ref(Rec.a0(r)), cls))


# ---- ControlBlock: the documented 'shutdown' and 'abort' events --------------------------------------------------------
@contract('ControlBlock._event_shutdown', qual='edzed.blocklib.sblocks1:ControlBlock._event_shutdown',
          modifies=('_error', 'cancel_requested'), self_cls='ControlBlock')
def _cb_shutdown(c):
    circ = c.pre('circuit', c.z('self'))
    if c.verifying:
        c.expect_trace(lambda k, r, st: And(k == 0, abort_rec_pred(r, circ, CE())), 1, predicate=True)


@contract('ControlBlock._event_abort', qual='edzed.blocklib.sblocks1:ControlBlock._event_abort',
          modifies=('_error', 'cancel_requested', '__cause__'), self_cls='ControlBlock')
def _cb_abort(c):
    circ = c.pre('circuit', c.z('self'))
    error = c.v('error')
    is_exc = And(Val.is_Obj(error), calls.inst_of(Val.ref(error), Exception))
    if c.verifying:
        c.expect_trace(lambda k, r, st: And(k == 0, abort_rec_pred(r, circ, ECE()),
                                            Implies(is_exc, st.readz('__cause__', Val.ref(Rec.a0(r))) == error)), 1, predicate=True)


# ---- AddonAsync._task_monitor -------------------------------------------------------------------------------------------
coro_result = Function('coro_result', Val, Val)


def await_coro(ex, node, st):
    """`await coro`: the monitored coroutine runs (environment steps) and returns, fails, or is cancelled"""
    outs = []
    for s1, cv in ex.ev(node, st):
        cz = to_val(cv, s1)
        ok = handler_effects(ex, s1); outs.append((ok, ZV('val', coro_result(cz))))
        for cls in ('OtherException', 'CancelledError'):
            b = handler_effects(ex, s1); ev = Val.Obj(fresh('exc', IntSort())); b.ghost['coro_exc'] = ev; b.label(f'coro:raises:{cls}')
            outs.append((b, Raise(PExc(cls, val=ev, where='callee'))))
    return outs


@contract('AddonAsync._task_monitor', qual='edzed.addons:AddonAsync._task_monitor',
          modifies=event_entry.HANDLER_EFFECTS, self_cls='AddonAsync')
def _task_monitor(c):
    me, coro, is_service = c.z('self'), c.v('coro'), c.v('is_service')
    circ = c.pre('circuit', me)
    c.raises('CancelledError', unchanged=False, label='cancellation_is_not_an_error',
             ensures=lambda post, exc: [post.tn == 0, exc == post.g('coro_exc')])
    c.raises('OtherException', unchanged=False, label='task_error_aborts_the_simulation',
             ensures=lambda post, exc: [post.tn == 1, exc == post.g('coro_exc')])
    c.raises('EdzedCircuitError', when=truthy(is_service), unchanged=False, label='service_task_must_not_return',
             ensures=lambda post, exc: [post.tn == 1])
    c.ensures('plain_task_returns_its_result', And(Not(truthy(is_service)), c.rv == coro_result(coro), c.T.tn == 0))
    if c.verifying:
        def expected(k, r, st):
            return And(k == 0, Rec.fn(r) == StringVal('abort'), Rec.recv(r) == Val.Obj(circ),
                       Or(Rec.a0(r) == (st.ghost.get('coro_exc') if st.ghost.get('coro_exc') is not None else Val.VNone),
                          And(Val.is_Obj(Rec.a0(r)), calls.inst_of(Val.ref(Rec.a0(r)), ECE()), BoolVal(st.ghost.get('coro_exc') is None))))
        c.expect_trace(expected, 1, normal_len=None, predicate=True)


def build(run):
    event_entry.verify_event(run)
    run.verify('ControlBlock._event_shutdown', cls='ControlBlock')
    run.verify('ControlBlock._event_abort', cls='ControlBlock')
    run.verify('AddonAsync._task_monitor', cls='AddonAsync', hooks={'await': awaits({'coro': await_coro})})
    from specs import c14
    run.verify('Circuit.is_ready')

    # ---- invariant W: Circuit._error is write-once -------------------------------------------------------------------------
    w = scan.attr_writers('_error')
    run.scan('writers_of__error', w == ['edzed/simulator.py:Circuit.__init__', 'edzed/simulator.py:Circuit.abort', 'edzed/simulator.py:Circuit.run_forever'],
             f'Circuit._error is assigned only by the constructor (None), abort() and the handler in run_forever: {w}')
    import ast
    guarded = _run_forever_error_store_guarded()
    run.scan('run_forever_records_error_only_if_none', guarded,
             'the assignment `self._error = err` in run_forever is the body of `if self._error is None:` inside the except clause')
    e0, e1, exc = Const('e0', Val), Const('e1', Val), Const('exc', Val)
    run.lemma('write_once/later_abort_calls_never_replace_the_first_error',
              [e0 != Val.VNone, e1 == If(e0 != Val.VNone, e0, exc)], e1 == e0)
    st, err = Const('simtask', Val), Const('err', Val)
    rdy = lambda t, e: And(t != Val.VNone, e == Val.VNone)
    run.lemma('not_ready_stays_not_ready', [st != Val.VNone, Not(rdy(st, e0)), e1 == If(e0 != Val.VNone, e0, exc)], Not(rdy(st, e1)))
    w = scan.attr_writers('_simtask')
    run.scan('writers_of__simtask', w == ['edzed/simulator.py:Circuit.__init__', 'edzed/simulator.py:Circuit.run_forever'], f'{w}')

    run.unclaim("err.__traceback__.tb_next introspection is abstracted to one boolean: 'the exception was raised at the call itself' "
                "(no callee frame) vs inside the handler")
    from specs import lifecycle
    lifecycle.verify_run_forever(run)       # raises Circuit.error = the first recorded error (history variable first_err)
    lifecycle.verify_api(run)
    lifecycle.verify_shutdown(run)          # re-raises it unless it is a cancellation
    lifecycle.lifecycle_scans(run)
    lifecycle.verify_run(run)
    run.assume('A-cancel: user code does not cancel edzed tasks or write private fields')
    run.trust('asyncio.Task.cancel/done; interface contracts of handlers and monitored coroutines')


def _run_forever_error_store_guarded():
    import ast
    for file, tree in scan.trees().items():
        if not file.endswith('simulator.py'): continue
        for n in ast.walk(tree):
            if isinstance(n, ast.AsyncFunctionDef) and n.name == 'run_forever':
                stores = [x for x in ast.walk(n) if isinstance(x, ast.Assign) and any(isinstance(t, ast.Attribute) and t.attr == '_error' for t in x.targets)]
                if len(stores) != 1: return False
                for h in [x for x in ast.walk(n) if isinstance(x, ast.ExceptHandler)]:
                    for s in h.body:
                        if isinstance(s, ast.If) and ast.unparse(s.test) == 'self._error is None' and stores[0] in s.body and len(s.body) == 1 and not s.orelse:
                            return ast.unparse(stores[0].value) == h.name
                return False
    return False
