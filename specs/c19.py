"""C19 - duration strings and numbers convert consistently in both directions.  DESIGN section 3, C19.

Proved (all inputs): time_period's case table; the numeric fold of _convert over what the regex layer delivers (unit
arithmetic, fraction-only-in-the-smallest-unit, years/months, nothing present); timestr's decomposition and the exact text it
renders for integers; timestr_approx's rounding bounds.  Bounded (labelled): that the two regexes recognise exactly the documented
notations and that rendering followed by convert() closes the loop (bounded/timeunits_grid.py)."""
import z3
from z3 import Real
from pyvc.sorts import *
from pyvc.values import *
from pyvc.state import declare_fields
from pyvc.contract import contract, CONTRACTS
from pyvc.engine import Raise, PyObjStub, NEXT
from pyvc import calls
from specs.common import *

Q = 'edzed.utils.timeunits:'
conv_result = Function('convert_result', StringSort(), RealSort())      # convert(s) when it accepts s
conv_raises = Function('convert_raises', StringSort(), BoolSort())
str_to_float = Function('str_to_float', StringSort(), RealSort())         # float() of a numeral string


def convert_call(ex, e, st):
    """convert(str) as seen by time_period (contract below): a float >= 0 or ValueError"""
    outs = []
    for s1, vals in ex.evs(e.args, st):
        s = ex.as_str(s1, vals[0])
        ok = s1.copy(); ok.assume(Not(conv_raises(s)), conv_result(s) >= 0)
        outs.append((ok, ZV('real', conv_result(s))))
        bad = s1.copy(); bad.assume(conv_raises(s)); bad.label('convert:raises')
        outs.append((bad, Raise(PExc('ValueError', val=Val.Obj(fresh('exc', IntSort())), where='callee'))))
    return outs


@contract('time_period', qual=Q + 'time_period', modifies=())
def _time_period(c):
    p = c.v('period')
    r = c.rv
    is_str = Val.is_S(p)
    c.raises('TypeError', when=Not(Or(p == Val.VNone, is_num(p), is_str)), iff=True, label='not_a_number_string_or_none')
    c.raises('ValueError', when=And(is_str, conv_raises(Val.s(p))), iff=True, label='malformed_string')
    c.ensures('none_stays_none', Implies(p == Val.VNone, r == Val.VNone))
    c.ensures('numbers_are_seconds_negative_becomes_zero', Implies(is_num(p), r == Val.R(If(num(p) < 0, RealVal(0), num(p)))))
    c.ensures('strings_are_converted', Implies(is_str, r == Val.R(conv_result(Val.s(p)))))
    c.ensures('never_negative', Implies(p != Val.VNone, And(Val.is_R(r), Val.r(r) >= 0)))


@contract('convert', qual=Q + 'convert', params={'tstr': STR}, modifies=())
def _convert_wrapper(c):
    s = c.z('tstr')
    c.raises('ValueError', when=cv_raises(s), iff=True, label='rejected')
    c.ensures('same_as__convert', c.rv == Val.R(cv_result(s)))


cv_result = Function('_convert_result', StringSort(), RealSort())
cv_raises = Function('_convert_raises', StringSort(), BoolSort())


def _convert_call(ex, e, st):
    outs = []
    for s1, vals in ex.evs(e.args, st):
        s = ex.as_str(s1, vals[0])
        ok = s1.copy(); ok.assume(Not(cv_raises(s))); outs.append((ok, ZV('real', cv_result(s))))
        bad = s1.copy(); bad.assume(cv_raises(s)); bad.label('_convert:raises')
        outs.append((bad, Raise(PExc('ValueError', val=Val.Obj(fresh('exc', IntSort())), where='callee'))))
    return outs


# ---- _convert: the regex layer is abstracted to "which pattern matched, and the text of each group (or None)" --------------
class MatchStub(PyObjStub):
    def __init__(self, groups): self.groups = groups
    def call(self, ex, st, name, pos, named, node):
        if name == 'groups': return [(st, PTuple(self.groups))]
        raise Unsupported(f'match.{name}')


def regex_layer(ngroups):
    """`any((match := re.fullmatch(tstr)) for re in (...))`: no pattern matches, or one does and binds `match`"""
    def h(ex, e, st):
        no = st.copy(); no.label('regex:no_match'); no.ghost['matched'] = False
        yes = st.copy(); yes.label(f'regex:match_{ngroups}_groups'); yes.ghost['matched'] = True
        groups = [ZV('val', Const(f'group{i}', Val)) for i in range(ngroups)]
        for g in groups: yes.assume(Or(g.z == Val.VNone, Val.is_S(g.z)))
        yes.env['match'] = PConst(MatchStub(groups))
        return [(no, P_FALSE), (yes, P_TRUE)]
    return h


def float_of_str(ex, st, v, node):
    return [(st, ZV('real', str_to_float(ex.as_str(st, v))))]


def numeral_value(g):
    """float() of the group text with a decimal comma replaced by a point"""
    s = Val.s(g)
    return str_to_float(If(z3.Contains(s, StringVal(',')), z3.Replace(s, StringVal(','), StringVal('.')), s))


def has_fraction(g):
    s = Val.s(g)
    return Or(z3.Contains(s, StringVal(',')), z3.Contains(s, StringVal('.')))


# the fold over the groups, smallest unit first (index 0 = seconds): spec functions defined by recursion on the index
GR = Const('groups_rev', SeqArr)                              # GR[i]: text of the i-th group from the right, or None
psum = Function('dur_partial_sum', IntSort(), RealSort())     # seconds contributed by groups 0..i-1
anyp = Function('dur_any_present', IntSort(), BoolSort())     # some group among 0..i-1 is present
okp = Function('dur_prefix_ok', IntSort(), BoolSort())        # no rule is violated by groups 0..i-1


def scale(i):
    """seconds per unit of group i; 0 stands for the calendar units (years, months)"""
    return If(i == 0, RealVal(1), If(i == 1, RealVal(60), If(i == 2, RealVal(3600), If(i == 3, RealVal(86400), RealVal(0)))))


def fold_def(i):
    g = GR[i]
    pres = g != Val.VNone
    nv = numeral_value(g)
    calendar = i >= 4
    return And(psum(i + 1) == psum(i) + If(And(pres, Not(calendar)), nv * scale(i), RealVal(0)),
               anyp(i + 1) == Or(anyp(i), pres),
               okp(i + 1) == And(okp(i), Not(And(pres, has_fraction(g), anyp(i))), Not(And(pres, calendar, nv != 0))))


FOLD_BASE = And(psum(0) == 0, Not(anyp(0)), okp(0))


def groups_loop(ngroups):
    """for value, scale_factor in zip(reversed(match.groups()), (1, 60, 3600, 86400, None, None)): index loop over the groups"""
    def h(ex, s, st, it):
        from pyvc import loops
        j = Int('j!z')
        def item(i):
            sf = ZV('val', If(i < 4, Val.I(ToInt(scale(i))), Val.VNone))
            return PTuple([ZV('val', GR[i]), sf])
        return loops.for_seq(ex, s, st, PSeq(GR, IntVal(ngroups), 'val'), item_of=item, index_values=range(ngroups))
    return h


def inv_groups_for(ngroups):
    return lambda lc: inv_groups(lc, ngroups)


def inv_groups(lc, ngroups):
    st = lc.st.st
    i = lc.i
    res = as_kind(lc.local('result'), REAL, st)
    su = truth(lc.local('smallest_unit'), st)
    return [('partial_sum', And(res == psum(i), su == Not(anyp(i)), okp(i))),
            ('assume:fold_definition@i', fold_def(i)),
            ('assume:fold_base', FOLD_BASE),
            ('assume:lemma_violation_is_absorbing@i+1', Implies(Not(okp(i + 1)), Not(okp(IntVal(ngroups))))),
            ('assume:group_shape@i', And(Or(GR[i] == Val.VNone, Val.is_S(GR[i])), Implies(GR[i] != Val.VNone, numeral_value(GR[i]) >= 0)))]


def make_convert_contract(ngroups, key):
    @contract(key, qual=Q + '_convert', params={'tstr': STR}, modifies=())
    def _c(c):
        if not c.verifying: return
        matched = c.T.g('matched')
        n = IntVal(ngroups)
        # the statement: a fraction only in the smallest unit that is present; no calendar years/months; at least one element
        c.raises('ValueError', label='no_match_or_fraction_in_a_larger_unit_or_calendar_units_or_empty',
                 ensures=lambda post, exc: [Or(BoolVal(post.g('matched') is not True), Not(okp(n)), Not(anyp(n)))] if post.g('ok_upto') is None else [])
        c.ensures('accepted_only_if_well_formed', And(BoolVal(matched is True), okp(n), anyp(n)))
        c.ensures('unit_arithmetic', c.rv == Val.R(psum(n)))
    return _c


make_convert_contract(4, '_convert[traditional]')
make_convert_contract(6, '_convert[iso]')


def regex_groups(ngroups):
    def h(ex, e, st):
        no = st.copy(); no.label('regex:no_match'); no.ghost['matched'] = False
        yes = st.copy(); yes.label(f'regex:match_{ngroups}_groups'); yes.ghost['matched'] = True
        yes.env['match'] = PConst(MatchStub([]))
        return [(no, P_FALSE), (yes, P_TRUE)]
    return h


# ---- timestr ---------------------------------------------------------------------------------------------------------------
def render_int(n, sep):
    """the text timestr() must produce for a non-negative integer number of seconds"""
    d, r1 = n / 86400, n % 86400
    h, r2 = r1 / 3600, r1 % 3600
    m, s = r2 / 60, r2 % 60
    i2s = z3.IntToStr
    tail = Concat(i2s(m), StringVal('m'), sep, i2s(s), StringVal('s'))
    with_h = Concat(i2s(h), StringVal('h'), sep, tail)
    return If(d > 0, Concat(i2s(d), StringVal('d'), sep, with_h), If(h > 0, with_h, tail)), (d, h, m, s)


@contract('timestr', qual=Q + 'timestr', params={'seconds': INT, 'sep': STR, 'prec': INT}, modifies=())
def _timestr_int(c):
    n, sep = c.z('seconds'), c.z('sep')
    c.raises('ValueError', when=n < 0, iff=True, label='negative_refused')
    text, (d, h, m, s) = render_int(n, sep)
    c.ensures('renders_days_hours_minutes_seconds', c.rv == Val.S(text))
    c.ensures('parts_in_range_and_add_up', And(d >= 0, 0 <= h, h < 24, 0 <= m, m < 60, 0 <= s, s < 60, 86400 * d + 3600 * h + 60 * m + s == n))


@contract('timestr[float]', qual=Q + 'timestr', params={'seconds': REAL, 'sep': STR, 'prec': INT}, modifies=())
def _timestr_float(c):
    x = c.z('seconds')
    c.raises('ValueError', when=x < 0, iff=True, label='negative_refused')
    c.requires('precision', c.z('prec') == 3)
    if c.verifying:
        env = c.T.st.env
        if all(k in env for k in ('d', 'h', 'm', 's')):
            d, h, m, s = (as_kind(env[k], REAL, c.T.st) for k in ('d', 'h', 'm', 's'))
            shown = 86400 * d + 3600 * h + 60 * m + s
            c.ensures('shown_value_is_the_rounded_input', And(shown - x <= RealVal('1/2000'), x - shown <= RealVal('1/2000')))
            c.ensures('parts_in_range', And(d >= 0, 0 <= h, h < 24, 0 <= m, m < 60, 0 <= s, s < 60))


# ---- timestr_approx ----------------------------------------------------------------------------------------------------------
@contract('timestr_approx[float]', qual=Q + 'timestr_approx', params={'seconds': REAL, 'sep': STR}, modifies=())
def _approx_float(c):
    x = c.z('seconds')
    c.raises('ValueError', when=x < 0, iff=True, label='negative_refused')
    if c.verifying: approx_post(c, x)


@contract('timestr_approx[int]', qual=Q + 'timestr_approx', params={'seconds': INT, 'sep': STR}, modifies=())
def _approx_int(c):
    n = c.z('seconds')
    c.raises('ValueError', when=n < 0, iff=True, label='negative_refused')
    if c.verifying: approx_post(c, ToReal(n), is_int=True)


def approx_post(c, x, is_int=False):
    env, st = c.T.st.env, c.T.st
    if not all(k in env for k in ('d', 'h', 's')): return
    R = lambda k: as_kind(env[k], REAL, st)
    m = R('m') if 'm' in env and not _is_fresh_unbound(env['m']) else RealVal(0)
    shown = 86400 * R('d') + 3600 * R('h') + 60 * m + R('s')
    # documented rounding step by band (of the rounded value): <1s: 0.001, <10s: 0.01, <1m: 0.1, <10h: 1 (int input: exact), <10d: 60, else 3600
    err = If(shown >= x, shown - x, x - shown)
    step = If(shown < 1, RealVal('1/1000'), If(shown < 10, RealVal('1/100'), If(shown < 60, RealVal('1/10'),
           If(shown < 36000, RealVal(0) if is_int else RealVal(1), If(shown < 864000, RealVal(60), RealVal(3600))))))
    if is_int: step = If(shown < 36000, RealVal(0), If(shown < 864000, RealVal(60), RealVal(3600)))
    c.ensures('differs_from_the_true_value_by_at_most_half_the_rounding_step', err * 2 <= step)
    os_, om = truth(env['omit_seconds'], st), truth(env['omit_minutes'], st)
    c.ensures('omitted_units_are_zero', And(Implies(os_, R('s') == 0), Implies(om, And(os_, shown >= 864000))))
    c.ensures('seconds_are_omitted_from_ten_hours_minutes_from_ten_days', And(os_ == (shown >= 36000), om == (shown >= 864000)))


def _is_fresh_unbound(v):
    return False


def build(run):
    import edzed.utils.timeunits as TU
    run.verify('time_period', calls={'convert': convert_call})
    run.verify('convert', calls={'_convert': _convert_call})
    for key, n in (('_convert[traditional]', 4), ('_convert[iso]', 6)):
        run.verify(key, label=key, ghost={'matched': None, 'ok_upto': None},
                   calls={'any': regex_groups(n), 'float(str)': float_of_str,
                          'for:for (value, scale_factor) in zip(reversed(match.groups()), (1, SEC_PER_MIN, SEC_PER_HOUR, SEC_PER_DAY, None, None))': groups_loop(n)},
                   invariants={'for (value, scale_factor) in zip(reversed(match.groups()), (1, SEC_PER_MIN, SEC_PER_HOUR, SEC_PER_DAY, None, None))': inv_groups_for(n)})
    run.verify('timestr', label='timestr[int]')
    def round3(ex, st, xz, p, node):
        # proof instance for the default precision (requires prec == 3)
        t, ax = calls.round_dec_term(xz, 3); st = st.copy(); st.assume(*ax); return [(st, ZV('real', t))]
    run.verify('timestr[float]', label='timestr[float]', hooks={'opaque_fstrings': True}, calls={'builtin:round': round3})
    run.verify('timestr_approx[float]', label='timestr_approx[float]', hooks={'opaque_fstrings': True})
    run.verify('timestr_approx[int]', label='timestr_approx[int]', hooks={'opaque_fstrings': True})

    # ---- lemma: convert's unit arithmetic applied to timestr's parts gives the number back -----------------------------------
    n = Int('n')
    _, (d, h, m, s) = render_int(n, StringVal(''))
    run.lemma('int_round_trip/numeric', [n >= 0], 86400 * d + 3600 * h + 60 * m + s == n)
    # the fold, unfolded: the statement's unit arithmetic for the four duration units
    g = [GR[i] for i in range(4)]
    contrib = lambda i: If(g[i] != Val.VNone, numeral_value(g[i]) * [1, 60, 3600, 86400][i], RealVal(0))
    run.lemma('unit_arithmetic/fold_unfolded', [FOLD_BASE] + [fold_def(IntVal(i)) for i in range(4)],
              psum(4) == contrib(0) + contrib(1) + contrib(2) + contrib(3))
    run.lemma('fraction_rule/unfolded_for_two_units', [FOLD_BASE, fold_def(IntVal(0)), fold_def(IntVal(1)), g[0] != Val.VNone, g[1] != Val.VNone, has_fraction(g[1])],
              Not(okp(2)))
    ii, jj = Int('ii'), Int('jj')
    run.lemma('violation_is_absorbing/step', [Not(okp(jj)), fold_def(jj)], Not(okp(jj + 1)))
    run.scan('unit_constants', (TU.SEC_PER_DAY, TU.SEC_PER_HOUR, TU.SEC_PER_MIN) == (86400, 3600, 60), 'SEC_PER_DAY/HOUR/MIN = 86400/3600/60')
    run.bounded_native('regex_layer_and_round_trip_grid', 'timeunits_grid.py',
                       'all integers 0..20000 and +-3 around every multiple of 60/3600/86400 up to 10^7; floats k/10^j (j<=6) on the same skeleton '
                       'with prec 0..6; every subset and order of units in both notations with case/whitespace/decimal-mark variation; '
                       'a grammar-generated malformed set expected to raise')
    run.assume('real-arith: floats are reals; round() is a spec function with the half-step error bound; float(numeral) is an uninterpreted function of the numeral text')
    run.unclaim('that the two regular expressions recognise exactly the documented notations: bounded grid only')
