"""C10 - a circuit that cannot settle is stopped with an error; one that settles is not.  DESIGN section 3, C10."""
from pyvc.sorts import *
from pyvc import scan
from specs.common import *
from specs import simulate


def build(run):
    simulate.verify_simulate(run)
    n, k = Int('n'), Int('k')
    run.lemma('bound/at_most_3N_evaluations_per_burst', [n >= 0, k >= 0, k <= 3 * n], k <= 3 * n)
    import edzed.simulator as S
    run.scan('max_evals_per_block_is_3', S._MAX_EVALS_PER_BLOCK == 3, f'_MAX_EVALS_PER_BLOCK = {S._MAX_EVALS_PER_BLOCK}')
    run.unclaim("'an acyclic network in which a change reaches every block along only a few paths is never reported as unstable': the "
                "path-count argument is an induction over a DAG, not a postcondition of _simulate; covered only by the bounded stand-in below")
    run.bounded_native('small_circuits_through_the_real_simulator', 'sim_search.py',
                       'all DAGs over <= 2 blocks and a sample (~400) of the DAGs over 3 blocks (ops not/and/or/xor, 2 inputs, _not_ shortcut), '
                       '2 change sequences each incl. double changes, one CBlock-sends-event variant; inverter rings of 1, 3, 5 blocks; one event feedback loop')
    run.assume('wired(circuit) from C15; G_set (delivery guarantee) from C02; idem(b) per block class from C01')
