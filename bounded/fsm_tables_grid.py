#!/venv/bin/python
"""Bounded stand-in for the part of C03/C04 that FSM._build_tables and FSM.__init__ implement (labelled bounded, never counted
as proved): generated FSM definitions are passed through the real class machinery and (a) the control tables are compared with an
independent reading of STATES / TIMERS / EVENTS, (b) every (event, state) pair is then *sent* to a fresh instance and the resulting
state / return value compared with the statement's rule (specific rule beats any-state rule, None target or no rule rejects),
(c) instance keyword parsing (t_STATE, on_enter_/on_exit_, cond_/enter_/exit_) is compared with the documented meaning."""
import asyncio, itertools, json, os, random, sys
sys.path.insert(0, os.environ.get('VERIF_REPO', '/repo'))
import edzed
from edzed import utils

SEED = int(os.environ.get('VERIF_SEED', '0') or 0)
rnd = random.Random(SEED)
cases, failures = 0, []


def fail(msg):
    if len(failures) < 10: failures.append(msg)


def reading(states, timers, events):
    """the statement's reading of a definition, written independently of FSM._build_tables"""
    st = set(states) | set(timers)
    trans, evs = {}, set()
    for ev, frm, nxt in events:
        evs.add(ev)
        keys = [None] if frm is None else [x.strip() for x in (frm.split('|') if isinstance(frm, str) else frm)]
        for k in keys: trans[(ev, k)] = nxt
    return st, evs, trans


def rule(trans, ev, state):
    if (ev, state) in trans: return trans[(ev, state)]
    return trans.get((ev, None))


class FakeTask:
    def done(self): return False
    def cancel(self): pass


def fresh_circuit():
    edzed.reset_circuit()
    c = edzed.get_circuit()
    return c


def start(c):
    c._simtask = FakeTask(); c.sblock_queue = asyncio.Queue(); c.finalize()


def check_definition(states, timers, events, tag):
    global cases
    cases += 1
    try:
        cls = type('Gen', (edzed.FSM,), dict(STATES=list(states), TIMERS=dict(timers), EVENTS=list(events)))
    except Exception as err:
        fail(f'{tag}: definition refused: {err!r}'); return
    st, evs, trans = reading(states, timers, events)
    if cls._ct_states != st or cls._ct_events != evs or cls._ct_transition != trans:
        fail(f'{tag}: control tables differ from the definition: transition={cls._ct_transition!r} expected {trans!r}'); return
    if cls._ct_chainlimit != 3 * len(st): fail(f'{tag}: chain limit {cls._ct_chainlimit}')
    if cls._ct_default_state != (states[0] if states else next(iter(timers))): fail(f'{tag}: default state')
    if cls._ct_timed_event != {s: ev for s, (d, ev) in timers.items()}: fail(f'{tag}: timed events')
    if cls._ct_default_duration != {s: utils.time_period(d) for s, (d, ev) in timers.items()}: fail(f'{tag}: default durations')
    # behaviour: each event in each state
    for s0 in sorted(st):
        for ev in sorted(evs):
            cases += 1
            c = fresh_circuit()
            f = cls('f', initdef=s0, **{f't_{s}': float('inf') for s in timers})      # never-expiring timers: only the table is exercised
            start(c)
            c.init_sblock(f, full=True)
            if f.state != s0: fail(f'{tag}: initial state {f.state!r} != {s0!r}'); continue
            try: ret = f.event(ev)
            except Exception as err: fail(f'{tag}: event {ev!r} in {s0!r} raised {err!r}'); continue
            want = rule(trans, ev, s0)
            if want is None:
                if ret is not False or f.state != s0: fail(f'{tag}: event {ev!r} in state {s0!r} must be rejected (rule {want!r}); got {ret!r}, state {f.state!r}')
            elif ret is not True or f.state != want:
                fail(f'{tag}: event {ev!r} in state {s0!r} must lead to {want!r}; got {ret!r}, state {f.state!r}')


def definitions():
    S = ['a', 'b', 'c']
    # hand-made shapes: any-state rule + specific rule, None targets, '|' lists with blanks, sequences, timed states with table events and Goto
    yield S, {}, [('go', None, 'b'), ('go', 'b', None)], 'anystate+none'
    yield S, {}, [('go', None, 'c'), ('go', 'a', 'b'), ('go', 'c', None)], 'anystate+specific+none'
    yield S, {}, [('go', 'a | b', 'c'), ('back', ['c'], 'a'), ('stay', ('a', ' b '), None)], 'lists'
    yield S, {}, [('x', None, None)], 'all-none'
    yield ['a'], {'t': (1, 'tick')}, [('tick', 't', 'a'), ('go', 'a', 't')], 'timed-table-event'
    yield ['a'], {'t': ('1m', edzed.Goto('a'))}, [('go', None, 't'), ('go', 't', None)], 'timed-goto'
    yield [], {'t1': (0, 'n'), 't2': (None, 'n')}, [('n', 't1', 't2'), ('n', 't2', 't1')], 'timers-only'
    # generated
    for k in range(60):
        n = rnd.randint(1, 3); states = S[:n]
        evs = ['e1', 'e2'][:rnd.randint(1, 2)]
        events, used = [], set()
        for ev in evs:
            for _ in range(rnd.randint(1, 3)):
                kind = rnd.choice(['none', 'one', 'bar', 'seq'])
                if kind == 'none': frm, keys = None, [None]
                elif kind == 'one': x = rnd.choice(states); frm, keys = x, [x]
                else:
                    xs = rnd.sample(states, rnd.randint(1, n))
                    frm = ' | '.join(xs) if kind == 'bar' else tuple(xs); keys = xs
                if any((ev, kk) in used for kk in keys): continue
                used.update((ev, kk) for kk in keys)
                events.append((ev, frm, rnd.choice(states + [None])))
        if events: yield states, {}, events, f'gen{k}'


def check_kwargs():
    """instance keyword parsing of FSM.__init__"""
    global cases
    class K(edzed.FSM):
        STATES = ['idle']
        TIMERS = {'on': (5, 'off_ev'), 'wait': (None, edzed.Goto('idle'))}
        EVENTS = [('go', 'idle', 'on'), ('off_ev', 'on', 'idle'), ('w', None, 'wait')]
    seen = []
    for kw, want in (({}, {'on': 5.0, 'wait': None}), ({'t_on': 7}, {'on': 7.0, 'wait': None}), ({'t_on': None}, {'on': 5.0, 'wait': None}),
                     ({'t_wait': '1m', 't_on': '2s'}, {'on': 2.0, 'wait': 60.0}), ({'t_on': 0}, {'on': 0.0, 'wait': None})):
        cases += 1
        fresh_circuit(); f = K('f', **kw)
        if dict(f._duration) != want: fail(f'FSM.__init__ {kw!r}: durations {dict(f._duration)!r} expected {want!r}')
        if K._ct_default_duration != {'on': 5.0, 'wait': None}: fail('FSM.__init__ modified the class defaults')
    for bad in ({'t_idle': 1}, {'t_nosuch': 1}, {'on_enter_nosuch': None}, {'cond_nosuch': len}, {'enter_x': len}, {'exit_': len}):
        cases += 1
        fresh_circuit()
        try: K('f', **bad); fail(f'FSM.__init__ accepted {bad!r}')
        except (TypeError, ValueError): pass
    cases += 1
    c = fresh_circuit()
    p = edzed.Input('p', initdef=None)
    f = K('f', on_enter_on=edzed.Event(p, 'put'), on_exit_on=[edzed.Event(p, 'put')], cond_go=lambda: seen.append('cond') or True,
          enter_on=lambda: seen.append('enter'), exit_idle=lambda: seen.append('exit'))
    if set(f._state_events['on_enter']) != {'on'} or set(f._state_events['on_exit']) != {'on'} or len(f._state_events['on_exit']['on']) != 1:
        fail(f'FSM.__init__: on_enter_/on_exit_ events {f._state_events!r}')
    if set(f._fsm_functions['cond']) != {'go'} or set(f._fsm_functions['enter']) != {'on'} or set(f._fsm_functions['exit']) != {'idle'}:
        fail(f'FSM.__init__: callbacks {f._fsm_functions!r}')
    start(c); c.init_sblock(p, full=True); c.init_sblock(f, full=True)
    f.event('go')
    if seen != ['cond', 'exit', 'enter'] or f.state != 'on': fail(f'FSM.__init__: instance callbacks ran as {seen!r}, state {f.state!r}')
    f.stop()


async def main():
    global cases
    for states, timers, events, tag in definitions():
        check_definition(states, timers, events, tag)
    check_kwargs()
    # malformed definitions must be refused
    for bad, tag in ((dict(STATES='ab', EVENTS=[]), 'str-states'), (dict(STATES=[], EVENTS=[]), 'no-states'),
                     (dict(STATES=['a'], EVENTS=[('e', 'a', 'zz')]), 'unknown-target'), (dict(STATES=['a'], EVENTS=[('e', 'zz', 'a')]), 'unknown-source'),
                     (dict(STATES=['a'], EVENTS=[('e', 'a', 'a'), ('e', 'a|b', 'a')]), 'duplicate'), (dict(STATES=['a'], TIMERS={'t': (1, 'nosuch')}, EVENTS=[]), 'undefined-timed-event')):
        cases += 1
        try:
            type('Bad', (edzed.FSM,), bad); fail(f'malformed definition accepted: {tag}')
        except (ValueError, TypeError): pass


asyncio.run(main())       # timed states need a running event loop for call_later
print(json.dumps(dict(cases=cases, failures=failures)))
