import sys, asyncio, edzed
class SlowStop(edzed.AddonAsync, edzed.SBlock):
    def init_regular(self): self.set_output(0)
    async def stop_async(self):
        await asyncio.sleep(0.3)
def bad(x):
    raise ZeroDivisionError('first evaluation fails')
edzed.reset_circuit()
s = SlowStop('s', stop_timeout=5)
f = edzed.FuncBlock('f', func=bad).connect(s)
circ = edzed.get_circuit()
async def main():
    t = asyncio.create_task(circ.run_forever())
    try:
        await circ.wait_init()
    except edzed.EdzedInvalidState as err:
        print('wait_init raised EdzedInvalidState:', err)
        res = 0
    else:
        print('wait_init returned normally; is_ready:', circ.is_ready(), '; error:', repr(circ.error), '; output of f:', f.output)
        res = 1 if (not circ.is_ready() or f.output is edzed.UNDEF) else 0
    try: await t
    except BaseException: pass
    return res
sys.exit(asyncio.run(main()))
