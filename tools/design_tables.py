#!/usr/bin/env python3
"""dev tool: regenerate the generated tables of DESIGN.md section 8 from the evidence files of the last thorough run"""
import json, re, sys
rows, rows2 = [], []
tot = dict(b=0, r=0, h=0, s=0)
for i in range(1, 21):
    p = f'C{i:02d}'
    ev = json.load(open(f'/verif/evidence/{p}.json'))
    cov = ev['coverage']
    mt = next((n['mutants'] for n in cov.get('notes', []) if isinstance(n, dict) and 'mutants' in n), None)
    flips = next((n['solver_seed_reruns']['verdict_flips'] for n in cov.get('notes', []) if isinstance(n, dict) and 'solver_seed_reruns' in n), None)
    rows2.append(f"| {p} | {len(cov['functions_under_contract'])} | {cov['obligations']} | {cov['discharged']} | {cov['solver_queries']} | {len(cov.get('scan_obligations', []))} | {len(cov.get('bounded', []))} | {len(cov.get('known_findings', []))} | {ev['wall_s']:.0f} |")
    if mt is None: continue
    miss = ', '.join(f"`{x['name']}` ({x['outcome']})" for x in mt['not_reported']) or '—'
    fa = ', '.join(f"`{x['name']}` ({x['outcome']})" for x in mt['false_alarms']) or '—'
    rows.append(f"| {p} | {mt['breaking_changes']} | {mt['reported']} | {miss} | {mt['harmless_edits']} | {mt['silent']} | {fa} | {len(flips) if flips is not None else '?'} |")
    tot['b'] += mt['breaking_changes']; tot['r'] += mt['reported']; tot['h'] += mt['harmless_edits']; tot['s'] += mt['silent']
t1 = ("| id | property-breaking changes (incl. the seeded one) | reported (exit 1) | not reported | harmless edits | silent (exit 0) | not silent | verdicts that changed under another solver seed |\n|---|---|---|---|---|---|---|---|\n"
      + '\n'.join(rows) + f"\n\nTotals: {tot['r']} of {tot['b']} property-breaking changes reported; {tot['s']} of {tot['h']} harmless edits silent.")
t2 = ("| id | functions under contract | obligations | discharged | solver queries | scan obligations | bounded stand-ins | known findings | wall s (thorough) |\n|---|---|---|---|---|---|---|---|---|\n" + '\n'.join(rows2))
s = open('/verif/DESIGN.md').read()
for tag, t in (('MUTANT_TABLE', t1), ('EVIDENCE_TABLE', t2)):
    a, b = f'<!-- {tag} -->', f'<!-- /{tag} -->'
    if a in s: s = s[:s.index(a) + len(a)] + '\n' + t + '\n' + s[s.index(b):]
    else: s = s.replace(f'{tag}_PLACEHOLDER', f'{a}\n{t}\n{b}')
open('/verif/DESIGN.md', 'w').write(s)
print(t1[-200:])
