#!/usr/bin/env python3
"""Regenerates MANIFEST.json from the table below (properties.jsonl is never touched)."""
import json, os
HERE = os.path.dirname(os.path.dirname(os.path.abspath(__file__)))
props = [json.loads(l) for l in open(os.path.join(HERE, 'properties.jsonl'))]
TECH = "contract-based deductive verification (VCs generated from the real AST, discharged by z3/cvc5)"
CLAIMS = {
 'C18': dict(
   text="Repeat._event, Repeat._maintask (coroutine: while-loop invariant, awaits as environment steps with timeout / new datum / "
        "cancellation outcomes), Repeat.init_regular, Repeat.__init__ and Event.send are executed from the real AST: a matching event "
        "is forwarded at once with repeat=0, orig_source = the sender and then queued, other types change nothing; every re-send is "
        "numbered one more than the previous, carries the latest data with repeat=n, is preceded by set_output(n) and never exceeds "
        "count; a new datum restarts the numbering; Python's duplicate-keyword rule at send(**data, repeat=n) is modelled (this found "
        "the chained-Repeat defect, fixed in /repo). Event.__init__: repeat= puts a new Repeat block (given pace and count) in front of the destination, count needs repeat; Event.typecheck.",
   note="Trusted: pyvc encoding, z3, asyncio.Queue/wait_for interface contracts (FIFO, timeout), set_output (C02), time_period (C19). "
        "Unclaimed: the pace in seconds, Event(..., repeat=) construction, nothing re-sent after stop (C08)."),
 'C19': dict(
   text="time_period, convert, _convert (numeric fold over what the regex layer delivers: one inductive step per group index with "
        "spec functions for partial sum / some-smaller-unit-present / prefix-ok), timestr (integer instance: the exact rendered text and "
        "the d/h/m/s decomposition; float instance: shown value within half a unit of the last place) and timestr_approx (int and float "
        "instances: error <= half the documented rounding step of the band reached after cascading rounding; omitted units are zero) "
        "are executed from the real AST; lemmas: fold unfolded = 86400d+3600h+60m+s arithmetic, integer round trip.",
   note="Trusted: pyvc encoding, z3 (linear int/real + strings); floats as reals, round() as 'nearest multiple of 10^-p' spec function, "
        "float(numeral) uninterpreted. Bounded (labelled): the two regexes and the text round trip on a 76k-case grid."),
 'C20': dict(
   text="Each Counter handler (_setmod, _event_inc/dec/put/reset, __init__) is symbolically executed from /repo's current AST against a "
        "postcondition taken from the property statement (result = Python arithmetic reduced by floor-modulo, output in [0,M), type "
        "invariant preserved, modulo 0 refused); every per-path obligation is discharged by z3 for all inputs (int exactly, float as "
        "real); AddonPersistence.event (the event() of a Counter: scan) hands the handler's result through; aliases, handler tables and the call-level signature of 'put' are reflective scan obligations.",
   note="Trusted: pyvc's encoding of Python semantics, z3; SBlock.set_output contract (C02) with assumption A-C02; float = real "
        "arithmetic; amounts are numbers."),
 'C01': dict(
   text="(1) Circuit._simulate with the quantified loop invariant: at the only await (the idle point) every combinational block's "
        "output equals calc(b, current outputs), for every circuit, every burst order and with events sent by combinational blocks "
        "(environment step under the delivery guarantee); SBlock.set_output queues a changed block on every exit edge. "
        "(2) InputGetter.__getitem__/__getattr__, Not/Override/Compare/FuncBlock.calc_output, Compare/FuncBlock/And/Or/Xor "
        "constructors and the Xor parity lambda are executed from the real AST against spec functions taken from the statement "
        "(negation, override-unless-null, hysteresis thresholds, func applied to groups/named inputs with unpack on/off); "
        "lemma idem(Compare) over the reals.",
   note="Trusted: pyvc encoding, z3; wired(circuit) (C15); delivery guarantee G_set (C02); all()/any() built-ins; user functions "
        "deterministic; == reflexive on outputs. Bounded (labelled): ~4400 small circuits through the real simulator compared with an "
        "independent truth-table evaluation."),
 'C02': dict(
   text="SBlock.set_output, CBlock.eval_block, Event.send, _to_tuple, _is_multiple, event_tuple/efilter_tuple and their validators are "
        "executed from the real AST.  The activation's call trace is checked call by call against the sequence the property prescribes "
        "(queue notification, on_output events in configured order, then on_every_output events; each with trigger='output', "
        "previous = output before the assignment, value = new output; nothing when unchanged and no on_every_output) - including the "
        "exceptional edge where a delivery fails; Event.send delivers exactly the data that left the filters, once, synchronously. "
        "Chain lemmas (previous of the next change = value of this one) and scan obligations (writers of _output / _output_events, "
        "callers of eval_block) lift the per-assignment contract to the whole history.",
   note="Trusted: pyvc encoding, z3; assumption A-C02 (no nested re-assignment of the same output during delivery); tuples contain "
        "event objects; iterator arguments (deprecated) excluded. Open known finding: InitAsync.init_regular drops on_output events."),
 'C03': dict(
   text="FSM._ctx_event (the long sequential function: table lookup, conditions, re-entrant request, exit/entry actions, chained "
        "hops in a for-else loop with an invariant, timer start, output update), _run_cb, _send_events, _event, _check_state, "
        "calc_output and init_from_value are executed from the real AST.  The result, the next state and what is left unchanged on "
        "rejection are postconditions written from the statement (specific rule beats any-state rule, None/missing rejects, Goto "
        "bypasses the table, all conditions must be true and are consulted only for table events of an initialised FSM); the action "
        "order is an order automaton checked at every traced call (exit, on_exit, stop timer, entry [exit of intermediate], timer, "
        "calc_output, set_output, on_enter), and every cond/enter/exit must see, through fsm_event_data, the data of the event that "
        "caused it (this found the chained-transition defect, fixed in /repo); _ctx_event sets the context variable of the context it "
        "runs in and _event must run it in a copy.  FSM._build_tables and its add_transition closure (three loops with invariants, '|' "
        "lists split and stripped) are executed from the real AST: every rule of EVENTS - None targets included - is in the transition "
        "table under (event, source) for each of its sources or under (event, None), a second rule for the same pair and unknown "
        "states are refused, states = STATES + timed states, every event is known, every timed state has its event and default "
        "duration.  Control tables of the library FSMs are also reflected (scan).",
   note="Trusted: pyvc encoding, z3; callbacks are user code behind an interface contract; set_output/Event.send contracts; str.split/"
        "strip as uninterpreted functions.  Bounded only (labelled; ~300 generated definitions and instances through the real class "
        "machinery): discovery of cond_/enter_/exit_ methods, the chain limit, 'nothing but the rules is in the table', FSM.__init__ "
        "keyword parsing."),
 'C04': dict(
   text="FSM._start_timer/_set_timer/_stop_timer/stop and the timer part of _ctx_event are executed from the real AST with a "
        "quantifier-free timer invariant (ghost: number of live handles of the FSM = 1 iff _active_timer is live, else 0): effective "
        "duration = event item, else instance/class value; none is an error; INF never; <= 0 delivers at once without a handle; "
        "otherwise exactly one handle due at now+d calling event(timed_event); leaving/re-entering/stop cancels it, so at most one "
        "timer is pending and nothing is pending after stop(); Timer.cond_start/cond_stop/calc_output against their truth tables. Timer.__init__: t_period excludes t_on/t_off and becomes t_on = t_off = period/2 in the arguments passed on. FSM._build_tables: every timed state of TIMERS gets its timed event and its default duration (time_period of the given value), no other state has one.",
   note="Trusted: asyncio call_later/TimerHandle contract (runs once, not before when, never after cancel): 'on time' and 'exactly "
        "once' are this contract plus the invariant; float durations as reals, +inf encoded as 10^300; A-C08.  Bounded only (labelled): FSM.__init__ keyword parsing (t_STATE of an instance overrides the class default, None keeps it)."),
 'C05': dict(
   text="Circuit.init_sblock, _init_sblocks_sync_1/_2 (four loops with invariants), _init_sblocks_async, _run_tasks, run_forever, "
        "_check_started, wait_init and the early-initialisation branch of SBlock.event are executed from the real AST.  init_sblock: "
        "saved state (persistent blocks, first step only), regular routine, initdef value (only if the output is still UNDEF, only with "
        "init_from_value and a defined initdef), each at most once - an order automaton checked at every traced call; the progress "
        "marker moves only along 0 -> -1 -> 1 -> -2 -> 2 for every block, which is also the guarantee callers rely on.  Async init: a "
        "task only for uninitialised blocks with init_async and a positive init_timeout, each wait bounded by the block's own timeout "
        "counted from the start of the waiting.  sync_2 returns normally only if every sequential block has an output.  run_forever "
        "reports the initialisation done only after it succeeded with no error recorded; cross-task invariant J (once reported done, "
        "every block has an output or an error is recorded) is proved at every suspension point of run_forever and at the idle point "
        "of _simulate; wait_init() returns normally only if the simulation task is running, no error is recorded and every block has "
        "an output (this obligation found the wait_init defect, fixed in /repo).",
   note="Trusted: pyvc encoding, z3; initialisation routines are user/library code behind an interface contract; set_output contract "
        "(C02); asyncio Event/wait/wait_for; A-cancel, A-caller, A-undef-eq.  Unclaimed: order-independence of success (confluence over "
        "whole start-ups); init_async of AddonAsyncInit/InitAsync/ValuePoll themselves."),
 'C06': dict(
   text="AddonPersistence.event (proof instance for the MRO continuing with SBlock.event), save_persistent_state, "
        "init_from_persistent_data, Circuit._check_persistent_data (two loops with invariants), FSM.get_state, FSM._restore_state and "
        "FSM._set_timer are executed from the real AST: after every handled event of a persistent sync_state block the storage holds "
        "exactly get_state() (or the entry is removed when the state is unavailable); a failed event writes nothing and disables "
        "persistence once the simulation is stopping; restore happens iff the entry exists and is not older than 'expiration'; "
        "unused keys are removed and 'edzed-*' kept; an FSM is restored without actions, its timer expiring at the same absolute time "
        "(real arithmetic over the loop/unix clocks), an expired state is discarded.  The obligation 'the timer callback clears the "
        "fired handle' found the rejected-timed-event defect (saved expiry in the past), fixed in /repo. Default get_state (the output) with the Counter/Input round trip; TimeDate/TimeSpan: the saved state is the exported configuration and restoring is a reconfiguration with it.",
   note="Trusted: pyvc encoding, z3; SBlock.event (C11/C09), timer contracts (C04); the storage is a dict-like heap object; get_state() is "
        "a function of the block state; clock reads of _get_timediff simultaneous.  The save sites of run_forever (states and stop "
        "time written iff the start completed, before the blocks are stopped) and _init_sblocks_sync_2 are order-automaton obligations."),
 'C07': dict(
   text="TimeDate.recalc/_is_configured/_event_reconfig, TimeSpan.recalc/_event_reconfig, _Interval.range_endpoints, Cron._check_tz/"
        "add_block/remove_block/reload/_maintask and utils.flag.Flag are executed from the real AST.  recalc: set_output(P(now)) with P "
        "written from the statement (configured, and time of day / date / weekday each unconstrained or matching, memberships by the "
        "rules of C13).  Reconfiguration: old registrations removed, every endpoint of the new times (TimeSpan: every endpoint that is "
        "not in the past) and midnight registered in the scheduler's table, reload after the last change, then recalc for the current "
        "time.  The table operations are exact map updates.  Scheduler loop (three-step wake-up protocol cut by an invariant, hourly "
        "entries, clock reads arbitrary): it sleeps only while the wake-up time is ahead (difference taken the short way round the "
        "clock) and never beyond it; a scheduled recalculation happens 0..2.5 s after its time for exactly the blocks registered for "
        "it; a time-tracking problem recalculates every registered block.  Two defects found by these obligations, replayed and fixed "
        "in /repo (TypeError in the reset branch without alarms; wake-up times in hour 23 seen from after midnight).  The membership test of "
        "the three interval classes and the comparison functions behind it (contracts shared with C13) are verified here too.",
   note="Trusted: pyvc encoding, z3; datetime values (order embedding, attribute ranges), bisect/sorted contracts, asyncio sleep/"
        "wait_for; interval constructors behind interface contracts (C13).  Not proved as one theorem: the whole-history statement "
        "(composition of the contracts) and millisecond accuracy (event loop / OS)."),
 'C08': dict(
   text="Circuit.run_forever, _stop_sblocks, _run_tasks, wait_init, _check_started, shutdown, is_current_task, check_not_finalized, "
        "set_persistent_data, addblock, _init_sblocks_async (the initialisation tasks are handed over as a list), AddonMainTask.start/stop_async, OutputFunc.stop, OutputAsync.start/stop/stop_async and the three OutputAsync control coroutines with the wrapper they start (every output task is finished - awaited, or cancelled and awaited - when the control task ends; gather must collect exceptions) are executed "
        "from the real AST; every await is an environment step under the guarantees "
        "proved elsewhere.  run_forever: an order automaton over the whole life cycle, checked at every traced call: set-up, start() once "
        "per block, the three initialisation steps in order after all blocks were started, _init_done only after a successful "
        "initialisation, states and stop time saved iff the start completed and before stopping, _stop_sblocks exactly once with "
        "exactly the set of blocks whose start() returned; it always ends by raising Circuit.error, which is the first recorded "
        "error (history variable), and _simtask stays set (no restart).  _stop_sblocks: stop() once per given block, blocks with "
        "asynchronous clean-up first, their stop_async tasks created with their own stop_timeout and awaited, errors of stop() do not "
        "prevent the others.  _run_tasks: every wait ends at start + the entry's timeout, every task is finished at a normal return, "
        "no task is left without a cancellation request when the wait is cancelled.  Three defects found by these obligations, replayed "
        "and fixed in /repo (init tasks left running after a cancelled start; wait_init helper task left pending; wait_init returning "
        "normally during the clean-up after a failed first evaluation - C05).",
   note="Trusted: pyvc encoding, z3; asyncio (create_task, wait_for, wait, Event, Task.cancel/done/exception; a requested cancellation ends "
        "a task unless its coroutine suppresses it); start()/stop()/stop_async of blocks are library/user code behind interface "
        "contracts; A-cancel (only Circuit.abort cancels the simulation task: scan; from outside at most while no error is recorded); "
        "A-caller.  Block level: AddonMainTask.start/stop_async (one monitored service task; cancelled and awaited, then forgotten), "
        "OutputFunc.stop and OutputAsync.stop/stop_async (stop_data processed as the last action), FSM.stop under C04; edzed.run() under C09."),
 'C09': dict(
   text="Circuit.abort, SBlock.event (error classification), AddonAsync._task_monitor, ControlBlock._event_shutdown/_event_abort and "
        "Circuit.is_ready are executed from the real AST: abort keeps the first error and cancels the task only then; event() aborts "
        "exactly for exceptions raised inside a handler (not for EdzedUnknownEvent, not for call-level TypeErrors) and re-raises the "
        "original; the task monitor aborts for errors and unexpected service exits but not for cancellation; write-once of "
        "Circuit._error is a scan obligation (writer set, guarded store in run_forever) plus solver lemmas (not ready stays not ready).  "
        "Circuit.run_forever raises Circuit.error, which equals the first error recorded at any observation point (history variable) "
        "and the error given to abort() before the start; shutdown() stops through abort(CancelledError), returns normally iff the "
        "recorded error is a cancellation and re-raises it otherwise; edzed.run() (two loops with invariants and a ghost witness) "
        "ends only when every task has ended, cancels only supporting tasks directly, stops the simulation through abort(), returns "
        "normally only if no task failed and otherwise raises the error of the first failing task in the order simulation, "
        "coroutine #0, #1, ...",
   note="Trusted: pyvc encoding, z3, asyncio.Task.cancel/done, handler/coroutine interface contracts; traceback introspection "
        "abstracted to one boolean; A-cancel, A-caller; tasks fail with Exceptions (a BaseException other than CancelledError in a supporting task is outside the model)."),
 'C10': dict(
   text="Circuit._simulate (two while loops, an await, set operations, nested select_blk, try/raise) is executed from the real AST "
        "with a quantified loop invariant: every combinational block is in eval_set, or fed by a queued block, or consistent; and the "
        "burst counter equals eval_cnt <= 3*N.  Proved for all circuits and all schedules (the await is an environment step under "
        "the delivery guarantee): at the idle point every combinational block is consistent; the instability error is raised only "
        "when the counter has reached 3*N, before a further evaluation.  select_blk (loop with invariant; the count of pending inputs is the cardinality of iconnections & set) "
        "returns a member of its argument that has no more inputs pending inside the set than any other member - the evaluation order the 'few "
        "paths' clause relies on.",
   note="Trusted: pyvc encoding, z3 (quantified, guarded style); assumptions wired(circuit) (C15), delivery guarantee G_set (C02), "
        "idem(b) per block class, FuncBlock functions deterministic.  Bounded (labelled, not proof): 'few-path DAGs are never "
        "reported unstable' and detection of rings / event feedback, by running ~4400 small circuits through the real simulator."),
 'C11': dict(
   text="SBlock.event, the _enable_event context manager (__enter__/__exit__), SBlock._event, Circuit.abort, Event.send and "
        "OutputFunc._event_put are executed from the real AST: a set guard refuses the event with EdzedCircuitError and changes "
        "nothing; once taken, the guard is released on every exit edge (normal return, EventCond resolving to no event, unknown "
        "event, call-level TypeError, handler error, failed early initialisation) and all other guards are as before; the handler "
        "runs at most once, with the guard set; early initialisation runs with the guard lifted; a filter veto delivers nothing; "
        "library handlers let delivery errors escape; Repeat._event forwards the original event inside its own handler before queueing the "
        "repetitions (a loop closed through a Repeat block meets the guard); the FSM's one-chained-transition bookkeeping (_ctx_event and callees). "
        "Scan obligations: writers of the guard, places where it is lifted.",
   note="Trusted: pyvc encoding, z3; interface contracts of handlers and init_sblock. The composition 'refused re-entry stops the "
        "simulation through any chain of blocks' is a textual argument over the two function-level facts (see evidence.unclaimed)."),
 'C12': dict(
   text="OutputAsync.__init__, _event_put, _output_coro, _output_coro_wrapper, _ctrl_wait, _ctrl_cancel, _ctrl_start, start, stop, "
        "stop_async and utils.shield_cancel are executed from the real AST over a FIFO model of the data queue (everything ever put, a "
        "head index; other tasks only append).  _output_coro: for ANY data dict exactly one kind of result event (success / error / "
        "cancel) is sent to every configured destination, in order, carrying the original data, then the shielded guard sleep has "
        "elapsed in full (this obligation found the missing-item defect, fixed in /repo).  Wrapper: counter +1 first, -1 last on every "
        "exit.  wait: the k-th run is for the k-th queued item, until the sentinel.  start: every item gets its own task at once, "
        "all awaited at the end.  cancel: accounting ghosts prove that a run is cancelled only when a newer item arrived, every item "
        "taken is either run or reported as cancelled with its own data to every on_cancel destination, at most one run is active, the "
        "most recent item gets the run and that run has finished at exit.  stop: stop_data then the sentinel are queued last; start "
        "mode: stop_data run after the control task.  shield_cancel returns or re-raises only after the awaitable has finished.",
   note="Trusted: pyvc encoding, z3; asyncio.Queue/create_task/shield/gather/Task interface; the user coroutine behind an interface "
        "contract; set_output and Event.send contracts; helper calls of __init__ (event_tuple C02, time_period C19, inherited "
        "constructors) by their contracts.  Whole-history clauses (guard time between two consecutive runs, completion within "
        "stop_timeout) follow from the per-function contracts plus C08 and are stated, not re-proved as one theorem."),
 'C13': dict(
   text="The three comparison functions (_cmp_open, _cmp_closed, DateTimeInterval._cmp_open), the dispatch _cmp and __contains__ for the "
        "three interval kinds, convert_time_seq/convert_date_seq (length windows, zero defaults, range errors), _name_to_month (13-step "
        "loop unrolled) and _match_pattern (cutting a token out keeps its two sides apart) are executed from the real AST against the "
        "membership rules of the statement (left-closed/right-open with midnight wrap and equal endpoints = whole day; inclusive dates "
        "wrapping at the year end; date-times never wrap); corner-case lemmas over the real order. export_dt (one proof instance per value kind), convert_datetime_seq, _Interval._convert, and the lemma that numeric form -> object -> numeric form is the input padded with zeros.",
   note="Trusted: naive time/date/datetime values are totally ordered (order embedding into the reals); datetime constructors. "
        "Bounded (labelled): equivalence of the string notations, numeric/string round trips, weekday normalisation, malformed input - "
        "12.8k-case grid against the real parsers (regexes, strptime/fromisoformat are outside the verifier)."),
 'C14': dict(
   text="Circuit.is_ready, Circuit.findblock, ExtEvent.__init__, ExtEvent.send, check_name, Block.__init__ (naming clause) and Event.send "
        "are executed from the real AST against contracts stating the property: send raises EdzedInvalidState and delivers nothing iff "
        "not ready, otherwise exactly one dest.event call with the data, 'value' from the positional argument, a source item starting "
        "with '_ext_' and all other items unchanged, returning the handler's result; names given explicitly cannot start with '_' "
        "unless reserved; lemma no_forgery (string theory) over explicit, reserved (scan of the _reserved=True sites) and automatic names.",
   note="Trusted: pyvc encoding, z3 string theory; event() contract (C11/C09); write-once _error (C09). Open known finding: automatic "
        "names of classes called 'ext'/'ext_*' begin with '_ext_'. Assumption A-C14: filters do not rewrite 'source'."),
 'C15': dict(
   text="Circuit._finalize (two passes, four nested loops cut by invariants, a ghost position array for the collected inputs) is executed "
        "from the real AST: for all blocks A, B the output connections of A contain B exactly if the input connections of B contain A; "
        "every combinational block given by the user, and every inverter existing when the second pass starts, ends with all its inputs "
        "resolved (single or group: Const objects or blocks registered in this circuit under their own names) and with every block among "
        "them as an input connection; conversely every input connection of a user block that is not an inverter, and of an inverter "
        "created by a shortcut, is one of its resolved inputs (ghost witnesses: input name and group position); Const objects are never "
        "connected; registered blocks stay registered.  Circuit._validate_blk "
        "(resolution by cases: Const kept, known name -> block of that name, '_ctrl' / '_not_NAME' shortcuts create the block once "
        "under that name with NAME as the inverter's input, plain values become Const, foreign blocks and unknown names are errors; "
        "summary clauses used by _finalize proved on the same body), the validate_output wrapper, finalize (idempotent, sets the "
        "flag), check_not_finalized / addblock / set_persistent_data (frozen after finalisation or shutdown), findblock, and "
        "_BlockResolver._check_type/register/resolve; lemma one_inverter; scans: writers of _finalized, oconnections/iconnections mutated "
        "only by _finalize, the resolver's registration sites.",
   note="Trusted: pyvc encoding, z3; Const and Block are disjoint classes.  Bounded only (206 small circuits + error families): the converse "
        "for user-created inverters (processed in both passes), 'no block is created in the second pass', CBlock.check_signature/"
        "get_conf.  CBlock.connect (exactly what was given is stored: unnamed inputs as the group '_', named groups as tuples; refusals "
        "when frozen, connected before, nothing given, reserved name, a group among the unnamed inputs), CBlock.input_signature "
        "(one entry per input name: group size or None) and Event.__init__ (every destination, by name or object, is registered with the "
        "resolver as an SBlock reference) are under contract."),
 'C16': dict(
   text="Event.send (filter loop with an inductive invariant over the pipeline fold), not_from_undef, Edge, Delta, IfOutput, "
        "IfNotIitialized, every DataEdit edit closure (add, setdefault, add_output, copy, rename, delete, permit, modify), the eight "
        "DataEdit methods and DataEdit.__call__ are executed from the real AST against contracts stating the dictionary algebra / "
        "truth tables of the property; chain = left-to-right composition and veto-absorption are solver lemmas proved by induction.",
   note="Trusted: pyvc encoding, z3; interface assumptions on user filters/edit functions (deterministic, do not raise, str-keyed "
        "mappings); mappings are built-in dicts; control blocks given by name are resolved (C15); Delta over reals."),
 'C17': dict(
   text="_Validation._validate/__init__, Input.__init__/_event_put/init_from_value and InputExp.__init__/cond_put/calc_output are "
        "executed from the real AST against contracts stating the property (accepted iff allowed & check & schema-does-not-raise, "
        "output = schema(value), True iff accepted, rejection changes nothing, invalid initdef/expired refused, restore goes through the "
        "put event); user callables are uninterpreted functions; implicit exceptions (unhashable membership test) are explicit paths.",
   note="Trusted: pyvc encoding, z3; set_output/event() contracts (C02/C11); assumptions: check does not raise, allowed members hashable, "
        "check/schema deterministic, A-C02."),
}
checks = []
for p in props:
    i = p['id']
    if i not in CLAIMS: continue
    checks.append(dict(property_id=i, quick_cmd=f"bin/check {i}", thorough_cmd=f"bin/check {i} --tier thorough",
                       evidence_file=f"evidence/{i}.json", replay_cmd_template="bin/vreplay {path}", engine="pyvc",
                       level_claimed=dict(category="proof", text=CLAIMS[i]['text'], design_ref=f"DESIGN.md §3 {i}"),
                       level_note=CLAIMS[i]['note'], technique=TECH))
m = dict(version=1,
  setup_cmd="sh -c 'python3-vt -c \"import z3, sys; sys.path.insert(0, \\\"/repo\\\"); import edzed\" && test -x bin/check'",
  hooks=dict(guard="EDZED_VERIF", enable="no hooks: contracts, scans and replays attach from outside (AST reading of /repo, reflection, scratch scripts)",
             baseline_off_cmd="cd /repo && /venv/bin/python -m pytest -ra -q -p no:cacheprovider --timeout=900 --continue-on-collection-errors",
             source_commits=[], add_only=True),
  engines=[dict(name="pyvc", path="pyvc/", serves_properties=sorted(CLAIMS),
                kind_free_text="home-made verification-condition generator for the Python subset used by edzed: re-reads the real functions' AST "
                               "from /repo on every run, symbolic execution per path against sidecar contracts in specs/, obligations discharged "
                               "by z3 5.1 (cvc5 fallback for proofs only)")],
  checks=checks,
  notes="See DESIGN.md. Exit codes of bin/check: 0 held, 1 violation (VIOLATION line), 2 undecided, 3 checker error. "
        "Genuine defects repaired in /repo by 'fix:' commits are listed in known_findings.json as fixed.",
  not_applicable=[dict(property_id=p['id'], reason="check not yet implemented in this revision (work in progress, DESIGN.md §7 order of work); not claimed")
                  for p in props if p['id'] not in CLAIMS])
json.dump(m, open(os.path.join(HERE, 'MANIFEST.json'), 'w'), indent=1)
print('claimed:', sorted(CLAIMS))
