"""C06 - saved state always matches the last completed event and survives a restart.  DESIGN section 3, C06."""
import z3
from z3 import Real
from pyvc.sorts import *
from pyvc.values import *
from pyvc.state import declare_fields, View
from pyvc.contract import contract, CONTRACTS, Param
from pyvc.engine import Raise, NEXT
from pyvc import calls, scan
from specs.common import *
from specs import event_entry, fsm as fsmspec, c14  # noqa: F401  (contracts: SBlock.event, FSM timers, Circuit.is_ready)

declare_fields(persistent=BOOL, sync_state=BOOL, expiration=VAL, key=STR, persistent_dict=VAL, persistent_ts=VAL, st_items=DICT)
Qa = 'edzed.addons:AddonPersistence.'
HD = {'heap_dicts': True}

# the block's internal state as get_state() reports it: a function of the block and of its state fields
gs = Function('get_state_value', IntSort(), Val, Val, DictS, Val)
gs_raises = Function('get_state_raises', IntSort(), Val, Val, DictS, BoolSort())


def state_of(S, me):
    return gs(me, S.f('_output', me), S.f('_state', me), S.f('sdata', me))


def state_unavailable(S, me):
    return gs_raises(me, S.f('_output', me), S.f('_state', me), S.f('sdata', me))


def get_state_iface(ex, e, st):
    me = as_kind(st.env['self'], Ref(), st)
    S = View(st)
    ok = st.copy(); ok.assume(Not(state_unavailable(S, me)))
    bad = st.copy(); bad.assume(state_unavailable(S, me)); bad.label('get_state:raises')
    return [(ok, ZV('val', state_of(S, me))), (bad, Raise(PExc('EdzedInvalidState', val=Val.Obj(fresh('exc', IntSort())), where='callee')))]


def storage(S, me):
    """content of the persistent storage of the block's circuit (a shared dict object)"""
    pd = S.f('persistent_dict', S.f('circuit', me))
    return S.whole('st_items')[Val.ref(pd)], pd


@contract('AddonPersistence.save_persistent_state', qual=Qa + 'save_persistent_state', modifies=('st_items',), self_cls='AddonPersistence',
          traced=lambda a, st: rec('save_persistent_state', to_val(a['self'], st)))
def _save(c):
    me = c.z('self')
    items, pd = storage(c.S, me)
    key = c.pre('key', me)
    pers = c.pre('persistent', me)
    c.requires('persistent_blocks_have_a_storage', Implies(pers, Val.is_Obj(pd)))        # _check_persistent_data clears the flag otherwise
    new = c.post_whole('st_items')
    c.ensures('not_persistent_writes_nothing', Implies(Not(pers), new == c.pre_whole('st_items')))
    c.ensures('storage_holds_exactly_the_current_state', Implies(And(pers, Not(state_unavailable(c.S, me))),
              new == Store(c.pre_whole('st_items'), Val.ref(pd), Store(items, key, Opt.Some(state_of(c.S, me))))))
    c.ensures('stale_entry_removed_if_state_unavailable', Implies(And(pers, state_unavailable(c.S, me)),
              new == Store(c.pre_whole('st_items'), Val.ref(pd), Store(items, key, Opt.Absent))))


@contract('AddonPersistence.event', qual=Qa + 'event', modifies=event_entry.HANDLER_EFFECTS + ('__cause__', 'persistent', 'st_items', '_state', 'sdata', '_next_event',
          '_active_timer', 'h_live', 'h_when', 'h_event', 'h_owner', 'task_cancelled', 'n_live', '_fsm_event_active'), self_cls='AddonPersistence')
def _pevent(c):
    me, etype = c.z('self'), c.v('etype')
    data = c.arg('data').arr
    pers, sync = c.pre('persistent', me), c.pre('sync_state', me)
    circ = c.pre('circuit', me)
    c.requires('persistent_blocks_have_a_storage', Implies(pers, Val.is_Obj(c.pre('persistent_dict', circ))))
    ready_after = lambda post: And(post.f('_simtask', circ) != Val.VNone, post.f('_error', circ) == Val.VNone)
    for cls in ('ValueError', 'TypeError', 'EdzedCircuitError', 'EdzedUnknownEvent', 'InitError', 'OtherException', 'DeliveryError', 'HandlerTypeError'):
        c.raises(cls, unchanged=False, label=f'handler_failure_is_not_saved:{cls}', ensures=lambda post, exc: [
            post.tn == 1,                                                         # nothing is written after a failed event
            post.whole('st_items') == post.g('items_after_handler'),
            post.f('persistent', me) == And(pers, ready_after(post))])           # and once the simulation is stopping, never again
    if c.verifying:
        def expected(k, r, st):
            if z3.simplify(Rec.fn(r)).as_string() == 'event':
                return And(k == 0, r == rec('event', Val.Obj(me), etype, kw=data))
            return And(k == 1, r == rec('save_persistent_state', Val.Obj(me)), pers, sync)
        c.expect_trace(expected, 2, normal_len=None, predicate=True)
        c.ensures('state_saved_after_every_handled_event', c.T.tn == If(And(pers, sync), 2, 1))
        c.ensures('persistent_flag_kept', c.post('persistent', me) == pers)
        c.ensures('returns_handler_result', c.rv == evres(Val.Obj(me), etype, mkD(data), IntVal(0)))


def super_event(ex, e, st):
    """super().event(etype, **data): SBlock.event (contract in specs/event_entry.py) as seen by the add-on"""
    outs = []
    me = as_kind(st.env['self'], Ref(), st)
    for s1, vals in ex.evs([e.args[0], e.keywords[0].value], st):
        et, data = to_val(vals[0], s1), ex.as_dict(s1, vals[1])
        record = rec('event', Val.Obj(me), et, kw=data)
        ok = event_entry.handler_effects(ex, s1)
        for f in ('_state', 'sdata', '_next_event', '_active_timer', 'h_live', 'n_live'): ok.havoc_field(f)
        ok.assume(ok.readz('persistent', me) == s1.readz('persistent', me))
        ex.emit(ok, record); ok.ghost['items_after_handler'] = ok.comp('st_items', DictS)
        outs.append((ok, ZV('val', evres(Val.Obj(me), et, mkD(data), IntVal(0)))))
        for cls in ('ValueError', 'TypeError', 'EdzedCircuitError', 'EdzedUnknownEvent', 'InitError', 'OtherException', 'DeliveryError', 'HandlerTypeError'):
            b = event_entry.handler_effects(ex, s1)
            for f in ('_state', 'sdata', '_next_event', '_active_timer', 'h_live', 'n_live'): b.havoc_field(f)
            ex.emit(b, record); b.ghost['items_after_handler'] = b.comp('st_items', DictS); b.label(f'super().event:raises:{cls}')
            outs.append((b, Raise(PExc(cls, val=Val.Obj(fresh('exc', IntSort())), where='callee'))))
    return outs


# ---- restoring at start -------------------------------------------------------------------------------------------------------------------
def time_time(ex, e, st):
    return [(st, ZV('real', st.ghost['unixnow']))]


def restore_iface(ex, e, st):
    me = as_kind(st.env['self'], Ref(), st)
    outs = []
    for s1, vals in ex.evs(e.args, st):
        x = to_val(vals[0], s1)
        ok = event_entry.handler_effects(ex, s1); ex.emit(ok, rec('_restore_state', Val.Obj(me), x)); outs.append((ok, P_NONE))
        bad = event_entry.handler_effects(ex, s1); ex.emit(bad, rec('_restore_state', Val.Obj(me), x)); bad.label('_restore_state:raises')
        outs.append((bad, Raise(PExc('OtherException', val=Val.Obj(fresh('exc', IntSort())), where='callee'))))
    return outs


@contract('AddonPersistence.init_from_persistent_data', qual=Qa + 'init_from_persistent_data', modifies=event_entry.HANDLER_EFFECTS, self_cls='AddonPersistence')
def _ifpd(c):
    me = c.z('self')
    items, pd = storage(c.S, me)
    c.requires('storage_present', Val.is_Obj(pd))
    cell = items[c.pre('key', me)]
    exp, ts = c.pre('expiration', me), c.pre('persistent_ts', c.pre('circuit', me))
    now = c.S.g('unixnow')
    c.requires('expiration_is_none_or_float', Or(exp == Val.VNone, Val.is_R(exp)))            # utils.time_period
    c.requires('timestamp_is_none_or_float', Or(ts == Val.VNone, Val.is_R(ts)))              # _check_persistent_data
    fresh_enough = Or(exp == Val.VNone, And(Val.r(exp) > 0, Or(ts == Val.VNone, Val.r(ts) + Val.r(exp) >= now)))
    if c.verifying:
        # the saved state is applied iff it exists and is not older than the block's expiration; failures are only logged
        c.expect_trace(lambda k: rec('_restore_state', Val.Obj(me), Opt.v(cell)), If(And(Opt.is_Some(cell), fresh_enough), 1, 0))


@contract('SBlock.get_state', qual='edzed.block:SBlock.get_state', modifies=(), self_cls='SBlock')
def _sblock_get_state(c):
    me = c.z('self')
    out = c.pre('_output', me)
    c.raises('EdzedInvalidState', when=out == Val.Undef, iff=True, label='an_uninitialised_block_has_no_state')
    c.ensures('the_state_is_the_output', c.rv == out)


@contract('FSM.get_state', qual='edzed.fsm:FSM.get_state', modifies=(), self_cls='FSM')
def _fsm_get_state(c):
    me = c.z('self')
    at = c.pre('_active_timer', me)
    state = c.pre('_state', me)
    c.requires('timer_invariant', fsmspec.timer_invariant(c.S, me))
    c.raises('EdzedInvalidState', when=state == Val.Undef, iff=True, label='uninitialized')
    r = c.rv
    k = Val.tk(r)
    pending = And(at != Val.VNone, Not(c.pre('task_cancelled', Val.ref(at))))
    # a fired handle is cleared by the timer callback (FSM._timer_expired): an active handle that is not cancelled is live
    c.requires('fired_handles_are_cleared', Implies(And(at != Val.VNone, Not(c.pre('task_cancelled', Val.ref(at)))), c.pre('h_live', Val.ref(at))))
    c.ensures('triple', And(Val.is_T(r), tup_len(k) == 3, tup_item(k, 0) == state, Val.is_D(tup_item(k, 2)), dict_c(Val.dk(tup_item(k, 2))) == c.pre('sdata', me)))
    # the timer part: None, or the expiration of the pending timer as a UNIX timestamp
    c.ensures('expiry_of_the_pending_timer', If(pending, tup_item(k, 1) == Val.R(c.pre('h_when', Val.ref(at)) + c.S.g('timediff')), tup_item(k, 1) == Val.VNone))
    c.ensures('a_reported_expiry_belongs_to_a_live_timer', Implies(tup_item(k, 1) != Val.VNone, c.pre('h_live', Val.ref(at))))


def loop_to_unix(ex, e, st):
    """looptimes.loop_to_unixtime(t): t + (unix clock - loop clock); the three clock reads of _get_timediff are treated as simultaneous"""
    outs = []
    for s1, vals in ex.evs(e.args, st):
        outs.append((s1, ZV('real', as_kind(vals[0], REAL, s1) + s1.ghost['timediff'])))
    return outs


def timer_cancelled(ex, e, st):
    t = as_kind(st.env['timer'], Ref(), st)
    return [(st, ZV('bool', st.readz('task_cancelled', t)))]


def timer_when(ex, e, st):
    t = as_kind(st.env['timer'], Ref(), st)
    return [(st, ZV('real', st.readz('h_when', t)))]


@contract('FSM._restore_state', qual='edzed.fsm:FSM._restore_state', modifies=fsmspec.FSM_EFFECTS, self_cls='FSM')
def _fsm_restore(c):
    me, ist = c.v('self'), c.v('istate')
    me = c.z('self')
    k = Val.tk(ist)
    c.requires('saved_by_get_state', And(Val.is_T(ist), tup_len(k) == 3, Val.is_S(tup_item(k, 0)), Val.is_D(tup_item(k, 2)),
                                         Or(tup_item(k, 1) == Val.VNone, Val.is_R(tup_item(k, 1)))))
    c.requires('fresh_fsm', And(c.pre('_output', me) == Val.Undef, fsmspec.timer_free(c.S, me), c.pre('_state', me) == Val.Undef))
    state, exp, sdata = tup_item(k, 0), tup_item(k, 1), tup_item(k, 2)
    now = c.S.g('unixnow')
    known = c.pre('_ct_states', me)[Val.s(state)]
    expired = And(exp != Val.VNone, Val.r(exp) - now <= 0)
    timed = fsmspec.OV.is_Some(c.pre('_ct_timed_event', me)[Val.s(state)])
    c.raises('ValueError', when=Not(known), iff=True, label='unknown_state')
    c.raises('EdzedCircuitError', when=And(known, exp != Val.VNone, Not(expired), Not(timed)), iff=True, label='timer_for_a_state_without_timer')
    c.raises('DeliveryError', when=And(known, Not(expired)), unchanged=False)
    c.raises('OtherException', when=And(known, Not(expired)), unchanged=False, label='calc_output_failed')
    # a state whose timer ran out during the downtime is discarded (normal initialisation follows)
    c.ensures('expired_state_is_discarded', Implies(expired, And(c.post('_state', me) == Val.Undef, c.post('_output', me) == Val.Undef,
                                                                 fsmspec.timer_free(c.T, me), c.T.tn == 0)))
    at = c.post('_active_timer', me)
    c.ensures('state_and_data_restored', Implies(Not(expired), And(c.post('_state', me) == state, c.post('sdata', me) == dict_c(Val.dk(sdata)))))
    c.ensures('timer_expires_at_the_same_absolute_time', Implies(And(Not(expired), exp != Val.VNone), And(
        at != Val.VNone, c.post('h_live', Val.ref(at)), c.post('n_live', me) == 1,
        c.post('h_when', Val.ref(at)) + (now - c.S.g('now')) == Val.r(exp),         # loop time of expiry, translated to UNIX time, is the saved expiry
        c.post('h_event', Val.ref(at)) == fsmspec.OV.v(c.pre('_ct_timed_event', me)[Val.s(state)]))))
    c.ensures('no_timer_without_a_saved_expiry', Implies(And(Not(expired), exp == Val.VNone), fsmspec.timer_free(c.T, me)))
    if c.verifying:
        # no entry action, no condition, no on_enter events: only the timer and the output
        def expected(kk, r, st):
            name = z3.simplify(Rec.fn(r)).as_string()
            return BoolVal(name in ('set_timer', 'calc_output', 'set_output'))
        c.expect_trace(expected, 3, normal_len=None, predicate=True)


# ---- Circuit._check_persistent_data -----------------------------------------------------------------------------------------------------------
def persistent_blocks(ex, e, st):
    """[blk for blk in self.getblocks(addons.AddonPersistence) if blk.persistent]: the persistent blocks of this circuit"""
    me = as_kind(st.env['self'], Ref(), st)
    b = Int('b!pb')
    pers = st.comp('persistent', BoolSort()); circ = st.comp('circuit', IntSort())
    return [(st, PSet(z3.Lambda([b], And(pers[b], circ[b] == me, calls.inst_of(b, calls.C_class('AddonPersistence')))), 'ref'))]


def used_keys(ex, e, st):
    """{blk.key for blk in persistent_blocks}"""
    pb = st.env['persistent_blocks']
    k = Const('k!uk', StringSort()); b = Int('b!uk')
    keyf = st.comp('key', StringSort())
    return [(st, PSet(z3.Lambda([k], Exists([b], And(pb.arr[b], keyf[b] == k))), 'str'))]


@contract('Circuit._check_persistent_data', qual='edzed.simulator:Circuit._check_persistent_data', modifies=('persistent', 'persistent_ts', 'st_items'), self_cls='Circuit')
def _cpd(c):
    me = c.z('self')
    pd = c.pre('persistent_dict', me)
    c.requires('storage_is_none_or_a_mapping', Or(pd == Val.VNone, Val.is_Obj(pd)))
    items = c.pre_whole('st_items')[Val.ref(pd)]
    b = Int('b!cp'); k = Const('k!cp', StringSort())
    mine = lambda S, bb: And(S.whole('circuit')[bb] == me, calls.inst_of(bb, calls.C_class('AddonPersistence')))
    c.ensures('no_storage_means_no_persistent_blocks', Implies(pd == Val.VNone, And(
        ForAll([b], Implies(mine(c.S, b), Not(c.post_whole('persistent')[b]))), c.post_whole('st_items') == c.pre_whole('st_items'))))
    ts = items[StringVal('edzed-stop-time')]
    c.ensures('timestamp_is_the_stored_float_or_none', Implies(pd != Val.VNone, c.post('persistent_ts', me) ==
              If(And(Opt.is_Some(ts), Val.is_R(Opt.v(ts))), Opt.v(ts), Val.VNone)))
    used = lambda kk: Exists([b], And(c.pre_whole('persistent')[b], mine(c.S, b), c.pre_whole('key')[b] == kk))
    new = c.post_whole('st_items')[Val.ref(pd)]
    c.ensures('unused_entries_removed_reserved_and_used_entries_kept', Implies(pd != Val.VNone, ForAll([k],
              new[k] == If(Or(used(k), PrefixOf(StringVal('edzed-'), k)), items[k], Opt.Absent))))


def inv_clear_flags(lc):
    me = as_kind(lc.pre.args['self'], Ref())
    b = Int('b!i1')
    return [('visited_blocks_are_no_longer_persistent', ForAll([b], lc.st.whole('persistent')[b] == And(lc.pre.whole('persistent')[b], Not(lc.done[b])))),
            ('storage_untouched', lc.st.whole('st_items') == lc.pre.whole('st_items'))]


def inv_remove_unused(lc):
    me = as_kind(lc.pre.args['self'], Ref())
    pd = lc.pre.f('persistent_dict', me)
    items = lc.pre.whole('st_items')[Val.ref(pd)]
    k = Const('k!i2', StringSort())
    cur = lc.st.whole('st_items')[Val.ref(pd)]
    return [('visited_unused_keys_removed', ForAll([k], cur[k] == If(And(lc.done[k], Not(PrefixOf(StringVal('edzed-'), k))), Opt.Absent, items[k]))),
            ('flags_untouched', lc.st.whole('persistent') == lc.pre.whole('persistent'))]


def build(run):
    from edzed import addons, fsm as F
    from edzed.blocklib import sblocks1, sblocks2, timedate
    G = {'timer_callback': None, 'unixnow': Real('unixnow'), 'now': Real('now'), 'timediff': Real('timediff'), 'items_after_handler': None,
         'ctx': Const('ctx0', DictS), 'phase': IntVal(-1), 'calc_val': Val.VNone}
    run.verify('AddonPersistence.save_persistent_state', cls='Counter', hooks=HD, calls={'self.get_state': get_state_iface})
    run.verify('AddonPersistence.event', cls='Counter', hooks=HD, ghost=G, calls={'super().event': super_event})
    run.verify('AddonPersistence.init_from_persistent_data', cls='Counter', hooks=HD, ghost=G,
               calls={'time.time': time_time, 'self._restore_state': restore_iface})
    import ast as _ast
    def comps(ex, e, st):
        txt = _ast.unparse(e)
        if txt.startswith('[blk for blk in self.getblocks('): return persistent_blocks(ex, e, st)
        if txt == '{blk.key for blk in persistent_blocks}': return used_keys(ex, e, st)
        return None
    run.verify('Circuit._check_persistent_data', cls='Circuit', hooks=dict(HD, comp=comps), ghost=G,
               calls={'time.time': time_time},
               invariants={'for blk in persistent_blocks': inv_clear_flags,
                           'for key in self.persistent_dict.keys() - {blk.key for blk in persistent_blocks}': inv_remove_unused})
    G2 = dict(G); G2['timediff'] = Real('unixnow') - Real('now')        # unix time = loop time + (unix clock - loop clock)
    run.verify('FSM.get_state', cls='FSM', ghost=G2, calls={'timer.cancelled': timer_cancelled, 'timer.when': timer_when,
                                                            'looptimes.loop_to_unixtime': loop_to_unix})
    run.verify('FSM._set_timer', cls='FSM', ghost=G2, calls={'asyncio.get_running_loop().call_later': fsmspec.call_later})
    run.verify('FSM._restore_state', cls='FSM', ghost=G2,
               calls={'time.time': time_time, 'self.calc_output': fsmspec.fsm_calc_output_iface})

    # ---- lemma: get_state followed by _restore_state after a downtime keeps the absolute expiry ------------------------------------------------
    when, now1, unix1, now2, unix2, d = Real('when'), Real('now1'), Real('unix1'), Real('now2'), Real('unix2'), Real('d')
    saved = when + (unix1 - now1)                 # get_state: loop time of expiry -> UNIX timestamp
    remaining = saved - unix2                     # _restore_state: remaining = saved - time.time()
    run.lemma('timer_round_trip/same_absolute_expiry', [remaining > 0], (now2 + remaining) + (unix2 - now2) == saved)
    run.lemma('timer_round_trip/expired_during_downtime_is_discarded', [saved <= unix2], remaining <= 0)
    # ---- scans ---------------------------------------------------------------------------------------------------------------------------------
    for cls, name in ((sblocks1.Counter, '_setmod'), (sblocks2.Input, 'init_from_value'), (timedate.TimeDate, 'init_from_value'), (timedate.TimeSpan, 'init_from_value')):
        d_ = vars(cls)
        run.scan(f'restore_is_{name}:{cls.__name__}', d_.get('_restore_state') is d_.get(name), f'{cls.__name__}._restore_state is {name}')
    mro = [k.__name__ for k in F.FSM.__mro__]
    run.scan('timer_events_pass_through_the_persistence_layer', mro.index('AddonPersistence') < mro.index('SBlock') and 'event' in vars(addons.AddonPersistence),
             'FSM timers call self.event: the MRO resolves it to AddonPersistence.event (state saved after timed events too)')
    callers = scan.method_callers('save_persistent_state')
    run.scan('save_sites', callers == ['edzed/addons.py:AddonPersistence.event', 'edzed/simulator.py:Circuit._init_sblocks_sync_2', 'edzed/simulator.py:Circuit.run_forever'], f'{callers}')
    run.replayer('FSM._set_timer/post:callback_clears_the_fired_handle', lambda run_, ob, model: open('/verif/specs/replay_c06.py').read())
    # ---- blocks whose state is their output (Counter, Input, ...): get_state / _restore_state round trip --------------------------------------
    from specs import c20
    run.verify('SBlock.get_state', cls='SBlock', hooks={'opaque_fstrings': True})
    run.verify('Counter._setmod', cls='Counter')          # Counter._restore_state is _setmod (scan below)
    out, mod = Const('saved_output', Val), Const('modulo', Val)
    rng = [Or(mod == Val.VNone, And(is_num(mod), num(mod) > 0)), is_num(out), Implies(mod != Val.VNone, And(0 <= num(out), num(out) < num(mod)))]
    rng += list(floorq_axioms(num(out), num(mod)))         # definition of the real floor quotient used by sp_mod
    run.lemma('counter_round_trip/restoring_the_saved_output_yields_the_same_output', rng, py_eq(c20.reduced(out, mod), out))
    from edzed.blocklib import sblocks1 as _sb1, sblocks2 as _sb2
    run.scan('restore_state_aliases', _sb1.Counter._restore_state is _sb1.Counter._setmod and _sb1.Counter.init_from_value is _sb1.Counter._setmod
             and _sb2.Input._restore_state is _sb2.Input.init_from_value and 'get_state' not in vars(_sb1.Counter) and 'get_state' not in vars(_sb2.Input),
             'Counter._restore_state is _setmod, Input._restore_state is init_from_value (validated like a put: C17); both use the default get_state (the output)')
    from specs import timedate as tdspec
    tdspec.verify_td_persistence(run)      # TimeDate/TimeSpan: saved state = exported configuration; restore = reconfiguration with it
    from specs import lifecycle, startup
    startup.verify_startup(run)             # _init_sblocks_sync_2: states are saved after the initialisation, only with a storage
    lifecycle.verify_run_forever(run)       # clean-up: states + stop time saved iff the start completed, before the blocks are stopped
    run.unclaim('equality of float timestamps beyond real arithmetic')
    run.assume('get_state() is a deterministic function of the block state; the three clock reads of looptimes._get_timediff are simultaneous')
    run.trust('SBlock.event (C11/C09), timer contracts (C04), Circuit.is_ready (C14); the storage is a dict-like object reached through the heap')
