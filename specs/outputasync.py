"""OutputAsync (sblocks2): queueing of put events, the output task, the three control strategies, stop (C12, C08)."""
import ast
import z3
from pyvc.sorts import *
from pyvc.values import *
from pyvc.state import declare_fields, View
from pyvc.contract import contract, CONTRACTS, Param
from pyvc.engine import Raise, NEXT
from pyvc import calls
from specs.common import *
from specs import event_send              # contract of Event.send
from specs import outputfunc              # shared field declarations (_f_args, _on_success, ...)
from specs.outputfunc import keys_present

declare_fields(_coro=VAL, _guard_time=REAL, _queue=Ref('DataQueue'), _ctrl_task=VAL, _ctrl_coro=STR, stop_timeout=REAL,
               dq_items=Seq('val'), dq_head=INT)
Q = 'edzed.blocklib.sblocks2:OutputAsync.'
ME_TASK = Int('this_task')                # the task executing the coroutine under verification


# ---- the data queue (asyncio.Queue holding the put data and the None sentinel): FIFO, unbounded -------------------------------------------------
def q_items(S, q): return S.f('dq_items', q)          # (arr, n): everything ever put; the entries from dq_head on are waiting
def q_head(S, q): return S.f('dq_head', q)


@contract('DataQueue.put_nowait', modifies=('dq_items',), result=None, sig=([Param('self', Ref()), Param('item', VAL)], None, None),
          trusted='asyncio.Queue.put_nowait (unbounded queue: never raises, appends)',
          traced=lambda a, st: rec('put_nowait', to_val(a['self'], st), to_val(a['item'], st)))
def _dq_put(c):
    q, item = c.z('self'), c.v('item')
    arr, n = q_items(c.S, q); arr2, n2 = q_items(c.T, q)
    c.ensures('appended', And(n2 == n + 1, arr2 == Store(arr, n, item)))


def impose_queue_only_appended(S, T, q):
    """other tasks only append to the data queue (producers: _event_put and stop; the control task is the only consumer: scan)"""
    old_arr, old_n = S.f('dq_items', q)
    new_arr = fresh('dq_arr', SeqArr); extra = fresh('dq_extra', IntSort())
    j = Int('j!qa')
    T.st.heap['dq_items#items'] = Store(T.st.comp('dq_items#items', SeqArr), q, z3.Lambda([j], If(j < old_n, old_arr[j], new_arr[j])))
    T.st.heap['dq_items#len'] = Store(T.st.comp('dq_items#len', IntSort()), q, old_n + If(extra > 0, extra, 0))
    T.st.heap['dq_head'] = Store(T.st.comp('dq_head', IntSort()), q, S.f('dq_head', q))


def queue_get(ex, st, q):
    """`await queue.get()` in the control task: other tasks run (they may append), then the oldest waiting item is taken"""
    post = env_for_ctrl(ex, st, q)
    arr, n = View(post).f('dq_items', q); h = View(post).f('dq_head', q)
    post.assume(h < n)                                  # get() returns only when an item is available
    post.write('dq_head', q, ZV('int', h + 1))
    post.ghost['taken'] = post.ghost.get('taken', IntVal(0)) + 1 if is_expr(post.ghost.get('taken')) else post.ghost.get('taken')
    return post, ZV('val', arr[h])


ENV_CTRL = ('_output', 'q_set', '_error', 'cancel_requested', 'task_done', 'task_cancelled', 'task_exception', 'init_steps_completed', 'dq_items')


def env_for_ctrl(ex, st, q):
    post = st.copy()
    for f in ENV_CTRL: post.havoc_field(f)
    S, T = View(st), View(post)
    impose_error_write_once(S, T); impose_outputs_stay_defined(S, T); impose_queue_only_appended(S, T, q)
    tx = Int('t!sd2')
    for f in ('task_done', 'task_cancelled', 'task_exception'):
        new, old = T.whole(f), S.whole(f)
        T.st.heap[f] = z3.Lambda([tx], If(S.whole('task_done')[tx], old[tx], new[tx]))
    if post.ghost.get('now') is not None:
        now = fresh('now', RealSort()); post.assume(now >= post.ghost['now']); post.ghost['now'] = now
    return post


# ---- OutputAsync._event_put ---------------------------------------------------------------------------------------------------------------------
@contract('OutputAsync._event_put', qual=Q + '_event_put', modifies=('dq_items',), self_cls='OutputAsync')
def _oa_put(c):
    me = c.z('self')
    q = c.pre('_queue', me)
    data = c.arg('data').arr
    arr, n = q_items(c.S, q); arr2, n2 = q_items(c.T, q)
    c.ensures('the_data_is_queued_once_behind_everything_queued_before', And(n2 == n + 1, Val.is_D(arr2[n]), dict_c(Val.dk(arr2[n])) == data,
              ForAll([Int('j!ep')], Implies(And(0 <= Int('j!ep'), Int('j!ep') < n), arr2[Int('j!ep')] == arr[Int('j!ep')]))))


def verify_put(run):
    run.verify('OutputAsync._event_put', cls='OutputAsync')


# ---- OutputAsync._output_coro --------------------------------------------------------------------------------------------------------------------
KINDS = {'success': '_on_success', 'cancel': '_on_cancel', 'error': '_on_error'}


def await_user_coro(ex, node, st):
    """`await self._coro(*args, **kwargs)`: the user's coroutine runs (other tasks run meanwhile); it returns a value, fails, or is
    cancelled (by the control task, or by whoever cancels this output task)"""
    me = as_kind(st.env['self'], Ref(), st)
    fv = st.readz('_coro', me)
    a = to_val(st.env['args'], st); kw = st.env['kwargs']
    st = st.copy(); ex.emit(st, rec('coro', fv, a, kw=kw.arr if isinstance(kw, PDict) else EMPTY_DICT))
    outs = []
    for kind in ('success', 'cancel', 'error'):
        s2 = env_for_ctrl(ex, st, st.readz('_queue', me))
        s2.ghost['kind'] = kind; s2.ghost['t_result'] = s2.ghost['now']
        if kind == 'success':
            r = fresh('retval', Val); s2.ghost['retval'] = r
            outs.append((s2, ZV('val', r)))
        else:
            x = Val.Obj(fresh('exc', IntSort())); s2.ghost['exc'] = x; s2.label(f'coro:{kind}')
            outs.append((s2, Raise(PExc('CancelledError' if kind == 'cancel' else 'OtherException', val=x, where='callee'))))
    return outs


def await_guard_sleep(ex, node, st):
    """`await utils.shield_cancel(asyncio.sleep(g))` (contract of shield_cancel, proved below): returns or raises CancelledError only
    after the sleep has finished, i.e. not before g seconds have passed"""
    me = as_kind(st.env['self'], Ref(), st)
    g = st.readz('_guard_time', me)
    outs = []
    for cancelled in (False, True):
        s2 = env_for_ctrl(ex, st, st.readz('_queue', me))
        s2.assume(s2.ghost['now'] >= st.ghost['now'] + g)
        if cancelled:
            s2.label('guard:cancel_pending')
            outs.append((s2, Raise(PExc('CancelledError', val=Val.Obj(fresh('exc', IntSort())), where='callee'))))
        else:
            outs.append((s2, P_NONE))
    return outs


@contract('OutputAsync._output_coro', qual=Q + '_output_coro', params={'data': VAL}, modifies=ENV_CTRL, self_cls='OutputAsync',
          traced=lambda a, st: rec('_output_coro', to_val(a['self'], st), to_val(a['data'], st)))
def _output_coro(c):
    me, data = c.z('self'), c.v('data')
    c.requires('the_data_are_a_dict', Val.is_D(data))
    tuples = {k: c.pre(f, me) for k, f in KINDS.items()}
    A, nA = c.pre('_f_args', me); K, nK = c.pre('_f_kwargs', me)
    j = Int('j!oc')
    c.requires('configuration', And(nA >= 0, nK >= 0, c.pre('_guard_time', me) >= 0,
               ForAll([j], Implies(And(0 <= j, j < nA), Val.is_S(A[j]))), ForAll([j], Implies(And(0 <= j, j < nK), Val.is_S(K[j]))),
               *[And(n >= 0, events_are_objects(arr, n)) for arr, n in tuples.values()]))
    c.raises('DeliveryError', unchanged=False, label='delivery_of_a_result_event_failed')
    if not c.verifying:
        return
    g = c.pre('_guard_time', me)
    def expected(k, r, st):
        kind = st.ghost.get('kind')
        fn = z3.simplify(Rec.fn(r)).as_string()
        if kind is None and fn == 'coro':
            return [('the_coroutine_runs_first', And(k == 0, Rec.recv(r) == c.pre('_coro', me)))]
        base = 1
        if kind is None:
            # the data lack an item named in f_args/f_kwargs: the coroutine cannot be called; reported as an error of this run
            kind, base = 'error', 0
        arr, n = tuples[kind]
        goals = [('one_kind_of_result_event_in_the_configured_order', And(Rec.fn(r) == StringVal('send'), k >= base, k < n + base, Rec.recv(r) == arr[k - base],
                                                                         Rec.a0(r) == Val.Obj(me), Rec.kw(r)[StringVal('trigger')] == Opt.Some(S_(kind)))),
                 ('result_event_carries_the_original_data', Rec.kw(r)[StringVal('put')] == Opt.Some(data))]
        if kind == 'success': goals.append(('success_event_carries_the_result', Rec.kw(r)[StringVal('value')] == Opt.Some(st.ghost['retval'])))
        if kind == 'error' and base == 1: goals.append(('error_event_carries_the_error', Rec.kw(r)[StringVal('error')] == Opt.Some(st.ghost['exc'])))
        if kind == 'error' and base == 0:
            e = Opt.v(Rec.kw(r)[StringVal('error')])
            goals.append(('error_event_carries_the_error', And(Opt.is_Some(Rec.kw(r)[StringVal('error')]), Val.is_Obj(e), calls.inst_of(Val.ref(e), KeyError),
                                                               Not(And(keys_present(dict_c(Val.dk(data)), A, nA), keys_present(dict_c(Val.dk(data)), K, nK))))))
        return goals
    c.expect_trace(expected, None, normal_len=None, predicate=True)
    def finished(post):
        kind = post.g('kind')
        if kind is None:
            return [post.tn == tuples['error'][1], BoolVal(True)]      # the run could not start: one error event per destination
        n = tuples[kind][1]
        return [post.tn == 1 + n,                                      # exactly one event of that kind per configured destination
                Implies(g > 0, post.g('now') >= post.g('t_result') + g)]  # the guard time has passed in full
    fin = finished(c.T)
    for lab, f in zip(('every_accepted_put_gets_its_result_events', 'guard_time_has_elapsed'), fin): c.ensures(lab, f)


def inv_result_sends(lc):
    return [('trace_position', lc.st.tn == (0 if lc.st.st.ghost.get('kind') is None else 1) + lc.i)]


def verify_output_coro(run):
    G = {'kind': None, 'retval': None, 'exc': None, 'now': z3.Real('now0'), 't_result': z3.Real('now0')}
    run.verify('OutputAsync._output_coro', cls='OutputAsync', ghost=G,
               invariants={'for ev in self._on_cancel': inv_result_sends, 'for ev in self._on_error': inv_result_sends,
                           'for ev in self._on_success': inv_result_sends},
               calls={'_args_as_string': lambda ex, e, st: [(st, ZV('str', fresh('argstr', StringSort())))]},
               hooks={'await': awaits({'self._coro(*args, **kwargs)': await_user_coro, 'utils.shield_cancel(*': await_guard_sleep})})
