"""Check runner: `python3-vt -m pyvc.main Cnn [--tier quick|thorough]`.
Exit codes (DESIGN 1): 0 held / 1 violation / 2 undecided / 3 checker error."""
import argparse
import hashlib
import importlib
import json
import os
import subprocess
import sys
import time
import traceback

HERE = os.path.dirname(os.path.dirname(os.path.abspath(__file__)))
sys.path.insert(0, HERE)
OUT = os.environ.get('VERIF_OUT') or HERE        # evidence/ and replays/ go here (scratch dir for mutant self-tests)

from pyvc import contract as C          # noqa: E402
from pyvc.values import Unsupported     # noqa: E402
from pyvc.engine import Obligation      # noqa: E402
from pyvc import solve, verify as V     # noqa: E402
import z3                               # noqa: E402

NATIVE_PY = '/venv/bin/python'
REPO = C.REPO


class Run:
    def __init__(self, prop, tier, seed):
        self.prop, self.tier, self.seed = prop, tier, seed
        self.obligations = []
        self.functions = []
        self.scans = []
        self.bounded = []
        self.assumptions = set()
        self.trusted = set()
        self.replayers = []         # (prefix, fn)
        self.unclaimed = []
        self.signatures = {}        # obligation name -> {sig name: z3 formula}  (known-finding witness signatures)
        self.notes = []
        self.errors = []

    # ------------------------------------------------------------------ building blocks
    def verify(self, key, cls=None, label=None, **kw):
        k = C.CONTRACTS[key] if isinstance(key, str) else key
        try:
            obs, info = V.verify(k, self.prop, cls=cls, label=label, **kw)
            if getattr(k, 'alpha_note', None): self.notes.append({'alpha_normalisation': f'{k.qual}: {k.alpha_note}'})
        except Unsupported as err:
            # this function cannot be processed: the run cannot end with exit 0, but the remaining functions,
            # lemmas and scans are still evaluated (an independently established violation stays a violation)
            self.errors.append(f'{k.key}: {err}')
            return []
        real = [o for o in obs if o.kind != 'canary']
        if not real:
            raise Unsupported(f'{k.key}: zero obligations generated (vacuity guard)')
        self.obligations.extend(obs)
        self.assumptions |= info.assumptions
        bound, why = runtime_code_matches(k)
        if bound is not None:
            self.scans.append(dict(name=f'{self.prop}/scan/runtime_binding:{k.key}', ok=bound, replay=None,
                                   detail=f'the object the interpreter runs for {k.qual} is compiled from the verified AST node ({why})'))
        self.functions.append(dict(function=k.qual, contract=k.key, proof_instance=cls or '', file=os.path.relpath(k.file, REPO),
                                   lines=[k.node.lineno, k.node.end_lineno], source_sha256_16=k.hash, paths=info.paths,
                                   obligations=len(real), generate_s=round(info.gen_s, 3),
                                   exits=sorted({e for e, _ in info.exits})))
        return obs

    def lemma(self, name, hyps, goal, meta=None):
        o = Obligation(f'{self.prop}/lemma/{name}', list(hyps), goal, [], 'lemma', meta)
        self.obligations.append(o)
        return o

    def scan(self, name, ok, detail, replay=None):
        """a syntactic / reflective obligation decided by enumeration of a finite structure, not by a solver"""
        self.scans.append(dict(name=f'{self.prop}/scan/{name}', ok=bool(ok), detail=detail, replay=replay))

    def bounded_result(self, name, bound, cases, failures):
        self.bounded.append(dict(name=f'{self.prop}/bounded/{name}', bound=bound, cases=cases, failures=failures))

    def bounded_native(self, name, script, bound, env=None, timeout=600):
        """bounded stand-in / witness search: a script under /verif/bounded run natively (3.12) against the repository
        under test; it prints one JSON line {"cases": n, "failures": [...]}.  Labelled bounded, never counted as proved."""
        e = dict(os.environ, VERIF_REPO=REPO, PYTHONPATH=REPO, VERIF_SEED=str(self.seed), **(env or {}))
        try:
            p = subprocess.run([NATIVE_PY, os.path.join(HERE, 'bounded', script)], capture_output=True, text=True, timeout=timeout, env=e, cwd='/')
            line = [l for l in p.stdout.splitlines() if l.startswith('{')][-1]
            res = json.loads(line)
        except Exception as err:
            self.errors.append(f'bounded/{name}: {type(err).__name__}: {err}')
            return
        self.bounded.append(dict(name=f'{self.prop}/bounded/{name}', bound=bound, cases=res.get('cases', 0), failures=res.get('failures', [])))

    def assume(self, text): self.assumptions.add(text)
    def trust(self, text): self.trusted.add(text)
    def unclaim(self, text): self.unclaimed.append(text)
    def replayer(self, prefix, fn): self.replayers.append((prefix, fn))
    def signature(self, obname, signame, formula): self.signatures.setdefault(obname, {})[signame] = formula


def runtime_code_matches(k):
    """the verified text is the code that runs: the runtime function object reachable under the contract's
    qualified name must have been compiled from the AST node that was interpreted"""
    modname, path = k.qual.split(':')
    if '<' in path: return None, 'nested function: not resolvable by name'
    obj = k.module
    parts = path.split('.')
    try:
        for i, part in enumerate(parts):
            if isinstance(obj, property): obj = obj.fget          # `@property class X:` (SBlock._enable_event)
            obj = vars(obj)[part] if isinstance(obj, type) else getattr(obj, part)
    except (KeyError, AttributeError):
        return False, 'name does not resolve at run time'
    obj = getattr(obj, '__func__', obj)
    if isinstance(obj, property): obj = obj.fget
    obj = getattr(obj, '__wrapped__', obj) if type(obj).__name__ == '_dualmethod' else obj
    code = getattr(obj, '__code__', None)
    if code is None: return False, f'runtime object is {type(obj).__name__}, not a function'
    first = min([k.node.lineno] + [d.lineno for d in getattr(k.node, 'decorator_list', [])])
    ok = code.co_name == k.node.name and code.co_firstlineno == first
    return ok, f'{code.co_name}@{code.co_firstlineno}'


def load_known_findings():
    p = os.path.join(HERE, 'known_findings.json')
    if not os.path.exists(p): return []
    return json.load(open(p)).get('findings', [])


def group(obs, results):
    g = {}
    for o, r in zip(obs, results):
        g.setdefault(o.name, []).append((o, r))
    return g


def native_replay(script, timeout=60):
    """run a replay script against the real code; exit 1 = violation reproduced, 0 = not reproduced"""
    try:
        p = subprocess.run([NATIVE_PY, '-c', script], capture_output=True, text=True, timeout=timeout,
                           env=dict(os.environ, PYTHONPATH=REPO), cwd='/')
        return p.returncode, (p.stdout + p.stderr)[-3000:]
    except subprocess.TimeoutExpired:
        return 124, 'replay timed out'


def main(argv=None):
    ap = argparse.ArgumentParser()
    ap.add_argument('prop')
    ap.add_argument('--tier', default=os.environ.get('VERIF_TIER', 'quick'))
    ap.add_argument('--list', action='store_true')
    a = ap.parse_args(argv)
    prop = a.prop.upper()
    tier = a.tier if a.tier in ('quick', 'thorough') else 'quick'
    seed = int(os.environ.get('VERIF_SEED', '0') or 0)
    t0 = time.time()
    run = Run(prop, tier, seed)
    ev_path = os.path.join(OUT, 'evidence', f'{prop}.json')
    os.makedirs(os.path.dirname(ev_path), exist_ok=True)
    try:
        mod = importlib.import_module(f'specs.{prop.lower()}')
        mod.build(run)
    except Unsupported as err:
        print(f'CHECKER-ERROR property={prop} {err}')
        write_evidence(run, ev_path, t0, [], {}, status=f'checker-error: {err}')
        return 3
    except Exception as err:
        traceback.print_exc()
        print(f'CHECKER-ERROR property={prop} {type(err).__name__}: {err}')
        write_evidence(run, ev_path, t0, [], {}, status=f'checker-error: {type(err).__name__}: {err}')
        return 3
    obs = run.obligations
    if a.list:
        for n in sorted({o.name for o in obs}): print(n)
        return 0
    t1 = time.time()
    results = solve.discharge(obs)
    solve_s = time.time() - t1
    # obligations left open: try to decide them on the slice of hypotheses that shares symbols with the goal
    for o, r in zip(obs, results):
        if r['result'] == 'unknown' and o.kind != 'canary':
            try:
                m = solve.refute_on_slice(o)
            except z3.Z3Exception:
                m = None
            if m is not None:
                r['result'] = 'sat'; r['solver'] = 'z3-5.1 (goal slice)'
                r['out'] = 'sat on the quantifier-free slice of hypotheses connected to the goal'
    groups = group(obs, results)
    findings = [f for f in load_known_findings() if f.get('property') == prop]
    open_f = [f for f in findings if f.get('status') == 'open']
    verdict = {}
    violations, undecided, vacuous, known_lines, unreachable_exits = [], [], [], [], []
    for name, items in sorted(groups.items()):
        kind = items[0][0].kind
        rs = [r['result'] for _, r in items]
        if kind == 'canary':
            # the negated goal False must NOT be unsat, otherwise the hypotheses are contradictory
            bad = any(x == 'unsat' for x in rs)
            verdict[name] = 'canary-ok' if not bad else 'VACUOUS'
            if bad and 'vacuity:exit' in name: unreachable_exits.append(name)
            elif bad: vacuous.append(name)
            continue
        # a counter-model found on a path through a loop that was cut with the trivial invariant (a loop the contracts do not
        # know) may come from the forgotten state only: such a path is undecided, not refuted
        firm = [r['result'] for o, r in items if not any(l.endswith('.noinv') for l in o.labels)]
        if all(x == 'unsat' for x in rs): verdict[name] = 'discharged'
        elif any(x == 'sat' for x in firm): verdict[name] = 'refuted'
        else: verdict[name] = 'unknown'
    # scans
    for s in run.scans:
        verdict[s['name']] = 'discharged' if s['ok'] else 'refuted'
    for b in run.bounded:
        if b['failures']: verdict[b['name']] = 'refuted'
    # classify refutations against the known findings file
    for name, v in sorted(verdict.items()):
        if v == 'unknown': undecided.append(name); continue
        if v != 'refuted': continue
        f = next((f for f in open_f if f['obligation'] == name), None)
        if f is not None and finding_covers(run, f, name, groups.get(name)):
            known_lines.append(f"KNOWN-FINDING: property={prop} {f['what']} [obligation {name}]")
            verdict[name] = 'known-finding'
        else:
            violations.append(name)
    # an exit path whose hypotheses are contradictory is unreachable (feasibility pruning ignores quantified
    # hypotheses); that is harmless unless *every* exit of a function is unreachable (then its contract or a callee
    # contract is inconsistent and nothing was really proved)
    per_fn = {}
    for name, v in verdict.items():
        if '/vacuity:exit' in name:
            fn = name.split('/vacuity:')[0]; per_fn.setdefault(fn, []).append(v)
    for fn, vs in per_fn.items():
        if vs and all(v == 'VACUOUS' for v in vs): vacuous.append(fn + '/all_exits_unreachable')
    run.notes.append(dict(unreachable_exit_paths=unreachable_exits))
    code = 0
    out_lines = []
    for e in run.errors:
        out_lines.append(f'CHECKER-ERROR property={prop} {e}')
        code = 3
    if vacuous:
        for n in vacuous: out_lines.append(f'CHECKER-ERROR property={prop} vacuous hypotheses: {n}')
        code = 3
    replay_paths = {}
    for name in violations:
        path, found = make_replay(run, name, groups.get(name), verdict)
        replay_paths[name] = path
        out_lines.append(f'VIOLATION property={prop} replay={path}' + ('' if found else ' no-failing-input-found'))
        out_lines.append(f'  failed obligation: {name}')
    if violations: code = 1
    elif code == 0 and undecided:
        for n in undecided: out_lines.append(f'UNDECIDED property={prop} obligation={n}')
        code = 2
    for l in known_lines: print(l)
    for l in out_lines: print(l)
    nreal = sum(1 for n, v in verdict.items() if v in ('discharged', 'refuted', 'unknown', 'known-finding'))
    ndis = sum(1 for v in verdict.values() if v == 'discharged')
    print(f'{prop} [{tier}]: {len(run.functions)} functions under contract, {nreal} obligations '
          f'({len(obs)} solver queries, {len(run.scans)} scan), {ndis} discharged, '
          f'{len(known_lines)} known findings, {len(violations)} violations, {len(undecided)} undecided; '
          f'generate {t1 - t0:.1f}s solve {solve_s:.1f}s')
    if tier == 'thorough' and not os.environ.get('VERIF_REPO'):
        # deeper exploration: the same queries under other solver seeds, and the corpus of changes that must / must not be reported
        flips = solve.rerun_with_seeds(obs, results, seeds=(1, 2))
        run.notes.append(dict(solver_seed_reruns=dict(seeds=[1, 2], verdict_flips=flips)))
        if flips: print(f'{prop} [thorough]: verdicts that depend on the solver seed: {flips[:5]}')
        from . import thorough
        mt = thorough.run_mutants(prop, REPO)
        if mt is not None:
            run.notes.append(dict(mutants=mt))
            print(f"{prop} [thorough]: corpus of changes: {mt['breaking_changes']} property-breaking, {mt['reported']} reported"
                  + (f", NOT reported: {[x['name'] for x in mt['not_reported']]}" if mt['not_reported'] else '')
                  + f"; {mt['harmless_edits']} harmless edits, {mt['silent']} silent"
                  + (f", FALSE ALARMS: {[x['name'] for x in mt['false_alarms']]}" if mt['false_alarms'] else ''))
    write_evidence(run, ev_path, t0, results, verdict, status={0: 'held', 1: 'violation', 2: 'undecided', 3: 'checker-error'}[code],
                   groups=groups, solve_s=solve_s, known=known_lines, violations=violations, replay_paths=replay_paths)
    return code


def finding_covers(run, f, name, items):
    """an open finding suppresses a refuted obligation only if, with the finding's witness signature excluded,
    nothing else fails (DESIGN 2.12)"""
    sig = f.get('signature')
    if items is None:
        # scan obligation: the finding names the offending site(s); any other offender is a new violation
        sc = next((s for s in run.scans if s['name'] == name), None)
        extra = (sc or {}).get('extra')
        if extra is None: return not sig
        return set(extra) <= {sig}
    if not sig: return True
    formula = run.signatures.get(name, {}).get(sig)
    if formula is None: return False
    for o, r in items:
        if r['result'] != 'sat': continue
        s = z3.Solver(); s.set('timeout', 20000)
        for h in o.hyps: s.add(h)
        s.add(z3.Not(formula)); s.add(z3.Not(o.goal))
        if s.check() != z3.unsat: return False
    return True


def make_replay(run, name, items, verdict):
    os.makedirs(os.path.join(OUT, 'replays'), exist_ok=True)
    rec = dict(property=run.prop, obligation=name, created=time.strftime('%Y-%m-%dT%H:%M:%S'))
    found = False
    if items is None:
        s = next((s for s in run.scans if s['name'] == name), None) or next((b for b in run.bounded if b['name'] == name), None)
        rec['kind'] = 'scan/bounded'
        rec['detail'] = s.get('detail') if s else None
        if s and s.get('failures'): rec['failing_inputs'] = s['failures'][:5]; found = True
        if s and s.get('replay'):
            rc, out = native_replay(s['replay'])
            rec['replay_script'] = s['replay']; rec['native_exit'] = rc; rec['native_output'] = out
            found = found or rc == 1
    else:
        sat_items = [(o, r) for o, r in items if r['result'] == 'sat']
        o, r = sat_items[0]
        rec.update(kind=o.kind, path=o.labels, meta=o.meta, solver=r['solver'], solver_output=r['out'])
        model, status = solve.model_for(o)
        if model is None: model, status = solve.model_for(o, weaken=True)
        rec['model_status'] = status
        if model is not None:
            rec['model'] = {str(d): str(model[d])[:300] for d in model.decls()[:200]}
        rep = next((fn for pre, fn in run.replayers if pre in name), None)
        if rep is not None and model is not None:
            try:
                script = rep(run, o, model)
            except Exception as err:
                script = None; rec['replay_error'] = f'{type(err).__name__}: {err}'
            if script:
                rc, out = native_replay(script)
                rec['replay_script'] = script; rec['native_exit'] = rc; rec['native_output'] = out
                found = rc == 1
    rec['failing_input_found'] = found
    h = hashlib.sha256(name.encode()).hexdigest()[:10]
    path = os.path.join(OUT, 'replays', f'{run.prop}-{h}.json')
    json.dump(rec, open(path, 'w'), indent=1, default=str)
    return path, found


def write_evidence(run, path, t0, results, verdict, status, groups=None, solve_s=0.0, known=(), violations=(), replay_paths=None):
    nreal = sum(1 for v in verdict.values() if v in ('discharged', 'refuted', 'unknown'))
    ndis = sum(1 for v in verdict.values() if v == 'discharged')
    per = []
    samples = []
    by_solver = {}
    if groups:
        for name, items in sorted(groups.items()):
            if items[0][0].kind == 'canary': continue
            ms = sum(r['ms'] for _, r in items)
            solvers = sorted({r['solver'] for _, r in items})
            for s in solvers: by_solver[s] = by_solver.get(s, 0) + 1
            per.append(dict(name=name, kind=items[0][0].kind, queries=len(items), verdict=verdict.get(name), solvers=solvers, ms=ms))
        for name, items in list(sorted(groups.items()))[:400]:
            if items[0][0].kind in ('canary',): continue
            if len(samples) >= 4: break
            o = items[0][0]
            if z3.is_true(z3.simplify(o.goal)): continue
            samples.append(dict(obligation=name, path=o.labels[-8:], goal=str(o.goal)[:600], n_hypotheses=len(o.hyps),
                                smt2_head=solve.to_smt2(o.hyps[-6:], o.goal)[-900:]))
    for s in run.scans:
        per.append(dict(name=s['name'], kind='scan', queries=0, verdict='discharged' if s['ok'] else 'refuted', solvers=['ast/reflection'], ms=0))
    if not samples: samples = [dict(note='no solver obligation generated', status=status)]
    ev = dict(
        property_id=run.prop, tier=run.tier, seed=run.seed, level='proof',
        coverage=dict(
            obligations=max(nreal, 0), discharged=ndis,
            checker_cmd=f'python3-vt -m pyvc.main {run.prop} --tier {run.tier}',
            trusted_base=sorted(run.trusted | {
                'pyvc: home-made VC generator for a Python subset (encoding of Python semantics in pyvc/sorts.py, engine.py, calls.py)',
                'z3 5.1.0 (unsat answers), cvc5 1.0.3 (fallback)', 'CPython 3.12 semantics as encoded'}),
            status=status,
            explanation='obligations = named proof obligations expected to hold (solver-discharged code/loop/frame/pre/lemma obligations '
                        'plus scan obligations decided by AST/reflection); known-finding obligations are listed separately and not counted',
            functions_under_contract=run.functions,
            obligations_detail=per,
            discharged_by_backend=by_solver,
            scan_obligations=[dict(name=s['name'], ok=s['ok'], detail=s['detail']) for s in run.scans],
            bounded=[dict(name=b['name'], bound=b['bound'], cases=b['cases'], failures=len(b['failures'])) for b in run.bounded],
            known_findings=list(known), violations_detail=[dict(obligation=v, replay=(replay_paths or {}).get(v)) for v in violations],
            unclaimed_clauses=run.unclaimed,
            solver_queries=len(results), solver_wall_s=round(solve_s, 2),
            samples=samples, notes=run.notes, checker_errors=run.errors),
        assumptions=sorted(run.assumptions),
        wall_s=round(time.time() - t0, 2),
        violations=len(violations))
    json.dump(ev, open(path, 'w'), indent=1, default=str)


if __name__ == '__main__':
    sys.exit(main())
