"""Life cycle of the simulation task (simulator.py): _run_tasks, _init_sblocks_async, _stop_sblocks, run_forever, wait_init,
shutdown, check_not_finalized (C08, C05, C06, C09).

Coroutines are executed as sequential code; every `await` is an environment step (everything other tasks may change is
forgotten, subject to the guarantees proved elsewhere) followed by the outcome of the awaited thing (its contract).

Cancellation of the simulation task (A-cancel): Circuit.abort cancels it iff it records the first error (contract of abort, C09),
and abort is the only edzed code that cancels it (scan).  From outside the task is cancelled at most while no error is recorded
(that is how run_forever is stopped according to its documentation).  Hence a CancelledError arrives at an await of the simulation
task only if a request is pending or no error has been recorded yet."""
import ast
import z3
from pyvc.sorts import *
from pyvc.values import *
from pyvc.state import declare_fields, View
from pyvc.contract import contract, CONTRACTS, Param
from pyvc.engine import Raise, NEXT, PyObjStub
from pyvc import calls
from specs.common import *
from specs import event_entry, startup
from specs.event_entry import handler_effects, HANDLER_EFFECTS
from specs.startup import has_method, block_call, has_method_call, sblocks_of

declare_fields(_simtask=VAL, _finalized=BOOL, ev_set=BOOL, _init_done=Ref('AsyncEvent'), _blocks=Map(STR, Ref('Block')))
Q = 'edzed.simulator:Circuit.'
CIRC, TASK = Int('the_circuit'), Int('the_simulation_task')
AA = lambda: calls.C_class('AddonAsync')
task_coro = Function('task_coro', IntSort(), Val)             # the coroutine a task was created for
coro_of = Function('coro_of', StringSort(), IntSort(), Val)   # the coroutine object returned by <block>.<name>()
coro_name = Function('coro_name', Val, StringSort())
coro_recv = Function('coro_recv', Val, IntSort())
ENV_FIELDS = tuple(dict.fromkeys(HANDLER_EFFECTS + ('task_done', 'task_cancelled', 'task_exception', 'ev_set', 'st_items', '__cause__')))
LIFE_EFFECTS = ENV_FIELDS


def in_simtask(S, me=None):
    """the code runs inside the simulation task of the (only) circuit"""
    out = [S.f('_simtask', CIRC) == Val.Obj(TASK), Not(S.f('task_done', TASK))]
    if me is not None: out.append(me == CIRC)
    return And(*out)


def can_be_cancelled(S):
    return Or(S.f('cancel_requested', TASK), S.f('_error', CIRC) == Val.VNone)


def impose_tasks_stay_done(S, T):
    tx = Int('t!sd')
    for f in ('task_done', 'task_cancelled', 'task_exception'):
        new, old = T.whole(f), S.whole(f)
        T.st.heap[f] = z3.Lambda([tx], If(S.whole('task_done')[tx], old[tx], new[tx]))


def impose_events_stay_set(S, T):
    ex_ = Int('e!ss')
    new, old = T.whole('ev_set'), S.whole('ev_set')
    T.st.heap['ev_set'] = z3.Lambda([ex_], Or(old[ex_], new[ex_]))      # nothing calls clear() (scan)


def impose_no_cancel_after_error(S, T):
    """abort() requests the cancellation of the simulation task only together with recording the first error"""
    new, old = T.whole('cancel_requested'), S.whole('cancel_requested')
    T.st.heap['cancel_requested'] = Store(new, TASK, If(S.f('_error', CIRC) != Val.VNone, old[TASK], new[TASK]))


def impose_errors_are_exceptions(S, T):
    """what abort() records is an exception object (contract of Circuit.abort, C09)"""
    cx = Int('c!ee')
    new = T.whole('_error')
    T.st.heap['_error'] = z3.Lambda([cx], If(Or(new[cx] == Val.VNone, And(Val.is_Obj(new[cx]), calls.inst_of(Val.ref(new[cx]), BaseException))),
                                             new[cx], S.whole('_error')[cx]))


CALLEE_GUARANTEES.extend([impose_errors_are_exceptions, impose_no_cancel_after_error])


def env_step(ex, st, sync=False):
    """what other tasks (or, with sync=True, code called synchronously from this task: handlers, stop(), start()) may do"""
    post = st.copy()
    for f in (HANDLER_EFFECTS + ('st_items', '__cause__') if sync else ENV_FIELDS): post.havoc_field(f)
    S, T = View(st), View(post)
    impose_error_write_once(S, T); impose_errors_are_exceptions(S, T); impose_outputs_stay_defined(S, T); impose_steps_only_advance(S, T)
    impose_no_cancel_after_error(S, T)
    if sync: impose_queues_only_grow(S, T)
    else: impose_tasks_stay_done(S, T); impose_events_stay_set(S, T)
    return post


def sim_await(ex, st, results):
    """an await inside the simulation task.  `results(state)` -> outcomes of the awaited thing after the environment step"""
    S = View(st)
    outs = []
    if st.ghost.get('check_J'):
        # (C05) the cross-task invariant J at this suspension point of run_forever itself (the awaits inside _simulate: C01)
        ex.oblige('await:once_initialisation_is_reported_done_every_block_has_an_output_or_an_error_is_recorded', st,
                  Implies(S.f('ev_set', S.f('_init_done', CIRC)), S.f('_error', CIRC) != Val.VNone), kind='code')
    ok = env_step(ex, st); T = View(ok)
    ok.assume(Not(S.f('cancel_requested', TASK)), Not(T.f('cancel_requested', TASK)), T.f('_error', CIRC) == S.f('_error', CIRC),
              Not(T.f('task_done', TASK)))
    if ex.feasible(ok): outs.extend(results(ok))
    ca = env_step(ex, st); T = View(ca)
    ca.assume(can_be_cancelled(S), Not(T.f('task_done', TASK)))
    ca.heap['cancel_requested'] = Store(ca.heap['cancel_requested'], TASK, BoolVal(False))
    ca.label('await:cancelled')
    if ex.feasible(ca): outs.append((ca, Raise(PExc('CancelledError', val=Val.Obj(fresh('exc', IntSort())), where='callee'))))
    return outs


def await_sleep0(ex, node, st):
    return sim_await(ex, st, lambda s: [(s, P_NONE)])


def await_contracted(ex, node, st):
    """`await self.<coroutine under contract>(...)`: the callee's contract (which contains its own awaits)"""
    return ex.ev(node, st)


# ---- asyncio pieces (trusted interface) ---------------------------------------------------------------------------------------
def create_task_call(ex, e, st):
    """asyncio.create_task(coro, name=...): a new task for `coro`"""
    outs = []
    for s1, cv in ex.ev(e.args[0], st):
        if isinstance(cv, Raise): outs.append((s1, cv)); continue
        s1 = s1.copy(); t = fresh('task', IntSort())
        cz = to_val(cv, s1)
        s1.assume(task_coro(t) == cz, t != TASK)          # a new task, not the running one
        ex.emit(s1, rec('create_task', Val.Obj(t), cz))
        outs.append((s1, ZV('val', Val.Obj(t))))
    return outs


def coroutine_call(name):
    """blk.<name>(): calling a coroutine function only creates the coroutine object"""
    def h(ex, e, st):
        blk = as_kind(st.env['blk'], Ref(), st)
        c = coro_of(StringVal(name), blk)
        st = st.copy(); st.assume(coro_name(c) == StringVal(name), coro_recv(c) == blk)
        return [(st, ZV('val', c))]
    return h


def task_exception_call(ex, e, st):
    """task.exception(): needs a finished, not cancelled task"""
    outs = []
    for s1, tv in ex.ev(e.func.value, st):
        t = Val.ref(to_val(tv, s1))
        ex.oblige('call:task.exception/pre:task_finished_and_not_cancelled', s1, And(s1.readz('task_done', t), Not(s1.readz('task_cancelled', t))), kind='pre')
        outs.append((s1, ZV('val', s1.readz('task_exception', t))))
    return outs


def task_pred(field):
    def h(ex, e, st):
        outs = []
        for s1, tv in ex.ev(e.func.value, st):
            outs.append((s1, ZV('bool', s1.readz(field, Val.ref(to_val(tv, s1))))))
        return outs
    return h


class ClockStub(PyObjStub):
    """the bound method loop.time"""


def _loop_getattr(self, ex, st, attr):
    if attr == 'time': return [(st, PConst(ClockStub()))]
    raise Unsupported(f'event loop attribute {attr}')
LoopStub.getattr = _loop_getattr


def clock_call(ex, e, st):
    return [(st, ZV('real', st.ghost['now']))]


def T3(v):
    """(block, task, timeout) of a list entry"""
    k = Val.tk(v)
    return Val.ref(tup_item(k, 0)), Val.ref(tup_item(k, 1)), tup_item(k, 2)


def wf_entry(v):
    k = Val.tk(v)
    return And(Val.is_T(v), tup_len(k) == 3, Val.is_Obj(tup_item(k, 0)), Val.is_Obj(tup_item(k, 1)), Val.is_R(tup_item(k, 2)))


ENV_GUARANTEES = lambda S, T: (impose_error_write_once(S, T), impose_errors_are_exceptions(S, T), impose_outputs_stay_defined(S, T), impose_steps_only_advance(S, T),
                               impose_tasks_stay_done(S, T), impose_events_stay_set(S, T), impose_no_cancel_after_error(S, T))


# ---- Circuit._run_tasks ----------------------------------------------------------------------------------------------------------
@contract('Circuit._run_tasks', qual=Q + '_run_tasks', params={'jobname': VAL, 'btt_list': Seq()}, modifies=LIFE_EFFECTS, self_cls=None,
          traced=lambda a, st: rec('_run_tasks', a0=to_val(a['jobname'], st), a1=to_val(a['btt_list'], st)))
def _run_tasks(c):
    arr, n = c.arg('btt_list').arr, c.arg('btt_list').n
    i = Int('i!rt')
    if not c.verifying: ENV_GUARANTEES(c.S, c.T)          # (before any clause reads the post-state)
    c.requires('list_not_empty', n > 0)
    c.requires('entries_are_block_task_timeout', ForAll([i], Implies(And(0 <= i, i < n), wf_entry(arr[i]))))
    c.requires('inside_the_simulation_task', in_simtask(c.S))
    c.requires('the_tasks_are_other_tasks', ForAll([i], Implies(And(0 <= i, i < n), T3(arr[i])[1] != TASK)))
    # the body is verified for the list in the order produced by sorted(); lemma `sorted_is_a_permutation` carries the
    # statements over to btt_list itself (what the callers see)
    def all_done(post, also_requested=False):
        a = post.g('sorted_arr') if c.verifying and not also_requested else arr
        if a is None: a = arr                                  # exits before sorted() was called
        t = lambda k: T3(a[k])[1]
        return ForAll([i], Implies(And(0 <= i, i < n), Or(post.f('task_done', t(i)), post.f('cancel_requested', t(i))) if also_requested
                                                      else post.f('task_done', t(i))))
    c.ensures('every_task_is_finished', all_done(c.T))
    c.ensures('simulation_task_state', And(c.post('_error', CIRC) == c.pre('_error', CIRC), Implies(c.post('cancel_requested', TASK), c.pre('cancel_requested', TASK)),
                                           Not(c.post('task_done', TASK)), c.post('_simtask', CIRC) == c.pre('_simtask', CIRC)))
    c.raises('CancelledError', when=can_be_cancelled(c.S), unchanged=False, label='cancelled_while_waiting', impose=ENV_GUARANTEES,
             ensures=lambda post, exc: [Not(post.f('cancel_requested', TASK)), Not(post.f('task_done', TASK)),
                                        # no task is left behind: each one is finished or its cancellation has been requested
                                        all_done(post, also_requested=True)])
    if not c.verifying: return
    # every wait is bounded by the entry's own timeout, counted from the start of _run_tasks
    def expected(k, r, st):
        t0 = st.ghost['t_start']
        return [('each_wait_ends_at_start_plus_the_entry_timeout',
                 Or(Rec.fn(r) == StringVal('cancel'),
                    And(Rec.fn(r) == StringVal('wait_for'), Val.is_R(Rec.a1(r)), Val.r(Rec.a1(r)) + st.ghost['now'] == t0 + num_r(st.ghost['cur_timeout']))))]
    c.expect_trace(expected, None, normal_len=None, predicate=True)


def num_r(v): return If(Val.is_R(v), Val.r(v), If(Val.is_I(v), ToReal(Val.i(v)), RealVal(0)))


def sorted_call(ex, e, st):
    """sorted(btt_list, key=..., reverse=True): a permutation of the list.  Inside the body only `entries keep their shape` is used;
    the permutation axioms live in the lemma `sorted_is_a_permutation` (the order is irrelevant for what is proved)"""
    outs = []
    for s1, v in ex.ev(e.args[0], st):
        arr, n = seq_of(v, s1)
        s1 = s1.copy()
        out = fresh('sorted', SeqArr)
        i = Int('i!so')
        s1.assume(ForAll([i], Implies(And(0 <= i, i < n), wf_entry(out[i]))))
        s1.ghost['sorted_arr'] = out
        outs.append((s1, PSeq(out, n, 'val', True)))
    return outs


def permutation_lemmas(run):
    arr, out = Const('btt', SeqArr), Const('sorted', SeqArr)
    perm, inv = Const('perm', ArraySort(IntSort(), IntSort())), Const('perm_inv', ArraySort(IntSort(), IntSort()))
    n, i = Int('n'), Int('i!pl')
    P = Function('P', Val, BoolSort())          # any property of an entry
    is_perm = [ForAll([i], Implies(And(0 <= i, i < n), And(0 <= perm[i], perm[i] < n, out[i] == arr[perm[i]]))),
               ForAll([i], Implies(And(0 <= i, i < n), And(0 <= inv[i], inv[i] < n, out[inv[i]] == arr[i])))]
    run.lemma('sorted_is_a_permutation/what_holds_for_every_sorted_entry_holds_for_every_entry',
              is_perm + [ForAll([i], Implies(And(0 <= i, i < n), P(out[i])))], ForAll([i], Implies(And(0 <= i, i < n), P(arr[i]))))
    run.lemma('sorted_is_a_permutation/entries_keep_their_shape',
              is_perm + [ForAll([i], Implies(And(0 <= i, i < n), P(arr[i])))], ForAll([i], Implies(And(0 <= i, i < n), P(out[i]))))


def inv_run_tasks(lc):
    i = Int('i!ir')
    st = lc.st
    return [('visited_tasks_are_finished', ForAll([i], Implies(And(0 <= i, i < lc.i), st.f('task_done', T3(lc.arr[i])[1])))),
            ('simulation_task_state', And(st.f('_error', CIRC) == lc.pre.f('_error', CIRC), Implies(st.f('cancel_requested', TASK), lc.pre.f('cancel_requested', TASK)),
                                          Not(st.f('task_done', TASK)), st.f('_simtask', CIRC) == lc.pre.f('_simtask', CIRC))),
            ('clock_moves_forward', st.st.ghost['now'] >= lc.entry.st.ghost['now'])]


def inv_cancel_rest(lc):
    i = Int('i!cr')
    st = lc.st
    return [('visited_tasks_have_a_cancellation_request', ForAll([i], Implies(And(0 <= i, i < lc.i), st.f('cancel_requested', T3(lc.arr[i])[1])))),
            ('simulation_task_state', And(Not(st.f('cancel_requested', TASK)), Not(st.f('task_done', TASK))))]


def await_wait_for(ex, node, st):
    outs = []
    for s1, vals in ex.evs(node.args, st):
        if isinstance(vals, Raise): outs.append((s1, vals)); continue
        t = Val.ref(to_val(vals[0], s1)); tmo = as_kind(vals[1], REAL, s1)
        s1 = s1.copy()
        s1.ghost['cur_timeout'] = to_val(s1.env['timeout'], s1)
        ex.emit(s1, rec('wait_for', Val.Obj(t), a1=Val.R(tmo)))
        def results(s, t=t):
            r = []
            a = s.copy(); a.assume(s.readz('task_done', t), Not(s.readz('task_cancelled', t)), s.readz('task_exception', t) == Val.VNone)
            r.append((a, ZV('val', fresh('result', Val))))
            b = s.copy(); b.assume(s.readz('task_done', t)); b.label('wait_for:timeout')
            r.append((b, Raise(PExc('TimeoutError', val=Val.Obj(fresh('exc', IntSort())), where='callee'))))
            d = s.copy(); d.assume(s.readz('task_done', t), Not(s.readz('task_cancelled', t)), s.readz('task_exception', t) != Val.VNone)
            d.label('wait_for:task_failed')
            r.append((d, Raise(PExc('OtherException', val=Val.Obj(fresh('exc', IntSort())), where='callee'))))
            return r
        for s2, v in sim_await(ex, s1, results):
            if isinstance(v, Raise) and v.exc.cls == 'CancelledError':
                s2.assume(s2.readz('task_done', t))       # the awaited task is cancelled with the waiting one and awaited (asyncio.wait_for)
            outs.append((s2, v))
    return outs


def advance_clock(st):
    now = fresh('now', RealSort()); st.assume(now >= st.ghost['now']); st.ghost['now'] = now


def observe_error(st):
    """history variable `first_err`: the first recorded error seen at an observation point (every traced call, every environment step)"""
    if 'first_err' not in st.ghost: return
    cur = st.ghost['first_err']
    st.ghost['first_err'] = If(cur != Val.VNone, cur, st.readz('_error', CIRC))


_env_step0 = env_step
def env_step(ex, st, sync=False):
    st = st.copy(); observe_error(st)
    post = _env_step0(ex, st, sync)
    observe_error(post)
    if not sync and post.ghost.get('now') is not None: advance_clock(post)
    return post


def verify_run_tasks(run):
    G = {'now': z3.Real('now0'), 't_start': z3.Real('now0'), 'cur_timeout': Val.VNone, 'sorted_arr': None}
    permutation_lemmas(run)
    run.verify('Circuit._run_tasks', cls='Circuit', ghost=G,
               invariants={'for (_blk, other, _timeout) in btt_list': inv_cancel_rest,
                           'for (blk, task, timeout) in sorted(btt_list, key=operator.itemgetter(2), reverse=True)': inv_run_tasks},
               calls={'sorted': sorted_call, 'get_time': clock_call, 'task.done': task_pred('task_done'), 'task.cancelled': task_pred('task_cancelled'),
                      'task.exception': task_exception_call},
               hooks={'await': awaits({'asyncio.wait_for(*': await_wait_for})})


# ---- Circuit._stop_sblocks ---------------------------------------------------------------------------------------------------------
declare_fields(stop_timeout=REAL, init_timeout=REAL)


def has_async_cleanup(S, blocks, me):
    return lambda b: And(blocks[b], S.whole('circuit')[b] == me, calls.inst_of(b, AA()), has_method(b, StringVal('stop_async')),
                         S.whole('stop_timeout')[b] > 0)


def lifecycle_call(name, effects=True):
    """blk.stop() / blk.start(): block code behind an interface contract: it may deliver events and fail with an Exception"""
    def h(ex, e, st):
        blk = as_kind(st.env['blk'], Ref(), st)
        outs = []
        for fail in (False, True):
            s0 = st.copy(); ex.emit(s0, rec(name, Val.Obj(blk)))
            s2 = env_step(ex, s0, sync=True)
            if fail:
                s2.label(f'{name}:raises')
                outs.append((s2, Raise(PExc('OtherException', val=Val.Obj(fresh('exc', IntSort())), where='callee'))))
            else:
                outs.append((s2, P_NONE))
        return outs
    return h


@contract('Circuit._stop_sblocks', qual=Q + '_stop_sblocks', params={'blocks': REFSET}, modifies=LIFE_EFFECTS, self_cls='Circuit',
          traced=lambda a, st: rec('_stop_sblocks', to_val(a['self'], st)))
def _stop_sblocks(c):
    me, blocks = c.z('self'), c.z('blocks')
    b = Int('b!st')
    c.requires('inside_the_simulation_task', in_simtask(c.S, me))
    c.requires('an_error_is_recorded_and_no_cancellation_is_pending', And(c.pre('_error', me) != Val.VNone, Not(c.pre('cancel_requested', TASK))))
    if not c.verifying:
        ENV_GUARANTEES(c.S, c.T)
        c.ensures('simulation_task_state', And(c.post('_error', CIRC) == c.pre('_error', CIRC), Not(c.post('cancel_requested', TASK)),
                                               Not(c.post('task_done', TASK)), c.post('_simtask', CIRC) == c.pre('_simtask', CIRC)))
        return
    is_async = has_async_cleanup(c.S, blocks, me)
    w = Int('some_async_block')              # names a block with asynchronous clean-up, if there is one
    c.requires('witness', ForAll([b], Implies(is_async(b), is_async(w))))
    c.ensures('simulation_task_state', And(c.post('_error', CIRC) == c.pre('_error', CIRC), Not(c.post('cancel_requested', TASK)),
                                           Not(c.post('task_done', TASK)), c.post('_simtask', CIRC) == c.pre('_simtask', CIRC)))
    # the order automaton: ghost sets `stopped`, `tasked` and the phase (0: async blocks are being stopped, 1: their tasks are created,
    # 2: the clean-up was awaited, the remaining blocks are being stopped)
    def expected(k, r, st):
        g = st.ghost
        fn = z3.simplify(Rec.fn(r)).as_string()
        x = Val.ref(Rec.recv(r))
        if fn == 'stop':
            goals = [('stop_only_for_the_given_blocks', blocks[x]),
                     ('stop_at_most_once_per_block', Not(g['stopped'][x])),
                     ('blocks_with_async_cleanup_are_stopped_first', If(is_async(x), g['phase'] == 0, And(g['phase'] != 1, Implies(g['phase'] == 0, Not(is_async(w))))))]
            g['stopped'] = Store(g['stopped'], x, BoolVal(True))
            return goals
        if fn == 'create_task':
            co = Rec.a0(r); bb = coro_recv(co)
            goals = [('cleanup_task_only_for_a_stopped_block_with_async_cleanup',
                      And(coro_name(co) == StringVal('stop_async'), is_async(bb), g['stopped'][bb], Not(g['tasked'][bb]), g['phase'] <= 1))]
            g['tasked'] = Store(g['tasked'], bb, BoolVal(True)); g['phase'] = IntVal(1)
            return goals
        if fn == '_run_tasks':
            lst = Val.tk(Rec.a1(r)); i = Int('i!rt2')
            ent = lambda k: T3(tup_item(lst, k))
            goals = [('async_cleanup_is_awaited_for_every_such_block', And(ForAll([b], Implies(is_async(b), And(g['stopped'][b], g['tasked'][b]))), g['phase'] <= 1,
                                                                       Rec.a0(r) == Val.S(StringVal('stop')))),
                     ('each_cleanup_is_bounded_by_the_stop_timeout_of_its_block',
                      ForAll([i], Implies(And(0 <= i, i < tup_len(lst)),
                                          And(is_async(ent(i)[0]), task_coro(ent(i)[1]) == coro_of(StringVal('stop_async'), ent(i)[0]),
                                              ent(i)[2] == Val.R(c.pre('stop_timeout', ent(i)[0]))))))]
            g['phase'] = IntVal(2)
            return goals
        return [('no_other_call', BoolVal(False))]
    c.expect_trace(expected, None, normal_len=None, predicate=True)
    c.ensures('every_given_block_was_stopped', ForAll([b], c.T.g('stopped')[b] == blocks[b]))
    c.ensures('async_cleanup_was_awaited', Implies(is_async(w), c.T.g('phase') == 2))
    c.raises('CancelledError', when=BoolVal(False), unchanged=False, label='clean-up_is_not_interrupted')


def inv_stop_async(lc):
    g = lc.st.st.ghost; b = Int('b!ia')
    return [('stopped_are_the_visited', ForAll([b], g['stopped'][b] == lc.done[b])),
            ('phase', g['phase'] == 0),
            ('nothing_tasked', ForAll([b], Not(g['tasked'][b])))] + _sim_state(lc)


def _sim_state(lc):
    st = lc.st
    return [('simulation_task_state', And(st.f('_error', CIRC) == lc.pre.f('_error', CIRC), Not(st.f('cancel_requested', TASK)),
                                          Not(st.f('task_done', TASK)), st.f('_simtask', CIRC) == lc.pre.f('_simtask', CIRC))),
            ('membership_unchanged', And(st.whole('circuit') == lc.pre.whole('circuit'), st.whole('stop_timeout') == lc.pre.whole('stop_timeout')))]


def inv_stop_tasks(lc):
    """the comprehension creating the clean-up tasks"""
    g = lc.st.st.ghost; b, i = Int('b!it'), Int('i!it')
    res = lc.local('_comp_result')
    S = lc.S
    return [('tasked_are_the_visited', ForAll([b], g['tasked'][b] == lc.done[b])),
            ('stopped_unchanged', ForAll([b], g['stopped'][b] == S[b])),
            ('phase', Or(g['phase'] == 1, And(g['phase'] == 0, ForAll([b], Not(lc.done[b]))))),
            ('entries', ForAll([i], Implies(And(0 <= i, i < res.n), And(wf_entry(res.arr[i]), T3(res.arr[i])[1] != TASK, S[T3(res.arr[i])[0]],
                                                                         task_coro(T3(res.arr[i])[1]) == coro_of(StringVal('stop_async'), T3(res.arr[i])[0]),
                                                                         T3(res.arr[i])[2] == Val.R(lc.pre.f('stop_timeout', T3(res.arr[i])[0])))))),
            ('count', And(res.n >= 0, (res.n > 0) == Exists([b], lc.done[b])))] + _sim_state(lc)


def inv_stop_sync(lc):
    g = lc.st.st.ghost; b = Int('b!is')
    e = lc.entry.st.ghost
    return [('stopped_are_the_earlier_ones_and_the_visited', ForAll([b], g['stopped'][b] == Or(e['stopped'][b], lc.done[b]))),
            ('phase_unchanged', g['phase'] == e['phase']),
            ('tasked_unchanged', ForAll([b], g['tasked'][b] == e['tasked'][b]))] + _sim_state(lc)


def verify_stop_sblocks(run):
    none = K(IntSort(), BoolVal(False))
    G = {'stopped': none, 'tasked': none, 'phase': IntVal(0), 'now': z3.Real('now0')}
    run.verify('Circuit._stop_sblocks', cls='Circuit', ghost=G,
               invariants={'for blk in async_blocks': inv_stop_async, 'comp[37b1d6]:for blk in async_blocks': inv_stop_tasks, 'for blk in sync_blocks': inv_stop_sync},
               calls={'self.getblocks': sblocks_of, 'blk.has_method': has_method_call, 'blk.stop': lifecycle_call('stop'),
                      'blk.stop_async': coroutine_call('stop_async'), 'asyncio.create_task': create_task_call},
               hooks={'await': awaits({'asyncio.sleep(0)': await_sleep0, '*': await_contracted})})


# ---- Circuit._init_sblocks_async -----------------------------------------------------------------------------------------------------
def wants_async_init(S, me):
    return lambda b: And(S.whole('circuit')[b] == me, calls.inst_of(b, AA()), S.whole('_output')[b] == Val.Undef,
                         has_method(b, StringVal('init_async')), S.whole('init_timeout')[b] > 0)


@contract('Circuit._init_sblocks_async', qual=Q + '_init_sblocks_async', modifies=LIFE_EFFECTS, self_cls='Circuit',
          traced=lambda a, st: rec('_init_sblocks_async', to_val(a['self'], st)))
def _init_async(c):
    me = c.z('self')
    b = Int('b!ia')
    if not c.verifying: ENV_GUARANTEES(c.S, c.T)
    c.requires('inside_the_simulation_task', in_simtask(c.S, me))
    sim_state = lambda post: And(post.f('_error', CIRC) == c.pre('_error', CIRC), Implies(post.f('cancel_requested', TASK), c.pre('cancel_requested', TASK)),
                                 Not(post.f('task_done', TASK)), post.f('_simtask', CIRC) == c.pre('_simtask', CIRC))
    c.ensures('simulation_task_state', sim_state(c.T))
    c.raises('CancelledError', when=can_be_cancelled(c.S), unchanged=False, label='cancelled_while_waiting', impose=ENV_GUARANTEES,
             ensures=lambda post, exc: [Not(post.f('cancel_requested', TASK)), Not(post.f('task_done', TASK))])
    if not c.verifying: return
    eligible = wants_async_init(c.S, me)
    w = Int('some_eligible_block')
    c.requires('witness', ForAll([b], Implies(eligible(b), eligible(w))))
    def expected(k, r, st):
        g = st.ghost
        fn = z3.simplify(Rec.fn(r)).as_string()
        if fn == 'create_task':
            co = Rec.a0(r); bb = coro_recv(co)
            goals = [('init_async_only_for_uninitialised_blocks_with_a_positive_timeout',
                      And(coro_name(co) == StringVal('init_async'), eligible(bb), st.readz('_output', bb) == Val.Undef)),
                     ('init_async_at_most_once_per_block', And(Not(g['tasked'][bb]), g['phase'] == 0))]
            g['tasked'] = Store(g['tasked'], bb, BoolVal(True))
            return goals
        if fn == '_run_tasks':
            lst = Val.tk(Rec.a1(r)); i = Int('i!rt3')
            ent = lambda k: T3(tup_item(lst, k))
            goals = [('the_async_routines_are_awaited_once', And(g['phase'] == 0, Rec.a0(r) == Val.S(StringVal('async init')),
                                                                 ForAll([b], Implies(eligible(b), g['tasked'][b])))),
                     ('each_routine_is_bounded_by_the_init_timeout_of_its_block',
                      ForAll([i], Implies(And(0 <= i, i < tup_len(lst)),
                                          And(eligible(ent(i)[0]), task_coro(ent(i)[1]) == coro_of(StringVal('init_async'), ent(i)[0]),
                                              ent(i)[2] == Val.R(c.pre('init_timeout', ent(i)[0]))))))]
            g['phase'] = IntVal(1)
            return goals
        return [('no_other_call', BoolVal(False))]
    c.expect_trace(expected, None, normal_len=None, predicate=True)
    c.ensures('async_initialisation_was_awaited_if_needed', Implies(eligible(w), c.T.g('phase') == 1))


def inv_init_tasks(lc):
    g = lc.st.st.ghost; b, i = Int('b!ii'), Int('i!ii')
    res = lc.local('_comp_result')
    me = as_kind(lc.pre.args['self'], Ref())
    eligible = wants_async_init(lc.pre, me)
    st = lc.st
    return [('tasked_are_the_visited_eligible_blocks', ForAll([b], g['tasked'][b] == And(lc.done[b], eligible(b)))),
            ('phase', g['phase'] == 0),
            ('nothing_else_changed', And(st.whole('_output') == lc.pre.whole('_output'), st.whole('circuit') == lc.pre.whole('circuit'),
                                         st.whole('init_timeout') == lc.pre.whole('init_timeout'), st.whole('_error') == lc.pre.whole('_error'),
                                         st.whole('cancel_requested') == lc.pre.whole('cancel_requested'), st.whole('task_done') == lc.pre.whole('task_done'),
                                         st.whole('_simtask') == lc.pre.whole('_simtask'))),
            ('entries', ForAll([i], Implies(And(0 <= i, i < res.n), And(wf_entry(res.arr[i]), T3(res.arr[i])[1] != TASK, eligible(T3(res.arr[i])[0]),
                                                                         task_coro(T3(res.arr[i])[1]) == coro_of(StringVal('init_async'), T3(res.arr[i])[0]),
                                                                         T3(res.arr[i])[2] == Val.R(lc.pre.f('init_timeout', T3(res.arr[i])[0])))))),
            ('count', And(res.n >= 0, (res.n > 0) == Exists([b], And(lc.done[b], eligible(b)))))]


def verify_init_async(run):
    none = K(IntSort(), BoolVal(False))
    G = {'tasked': none, 'phase': IntVal(0), 'now': z3.Real('now0')}
    run.verify('Circuit._init_sblocks_async', cls='Circuit', ghost=G,
               invariants={'comp[1c3143]:for blk in self.getblocks(addons.AddonAsync)': inv_init_tasks},
               calls={'self.getblocks': sblocks_of, 'blk.has_method': has_method_call, 'blk.init_async': coroutine_call('init_async'),
                      'asyncio.create_task': create_task_call},
               hooks={'await': awaits({'*': await_contracted})})


# ---- Circuit.run_forever ---------------------------------------------------------------------------------------------------------------
declare_fields(persistent_dict=VAL, st_items=DICT, persistent=BOOL, persistent_ts=VAL, sblock_queue=Ref('SblockQueue'))
AP = lambda: calls.C_class('AddonPersistence')
RF_EFFECTS = tuple(dict.fromkeys(LIFE_EFFECTS + ('_simtask', 'sblock_queue', '_init_done', '_finalized', 'persistent', 'persistent_ts', 'inputs',
                                                 'iconnections', 'oconnections', '_blocks', 'dyn_attrs', '_unresolved')))


def is_exception(v): return And(Val.is_Obj(v), calls.inst_of(Val.ref(v), BaseException))


def my_blocks(S, me): return lambda b: And(S.whole('circuit')[b] == me, calls.inst_of(b, calls.C_class('Block')))


def setup_call(name, sets_finalized=False):
    """_check_persistent_data / _resolver.resolve / finalize as seen by run_forever (their contracts: C06, C15): they may fail"""
    def h(ex, e, st):
        me = as_kind(st.env['self'], Ref(), st)
        outs = []
        for fail in (False, True):
            s2 = st.copy(); ex.emit(s2, rec(name, Val.Obj(me)))
            for f in ('persistent', 'persistent_ts', 'st_items', '_finalized'): s2.havoc_field(f)
            if fail:
                s2.label(f'{name}:raises')
                outs.append((s2, Raise(PExc('OtherException', val=Val.Obj(fresh('exc', IntSort())), where='callee'))))
            else:
                if sets_finalized: s2.assume(s2.readz('_finalized', me))
                outs.append((s2, P_NONE))
        return outs
    return h


def finalize_call(ex, e, st):
    """self.finalize(): the contract of Circuit.finalize (verified under C15 and C08): raises, or the circuit is finalized afterwards"""
    from specs import frozen
    me = as_kind(st.env['self'], Ref(), st)
    return calls.apply_bound(ex, st, CONTRACTS['Circuit.finalize'], {'self': ZV('ref', me, 'Circuit')}, 'call:Circuit.finalize')


def start_call(ex, e, st):
    blk = as_kind(st.env['blk'], Ref(), st)
    outs = []
    for s2, r in lifecycle_call('start')(ex, e, st):
        if not isinstance(r, Raise): s2.ghost['started'] = Store(s2.ghost['started'], blk, BoolVal(True))
        outs.append((s2, r))
    return outs


def new_queue(ex, e, st):
    st = st.copy(); q = fresh('queue', IntSort())
    st.heap['q_set'] = Store(st.comp('q_set', RefSet), q, K(IntSort(), BoolVal(False)))
    return [(st, ZV('ref', q, 'SblockQueue'))]


def new_event(ex, e, st):
    st = st.copy(); ev = fresh('event', IntSort())
    st.heap['ev_set'] = Store(st.comp('ev_set', BoolSort()), ev, BoolVal(False))
    return [(st, ZV('ref', ev, 'AsyncEvent'))]


def init_done_set(ex, e, st):
    st = st.copy(); me = as_kind(st.env['self'], Ref(), st)
    ev = st.readz('_init_done', me)
    ex.emit(st, rec('init_done.set', Val.Obj(ev)))
    st.heap['ev_set'] = Store(st.comp('ev_set', BoolSort()), ev, BoolVal(True))
    return [(st, P_NONE)]


def current_task(ex, e, st):
    return [(st, ZV('val', Val.Obj(TASK)))]


def rf_save_call(ex, e, st):
    """blk.save_persistent_state() (contract: C06): writes the storage only, never raises"""
    st = st.copy(); blk = as_kind(st.env['blk'], Ref(), st)
    ex.emit(st, rec('save_persistent_state', Val.Obj(blk)))
    st.havoc_field('st_items')
    return [(st, P_NONE)]


def unix_time(ex, e, st):
    st = st.copy(); t = fresh('unixnow', RealSort()); st.ghost['last_unix'] = t
    return [(st, ZV('real', t))]


def empty_refset(ex, e, st):
    if e.args: raise Unsupported('set(<iterable>) in run_forever')
    return [(st, PSet(K(IntSort(), BoolVal(False)), 'ref'))]


def await_eager_test(ex, node, st):
    """_test_eager_tasks(): does not suspend; raises RuntimeError under an eager task factory"""
    bad = st.copy(); bad.label('eager_tasks')
    return [(st, P_NONE), (bad, Raise(PExc('RuntimeError', val=Val.Obj(fresh('exc', IntSort())), where='callee')))]


def await_sleep0_rf(ex, node, st):
    """the two `await asyncio.sleep(0)` of run_forever: the first one completes the start phase"""
    same = sorted((n.lineno, n.col_offset) for n in ast.walk(ex.spec.node) if isinstance(n, ast.Await) and ast.unparse(n.value) == 'asyncio.sleep(0)')
    first = same and (node.lineno, node.col_offset) <= (same[0][0], same[0][1] + 6)
    outs = []
    for s2, r in sim_await(ex, st, lambda s: [(s, P_NONE)]):
        if first and not isinstance(r, Raise): s2.ghost['start_completed'] = BoolVal(True)
        outs.append((s2, r))
    return outs


def await_simulate(ex, node, st):
    """await self._simulate(): contract of _simulate (C01/C10): never returns; it ends by cancellation or by an error"""
    st = st.copy(); me = as_kind(st.env['self'], Ref(), st)
    ex.emit(st, rec('_simulate', Val.Obj(me)))
    b = Int('b!sm')
    # one circuit: every sequential block belongs to it
    ex.oblige('call:_simulate/pre:sequential_blocks_are_initialised', st,
              ForAll([b], Implies(And(st.comp('circuit', IntSort())[b] == me, calls.inst_of(b, calls.C_class('SBlock'))), st.comp('_output', Val)[b] != Val.Undef)), kind='pre')
    outs = []
    chk = st.ghost.get('check_J'); st.ghost['check_J'] = False       # inside _simulate: its own suspension points (C01)
    for s2, r in sim_await(ex, st, lambda s: []):
        s2.ghost['check_J'] = chk
        outs.append((s2, r))
    for cls in ('EdzedCircuitError', 'OtherException'):
        b = env_step(ex, st); b.assume(Not(View(b).f('task_done', TASK))); b.label(f'_simulate:raises:{cls}'); b.ghost['check_J'] = chk
        outs.append((b, Raise(PExc(cls, val=Val.Obj(fresh('exc', IntSort())), where='callee'))))
    return outs


@contract('Circuit.run_forever', qual=Q + 'run_forever', modifies=RF_EFFECTS, self_cls='Circuit')
def _run_forever(c):
    me = c.z('self')
    b = Int('b!rf')
    c.requires('the_only_circuit', me == CIRC)
    c.requires('the_current_task_is_running', And(Not(c.pre('task_done', TASK)), Not(c.pre('cancel_requested', TASK))))
    c.requires('error_is_none_or_an_exception', Or(c.pre('_error', me) == Val.VNone, is_exception(c.pre('_error', me))))
    c.requires('storage_is_none_or_a_mapping', Or(c.pre('persistent_dict', me) == Val.VNone, Val.is_Obj(c.pre('persistent_dict', me))))
    restart = c.pre('_simtask', me) != Val.VNone
    c.raises('EdzedInvalidState', when=restart, iff=True, label='cannot_be_started_twice')
    c.raises('RuntimeError', when=Not(restart), label='eager_task_factory')
    c.ensures('never_returns_normally', BoolVal(False))
    w = Int('some_started_block')
    def at_exit(post, exc):
        g = post.g
        return [exc == post.f('_error', me),                                                     # what is raised is Circuit.error
                Implies(c.pre('_error', me) != Val.VNone, exc == c.pre('_error', me)),           # abort() before the start: the start fails with that error
                post.f('_simtask', me) == Val.Obj(TASK),                                         # -> it can never be started again
                Implies(g('started')[w], g('stop_called')),                                      # started blocks are stopped
                Implies(g('first_err') != Val.VNone, exc == g('first_err'))]                     # the first recorded error is the one reported
    for cls in ('CancelledError', 'StoredException', 'StoredBaseException'):
        c.raises(cls, when=Not(restart), unchanged=False, label=f'ends_with_the_recorded_error:{cls}', ensures=at_exit)
    if not c.verifying: return
    c.requires('witness', BoolVal(True))
    pd = c.pre('persistent_dict', me)
    def expected(k, r, st):
        observe_error(st)
        g = st.ghost
        fn = z3.simplify(Rec.fn(r)).as_string()
        x = Val.ref(Rec.recv(r))
        mine = my_blocks(View(st), me)
        if fn in ('_check_persistent_data', 'resolve', 'finalize'):
            # the three set-up steps, each once, in any order, before any block is started
            bit = {'_check_persistent_data': 1, 'resolve': 2, 'finalize': 4}[fn]
            done = g['setup']
            goals = [('circuit_is_set_up_before_any_block_is_started', And(BoolVal(not (done & bit)), g['phase'] == 0, Not(g['cleanup'])))]
            g['setup'] = done | bit
            if g['setup'] == 7: g['phase'] = IntVal(3)
            return goals
        if fn == 'start':
            goals = [('start_once_per_block_after_the_setup', And(g['phase'] == 3, mine(x), Not(g['start_called'][x]), Not(g['cleanup'])))]
            g['start_called'] = Store(g['start_called'], x, BoolVal(True))
            return goals
        if fn in ('_init_sblocks_sync_1', '_init_sblocks_async', '_init_sblocks_sync_2'):
            want = {'_init_sblocks_sync_1': 3, '_init_sblocks_async': 4, '_init_sblocks_sync_2': 5}[fn]
            goals = [('initialisation_steps_in_order', And(g['phase'] == want, Not(g['cleanup']))),
                     ('initialisation_after_the_start_completed', g['start_completed']),
                     ('initialisation_after_all_blocks_were_started', ForAll([b], Implies(mine(b), g['started'][b])))]
            g['phase'] = IntVal(want + 1)
            return goals
        if fn == 'init_done.set':
            goals = [('initialisation_is_reported_done_only_after_it_succeeded', And(g['phase'] == 6, Not(g['cleanup']), st.readz('_error', me) == Val.VNone)),
                     ('the_event_of_this_circuit', x == st.readz('_init_done', me))]
            g['phase'] = IntVal(7)
            return goals
        if fn == '_simulate':
            goals = [('simulation_starts_after_the_initialisation', And(g['phase'] == 7, Not(g['cleanup'])))]
            g['phase'] = IntVal(8)
            return goals
        if fn == 'save_persistent_state':
            goals = [('states_are_saved_at_stop_only_if_the_start_completed', And(g['start_completed'], pd != Val.VNone)),
                     ('saved_before_the_blocks_are_stopped', Not(g['stop_called'])),
                     ('only_started_persistent_blocks_once', And(g['started'][x], calls.inst_of(x, AP()), mine(x), Not(g['saved'][x])))]
            g['saved'] = Store(g['saved'], x, BoolVal(True)); g['cleanup'] = BoolVal(True)
            return goals
        if fn == '_stop_sblocks':
            items = st.comp('st_items', DictS)[Val.ref(pd)]
            goals = [('exactly_the_started_blocks_are_stopped_once', And(Not(g['stop_called']), ForAll([b], g['stop_arg'][b] == g['started'][b]))),
                     ('states_and_stop_time_saved_before_stopping', Implies(And(g['start_completed'], pd != Val.VNone),
                          And(ForAll([b], g['saved'][b] == And(g['started'][b], mine(b), calls.inst_of(b, AP()))),
                              items[StringVal('edzed-stop-time')] == Opt.Some(Val.R(g['last_unix'])))))]
            g['stop_called'] = BoolVal(True); g['cleanup'] = BoolVal(True)
            return goals
        return [('no_other_call', BoolVal(False))]
    c.expect_trace(expected, None, normal_len=None, predicate=True)


def stop_sblocks_await(ex, node, st):
    """await self._stop_sblocks(started_blocks): the contract of _stop_sblocks; the argument is remembered for the order automaton"""
    outs = []
    for s1, v in ex.ev(node.args[0], st):
        s1 = s1.copy(); s1.ghost['stop_arg'] = as_kind(v, REFSET, s1)
        outs.extend(ex.ev(node, s1))
    return outs


def stop_time_store(ex, st, target, value):
    return None


def inv_rf_start(lc):
    g = lc.st.st.ghost; b = Int('b!rs')
    st = lc.st
    me = as_kind(lc.pre.args['self'], Ref())
    sb = as_kind(lc.local('started_blocks'), REFSET)
    return [('started_are_the_visited', ForAll([b], And(g['started'][b] == lc.done[b], g['start_called'][b] == lc.done[b], sb[b] == lc.done[b]))),
            ('phase', And(g['phase'] == 3, Not(g['cleanup']), Not(g['start_completed']), Not(g['stop_called']))),
            ('nothing_saved', ForAll([b], Not(g['saved'][b]))),
            ('task', And(st.f('_simtask', me) == Val.Obj(TASK), Not(st.f('task_done', TASK)), st.whole('circuit') == lc.pre.whole('circuit'),
                         st.f('persistent_dict', me) == lc.pre.f('persistent_dict', me), Not(lc.local('start_ok').obj if isinstance(lc.local('start_ok'), PConst) else truth(lc.local('start_ok'), st.st)))),
            ('error_is_none_or_an_exception', Or(st.f('_error', me) == Val.VNone, is_exception(st.f('_error', me)))),
            ('recorded_error_kept', Implies(lc.pre.f('_error', me) != Val.VNone, st.f('_error', me) == lc.pre.f('_error', me))),
            ('first_error_kept', Implies(g['first_err'] != Val.VNone, st.f('_error', me) == g['first_err']))]


def inv_rf_save(lc):
    g = lc.st.st.ghost; e = lc.entry.st.ghost; b = Int('b!sv')
    st = lc.st
    me = as_kind(lc.pre.args['self'], Ref())
    return [('saved_are_the_visited', ForAll([b], g['saved'][b] == lc.done[b])),
            ('first_error_kept', Implies(g['first_err'] != Val.VNone, st.f('_error', me) == g['first_err'])),
            ('ghosts_unchanged', And(g['phase'] == e['phase'], g['start_completed'] == e['start_completed'], Not(g['stop_called']),
                                     ForAll([b], g['started'][b] == e['started'][b]))),
            ('state_unchanged', And(st.whole('_error') == lc.entry.whole('_error'), st.whole('cancel_requested') == lc.entry.whole('cancel_requested'),
                                    st.whole('task_done') == lc.entry.whole('task_done'), st.whole('_simtask') == lc.entry.whole('_simtask'),
                                    st.whole('circuit') == lc.entry.whole('circuit'), st.whole('persistent_dict') == lc.entry.whole('persistent_dict')))]


def verify_run_forever(run):
    none = K(IntSort(), BoolVal(False))
    G = {'phase': IntVal(0), 'setup': 0, 'cleanup': BoolVal(False), 'start_called': none, 'started': none, 'saved': none, 'start_completed': BoolVal(False),
         'stop_called': BoolVal(False), 'last_unix': RealVal(0), 'first_err': Val.VNone, 'check_J': True, 'stop_arg': none, 'now': z3.Real('now0')}
    run.verify('Circuit.run_forever', cls='Circuit', ghost=G,
               invariants={'for blk in self.getblocks()': inv_rf_start,
                           'for blk in started_blocks.intersection(self.getblocks(addons.AddonPersistence))': inv_rf_save},
               calls={'self.getblocks': sblocks_of, 'self._simtask.done': task_pred('task_done'), 'asyncio.current_task': current_task,
                      'set': empty_refset, 'asyncio.Queue': new_queue, 'asyncio.Event': new_event,
                      'self._check_persistent_data': setup_call('_check_persistent_data'), 'self._resolver.resolve': setup_call('resolve'),
                      'self.finalize': finalize_call, 'blk.start': start_call,
                      'self._init_done.set': init_done_set, 'blk.save_persistent_state': rf_save_call, 'time.time': unix_time},
               hooks={'heap_dicts': True,
                      'await': awaits({'asyncio.sleep(0)': await_sleep0_rf, '_test_eager_tasks()': await_eager_test,
                                       'self._simulate()': await_simulate, 'self._stop_sblocks(started_blocks)': stop_sblocks_await,
                                       '*': await_contracted})})


# ---- API coroutines running in other tasks: _check_started, wait_init, shutdown -----------------------------------------------------------
def all_outputs_defined(S, me):
    b = Int('b!ad')
    return ForAll([b], Implies(my_blocks(S, me)(b), S.whole('_output')[b] != Val.Undef))


def J(S, me):
    """cross-task invariant of the simulation task, established by run_forever/_simulate at their suspension points:
    once initialisation was reported done, every block has an output -- or an error has been recorded"""
    return Implies(S.f('ev_set', S.f('_init_done', me)), Or(S.f('_error', me) != Val.VNone, all_outputs_defined(S, me)))


def impose_simtask_set_once(S, T):
    cx = Int('c!so')
    new, old = T.whole('_simtask'), S.whole('_simtask')
    T.st.heap['_simtask'] = z3.Lambda([cx], If(old[cx] != Val.VNone, old[cx], new[cx]))       # writers: __init__, run_forever (scan, C09)


def other_await(ex, st, results, me):
    """an await in a task other than the simulation task: everything other tasks (incl. the simulation task) may do"""
    post = st.copy()
    for f in ENV_FIELDS + ('_simtask', '_init_done', 'sblock_queue', '_finalized'): post.havoc_field(f)
    S, T = View(st), View(post)
    impose_error_write_once(S, T); impose_errors_are_exceptions(S, T); impose_outputs_stay_defined(S, T); impose_steps_only_advance(S, T)
    impose_tasks_stay_done(S, T); impose_events_stay_set(S, T); impose_simtask_set_once(S, T)
    # _init_done is assigned once, by run_forever before its first await after recording the task (so it is fixed once _simtask is set)
    post.assume(Implies(S.f('_simtask', me) != Val.VNone, T.f('_init_done', me) == S.f('_init_done', me)))
    post.assume(J(T, me))
    # A-caller: the task awaiting an API coroutine (wait_init, shutdown) is not itself cancelled while it waits
    return list(results(post))


def _me(st): return as_kind(st.env['self'], Ref(), st)


API_EFFECTS = tuple(dict.fromkeys(ENV_FIELDS + ('_simtask', '_init_done', 'sblock_queue', '_finalized')))


@contract('Circuit._check_started', qual=Q + '_check_started', modifies=API_EFFECTS, self_cls='Circuit')
def _check_started(c):
    me = c.z('self')
    if not c.verifying:
        ENV_GUARANTEES(c.S, c.T); impose_simtask_set_once(c.S, c.T)
        c.T.st.assume(Implies(c.pre('_simtask', me) != Val.VNone, c.post('_init_done', me) == c.pre('_init_done', me)), J(c.T, me))
    c.requires('J', J(c.S, me))
    c.ensures('the_simulation_task_exists', c.post('_simtask', me) != Val.VNone)
    c.ensures('J', J(c.T, me))
    c.raises('EdzedInvalidState', when=c.pre('_simtask', me) == Val.VNone, unchanged=False, label='not_started',
             ensures=lambda post, exc: [post.f('_simtask', me) == Val.VNone])


def await_other_sleep(ex, node, st):
    return other_await(ex, st, lambda s: [(s, P_NONE)], _me(st))


@contract('Circuit.wait_init', qual=Q + 'wait_init', modifies=API_EFFECTS, self_cls='Circuit')
def _wait_init(c):
    me = c.z('self')
    c.requires('J', J(c.S, me))
    c.requires('the_only_circuit', me == CIRC)
    c.ensures('the_simulation_is_running', And(c.post('_simtask', me) != Val.VNone, Not(c.post('task_done', Val.ref(c.post('_simtask', me)))),
                                               c.post('_error', me) == Val.VNone))
    c.ensures('every_block_has_an_output', all_outputs_defined(c.T, me))
    c.raises('EdzedInvalidState', unchanged=False, label='not_running_or_failed')
    if c.verifying and CHECK_HELPER_TASK[0]:
        helper_settled = lambda post: Or(post.g('helper') == Val.VNone,
                                         post.f('task_done', Val.ref(post.g('helper'))), post.f('cancel_requested', Val.ref(post.g('helper'))))
        c.ensures('helper_task_is_not_left_behind', helper_settled(c.T))
        c.out.raises[0].ensures = lambda post, exc: [helper_settled(post)]


CHECK_HELPER_TASK = [False]        # C08: the helper task of wait_init is not left behind


def init_done_wait(ex, e, st):
    """self._init_done.wait(): the coroutine waiting for the event"""
    me = _me(st); ev = st.readz('_init_done', me)
    c = coro_of(StringVal('Event.wait'), ev)
    st = st.copy(); st.assume(coro_name(c) == StringVal('Event.wait'), coro_recv(c) == ev)
    return [(st, ZV('val', c))]


def helper_create_task(ex, e, st):
    outs = []
    for s2, t in create_task_call(ex, e, st):
        if not isinstance(t, Raise):
            s2.ghost['helper'] = to_val(t, s2)
            s2.assume(Not(s2.readz('task_done', Val.ref(to_val(t, s2)))), Not(s2.readz('cancel_requested', Val.ref(to_val(t, s2)))))
        outs.append((s2, t))
    return outs


def await_first_completed(ex, node, st):
    """asyncio.wait([t1, t2], return_when=FIRST_COMPLETED): returns when one of them is finished; a task running Event.wait()
    finishes only when the event is set (or the task is cancelled)"""
    outs = []
    for s1, lst in ex.ev(node.args[0], st):
        items = lst.items if isinstance(lst, PTuple) else None
        if items is None or len(items) != 2: raise Unsupported('asyncio.wait: expected a list of two tasks')
        t1, t2 = (Val.ref(to_val(x, s1)) for x in items)
        me = _me(s1)
        def results(s, t1=t1, t2=t2):
            s.assume(Or(s.readz('task_done', t1), s.readz('task_done', t2)))
            ev = coro_recv(task_coro(t1))
            s.assume(Not(s.readz('task_cancelled', t1)))        # A-cancel: nobody else knows (or cancels) the helper task
            s.assume(Implies(s.readz('task_done', t1), s.readz('ev_set', ev)))
            return [(s, PTuple([PSet(K(IntSort(), BoolVal(False)), 'ref'), PSet(K(IntSort(), BoolVal(False)), 'ref')]))]
        outs.extend(other_await(ex, s1, results, me))
    return outs


def verify_api(run, helper_task=False):
    G = {'helper': Val.VNone}
    CHECK_HELPER_TASK[0] = helper_task
    run.verify('Circuit._check_started', cls='Circuit', hooks={'await': awaits({'asyncio.sleep(0)': await_other_sleep})})
    run.verify('Circuit.wait_init', cls='Circuit', ghost=G,
               calls={'self._init_done.wait': init_done_wait, 'asyncio.create_task': helper_create_task,
                      'self._simtask.done': task_pred('task_done'), 'self._simtask.cancelled': task_pred('task_cancelled'),
                      'self._simtask.exception': task_exception_call},
               hooks={'opaque_fstrings': True,
                      'await': awaits({'asyncio.wait(*': await_first_completed,
                                       '*': await_contracted})})


# ---- Circuit.shutdown ------------------------------------------------------------------------------------------------------------------------
def await_simtask(ex, node, st):
    """`await self._simtask`: returns/raises what run_forever ends with (contract of run_forever: it raises Circuit.error)"""
    me = _me(st)
    t = Val.ref(st.readz('_simtask', me))
    def results(s):
        import asyncio as _aio
        s.assume(s.readz('task_done', t), is_exception(s.readz('_error', me)))
        err = s.readz('_error', me); r = Val.ref(err)
        outs = []
        for cls, cond in (('CancelledError', calls.inst_of(r, _aio.CancelledError)),
                          ('StoredException', And(Not(calls.inst_of(r, _aio.CancelledError)), calls.inst_of(r, Exception))),
                          ('StoredBaseException', And(Not(calls.inst_of(r, _aio.CancelledError)), Not(calls.inst_of(r, Exception))))):
            s2 = s.copy(); s2.assume(cond); s2.label(f'simtask:{cls}')
            outs.append((s2, Raise(PExc(cls, val=err, where='callee'))))
        return outs
    return other_await(ex, st, results, me)


@contract('Circuit.is_current_task', qual=Q + 'is_current_task', modifies=(), self_cls='Circuit', result=BOOL)
def _is_current_task(c):
    me = c.z('self')
    c.ensures('false_before_the_start', Implies(c.pre('_simtask', me) == Val.VNone, Not(as_kind(c.result, BOOL))))


def current_task_other(ex, e, st):
    """asyncio.current_task() in some task (possibly the simulation task); may raise RuntimeError without a running loop"""
    t = fresh('curtask', IntSort())
    bad = st.copy(); bad.label('no_running_loop')
    return [(st, ZV('val', Val.Obj(t))), (bad, Raise(PExc('RuntimeError', val=Val.Obj(fresh('exc', IntSort())), where='callee')))]


@contract('Circuit.shutdown', qual=Q + 'shutdown', modifies=API_EFFECTS, self_cls='Circuit')
def _shutdown(c):
    import asyncio as _aio
    me = c.z('self')
    c.requires('J', J(c.S, me))
    c.requires('the_only_circuit', me == CIRC)
    c.requires('error_is_none_or_an_exception', Or(c.pre('_error', me) == Val.VNone, is_exception(c.pre('_error', me))))
    err = lambda post: post.f('_error', me)
    c.ensures('the_simulation_is_over', And(c.post('_simtask', me) != Val.VNone, c.post('task_done', Val.ref(c.post('_simtask', me))), err(c.T) != Val.VNone))
    c.raises('EdzedInvalidState', unchanged=False, label='not_started_or_called_from_the_simulation_task')
    for cls in ('StoredException', 'StoredBaseException'):
        c.raises(cls, unchanged=False, label=f'the_recorded_error_is_re-raised:{cls}',
                 ensures=lambda post, exc: [exc == err(post), Not(calls.inst_of(Val.ref(exc), _aio.CancelledError)),
                                            Implies(c.pre('_error', me) != Val.VNone, exc == c.pre('_error', me))])
    if not c.verifying: return
    c.ensures('a_cancellation_counts_as_a_normal_stop', calls.inst_of(Val.ref(err(c.T)), _aio.CancelledError))
    def expected(k, r, st):
        return [('stops_the_simulation_through_abort_with_a_cancellation',
                 And(k == 0, Rec.fn(r) == StringVal('abort'), Rec.recv(r) == Val.Obj(me), Val.is_Obj(Rec.a0(r)),
                     calls.inst_of(Val.ref(Rec.a0(r)), _aio.CancelledError)))]
    c.expect_trace(expected, 1, normal_len=None, predicate=True)


def abort_in_shutdown(ex, e, st):
    """self.abort(asyncio.CancelledError('shutdown')): contract of Circuit.abort (C09) for an exception argument"""
    import asyncio as _aio
    me = _me(st); st = st.copy()
    x = fresh('exc', IntSort()); st.assume(calls.inst_of(x, _aio.CancelledError), calls.inst_of(x, BaseException))
    ex.emit(st, rec('abort', Val.Obj(me), Val.Obj(x)))
    old = st.readz('_error', me)
    st.heap['_error'] = Store(st.comp('_error', Val), me, If(old != Val.VNone, old, Val.Obj(x)))
    st.havoc_field('cancel_requested')
    return [(st, P_NONE)]


def verify_shutdown(run):
    run.verify('Circuit.is_current_task', cls='Circuit', calls={'asyncio.current_task': current_task_other})
    run.verify('Circuit.shutdown', cls='Circuit', calls={'self.abort': abort_in_shutdown},
               hooks={'await': awaits({'self._simtask': await_simtask, '*': await_contracted})})


def lifecycle_scans(run):
    """the syntactic side conditions of the cancellation model and of the cross-task invariant J"""
    from pyvc import scan
    sites = []
    for file, tree in scan.trees().items():
        for scope, n in scan._walk_scoped(tree):
            if isinstance(n, ast.Call) and isinstance(n.func, ast.Attribute) and n.func.attr == 'cancel':
                sites.append(f"{file}:{'.'.join(scope)}")
    sites = sorted(set(sites))
    expected = ['edzed/addons.py:AddonMainTask.stop_async', 'edzed/blocklib/sblocks2.py:OutputAsync._ctrl_cancel', 'edzed/fsm.py:FSM._stop_timer',
                'edzed/simulator.py:Circuit._run_tasks', 'edzed/simulator.py:Circuit.abort', 'edzed/simulator.py:Circuit.wait_init', 'edzed/simulator.py:run']
    run.scan('cancel_sites', sites == expected,
             'A-cancel: the functions that cancel anything; that none but Circuit.abort cancels the simulation task is part of their contracts '
             f'(_run_tasks: the listed tasks are other tasks; run(): only supporting tasks; wait_init: its helper; the block-level ones: their own tasks/timers): {sites}')
    for attr, writers in (('_init_done', ['edzed/simulator.py:Circuit.__init__', 'edzed/simulator.py:Circuit.run_forever']),      # __init__: annotation only
                          ('_simtask', ['edzed/simulator.py:Circuit.__init__', 'edzed/simulator.py:Circuit.run_forever'])):
        w = scan.attr_writers(attr)
        run.scan(f'writers_of_{attr}', w == writers, f'{w}')
    uses = []
    for file, tree in scan.trees().items():
        for scope, n in scan._walk_scoped(tree):
            if isinstance(n, ast.Attribute) and n.attr in ('set', 'clear') and isinstance(n.value, ast.Attribute) and n.value.attr == '_init_done':
                uses.append(f"{file}:{'.'.join(scope)}:{n.attr}")
    run.scan('init_done_is_set_only_by_run_forever_and_never_cleared', sorted(set(uses)) == ['edzed/simulator.py:Circuit.run_forever:set'], f'{uses}')
    callers = scan.method_callers('_run_tasks')
    run.scan('run_tasks_callers', callers == ['edzed/simulator.py:Circuit._init_sblocks_async', 'edzed/simulator.py:Circuit._stop_sblocks'], f'{callers}')
    callers = scan.method_callers('_stop_sblocks')
    run.scan('stop_sblocks_callers', callers == ['edzed/simulator.py:Circuit.run_forever'], f'{callers}')


# ---- no modification after the end: check_not_finalized and its callers (contracts: specs/c15.py) -------------------------------------------------
def verify_no_modification(run):
    from pyvc import scan
    from specs import frozen
    run.verify('Circuit.check_not_finalized', cls='Circuit')
    run.verify('Circuit.finalize', cls='Circuit', calls={'self._finalize': frozen._finalize_call})
    run.verify('Circuit.set_persistent_data', cls='Circuit')
    run.verify('Circuit.addblock', cls='Circuit')
    callers = scan.method_callers('check_not_finalized')
    run.scan('check_not_finalized_callers', callers == ['edzed/block.py:CBlock.connect', 'edzed/simulator.py:Circuit.addblock', 'edzed/simulator.py:Circuit.set_persistent_data'], f'{callers}')
    callers = scan.method_callers('addblock')
    run.scan('every_block_registers_through_addblock', callers == ['edzed/block.py:Block.__init__'], f'{callers}')
    err, fin, task = Const('err', Val), Const('finalized', BoolSort()), Const('simtask', Val)
    run.lemma('after_the_end/no_restart_and_no_modification', [err != Val.VNone, task != Val.VNone],
              And(Or(err != Val.VNone, fin), task != Val.VNone))


# ---- AddonMainTask: the block's main task lives from start() to stop_async() ---------------------------------------------------------------------
declare_fields(_mtask=VAL)
QA = 'edzed.addons:AddonMainTask.'


def amt_super_start(ex, e, st):
    st = st.copy(); ex.emit(st, rec('super.start', to_val(st.env['self'], st)))
    return [(st, P_NONE)]


def amt_maintask_call(ex, e, st):
    me = as_kind(st.env['self'], Ref(), st)
    c = coro_of(StringVal('_maintask'), me)
    st = st.copy(); st.assume(coro_name(c) == StringVal('_maintask'), coro_recv(c) == me)
    return [(st, ZV('val', c))]


def amt_create_monitored(ex, e, st):
    outs = []
    for s1, cv in ex.ev(e.args[0], st):
        s1 = s1.copy(); t = fresh('task', IntSort())
        svc = [k.value for k in e.keywords if k.arg == 'is_service']
        is_service = bool(svc and isinstance(svc[0], ast.Constant) and svc[0].value is True)
        s1.assume(task_coro(t) == to_val(cv, s1), Not(s1.readz('task_done', t)))
        ex.emit(s1, rec('create_monitored_task', Val.Obj(t), to_val(cv, s1), a1=Val.B(BoolVal(is_service))))
        outs.append((s1, ZV('val', Val.Obj(t))))
    return outs


@contract('AddonMainTask.start', qual=QA + 'start', modifies=('_mtask',), self_cls='AddonMainTask')
def _amt_start(c):
    me = c.z('self')
    c.requires('not_started_yet', c.pre('_mtask', me) == Val.VNone)
    t = c.post('_mtask', me)
    c.ensures('the_main_task_is_remembered', And(Val.is_Obj(t), task_coro(Val.ref(t)) == coro_of(StringVal('_maintask'), me)))
    if c.verifying:
        def expected(k, r, st):
            fn = z3.simplify(Rec.fn(r)).as_string()
            if fn == 'super.start': return [('inherited_start_once', BoolVal(True))]          # (its position does not matter)
            if fn == 'create_monitored_task':
                return [('one_monitored_service_task_for_the_main_coroutine',
                         And(Rec.a0(r) == coro_of(StringVal('_maintask'), me), Rec.a1(r) == Val.B(BoolVal(True))))]
            return [('no_other_call', BoolVal(False))]
        c.expect_trace(expected, 2, normal_len=2, predicate=True)


def amt_await_mtask(ex, node, st):
    """`await self._mtask` after cancel(): the task ends (cancelled, or with an error of its own)"""
    me = as_kind(st.env['self'], Ref(), st)
    t = Val.ref(st.readz('_mtask', me))
    outs = []
    for cls in ('CancelledError', None, 'OtherException'):
        s2 = st.copy()
        for f in ('task_done', 'task_cancelled', 'task_exception'): s2.havoc_field(f)
        impose_tasks_stay_done(View(st), View(s2))
        s2.assume(s2.readz('task_done', t)); s2.ghost['awaited'] = True
        if cls is None: outs.append((s2, P_NONE))
        else:
            s2.label(f'mtask:{cls}')
            outs.append((s2, Raise(PExc(cls, val=Val.Obj(fresh('exc', IntSort())), where='callee'))))
    return outs


def amt_super_stop_async(ex, node, st):
    st = st.copy(); ex.emit(st, rec('super.stop_async', to_val(st.env['self'], st)))
    return [(st, P_NONE)]


@contract('AddonMainTask.stop_async', qual=QA + 'stop_async', modifies=('_mtask', 'cancel_requested', 'task_done', 'task_cancelled', 'task_exception'),
          self_cls='AddonMainTask')
def _amt_stop_async(c):
    me = c.z('self')
    t0 = c.pre('_mtask', me)
    c.requires('started', Val.is_Obj(t0))
    done = lambda post: And(post.f('_mtask', me) == Val.VNone, post.f('task_done', Val.ref(t0)), post.f('cancel_requested', Val.ref(t0)))
    c.ensures('the_main_task_was_cancelled_and_has_ended', done(c.T))
    c.raises('OtherException', unchanged=False, label='the_main_task_had_failed', ensures=lambda post, exc: [done(post)])
    if c.verifying:
        def expected(k, r, st):
            fn = z3.simplify(Rec.fn(r)).as_string()
            if fn == 'cancel': return [('cancel_the_main_task_before_waiting_for_it', And(Rec.recv(r) == t0, BoolVal(st.ghost.get('awaited') is not True)))]
            if fn == 'super.stop_async': return [('inherited_cleanup_once', BoolVal(True))]       # (its position does not matter)
            return [('no_other_call', BoolVal(False))]
        c.expect_trace(expected, 2, normal_len=2, predicate=True)


def verify_maintask_addon(run):
    run.verify('AddonMainTask.start', cls='AddonMainTask', hooks={'opaque_fstrings': True},
               calls={'super().start': amt_super_start, 'self._maintask': amt_maintask_call, 'self._create_monitored_task': amt_create_monitored})
    run.verify('AddonMainTask.stop_async', cls='AddonMainTask', ghost={'awaited': False}, hooks={'opaque_fstrings': True,
               'await': awaits({'self._mtask': amt_await_mtask, 'super().stop_async()': amt_super_stop_async})})


# ---- edzed.run(): the simulation plus supporting coroutines ----------------------------------------------------------------------------------------
sup_task = Function('sup_task', IntSort(), IntSort())            # the task created for the i-th supporting coroutine (i >= 1)
RUN_SIM = Int('run_simtask')


def run_get_circuit(ex, e, st):
    return [(st, ZV('ref', CIRC, 'Circuit'))]


def run_with_signal(ex, st, cm, phase, token, item):
    """with _TerminatingSignal(...): installs / restores a signal handler (trusted: signal module); never swallows exceptions"""
    if phase == 'enter': return [(st, ('token', P_NONE))]
    return [(st, P_NONE)]


def run_terminating_signal(ex, e, st):
    return [(st, PConst(PyObjStub()))]


def run_forever_coro(ex, e, st):
    c = coro_of(StringVal('run_forever'), CIRC)
    return [(st, ZV('val', c))]


def run_create_simtask(ex, e, st):
    st = st.copy()
    st.assume(Not(st.readz('task_done', RUN_SIM)))
    st.heap['_simtask'] = Store(st.comp('_simtask', Val), CIRC, Val.Obj(RUN_SIM))      # run_forever records its task when it starts
    return [(st, ZV('val', Val.Obj(RUN_SIM)))]


def run_env(ex, st):
    """an await of run(): other tasks (the simulation task, the supporting tasks) run"""
    post = st.copy()
    for f in ENV_FIELDS: post.havoc_field(f)
    S, T = View(st), View(post)
    impose_error_write_once(S, T); impose_errors_are_exceptions(S, T); impose_tasks_stay_done(S, T)
    # contract of run_forever: the simulation task ends by raising Circuit.error
    post.assume(Implies(T.f('task_done', RUN_SIM), And(T.f('_error', CIRC) != Val.VNone, T.f('task_exception', RUN_SIM) == T.f('_error', CIRC))))
    return post


def run_sleep0(ex, node, st):
    return [(run_env(ex, st), P_NONE)]


def run_wait_first(ex, node, st):
    s2 = run_env(ex, st)
    i = Int('i!rw'); n = s2.ghost['n_tasks']
    s2.assume(Or(s2.readz('task_done', RUN_SIM), Exists([i], And(1 <= i, i < n, s2.readz('task_done', sup_task(i))))))
    return [(s2, P_NONE)]


def run_extend(ex, e, st):
    """all_tasks.extend(create_task(coro) for i, coro in enumerate(coroutines, start=1)): one new task per supporting coroutine"""
    st = st.copy()
    arr, n = seq_of(st.env['coroutines'], st)
    j = Int('j!re')
    st.assume(n >= 1, ForAll([j], Implies(And(1 <= j, j <= n), And(sup_task(j) != RUN_SIM, task_coro(sup_task(j)) == arr[j - 1]))))
    st.env['all_tasks'] = PSeq(z3.Lambda([j], If(j == 0, Val.Obj(RUN_SIM), Val.Obj(sup_task(j)))), n + 1, 'val', True)
    st.ghost['n_tasks'] = n + 1
    ex.emit(st, rec('create_supporting_tasks', a0=Val.I(n)))
    return [(st, P_NONE)]


def run_result_call(ex, e, st):
    """simtask.result() of a finished task: raises its exception"""
    s = st
    err = s.readz('task_exception', RUN_SIM)
    import asyncio as _aio
    outs = []
    for cls, cond in (('CancelledError', calls.inst_of(Val.ref(err), _aio.CancelledError)),
                      ('StoredException', And(Not(calls.inst_of(Val.ref(err), _aio.CancelledError)), calls.inst_of(Val.ref(err), Exception)))):
        s2 = s.copy(); s2.assume(is_exception(err), cond)
        outs.append((s2, Raise(PExc(cls, val=err, where='callee'))))
    return outs


def run_await_task(ex, node, st):
    """`await task` in the collecting loop: the task has ended or ends now; its exception, if any, is raised here"""
    import asyncio as _aio
    t = Val.ref(to_val(st.env['task'], st))
    s = run_env(ex, st); s.assume(s.readz('task_done', t))
    err = s.readz('task_exception', t)
    outs = []
    a = s.copy(); a.assume(err == Val.VNone, Not(s.readz('task_cancelled', t))); outs.append((a, P_NONE))
    b = s.copy(); b.assume(s.readz('task_cancelled', t)); b.label('task:cancelled')
    outs.append((b, Raise(PExc('CancelledError', val=Val.Obj(fresh('exc', IntSort())), where='callee'))))
    for cls, cond in (('CancelledError', calls.inst_of(Val.ref(err), _aio.CancelledError)),
                      ('StoredException', And(Not(calls.inst_of(Val.ref(err), _aio.CancelledError)), calls.inst_of(Val.ref(err), Exception)))):
        d = s.copy(); d.assume(is_exception(err), Not(s.readz('task_cancelled', t)), cond); d.label(f'task:{cls}')
        if cls == 'StoredException' and 'tnum' in d.env:
            # ghost: position (0 = simulation task) of the first task seen to have failed
            cur = as_kind(d.env['tnum'], INT, d) + 1
            d.ghost['first_failed'] = If(d.ghost['first_failed'] < 0, cur, d.ghost['first_failed'])
        outs.append((d, Raise(PExc(cls, val=err, where='callee'))))
    return outs


def abort_in_run(ex, e, st):
    """circuit.abort(asyncio.CancelledError('shutdown')): contract of Circuit.abort (C09)"""
    import asyncio as _aio
    st = st.copy()
    x = fresh('exc', IntSort()); st.assume(calls.inst_of(x, _aio.CancelledError), calls.inst_of(x, BaseException))
    ex.emit(st, rec('abort', Val.Obj(CIRC), Val.Obj(x)))
    old = st.readz('_error', CIRC)
    st.heap['_error'] = Store(st.comp('_error', Val), CIRC, If(old != Val.VNone, old, Val.Obj(x)))
    st.havoc_field('cancel_requested')
    return [(st, P_NONE)]


def for_rest(ex, s, st, it):
    """for task in all_tasks[1:]: the supporting tasks"""
    from pyvc import loops
    n = st.ghost['n_tasks']; j = Int('j!fr')
    return loops.for_seq(ex, s, st, PSeq(z3.Lambda([j], Val.Obj(sup_task(j + 1))), n - 1, 'val'))


for_rest.no_iter = True


def for_collect(ex, s, st, it):
    """for tnum, task in enumerate(all_tasks, start=-1)"""
    from pyvc import loops
    n = st.ghost['n_tasks']; j = Int('j!fc')
    arr = z3.Lambda([j], If(j == 0, Val.Obj(RUN_SIM), Val.Obj(sup_task(j))))
    return loops.for_seq(ex, s, st, PSeq(arr, n, 'val'), item_of=lambda i: PTuple([ZV('int', i - 1), ZV('val', If(i == 0, Val.Obj(RUN_SIM), Val.Obj(sup_task(i))))]))


def first_error(S, k):
    """the exception of the first task (in the order simulation task, supporting #0, #1, ...) among the first k that failed with an Exception"""
    import asyncio as _aio
    def failed(i):
        t = If(i == 0, RUN_SIM, sup_task(i)); e = S.whole('task_exception')[t]
        return And(Not(S.whole('task_cancelled')[t]), e != Val.VNone, is_exception(e), calls.inst_of(Val.ref(e), Exception),
                   Not(calls.inst_of(Val.ref(e), _aio.CancelledError)))
    return failed


for_collect.no_iter = True


@contract('run', qual='edzed.simulator:run', modifies=tuple(dict.fromkeys(ENV_FIELDS + ('_simtask',))), params={'coroutines': Seq('val')})
def _run(c):
    import asyncio as _aio
    n = c.arg('coroutines').n
    c.requires('the_simulation_has_not_been_started', c.pre('_simtask', CIRC) == Val.VNone)
    c.requires('error_is_none_or_an_exception', Or(c.pre('_error', CIRC) == Val.VNone, is_exception(c.pre('_error', CIRC))))
    c.raises('RuntimeError', when=n > 0, unchanged=False, label='the_simulation_task_did_not_start')
    c.raises('StoredException', unchanged=False, label='the_first_failure_is_raised')
    c.raises('StoredBaseException', when=n == 0, unchanged=False, label='non_exception_error_of_the_simulation')
    if not c.verifying: return
    i = Int('i!rn')
    tk = lambda post, k: If(k == 0, RUN_SIM, sup_task(k))
    failed = lambda post, k: first_error(post, k)(k)
    all_done = lambda post: Implies(n > 0, ForAll([i], Implies(And(0 <= i, i <= n), post.f('task_done', tk(post, i)))))
    c.ensures('every_task_has_ended', all_done(c.T))
    c.ensures('returns_normally_only_if_no_task_failed', Implies(n > 0, ForAll([i], Implies(And(0 <= i, i <= n), Not(failed(c.T, i))))))
    def on_failure(post, exc):
        # the simulation's error first, otherwise the error of the first failing supporting task
        w = Int('w!rn')
        early = post.g('n_tasks') == 0           # the simulation task ended before the supporting tasks were created
        return [If(early, post.f('task_done', RUN_SIM), all_done(post)),
                If(early, exc == post.f('task_exception', RUN_SIM),
                   Implies(n > 0, Exists([w], And(0 <= w, w <= n, failed(post, w), exc == post.whole('task_exception')[tk(post, w)],
                                                  ForAll([i], Implies(And(0 <= i, i < w), Not(failed(post, i))))))))]
    c.out.raises[1].ensures = on_failure
    def expected(k, r, st):
        fn = z3.simplify(Rec.fn(r)).as_string()
        if fn == 'cancel':
            return [('only_supporting_tasks_are_cancelled_directly', And(Rec.recv(r) != Val.Obj(RUN_SIM), Not(st.readz('task_done', Val.ref(Rec.recv(r))))))]
        if fn == 'abort':
            return [('the_simulation_is_stopped_through_abort_with_a_cancellation',
                     And(Rec.recv(r) == Val.Obj(CIRC), Not(st.readz('task_done', RUN_SIM)), Val.is_Obj(Rec.a0(r)),
                         calls.inst_of(Val.ref(Rec.a0(r)), _aio.CancelledError)))]
        if fn in ('create_supporting_tasks', 'run_forever'): return []
        return [('no_other_call', BoolVal(False))]
    c.expect_trace(expected, None, normal_len=None, predicate=True)


def inv_run_cancel(lc):
    st = lc.st; i = Int('i!rc')
    return [('n_tasks', st.st.ghost['n_tasks'] == lc.entry.st.ghost['n_tasks'])]


def inv_run_collect(lc):
    st = lc.st; g = st.st.ghost; i = Int('i!rl')
    n = g['n_tasks']
    re = to_val(lc.local('run_error'), st.st)
    tk = lambda k: If(k == 0, RUN_SIM, sup_task(k))
    failed = first_error(st, None)
    return [('visited_tasks_have_ended', ForAll([i], Implies(And(0 <= i, i < lc.i), st.f('task_done', tk(i))))),
            ('no_error_so_far_means_no_visited_task_failed', Implies(re == Val.VNone, And(g['first_failed'] < 0, ForAll([i], Implies(And(0 <= i, i < lc.i), Not(failed(i))))))),
            ('run_error_is_the_first_failure_so_far', Implies(re != Val.VNone,
                                                         And(0 <= g['first_failed'], g['first_failed'] < lc.i, failed(g['first_failed']),
                                                             re == st.whole('task_exception')[tk(g['first_failed'])],
                                                             ForAll([i], Implies(And(0 <= i, i < g['first_failed']), Not(failed(i))))))),
            ('n_tasks', And(n == lc.entry.st.ghost['n_tasks'], n >= 2))]


def run_note_error(ex, st, attr, ref): pass


def verify_run(run):
    G = {'n_tasks': IntVal(0), 'first_failed': IntVal(-1)}
    run.verify('run', ghost=G,
               invariants={'for task in all_tasks[1:]': inv_run_cancel, 'for (tnum, task) in enumerate(all_tasks, start=-1)': inv_run_collect},
               calls={'get_circuit': run_get_circuit, '_TerminatingSignal': run_terminating_signal, 'circuit.run_forever': run_forever_coro,
                      'asyncio.create_task': run_create_simtask, 'all_tasks.extend': run_extend, 'circuit.abort': abort_in_run, 'simtask.done': task_pred('task_done'),
                      'task.done': task_pred('task_done'), 'simtask.result': run_result_call,
                      'for:for task in all_tasks[1:]': for_rest, 'for:for (tnum, task) in enumerate(all_tasks, start=-1)': for_collect,
                      'add_note': lambda ex, e, st: [(st, P_NONE)]},
               hooks={'with': run_with_signal, 'opaque_fstrings': True,
                      'await': awaits({'asyncio.sleep(0)': run_sleep0, 'asyncio.wait(*': run_wait_first, 'task': run_await_task,
                                       'circuit.run_forever()': lambda ex, node, st: ex.ev(node, st)})})
