"""Discharging obligations: one query per obligation per path, each in its own killable solver process
(z3 5.1 CLI first, cvc5 on what z3 leaves open).  DESIGN 2.10."""
import concurrent.futures as cf
import os
import re
import subprocess
import tempfile
import time
import z3

Z3_BIN = '/usr/local/bin/z3-new' if os.path.exists('/usr/local/bin/z3-new') else 'z3'
CVC5_BIN = '/usr/bin/cvc5'
Z3_TIMEOUT_S = int(os.environ.get('PYVC_Z3_TIMEOUT', '20'))
CVC5_TIMEOUT_S = int(os.environ.get('PYVC_CVC5_TIMEOUT', '20'))
CANARY_TIMEOUT_S = 3
WORKERS = int(os.environ.get('PYVC_WORKERS', str(min(16, os.cpu_count() or 4))))


def to_smt2(hyps, goal):
    s = z3.Solver()
    for h in hyps: s.add(h)
    s.add(z3.Not(goal))
    return s.to_smt2()


RETRY_SEEDS = () if os.environ.get('PYVC_NO_RETRY') else (11, 23, 37)


def _run(cmd, timeout):
    t = time.time()
    try:
        p = subprocess.run(cmd, capture_output=True, text=True, timeout=timeout)
        out = (p.stdout or '').strip()
        first = out.splitlines()[0].strip() if out else ''
        if first in ('sat', 'unsat', 'unknown'): return first, out, time.time() - t
        return 'error', (out + '\n' + (p.stderr or ''))[:2000], time.time() - t
    except subprocess.TimeoutExpired:
        return 'unknown', 'hard timeout (process killed)', time.time() - t


def lambda_lifted(hyps, goal):
    """An equisatisfiable form of the query without lambda terms: every lambda array `(lambda j. t[j])` is replaced by a fresh array
    constant A together with its defining axiom `forall j. A[j] = t[j]` (by extensionality A is that array).  z3 refutes queries in
    which uninterpreted functions are applied to lambda arrays badly (minutes, then `unknown`); the lifted form is answered at once."""
    fs = list(hyps) + [z3.Not(goal)]
    lams = {}
    seen = set()
    todo = list(fs)
    while todo:
        t = todo.pop()
        if t.get_id() in seen: continue
        seen.add(t.get_id())
        if z3.is_quantifier(t):
            if t.is_lambda():
                lams[t.get_id()] = t        # outermost lambdas only: a nested one is part of the defining axiom
                continue
            todo.append(t.body()); continue
        if z3.is_app(t): todo.extend(t.children())
    closed = [(k, l) for k, l in lams.items() if l.num_vars() == 1 and not _has_free_vars(l)]
    if not closed: return None
    subs, links = [], []
    for i, (k, l) in enumerate(closed):
        A = z3.Const(f'lam!lift{i}', l.sort())
        j = z3.Const(f'j!lift{i}', l.var_sort(0))
        subs.append((l, A)); links.append(z3.ForAll([j], A[j] == z3.substitute_vars(l.body(), j)))
    s = z3.Solver()
    for f in fs: s.add(z3.substitute(f, *subs))
    for f in links: s.add(f)
    return s.to_smt2()


def _has_free_vars(t):
    """does the (lambda) term mention de Bruijn variables bound outside it?  (memoised over the term DAG)"""
    memo = {}
    def go(x, depth):
        key = (x.get_id(), depth)
        if key in memo: return memo[key]
        if z3.is_var(x): r = z3.get_var_index(x) >= depth
        elif z3.is_quantifier(x): r = go(x.body(), depth + x.num_vars())
        elif z3.is_app(x): r = any(go(c, depth) for c in x.children())
        else: r = False
        memo[key] = r
        return r
    return go(t.body(), t.num_vars())


def solve_one(args):
    idx, text, workdir, use_cvc5, tmo = args[:5]
    path = os.path.join(workdir, f'ob{idx}.smt2')
    with open(path, 'w') as f: f.write(text)
    res, out, dt = _run([Z3_BIN, '-smt2', f'-T:{tmo}', path], tmo + 5)
    solver = 'z3-5.1'
    if res == 'unknown' and tmo >= Z3_TIMEOUT_S:
        # quantifier instantiation is sensitive to the random seed and to machine load: an obligation the solver proves under
        # one seed is proved; retry under other seeds before giving up 
        for seed in RETRY_SEEDS:
            p3 = path[:-5] + f'.s{seed}.smt2'
            with open(p3, 'w') as f: f.write(f'(set-option :smt.random_seed {seed})\n(set-option :sat.random_seed {seed})\n' + text)
            r3, o3, d3 = _run([Z3_BIN, '-smt2', f'-T:{tmo}', p3], tmo + 5)
            dt += d3
            try: os.unlink(p3)
            except OSError: pass
            if r3 in ('unsat', 'sat'):          # the same solver: both answers count
                res, out, solver = r3, o3, f'z3-5.1 (seed {seed})'
                break
    if res in ('unknown', 'error') and use_cvc5 and os.path.exists(CVC5_BIN):
        text2 = '(set-logic ALL)\n' + text
        p2 = path[:-5] + '.cvc5.smt2'
        with open(p2, 'w') as f: f.write(text2)
        r2, o2, d2 = _run([CVC5_BIN, '--lang=smt2', f'--tlimit={CVC5_TIMEOUT_S * 1000}', '--strings-exp', p2], CVC5_TIMEOUT_S + 5)
        dt += d2
        if r2 == 'unsat':      # only proofs are taken from the second solver; its `sat` is never a refutation
            res, out, solver = r2, o2, 'cvc5-1.0'
        elif res == 'error':
            res = 'unknown'
    if res == 'error': res = 'unknown'
    try:
        os.unlink(path)
    except OSError:
        pass
    return idx, res, solver, round(dt * 1000), out[:400]


def discharge(obligations, use_cvc5=True):
    """-> list of dict(result, solver, ms) aligned with obligations"""
    results = [None] * len(obligations)
    with tempfile.TemporaryDirectory(prefix='pyvc_') as wd:
        jobs = []
        has_lambda = set()
        for i, o in enumerate(obligations):
            g = z3.simplify(o.goal)
            if z3.is_true(g):
                results[i] = dict(result='unsat', solver='simplifier', ms=0, out=''); continue
            canary = o.kind == 'canary'      # vacuity guards: only `unsat` matters, a short budget is enough
            text = to_smt2(o.hyps, o.goal)
            if not canary and '(lambda ' in text: has_lambda.add(i)
            jobs.append((i, text, wd, use_cvc5 and not canary, CANARY_TIMEOUT_S if canary else Z3_TIMEOUT_S))
        with cf.ThreadPoolExecutor(max_workers=WORKERS) as pool:
            for idx, res, solver, ms, out in pool.map(solve_one, jobs):
                results[idx] = dict(result=res, solver=solver, ms=ms, out=out)
        # second pass for what is still open and contains lambda arrays: the equisatisfiable lambda-lifted query
        again = []
        for i in sorted(has_lambda):
            if results[i]['result'] != 'unknown': continue
            try: lifted = lambda_lifted(obligations[i].hyps, obligations[i].goal)
            except z3.Z3Exception: lifted = None
            if lifted is not None: again.append((i, lifted, wd))
        with cf.ThreadPoolExecutor(max_workers=WORKERS) as pool:
            for idx, res, out, ms in pool.map(_solve_lifted, again):
                results[idx]['ms'] += ms
                if res in ('sat', 'unsat'):      # equisatisfiable query, same solver: both answers count
                    results[idx].update(result=res, solver='z3-5.1 (lambda-lifted)', out=out)
        # third pass: what is still open gets three times the budget (verdicts must not depend on how busy the machine is)
        late = [(j[0], j[1], wd, False, 3 * Z3_TIMEOUT_S) for j in jobs if results[j[0]]['result'] == 'unknown' and j[4] >= Z3_TIMEOUT_S]
        if late and not os.environ.get('PYVC_NO_RETRY'):
            with cf.ThreadPoolExecutor(max_workers=WORKERS) as pool:
                for idx, res, solver, ms, out in pool.map(_solve_plain, late):
                    results[idx]['ms'] += ms
                    if res in ('sat', 'unsat'): results[idx].update(result=res, solver=solver + ' (extended budget)', out=out)
    return results


def _solve_plain(args):
    idx, text, workdir, _, tmo = args
    path = os.path.join(workdir, f'ob{idx}.late.smt2')
    with open(path, 'w') as f: f.write(text)
    res, out, dt = _run([Z3_BIN, '-smt2', f'-T:{tmo}', path], tmo + 5)
    try: os.unlink(path)
    except OSError: pass
    return idx, res, 'z3-5.1', round(dt * 1000), out[:400]


def _solve_lifted(args):
    idx, text, workdir = args
    path = os.path.join(workdir, f'ob{idx}.lifted.smt2')
    with open(path, 'w') as f: f.write(text)
    res, out, dt = _run([Z3_BIN, '-smt2', f'-T:{Z3_TIMEOUT_S}', path], Z3_TIMEOUT_S + 5)
    try: os.unlink(path)
    except OSError: pass
    return idx, res, out[:400], round(dt * 1000)


def rerun_with_seeds(obligations, results, seeds=(1, 2)):
    """thorough tier: repeat every decided query with other random seeds -> names whose verdict changes (sat <-> unsat would be
    a solver bug; unsat -> unknown shows a proof that depends on luck)"""
    flips = []
    with tempfile.TemporaryDirectory(prefix='pyvc_') as wd:
        for seed in seeds:
            jobs, idxs = [], []
            for i, (o, r) in enumerate(zip(obligations, results)):
                if o.kind == 'canary' or r['solver'] == 'simplifier' or r['result'] not in ('sat', 'unsat'): continue
                text = f'(set-option :smt.random_seed {seed})\n(set-option :sat.random_seed {seed})\n' + to_smt2(o.hyps, o.goal)
                jobs.append((i, text, wd, False, Z3_TIMEOUT_S)); idxs.append(i)
            with cf.ThreadPoolExecutor(max_workers=WORKERS) as pool:
                for idx, res, solver, ms, out in pool.map(solve_one, jobs):
                    if res != results[idx]['result'] and not (results[idx]['solver'].startswith('cvc5')):
                        flips.append(f"{obligations[idx].name}: {results[idx]['result']} -> {res} (seed {seed})")
    return sorted(set(flips))


def model_for(ob, timeout_ms=20000, weaken=False):
    """re-solve in process to obtain a model object (only for refuted obligations)"""
    s = z3.Solver(); s.set('timeout', timeout_ms)
    from .sorts import has_quant
    for h in ob.hyps:
        if weaken and has_quant(h): continue
        s.add(h)
    s.add(z3.Not(ob.goal))
    r = s.check()
    return (s.model() if r == z3.sat else None), str(r)


# ------------------------------------------------------------------------------------------ slicing of open obligations
def _symbols(f, acc=None):
    """uninterpreted constants / functions occurring in a formula"""
    if acc is None: acc = set()
    seen = set()
    todo = [f]
    while todo:
        t = todo.pop()
        if t.get_id() in seen: continue
        seen.add(t.get_id())
        if z3.is_quantifier(t):
            todo.append(t.body()); continue
        if z3.is_app(t):
            d = t.decl()
            if d.kind() == z3.Z3_OP_UNINTERPRETED: acc.add(d.name())
            todo.extend(t.children())
    return acc


def refute_on_slice(ob, timeout_ms=10000):
    """For an obligation the solvers left open: take the hypotheses connected to the goal through shared uninterpreted
    symbols.  If that slice is quantifier-free and (slice and not goal) is satisfiable, the goal does not follow:
    the remaining hypotheses share no symbol with it, so they cannot rule the model out (they are facts about other
    parts of the state; their joint consistency is what the vacuity canaries watch).  -> model or None"""
    from .sorts import has_quant
    hs = [(h, _symbols(h)) for h in ob.hyps]
    comp = _symbols(ob.goal)
    if not comp: return None
    used = [False] * len(hs)
    changed = True
    while changed:
        changed = False
        for i, (h, sy) in enumerate(hs):
            if not used[i] and sy & comp:
                used[i] = True; comp |= sy; changed = True
    sl = [h for (h, _), u in zip(hs, used) if u]
    if any(has_quant(h) for h in sl) or has_quant(ob.goal): return None
    s = z3.Solver(); s.set('timeout', timeout_ms)
    s.add(*sl); s.add(z3.Not(ob.goal))
    if s.check() == z3.sat: return s.model()
    return None
