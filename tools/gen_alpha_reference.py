#!/usr/bin/env python3-vt
"""writes specs/alpha_reference.json from the current /repo: per function under contract, its bound locals in order and its alpha hash"""
import sys, json, importlib, glob, os
sys.path.insert(0, '/verif'); sys.path.insert(0, '/repo')
from pyvc import alpha, contract as C
if os.path.exists(alpha.REF_FILE): os.rename(alpha.REF_FILE, alpha.REF_FILE + '.old')
alpha._ref = {}
mods = sorted(os.path.basename(f)[:-3] for f in glob.glob('/verif/specs/*.py') if not os.path.basename(f).startswith(('replay_', '__')))
# c14 and c15 define the same contract key: import them in separate passes
ref = {}
def collect():
    for k in list(C.CONTRACTS.values()):
        if not k.qual: continue
        try:
            modname, path = k.qual.split(':')
            _, _, node, _ = C.find_def(modname, path)
        except Exception as err:
            continue
        import ast
        if isinstance(node, ast.Lambda): continue
        ref[k.qual] = dict(names=alpha.bound_locals(node), hash=alpha.alpha_hash(node))
import subprocess
out = {}
for group in [[m] for m in mods]:
    code = ("import sys, json; sys.path.insert(0,'/verif'); sys.path.insert(0,'/repo')\n"
            "import importlib, ast\nfrom pyvc import alpha, contract as C\nalpha._ref = {}\n"
            f"for m in {group!r}: importlib.import_module('specs.' + m)\n"
            "import types\n"
            "class _R:\n    def __getattr__(self, n): return lambda *a, **k: None\n"
            "ref = {}\n"
            "for k in list(C.CONTRACTS.values()):\n"
            "    if not k.qual: continue\n"
            "    try:\n        modname, path = k.qual.split(':'); node = C.find_def(modname, path)[2]\n    except Exception: continue\n"
            "    if isinstance(node, ast.Lambda): continue\n"
            "    ref[k.qual] = dict(names=alpha.bound_locals(node), hash=alpha.alpha_hash(node))\n"
            "print(json.dumps(ref))\n")
    p = subprocess.run(['python3-vt', '-c', code], capture_output=True, text=True)
    if p.returncode != 0: print(p.stderr[-2000:]); sys.exit(1)
    out.update(json.loads(p.stdout.strip().splitlines()[-1]))
json.dump(out, open(alpha.REF_FILE, 'w'), indent=0, sort_keys=True)
if os.path.exists(alpha.REF_FILE + '.old'): os.unlink(alpha.REF_FILE + '.old')
print(len(out), 'functions')
