"""Python-side symbolic values: typed wrappers around z3 terms, and static kinds.  DESIGN 2.3/2.4.

The executor manipulates these wrappers; `to_val` injects any of them into the universal sort
`Val`, the typed wrappers avoid case splits where the static kind is known from a contract."""
import z3
from .sorts import *
import itertools

_fresh = itertools.count()


def fresh(name, sort):
    return Const(f'{name}!{next(_fresh)}', sort)


class Unsupported(Exception):
    """construct outside the verified subset -> checker error (exit 3), never a verdict"""


class PV:
    pass


class PConst(PV):
    """a concrete Python object known to the executor (None, numbers, strings, classes, modules...)"""
    def __init__(self, obj): self.obj = obj
    def __repr__(self): return f'PConst({self.obj!r})'


class UndefMarker:
    def __repr__(self): return 'UNDEF'


UNDEF = UndefMarker()
P_NONE, P_TRUE, P_FALSE, P_UNDEF = PConst(None), PConst(True), PConst(False), PConst(UNDEF)


class ZV(PV):
    """a z3 term with a static kind: 'val' (sort Val), 'bool', 'int', 'real', 'str', 'ref' (Int heap reference)"""
    def __init__(self, kind, z, cls=None):
        self.kind, self.z, self.cls = kind, z, cls
    def __repr__(self): return f'ZV({self.kind},{self.z})'


class PTuple(PV):
    def __init__(self, items, is_list=False): self.items, self.is_list = list(items), is_list
    def __repr__(self): return f'PTuple({self.items})'


class PSeq(PV):
    """sequence of symbolic length: (Array Int Val, n); elem = 'val' or 'ref:Cls' describes items"""
    def __init__(self, arr, n, elem='val', is_list=False): self.arr, self.n, self.elem, self.is_list = arr, n, elem, is_list


class PDict(PV):
    """str-keyed dict value"""
    def __init__(self, arr): self.arr = arr


class PSet(PV):
    def __init__(self, arr, ekind='ref'): self.arr, self.ekind = arr, ekind      # ekind 'ref' | 'val' | 'str'


class PMap(PV):
    """typed dict: Array(ksort -> OptOf(vsort)); kkind/vkind are Kind objects"""
    def __init__(self, arr, kkind, vkind): self.arr, self.kkind, self.vkind = arr, kkind, vkind


class PBound(PV):
    def __init__(self, recv, name): self.recv, self.name = recv, name


class PType(PV):
    def __init__(self, of): self.of = of


class PSuper(PV):
    def __init__(self, selfv, after): self.selfv, self.after = selfv, after


class PClosure(PV):
    def __init__(self, node, qual): self.node, self.qual = node, qual


class PExc(PV):
    """exception value: cls = Python class name (or pseudo class), val = z3 Val identity of the object"""
    def __init__(self, cls, val=None, cause=None, where=None):
        self.cls, self.val, self.cause, self.where = cls, val, cause, where
    def __repr__(self): return f'PExc({self.cls})'


class Raise:
    """marker for an exceptional completion of an expression"""
    def __init__(self, exc): self.exc = exc


# ---------------------------------------------------------------------------------- kinds
class Kind:
    """static type of a field / parameter / result"""
    def __init__(self, tag, cls=None, elem=None, k=None, v=None):
        self.tag, self.cls, self.elem, self.k, self.v = tag, cls, elem, k, v
    def __repr__(self): return f'Kind({self.tag}{":" + self.cls if self.cls else ""})'

    def sort(self):
        t = self.tag
        if t == 'val': return Val
        if t == 'bool': return BoolSort()
        if t == 'int': return IntSort()
        if t == 'real': return RealSort()
        if t == 'str': return StringSort()
        if t == 'ref': return IntSort()
        if t == 'dict': return DictS
        if t == 'refset': return RefSet
        if t == 'valset': return ValSet
        if t == 'strset': return ArraySort(StringSort(), BoolSort())
        if t == 'map': return ArraySort(self.k.sort(), OptOf(self.v.sort()))
        if t == 'seq': return SeqArr
        raise Unsupported(f'sort of kind {t}')

    def wrap(self, z, n=None):
        t = self.tag
        if t in ('val', 'bool', 'int', 'real', 'str'): return ZV(t, z)
        if t == 'ref': return ZV('ref', z, self.cls)
        if t == 'dict': return PDict(z)
        if t == 'refset': return PSet(z, 'ref')
        if t == 'valset': return PSet(z, 'val')
        if t == 'strset': return PSet(z, 'str')
        if t == 'map': return PMap(z, self.k, self.v)
        if t == 'seq': return PSeq(z, n, self.elem or 'val')
        raise Unsupported(f'wrap kind {t}')

    def fresh(self, name):
        if self.tag == 'seq':
            return PSeq(fresh(name, SeqArr), fresh(name + '_len', IntSort()), self.elem or 'val')
        return self.wrap(fresh(name, self.sort()))


VAL, BOOL, INT, REAL, STR, DICT = Kind('val'), Kind('bool'), Kind('int'), Kind('real'), Kind('str'), Kind('dict')
REFSET, VALSET, STRSET = Kind('refset'), Kind('valset'), Kind('strset')


def Ref(cls=None): return Kind('ref', cls=cls)


def Seq(elem='val'): return Kind('seq', elem=elem)


def Map(k, v): return Kind('map', k=k, v=v)


# ---------------------------------------------------------------------------------- coercions
def const_to_val(obj):
    if obj is None: return Val.VNone
    if obj is UNDEF: return Val.Undef
    if isinstance(obj, bool): return Val.B(BoolVal(obj))
    if isinstance(obj, int): return Val.I(IntVal(obj))
    if isinstance(obj, float) and obj == float('inf'):
        return Val.R(RealVal(10 ** 300))          # encoding: +inf is the real number 10^300 (only compared, never computed with)
    if isinstance(obj, float):
        if obj != obj or obj in (float('inf'), float('-inf')):
            raise Unsupported(f'non-finite float constant {obj}')
        return Val.R(RealVal(repr(obj)))
    if isinstance(obj, str): return Val.S(StringVal(obj))
    if obj in BUILTIN_VALUES: return BUILTIN_VALUES[obj]
    raise Unsupported(f'constant {obj!r} has no Val encoding')


# built-in functions that edzed stores as values (FuncBlock func=all / func=any)
BUILTIN_ALL, BUILTIN_ANY = Val.Opq(IntVal(-201)), Val.Opq(IntVal(-202))
BUILTIN_VALUES = {all: BUILTIN_ALL, any: BUILTIN_ANY}


def to_val(pv, st=None):
    """inject into sort Val; may add defining axioms to st.pc"""
    if isinstance(pv, PConst):
        if isinstance(pv.obj, tuple):
            return to_val(PTuple([PConst(x) for x in pv.obj]), st)
        return const_to_val(pv.obj)
    if isinstance(pv, ZV):
        return {'val': lambda z: z, 'bool': Val.B, 'int': Val.I, 'real': Val.R, 'str': Val.S, 'ref': Val.Obj}[pv.kind](pv.z)
    if isinstance(pv, PDict):
        k = mkD(pv.arr)
        if st is not None: st.assume(dict_c(k) == pv.arr)
        return Val.D(k)
    if isinstance(pv, PTuple):
        items = [to_val(x, st) for x in pv.items]
        k = mkT(len(items))(*items) if items else IntVal(-1 if not pv.is_list else -2)
        if st is not None:
            st.assume(tup_len(k) == len(items), tup_is_tuple(k) == (not pv.is_list))
            for i, it in enumerate(items): st.assume(tup_item(k, IntVal(i)) == it)
        return Val.T(k)
    if isinstance(pv, PSeq):
        k = fresh('tk', IntSort())
        if st is not None:
            j = Int('j!q')
            st.assume(tup_len(k) == pv.n, tup_is_tuple(k) == (not pv.is_list),
                      ForAll([j], Implies(And(0 <= j, j < pv.n), tup_item(k, j) == pv.arr[j])))
            st.assume(Implies(pv.n > 0, tup_item(k, IntVal(0)) == asel(pv.arr, IntVal(0))))       # (the instance for the first item, quantifier-free)
        return Val.T(k)
    if isinstance(pv, PExc):
        if pv.val is None: raise Unsupported('exception object without identity used as a value')
        return pv.val
    if isinstance(pv, (PClosure, PBound)):
        # a function object used as a value: an opaque callable with its own identity
        if getattr(pv, '_ident', None) is None: pv._ident = fresh('closure', IntSort())
        return Val.Opq(pv._ident)
    if isinstance(pv, PSet) and pv.ekind == 'val':
        k = mkFS(pv.arr)
        if st is not None: st.assume(fs_c(k) == pv.arr)
        return Val.FS(k)
    if isinstance(pv, (PSet, PMap)):
        # a typed container (set of objects / of names, map) used where only an arbitrary value is modelled -- e.g. kept inside a tuple:
        # an opaque object with its own identity (its content is not visible through that reference: over-approximation)
        if getattr(pv, '_ident', None) is None: pv._ident = fresh('container', IntSort())
        return Val.Opq(pv._ident)
    raise Unsupported(f'to_val({type(pv).__name__})')


TRUTH_BY_CLASS = {}


def truth(pv, st=None):
    """z3 Bool: Python truthiness"""
    if isinstance(pv, PConst):
        if pv.obj is UNDEF: return BoolVal(False)
        if isinstance(pv.obj, (type(None), bool, int, float, str, tuple, frozenset, list, dict)): return BoolVal(bool(pv.obj))
        return BoolVal(True)
    if isinstance(pv, ZV):
        if pv.kind == 'val': return truthy(pv.z)
        if pv.kind == 'bool': return pv.z
        if pv.kind == 'int': return pv.z != 0
        if pv.kind == 'real': return pv.z != 0
        if pv.kind == 'str': return Length(pv.z) > 0
        if pv.kind == 'ref':
            h = TRUTH_BY_CLASS.get(pv.cls)          # classes that define __bool__ (contract given by the spec)
            if h is not None and st is not None: return h(st, pv.z)
            if h is not None: raise Unsupported(f'truth of a {pv.cls} object without a state')
            return BoolVal(True)
    if isinstance(pv, PTuple): return BoolVal(len(pv.items) > 0)
    if isinstance(pv, PSeq): return pv.n > 0
    if isinstance(pv, PSet):
        e = fresh('e', pv.arr.sort().domain())
        return Exists([e], pv.arr[e])
    if isinstance(pv, PDict):
        e = fresh('e', StringSort())
        return Exists([e], Opt.is_Some(pv.arr[e]))
    if isinstance(pv, PMap):
        e = fresh('e', pv.arr.sort().domain())
        return Exists([e], Not(pv.arr[e] == OptOf(pv.vkind.sort()).Absent))
    if isinstance(pv, (PBound, PClosure, PType, PExc)): return BoolVal(True)
    raise Unsupported(f'truth({type(pv).__name__})')


def as_kind(pv, kind, st=None):
    """coerce a value to the z3 term of the given kind (for stores into typed fields / typed params).
    Returns the z3 term; raises Unsupported if the static shapes cannot match."""
    t = kind.tag
    if t == 'val': return to_val(pv, st)
    if isinstance(pv, PConst):
        o = pv.obj
        if t == 'bool' and isinstance(o, bool): return BoolVal(o)
        if t == 'int' and isinstance(o, int): return IntVal(int(o))
        if t == 'real' and isinstance(o, (int, float)): return RealVal(repr(float(o)))
        if t == 'str' and isinstance(o, str): return StringVal(o)
        if t == 'seq' and isinstance(o, tuple): return as_kind(PTuple([PConst(x) for x in o]), kind, st)
    if isinstance(pv, ZV):
        if pv.kind == t: return pv.z
        if pv.kind == 'val':
            proj = {'bool': Val.b, 'int': Val.i, 'real': Val.r, 'str': Val.s, 'ref': Val.ref}.get(t)
            if proj is not None: return proj(pv.z)
            if t == 'dict': return dict_c(Val.dk(pv.z))
        if pv.kind == 'int' and t == 'real': return ToReal(pv.z)
        if pv.kind == 'bool' and t == 'int': return If(pv.z, IntVal(1), IntVal(0))
    if isinstance(pv, PBound) and t == 'str':
        # a bound method of the object itself kept in one of its fields (strategy selection): identified by its name
        return StringVal('method:' + pv.name)
    if isinstance(pv, PDict) and t == 'dict': return pv.arr
    if isinstance(pv, PSet) and t in ('refset', 'valset', 'strset') and not pv.arr.sort().eq(kind.sort()) and z3.is_K(pv.arr) and z3.is_false(pv.arr.arg(0)):
        return K(kind.sort().domain(), BoolVal(False))          # the literal set(): empty in every element type
    if isinstance(pv, PDict) and t == 'map' and z3.is_K(pv.arr):
        return K(kind.sort().domain(), OptOf(kind.v.sort()).Absent)      # the literal {}: empty whatever the key/value kinds
    if isinstance(pv, PSet) and t in ('refset', 'valset', 'strset'): return pv.arr
    if isinstance(pv, PDict) and t == 'map' and kind.k.tag == 'str':
        if kind.v.tag == 'val': return pv.arr
        if kind.v.tag == 'map' and kind.v.sort().eq(DictS):
            # a str-keyed dict of str-keyed dicts: the inner dict values are unfolded into their content
            O2 = OptOf(DictS); kq = Const('k!cv', StringSort())
            return z3.Lambda([kq], If(Opt.is_Some(pv.arr[kq]), O2.Some(dict_c(Val.dk(Opt.v(pv.arr[kq])))), O2.Absent))
    if isinstance(pv, PMap) and t == 'map': return pv.arr
    raise Unsupported(f'cannot use {pv!r} as kind {kind}')


def seq_of(pv, st=None):
    """view a tuple-like value as (arr, n)"""
    if isinstance(pv, PSeq): return pv.arr, pv.n
    if isinstance(pv, PConst) and isinstance(pv.obj, tuple):
        pv = PTuple([PConst(x) for x in pv.obj])
    if isinstance(pv, PTuple):
        arr = K(IntSort(), Val.VNone)
        for i, it in enumerate(pv.items): arr = Store(arr, IntVal(i), to_val(it, st))
        return arr, IntVal(len(pv.items))
    if isinstance(pv, ZV) and pv.kind == 'val':
        k = Val.tk(pv.z)
        from z3 import Lambda
        j = Int('j!l')
        if st is not None: st.assume(tup_len(k) >= 0)           # a length
        return Lambda([j], tup_item(k, j)), tup_len(k)
    raise Unsupported(f'seq_of({pv!r})')
