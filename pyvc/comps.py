"""Comprehensions and generator expressions in the closed forms that occur in edzed (DESIGN 2.3).
Each form is turned into its mathematical meaning (a quantifier, a Lambda-defined container); anything
else is outside the subset."""
import ast
import z3
from .sorts import *
from .values import *
from .state import *
from .engine import Raise


def eval_comp(ex, e, st):
    if len(e.generators) != 1 or e.generators[0].is_async:
        raise Unsupported(f'comprehension with {len(e.generators)} generators (line {e.lineno})')
    g = e.generators[0]
    outs = []
    for s1, it in ex.ev(g.iter, st):
        if isinstance(it, Raise): outs.append((s1, it)); continue
        outs.extend(_comp_over(ex, e, g, s1, it))
    return outs


def _static_items(ex, it):
    from .loops import static_items
    return static_items(ex, it)


def _comp_over(ex, e, g, st, it):
    items = _static_items(ex, it)
    if items is not None:
        return _unrolled(ex, e, g, st, items)
    if type(it).__name__ == 'PItems' and isinstance(e, ast.DictComp):
        return _dictcomp_over_items(ex, e, g, st, it.d)
    if isinstance(it, PMap) and isinstance(e, ast.DictComp):
        return _dictcomp_over_map(ex, e, g, st, it)
    if isinstance(it, PSet):
        return _over_symbolic_set(ex, e, g, st, it)
    if isinstance(it, PSeq) or (isinstance(it, ZV) and it.kind == 'val'):
        return _over_symbolic_seq(ex, e, g, st, it)
    raise Unsupported(f'comprehension over {it!r} (line {e.lineno} in {ex.spec.qual})')


def _skeleton(n):
    """structure of an expression: node kinds only (every operator is 'op', every name 'n', every constant 'c', attribute names dropped)"""
    if isinstance(n, (ast.operator, ast.cmpop, ast.boolop, ast.unaryop)): return 'op'
    if isinstance(n, ast.Name): return 'n'
    if isinstance(n, ast.Constant): return 'c'
    if isinstance(n, ast.expr_context): return ''
    kids = [_skeleton(c) for c in ast.iter_child_nodes(n)]
    return type(n).__name__ + '(' + ','.join(k for k in kids if k) + ')'


def comp_key(ex, e):
    """static identity of a comprehension: 'comp:for <target> in <iter>' + ordinal among equal headers"""
    hdr = lambda n: f'comp:for {ast.unparse(n.generators[0].target)} in {ast.unparse(n.generators[0].iter)}'
    same = [n for n in ast.walk(ex.spec.node) if isinstance(n, (ast.ListComp, ast.SetComp, ast.DictComp, ast.GeneratorExp)) and hdr(n) == hdr(e)]
    same.sort(key=lambda n: (n.lineno, n.col_offset))
    k = same.index(e)
    # the invariant of a comprehension describes the items it produces: it belongs to this element expression and this filter only
    # (a comprehension with the same header but another element is a different loop: no invariant, cut trivially, decided 'undecided')
    import hashlib
    # ... more precisely to the *shape* of the element and of the filter (node kinds; names, constants and operator kinds are not part of it,
    # so that a changed operator or attribute inside the same shape is still checked against the invariant -- and refuted by it)
    shape = _skeleton(e.key) + ':' + _skeleton(e.value) if isinstance(e, ast.DictComp) else _skeleton(e.elt)
    shape += '|' + '|'.join(_skeleton(t) for t in e.generators[0].ifs)
    h = hashlib.sha1(shape.encode()).hexdigest()[:6]
    base = hdr(e).replace('comp:', f'comp[{h}]:', 1)
    return base if k == 0 else f'{base}#{k}'


def _over_symbolic_set(ex, e, g, st, it):
    """{x for x in S if cond(x)} with a pure filter: the subset.  Any other list/set comprehension over a set is executed as
    the loop it abbreviates (`_comp_result = []; for x in S: if cond: _comp_result.append(elt)`), cut by the invariant the
    contract gives under the key comp_key(); the iterable expression is evaluated again by that loop (it must be pure)."""
    if (isinstance(e, ast.SetComp) and isinstance(g.target, ast.Name) and isinstance(e.elt, ast.Name) and e.elt.id == g.target.id
            and it.ekind == 'ref'):
        x = fresh('x', IntSort())
        base = st.copy(); base.env[g.target.id] = ZV('ref', x)
        cond, pure = BoolVal(True), True
        npc = len(base.pc)
        for test in g.ifs:
            alts = []
            for s2, v in ex.ev(test, base):       # `and`/`or` fork: the filter is the disjunction of its true outcomes
                if isinstance(v, Raise) or not s2.tn.eq(base.tn) or any(not s2.heap[k].eq(base.heap[k]) for k in s2.heap if k in base.heap):
                    pure = False; break
                alts.append(And(*s2.pc[npc:], truth(v, s2)))
            if not pure: break
            cond = And(cond, Or(*alts) if alts else BoolVal(False))
        if pure:
            return [(st, PSet(z3.Lambda([x], And(it.arr[x], cond)), 'ref'))]
    if not isinstance(e, (ast.ListComp, ast.SetComp)): raise Unsupported(f'comprehension over a set (line {e.lineno})')
    return _as_loop(ex, e, g, st)


def _as_loop(ex, e, g, st):
    """execute a list/set/generator comprehension as the loop it abbreviates:
    `_comp_result = []; for x in S: if cond: _comp_result.append(elt)`, cut by the invariant given under comp_key()"""
    name = '_comp_result'
    add = 'add' if isinstance(e, ast.SetComp) else 'append'
    body = ast.Expr(ast.Call(ast.Attribute(ast.Name(name, ast.Load()), add, ast.Load()), [e.elt], []))
    if g.ifs:
        body = ast.If(g.ifs[0] if len(g.ifs) == 1 else ast.BoolOp(ast.And(), list(g.ifs)), [body], [])
    loop = ast.For(g.target, g.iter, [body], [], lineno=e.lineno, col_offset=e.col_offset)
    ast.fix_missing_locations(ast.copy_location(loop, e))
    loop._comp_key = comp_key(ex, e)
    s0 = st.copy()
    saved = s0.env.get(name)
    s0.env[name] = PSeq(K(IntSort(), Val.VNone), IntVal(0), 'val', True) if add == 'append' else PSet(K(Val, BoolVal(False)), 'val')
    outs = []
    from .engine import NEXT
    for s1, fl in ex.run_block([loop], s0):
        res = s1.env.get(name)
        s1 = s1.copy()
        if saved is None: s1.env.pop(name, None)
        else: s1.env[name] = saved
        outs.append((s1, res) if fl is NEXT else (s1, Raise(fl[1])))
    return outs


def _dictcomp_over_items(ex, e, g, st, d):
    """{k: v for k, v in d.items() if cond(k)}: the sub-dictionary of the keys satisfying the filter"""
    t = g.target
    if not (isinstance(t, ast.Tuple) and len(t.elts) == 2 and all(isinstance(x, ast.Name) for x in t.elts)
            and isinstance(e.key, ast.Name) and e.key.id == t.elts[0].id and isinstance(e.value, ast.Name) and e.value.id == t.elts[1].id):
        return _dictcomp_over_items_general(ex, e, g, st, d)
    kq = fresh('kq', StringSort())
    base = st.copy(); base.env[t.elts[0].id] = ZV('str', kq); base.env[t.elts[1].id] = ZV('val', Opt.v(d.arr[kq]))
    cond = BoolVal(True)
    for test in g.ifs:
        res = ex.ev(test, base)
        if len(res) != 1 or isinstance(res[0][1], Raise): raise Unsupported('comprehension filter with several outcomes')
        cond = And(cond, truth(res[0][1], res[0][0]))
    return [(st, PDict(z3.Lambda([kq], If(And(Opt.is_Some(d.arr[kq]), cond), d.arr[kq], Opt.Absent))))]


def _dictcomp_over_items_general(ex, e, g, st, d):
    """{k: f(k, v) for k, v in d.items() [if cond]} with the loop's key variable as the key: the value expression is evaluated for one
    arbitrary present key; its normal outcomes (pure: they may not change the state) are merged into one conditional term over that key;
    an exceptional outcome becomes "raises if some present key takes that path"."""
    t = g.target
    if not (isinstance(t, ast.Tuple) and len(t.elts) == 2 and all(isinstance(x, ast.Name) for x in t.elts)
            and isinstance(e.key, ast.Name) and e.key.id == t.elts[0].id):
        raise Unsupported('dict comprehension over items() whose key is not the loop variable')
    kq = fresh('kq', StringSort())
    base = st.copy(); base.assume(Opt.is_Some(d.arr[kq]))
    base.env[t.elts[0].id] = ZV('str', kq); base.env[t.elts[1].id] = ZV('val', Opt.v(d.arr[kq]))
    npc = len(base.pc)
    cond = BoolVal(True)
    for test in g.ifs:
        res = ex.ev(test, base)
        if len(res) != 1 or isinstance(res[0][1], Raise): raise Unsupported('comprehension filter with several outcomes')
        cond = And(cond, truth(res[0][1], res[0][0]))
    sel = base.copy(); sel.assume(cond)
    res = ex.ev(e.value, sel)
    normal = [(s2, v) for s2, v in res if not isinstance(v, Raise)]
    raising = [(s2, v) for s2, v in res if isinstance(v, Raise)]
    if not normal: raise Unsupported(f'comprehension element without a normal outcome (line {e.lineno})')
    for s2, v in normal:
        if any(not arr.eq(st.heap.get(c, arr)) for c, arr in s2.heap.items() if c in st.heap) or not s2.tn.eq(st.tn):
            raise Unsupported(f'comprehension element with side effects (line {e.lineno})')
    val = to_val(normal[-1][1], normal[-1][0])
    for s2, v in reversed(normal[:-1]):
        val = If(And(*s2.pc[npc + 1:]), to_val(v, s2), val)
    outs = [(st, PDict(z3.Lambda([kq], If(And(Opt.is_Some(d.arr[kq]), cond), Opt.Some(val), Opt.Absent))))]
    if raising:
        ok = outs[0][0].copy()
        for s_bad, r in raising:
            ok.assume(ForAll([kq], Implies(And(Opt.is_Some(d.arr[kq]), cond), Not(And(*s_bad.pc[npc + 1:])))))
            bad = st.copy(); kb = fresh('kbad', StringSort())
            bad.assume(*[z3.substitute(c, (kq, kb)) for c in s_bad.pc[npc - 1:]]); bad.label(f'L{e.lineno}.comp:raises')
            if ex.feasible(bad): outs.append((bad, r))
        outs[0] = (ok, outs[0][1])
    return outs


def _dictcomp_over_map(ex, e, g, st, m):
    """{key: value for name in <str-keyed map>} with the loop variable as the key: evaluated for one arbitrary key of the map;
    the value expression must have one normal outcome whose result is a term over that key"""
    if g.ifs or m.kkind.tag != 'str': raise Unsupported('dict comprehension over this kind of map')
    kq = fresh('kq', StringSort())
    O = OptOf(m.vkind.sort())
    base = st.copy(); base.assume(O.is_Some(m.arr[kq]))
    npc = len(base.pc)
    outs = []
    for s1, fl in ex.assign(base, g.target, ZV('str', kq)):
        res = ex.evs([e.key, e.value], s1)
        normal = [(s2, v) for s2, v in res if not isinstance(v, Raise)]
        raising = [(s2, v) for s2, v in res if isinstance(v, Raise)]
        if len(normal) != 1: raise Unsupported(f'comprehension element with {len(normal)} normal outcomes (line {e.lineno})')
        s_ok, (kk, vv) = normal[0]
        if not ex.as_str(s_ok, kk).eq(kq): raise Unsupported('dict comprehension whose key is not the loop variable')
        val = to_val(vv, s_ok)
        conds = s_ok.pc[npc:]
        ok = st.copy()
        if conds: ok.assume(ForAll([kq], Implies(O.is_Some(m.arr[kq]), And(*conds))))
        outs.append((ok, PDict(z3.Lambda([kq], If(O.is_Some(m.arr[kq]), Opt.Some(val), Opt.Absent)))))
        for s_bad, r in raising:
            bad = st.copy(); kb = fresh('kbad', StringSort())
            bad.assume(*[z3.substitute(c, (kq, kb)) for c in s_bad.pc[npc - 1:]]); bad.label(f'L{e.lineno}.comp:raises')
            if ex.feasible(bad): outs.append((bad, r))
    return outs


def _over_symbolic_seq(ex, e, g, st, it):
    """[elt for x in <sequence of symbolic length>] without filter: the element expression is evaluated once for an
    arbitrary index j; it must have exactly one normal outcome (its path conditions become a universally quantified
    hypothesis) -- every exceptional outcome becomes "raises if some index takes that path"."""
    if comp_key(ex, e) in ex.spec.invariants and isinstance(e, (ast.ListComp, ast.GeneratorExp, ast.SetComp)):
        return _as_loop(ex, e, g, st)          # the contract gives an invariant: the element expression may have effects
    if g.ifs: raise Unsupported('filtered comprehension over a symbolic-length sequence')
    arr, n = seq_of(it, st)
    j = fresh('j', IntSort())
    base = st.copy(); base.assume(0 <= j, j < n)
    npc = len(base.pc)
    elem = it.elem if isinstance(it, PSeq) else 'val'
    item = ZV('ref', Val.ref(arr[j]), elem[4:]) if elem.startswith('ref:') else ZV('val', arr[j])
    outs = []
    from .engine import NEXT
    for s1, fl in ex.assign(base, g.target, item):
        if fl is not NEXT:
            # binding the loop target failed for some index (e.g. an item that cannot be unpacked)
            bad = st.copy(); jb = fresh('jbad', IntSort())
            bad.assume(0 <= jb, jb < n, *[z3.substitute(c, (j, jb)) for c in s1.pc[npc:]]); bad.label(f'L{e.lineno}.comp:unpack')
            if ex.feasible(bad): outs.append((bad, Raise(fl[1])))
            continue
        if isinstance(e, ast.DictComp):
            res = [(s2, kv) for s2, kv in ex.evs([e.key, e.value], s1)]
        else:
            res = ex.ev(e.elt, s1)
        normal = [(s2, v) for s2, v in res if not isinstance(v, Raise)]
        raising = [(s2, v) for s2, v in res if isinstance(v, Raise)]
        if len(normal) != 1: raise Unsupported(f'comprehension element with {len(normal)} normal outcomes (line {e.lineno})')
        s_ok, v = normal[0]
        conds = s_ok.pc[npc:]
        ok = st.copy()
        if conds: ok.assume(ForAll([j], Implies(And(0 <= j, j < n), And(*conds))))
        if isinstance(e, ast.DictComp):
            kk, vv = v
            kq = fresh('k', StringSort()); jj = fresh('jj', IntSort())
            keyj = ex.as_str(s_ok, kk); valj = to_val(vv, s_ok)
            d = fresh('dc', DictS)
            # d has exactly the keys key(j), each mapped to value(j) of some index with that key (last wins in Python;
            # all indices with the same key give the same value here because value(j) is a function of key(j) in the forms used)
            ok.assume(ForAll([j], Implies(And(0 <= j, j < n), d[keyj] == Opt.Some(valj))),
                      ForAll([kq], Implies(Opt.is_Some(d[kq]), z3.Exists([j], And(0 <= j, j < n, keyj == kq)))))
            outs.append((ok, PDict(d)))
        else:
            outs.append((ok, PSeq(z3.Lambda([j], to_val(v, s_ok)), n, 'val', isinstance(e, ast.ListComp))))
        for s_bad, r in raising:
            bconds = s_bad.pc[npc:]
            bad = st.copy(); jb = fresh('jbad', IntSort())
            bad.assume(0 <= jb, jb < n, *[z3.substitute(c, (j, jb)) for c in bconds]); bad.label(f'L{e.lineno}.comp:raises')
            if ex.feasible(bad): outs.append((bad, r))
    return outs


def _unrolled(ex, e, g, st, items):
    """comprehension over a statically known sequence: evaluate element by element"""
    cur = [(st, [])]
    for item in items:
        nxt = []
        for s1, acc in cur:
            if isinstance(acc, Raise): nxt.append((s1, acc)); continue
            for s2, fl in ex.assign(s1, g.target, item):
                conds = [(s2, True)]
                for test in g.ifs:
                    c2 = []
                    for s3, ok in conds:
                        if ok is not True: c2.append((s3, ok)); continue
                        for s4, t in ex.ev(test, s3):
                            if isinstance(t, Raise): c2.append((s4, t)); continue
                            for s5, side in ex.fork(s4, truth(t, s4), f'L{e.lineno}.compif'):
                                c2.append((s5, True if side else False))
                    conds = c2
                for s3, ok in conds:
                    if isinstance(ok, Raise): nxt.append((s3, ok)); continue
                    if ok is False: nxt.append((s3, acc)); continue
                    if isinstance(e, ast.DictComp):
                        for s4, kv in ex.evs([e.key, e.value], s3):
                            nxt.append((s4, kv if isinstance(kv, Raise) else acc + [tuple(kv)]))
                    else:
                        for s4, v in ex.ev(e.elt, s3):
                            nxt.append((s4, v if isinstance(v, Raise) else acc + [v]))
        cur = nxt
    outs = []
    for s1, acc in cur:
        if isinstance(acc, Raise): outs.append((s1, acc)); continue
        if isinstance(e, ast.DictComp):
            arr = EMPTY_DICT
            for k, v in acc: arr = Store(arr, ex.as_str(s1, k), Opt.Some(to_val(v, s1)))
            outs.append((s1, PDict(arr)))
        elif isinstance(e, ast.SetComp):
            outs.append(ex._valset(s1, acc))
        else:
            outs.append((s1, PTuple(acc, isinstance(e, ast.ListComp))))
    return outs
