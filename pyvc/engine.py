"""Symbolic executor for the Python subset of DESIGN 2.3: forward, path-splitting, contracts at
calls, invariants at loop heads.  Interprets the AST nodes of the real functions in /repo."""
import ast
import builtins as _bi
import z3
from .sorts import *
from .values import *
from .state import *

NEXT = ('next',)
LOG_ATTRS = {'log_debug', 'log_info', 'log_warning', 'log_error', 'log_msg'}
LOGGER_NAMES = {'_logger', 'logging', 'warnings'}


def _is_log_call(call):
    f = call.func
    if isinstance(f, ast.Attribute):
        if f.attr in LOG_ATTRS: return True
        if isinstance(f.value, ast.Name) and f.value.id in LOGGER_NAMES: return True
    if isinstance(f, ast.Name) and f.id == 'add_note': return True
    return False


class Obligation:
    def __init__(self, name, hyps, goal, labels, kind='code', meta=None):
        self.name, self.hyps, self.goal, self.labels, self.kind, self.meta = name, hyps, goal, labels, kind, meta or {}


def _has_quant_cached(f):
    """has_quant, remembered on the (shared, immutable) formula object of the path condition"""
    r = getattr(f, '_hq', None)
    if r is None:
        r = has_quant(f)
        try: f._hq = r
        except AttributeError: pass
    return r


class Exec:
    FEAS_TIMEOUT_MS = 2000
    MAX_PATHS = 4000

    def __init__(self, fnspec):
        self.spec = fnspec                   # contract.FnSpec of the function being verified
        self.obligations = []
        self.npaths = 0
        self.feas_checks = 0
        self.unreachable = 0

    # ================================================================== infrastructure
    def oblige(self, name, st, goal, kind='code', meta=None):
        if isinstance(goal, bool): goal = BoolVal(goal)
        self.obligations.append(Obligation(name, list(st.pc), goal, list(st.labels), kind, meta))

    def feasible(self, st):
        self.feas_checks += 1
        s = z3.Solver(); s.set('timeout', self.FEAS_TIMEOUT_MS)
        s.add(*[f for f in st.pc if not _has_quant_cached(f)])
        return s.check() != z3.unsat

    def feasible_sides(self, st, conds):
        """which of the extra conditions are (each alone) consistent with the path condition: one solver, one check per condition"""
        s = z3.Solver(); s.set('timeout', self.FEAS_TIMEOUT_MS)
        s.add(*[f for f in st.pc if not _has_quant_cached(f)])
        res = []
        for c in conds:
            self.feas_checks += 1
            if has_quant(c): res.append(True); continue
            s.push(); s.add(c)
            res.append(s.check() != z3.unsat)
            s.pop()
        return res

    def fork(self, st, cond, lab=None):
        """-> list of (state, bool) for the feasible sides of z3 Bool `cond`"""
        cond = z3.simplify(cond) if is_expr(cond) else BoolVal(bool(cond))
        if z3.is_true(cond): return [(st, True)]
        if z3.is_false(cond): return [(st, False)]
        out = []
        sides = ((True, cond), (False, Not(cond)))
        for (side, c), ok in zip(sides, self.feasible_sides(st, [c for _, c in sides])):
            if not ok: self.unreachable += 1; continue
            s2 = st.copy(); s2.assume(c)
            if lab: s2.label(f'{lab}={"T" if side else "F"}')
            out.append((s2, side))
        return out

    def emit(self, st, record):
        """append a traced call to the activation trace.  If the contract under verification gives the expected
        trace as a function of the position (order automaton, DESIGN 2.8), the record is checked right here: the
        obligation is quantifier-free, and by induction over the emits the whole trace equals the expected one."""
        ts = self.spec.trace_spec
        if ts is not None:
            fn, length, normal_len, predicate = ts
            goal = fn(st.tn, record, st) if predicate else record == fn(st.tn)
            if isinstance(goal, list):
                # several named conditions on this call: one obligation each
                for label, g in goal:
                    if label.startswith('qf:'):
                        # a quantifier-free goal over locals: decided from the quantifier-free path facts alone (fewer hypotheses:
                        # sound for the proof; a refutation is confirmed by the native replay)
                        slim = st.copy(); slim.pc = [f for f in st.pc if not _has_quant_cached(f)]
                        self.oblige(f'trace:{label[3:]}', slim, g, kind='trace')
                    else:
                        self.oblige(f'trace:{label}', st, g, kind='trace')
            else:
                self.oblige('trace:each_call_is_the_expected_one_at_its_position', st, goal, kind='trace')
            if length is not None:
                self.oblige('trace:no_call_beyond_the_expected_ones', st, st.tn < length, kind='trace')
        st.emit(record)

    def raise_(self, st, cls, where=None, val=None):
        if val is None: val = Val.Obj(fresh('exc', IntSort()))
        return Raise(PExc(cls, val=val, where=where))

    # ================================================================== expressions
    def ev(self, e, st):
        """-> list of (state, PV | Raise)"""
        m = getattr(self, 'ev_' + type(e).__name__, None)
        if m is None:
            raise Unsupported(f'expression {type(e).__name__} at line {getattr(e, "lineno", "?")} in {self.spec.qual}')
        return m(e, st)

    def evs(self, es, st):
        """evaluate a list of expressions left to right -> list of (state, [PV] | Raise)"""
        outs = [(st, [])]
        for e in es:
            nxt = []
            for s1, acc in outs:
                if isinstance(acc, Raise): nxt.append((s1, acc)); continue
                for s2, v in self.ev(e, s1):
                    nxt.append((s2, v if isinstance(v, Raise) else acc + [v]))
            outs = nxt
        return outs

    def ev_Constant(self, e, st):
        return [(st, PConst(e.value))]

    def ev_JoinedStr(self, e, st):
        """f-string: exact when every part is a string (constant text, str values without conversion / format spec);
        otherwise opaque text (messages are not modelled)"""
        simple = all(isinstance(v, ast.Constant) or (isinstance(v, ast.FormattedValue) and v.conversion == -1 and v.format_spec is None)
                     for v in e.values)
        if not simple or self.spec.opaque_fstrings:
            return [(st, ZV('str', fresh('fstr', StringSort())))]
        outs = []
        for s1, vals in self.evs([v.value if isinstance(v, ast.FormattedValue) else v for v in e.values], st):
            if isinstance(vals, Raise): outs.append((s1, vals)); continue
            def strable(v):
                return self._strlike(v) or (isinstance(v, ZV) and v.kind == 'int') or (isinstance(v, PConst) and type(v.obj) is int)
            def tostr(v):
                if isinstance(v, ZV) and v.kind == 'int':
                    # str() of an int: exact for non-negative values (z3's int.to.str); negative ints get a leading '-'
                    return If(v.z >= 0, z3.IntToStr(v.z), Concat(StringVal('-'), z3.IntToStr(-v.z)))
                if isinstance(v, PConst) and type(v.obj) is int: return StringVal(str(v.obj))
                return self.as_str(s1, v)
            if all(strable(v) for v in vals):
                acc = None
                for v in vals:
                    z = tostr(v); acc = z if acc is None else Concat(acc, z)
                outs.append((s1, ZV('str', acc if acc is not None else StringVal(''))))
            else:
                outs.append((s1, ZV('str', fresh('fstr', StringSort()))))
        return outs

    def lookup_global(self, name):
        mod = self.spec.module
        if hasattr(mod, name): return self.lift_const(getattr(mod, name))
        if hasattr(_bi, name): return PConst(getattr(_bi, name))
        raise Unsupported(f'unknown name {name!r} in {self.spec.qual}')

    def lift_const(self, obj):
        from . import contract
        if obj is contract.REAL_UNDEF(): return P_UNDEF
        return PConst(obj)

    def ev_Name(self, e, st):
        if e.id in st.env: return [(st, st.env[e.id])]
        if e.id in self.spec.closure_vals: return [(st, self.spec.closure_vals[e.id])]
        return [(st, self.lookup_global(e.id))]

    def ev_Attribute(self, e, st):
        outs = []
        for s1, o in self.ev(e.value, st):
            if isinstance(o, Raise): outs.append((s1, o)); continue
            outs.extend(self.getattr_(s1, o, e.attr, e))
        return outs

    def getattr_(self, st, o, attr, node=None):
        h = self.spec.attr_hooks.get(attr)
        if h is not None:
            r = h(self, st, o)
            if r is not None: return r
        if isinstance(o, PConst):
            if isinstance(o.obj, PyObjStub): return o.obj.getattr(self, st, attr)
            if hasattr(o.obj, attr): return [(st, self.lift_const(getattr(o.obj, attr)))]
            raise Unsupported(f'attribute {attr} of constant {o.obj!r}')
        if isinstance(o, PType):
            if attr == '__name__' and isinstance(o.of, PExc): return [(st, ZV('str', fresh('excname', StringSort())))]
            if attr == '__name__': return [(st, ZV('str', class_name(class_of(as_kind(o.of, Ref(), st)))))]
            return self.getattr_(st, o.of, attr, node)          # class-level tables are modelled per object
        if isinstance(o, PExc):
            if attr == '__traceback__': return [(st, PConst(TBStub(o)))]
            if attr == '__cause__': return [(st, st.read('__cause__', Val.ref(o.val)))]
            raise Unsupported(f'exception attribute {attr}')
        if isinstance(o, ZV) and o.kind == 'val' and attr == 'state' and self.spec.goto_state_attr:
            return [(st, ZV('str', Val.gs(o.z)))]          # fsm.Goto is a frozen dataclass value
        if isinstance(o, ZV) and o.kind == 'val' and attr in ('etrue', 'efalse'):
            # EventCond is a frozen dataclass value
            return [(st, ZV('val', (ec_true if attr == 'etrue' else ec_false)(Val.ek(o.z))))]
        if isinstance(o, ZV) and o.kind == 'val':
            # attribute of an arbitrary value: it has to be a heap object (type invariant of the contract)
            o = ZV('ref', Val.ref(o.z))
        if isinstance(o, ZV) and o.kind == 'ref':
            fname = FIELD_ALIAS.get(attr, attr)
            if fname in FIELDS:
                v = st.read(fname, o.z)
                if isinstance(v, ZV) and v.kind == 'ref' and v.cls is None: v.cls = FIELDS[fname].cls
                return [(st, v)]
            if o.cls:
                from . import calls as _calls
                real = _calls.C_class(o.cls)
                if real is not None and not hasattr(real, attr) and '__getattr__' in vars(real):
                    k = _calls.resolve_method(real, '__getattr__')
                    return _calls.apply_contract(self, st, k, o, [PConst(attr)], {}, [], [], node or ast.Constant(value=None, lineno=0))
                if real is not None and not hasattr(real, attr) and not any(key.endswith('.' + attr) for key in self.spec.contract_keys()):
                    # neither a declared field nor an attribute of the class: an instance attribute the contracts do not know
                    raise Unsupported(f'attribute {attr!r} of {o.cls} is not a declared field (missing contract)')
            return [(st, PBound(o, attr))]
        if isinstance(o, (PDict, PSet, PMap, PTuple, PSeq, PSuper)) or (isinstance(o, ZV) and o.kind == 'str'):
            return [(st, PBound(o, attr))]
        raise Unsupported(f'attribute {attr} of {o!r} (line {getattr(node, "lineno", "?")})')

    def ev_UnaryOp(self, e, st):
        outs = []
        for s1, v in self.ev(e.operand, st):
            if isinstance(v, Raise): outs.append((s1, v)); continue
            if isinstance(e.op, ast.Not): outs.append((s1, ZV('bool', Not(truth(v, s1)))))
            elif isinstance(e.op, ast.USub):
                outs.extend(self.binop(s1, ast.Sub(), PConst(0), v))
            else: raise Unsupported(f'unary {type(e.op).__name__}')
        return outs

    def ev_BoolOp(self, e, st):
        is_and = isinstance(e.op, ast.And)
        outs, cur = [], [(st, None)]
        for i, sub in enumerate(e.values):
            nxt = []
            for s1, _ in cur:
                for s2, v in self.ev(sub, s1):
                    if isinstance(v, Raise) or i == len(e.values) - 1: outs.append((s2, v)); continue
                    for s3, side in self.fork(s2, truth(v, s2), f'L{e.lineno}.{"and" if is_and else "or"}{i}'):
                        if side == is_and: nxt.append((s3, None))      # keep evaluating
                        else: outs.append((s3, v))                     # short-circuit with this value
            cur = nxt
        return outs

    def ev_IfExp(self, e, st):
        outs = []
        for s1, t in self.ev(e.test, st):
            if isinstance(t, Raise): outs.append((s1, t)); continue
            for s2, side in self.fork(s1, truth(t, s1), f'L{e.lineno}.ifexp'):
                outs.extend(self.ev(e.body if side else e.orelse, s2))
        return outs

    def ev_NamedExpr(self, e, st):
        outs = []
        for s1, v in self.ev(e.value, st):
            if not isinstance(v, Raise): s1 = s1.copy(); s1.env[e.target.id] = v
            outs.append((s1, v))
        return outs

    def ev_Tuple(self, e, st): return self._display(e, st, False)
    def ev_List(self, e, st): return self._display(e, st, True)

    def _display(self, e, st, is_list):
        if any(isinstance(x, ast.Starred) for x in e.elts):
            outs = []
            for s1, vals in self.evs([x.value if isinstance(x, ast.Starred) else x for x in e.elts], st):
                if isinstance(vals, Raise): outs.append((s1, vals)); continue
                items = []
                for x, v in zip(e.elts, vals):
                    if isinstance(x, ast.Starred):
                        if isinstance(v, PTuple): items.extend(v.items)
                        elif isinstance(v, PConst) and isinstance(v.obj, (tuple, list)): items.extend(PConst(y) for y in v.obj)
                        else: raise Unsupported('starred display of a symbolic-length sequence')
                    else: items.append(v)
                outs.append((s1, PTuple(items, is_list)))
            return outs
        return [(s1, vals if isinstance(vals, Raise) else PTuple(vals, is_list)) for s1, vals in self.evs(e.elts, st)]

    def ev_Dict(self, e, st):
        outs = []
        for s1, vals in self.evs(e.values, st):
            if isinstance(vals, Raise): outs.append((s1, vals)); continue
            kouts = self.evs([k for k in e.keys if k is not None], s1)
            for s2, keys in kouts:
                if isinstance(keys, Raise): outs.append((s2, keys)); continue
                keys = list(keys); arr = EMPTY_DICT; typed = None
                for k, v in zip(e.keys, vals):
                    if k is None:                       # **mapping
                        src = self.as_dict(s2, v)
                        if arr.eq(EMPTY_DICT):
                            arr = src                   # {**m, ...}: starts as a copy of m
                        else:
                            ks = fresh('k', StringSort())
                            arr = z3.Lambda([ks], If(Opt.is_Some(src[ks]), src[ks], arr[ks]))
                    else:
                        kk = keys.pop(0)
                        arr = Store(arr, self.as_str(s2, kk), Opt.Some(to_val(v, s2)))
                outs.append((s2, PDict(arr)))
        return outs

    def as_dict(self, st, v):
        if isinstance(v, PDict): return v.arr
        if self.spec.heap_dicts and isinstance(v, ZV) and v.kind == 'val':
            return st.readz('st_items', Val.ref(v.z))            # a shared dict object: its current content lives in the heap
        if isinstance(v, ZV) and v.kind == 'val': return dict_c(Val.dk(v.z))
        if isinstance(v, PConst) and isinstance(v.obj, dict) and all(isinstance(k, str) for k in v.obj):
            arr = EMPTY_DICT
            for k, x in v.obj.items(): arr = Store(arr, StringVal(k), Opt.Some(const_to_val(x)))
            return arr
        raise Unsupported(f'not a str-keyed dict: {v!r}')

    def as_str(self, st, v):
        if isinstance(v, PConst) and isinstance(v.obj, str): return StringVal(v.obj)
        if isinstance(v, ZV) and v.kind == 'str': return v.z
        if isinstance(v, ZV) and v.kind == 'val': return Val.s(v.z)
        raise Unsupported(f'not a string: {v!r}')

    def ev_Set(self, e, st):
        outs = []
        for s1, vals in self.evs(e.elts, st):
            if isinstance(vals, Raise): outs.append((s1, vals)); continue
            if all(isinstance(v, ZV) and v.kind == 'ref' for v in vals):
                arr = EMPTY_REFSET
                for v in vals: arr = Store(arr, v.z, BoolVal(True))
                outs.append((s1, PSet(arr, 'ref')))
            else:
                outs.append((s1, PConst(frozenset(v.obj for v in vals))) if all(isinstance(v, PConst) for v in vals)
                            else self._valset(s1, vals))
        return outs

    def _valset(self, st, vals):
        arr = K(Val, BoolVal(False))
        for v in vals: arr = Store(arr, norm_key(to_val(v, st)), BoolVal(True))
        return (st, PSet(arr, 'val'))

    def ev_Await(self, e, st):
        return self.spec.await_hook(self, e, st)

    def ev_Lambda(self, e, st):
        return [(st, PClosure(e, self.spec.qual + '.<lambda>'))]

    def ev_GeneratorExp(self, e, st): return self.spec.comp_hook(self, e, st)
    def ev_ListComp(self, e, st): return self.spec.comp_hook(self, e, st)
    def ev_DictComp(self, e, st): return self.spec.comp_hook(self, e, st)
    def ev_SetComp(self, e, st): return self.spec.comp_hook(self, e, st)

    # ------------------------------------------------------------------ subscripts
    def ev_Subscript(self, e, st):
        outs = []
        for s1, c in self.ev(e.value, st):
            if isinstance(c, Raise): outs.append((s1, c)); continue
            if isinstance(e.slice, ast.Slice):
                outs.extend(self.slice_(s1, c, e.slice)); continue
            for s2, i in self.ev(e.slice, s1):
                if isinstance(i, Raise): outs.append((s2, i)); continue
                outs.extend(self.getitem(s2, c, i, e))
        return outs

    def slice_(self, st, c, sl):
        lo = sl.lower.value if isinstance(sl.lower, ast.Constant) else None if sl.lower is None else NotImplemented
        hi = sl.upper.value if isinstance(sl.upper, ast.Constant) else None if sl.upper is None else NotImplemented
        if lo is NotImplemented or hi is NotImplemented or sl.step is not None:
            # symbolic bounds: string slices s[a:], s[:b], s[a:b] with 0 <= a <= b <= len(s) (obligation at the slice)
            if sl.step is not None: raise Unsupported('slice with a step')
            outs = []
            bounds = [b for b in (sl.lower, sl.upper) if b is not None]
            for s1, vals in self.evs(bounds, st):
                if isinstance(vals, Raise): outs.append((s1, vals)); continue
                vals = list(vals)
                sz = self.as_str(s1, c)
                lz = as_kind(vals.pop(0), INT, s1) if sl.lower is not None else IntVal(0)
                hz = as_kind(vals.pop(0), INT, s1) if sl.upper is not None else Length(sz)
                self.oblige(f'slice@L{getattr(sl, "lineno", "?")}:bounds_within_the_string', s1, And(0 <= lz, lz <= hz, hz <= Length(sz)), kind='pre')
                outs.append((s1, ZV('str', z3.SubString(sz, lz, hz - lz))))
            return outs
        if isinstance(c, PConst) and isinstance(c.obj, (str, tuple)): return [(st, PConst(c.obj[lo:hi]))]
        if isinstance(c, PTuple): return [(st, PTuple(c.items[lo:hi], c.is_list))]
        if (isinstance(c, ZV) and c.kind in ('str', 'val')):
            s = self.as_str(st, c); lo = lo or 0
            ln = (Length(s) - lo) if hi is None else (hi - lo)
            return [(st, ZV('str', z3.SubString(s, IntVal(lo), ln if is_expr(ln) else IntVal(ln))))]
        raise Unsupported(f'slice of {c!r}')

    def getitem(self, st, c, i, node=None):
        lab = f'L{getattr(node, "lineno", "?")}.key'
        if isinstance(c, ZV) and c.kind == 'ref' and c.cls:
            from . import calls as _calls
            real = _calls.C_class(c.cls)
            k = _calls.resolve_method(real, '__getitem__') if real is not None else None
            if k is None: raise Unsupported(f'subscript of a {c.cls} object: no __getitem__ contract')
            return _calls.apply_contract(self, st, k, c, [i], {}, [], [], node or ast.Constant(value=None, lineno=0))
        if isinstance(c, ZV) and c.kind == 'val' and isinstance(i, ZV) and i.kind == 'val' and not self.spec.heap_dicts:
            # container and subscript are both universal values: a list/tuple indexed by an int, or a dict
            outs = []
            for s1, is_seq in self.fork(st, And(Val.is_T(c.z), is_int(i.z)), lab + '.seq'):
                if is_seq: outs.extend(self.getitem(s1, c, ZV('int', intval(i.z)), node))
                else: outs.extend(self.getitem(s1, PDict(self.as_dict(s1, c)), i, node))
            return outs
        if isinstance(c, PDict) or (isinstance(c, ZV) and c.kind == 'val' and not self._is_int_index(i)):
            arr = self.as_dict(st, c)
            cell = arr[self.as_str(st, i)]
            outs = []
            for s2, side in self.fork(st, Opt.is_Some(cell), lab):
                outs.append((s2, ZV('val', Opt.v(cell)) if side else self.raise_(s2, 'KeyError', where='subscript')))
            return outs
        if isinstance(c, PMap):
            O = OptOf(c.vkind.sort()); cell = c.arr[as_kind(i, c.kkind, st)]
            outs = []
            for s2, side in self.fork(st, O.is_Some(cell), lab):
                outs.append((s2, c.vkind.wrap(O.v(cell)) if side else self.raise_(s2, 'KeyError', where='subscript')))
            return outs
        if isinstance(c, PTuple) and isinstance(i, PConst) and isinstance(i.obj, int):
            if -len(c.items) <= i.obj < len(c.items): return [(st, c.items[i.obj])]
            return [(st, self.raise_(st, 'IndexError'))]
        if isinstance(c, PConst) and isinstance(c.obj, (tuple, str, dict)) and isinstance(i, PConst):
            try: return [(st, self.lift_const(c.obj[i.obj]))]
            except (IndexError, KeyError) as err: return [(st, self.raise_(st, type(err).__name__))]
        if isinstance(c, (PSeq, PTuple)) or (isinstance(c, ZV) and c.kind == 'val'):
            arr, n = seq_of(c, st); iz = as_kind(i, INT, st)
            outs = []
            for s2, side in self.fork(st, And(0 <= iz, iz < n), lab):
                if side:
                    item = asel(arr, iz)
                    outs.append((s2, ZV('ref', Val.ref(item), c.elem[4:]) if isinstance(c, PSeq) and c.elem.startswith('ref:') else ZV('val', item)))
                else:
                    for s3, neg in self.fork(s2, And(-n <= iz, iz < 0), lab + 'neg'):
                        outs.append((s3, ZV('val', asel(arr, n + iz)) if neg else self.raise_(s3, 'IndexError')))
            return outs
        raise Unsupported(f'subscript of {c!r}')

    @staticmethod
    def _is_int_index(i):
        return (isinstance(i, PConst) and isinstance(i.obj, int)) or (isinstance(i, ZV) and i.kind == 'int')

    # ------------------------------------------------------------------ arithmetic
    def ev_BinOp(self, e, st):
        outs = []
        for s1, vals in self.evs([e.left, e.right], st):
            if isinstance(vals, Raise): outs.append((s1, vals)); continue
            outs.extend(self.binop(s1, e.op, vals[0], vals[1], e))
        return outs

    @staticmethod
    def _numkind(v):
        """static numeric kind of a value: 'int' | 'real' | 'val' | None"""
        if isinstance(v, PConst):
            if isinstance(v.obj, bool) or isinstance(v.obj, int): return 'int'
            if isinstance(v.obj, float): return 'real'
            return None
        if isinstance(v, ZV):
            if v.kind in ('int', 'bool'): return 'int'
            if v.kind == 'real': return 'real'
            if v.kind == 'val': return 'val'
        return None

    def binop(self, st, op, l, r, node=None):
        ln = getattr(node, 'lineno', '?')
        # static string concatenation / formatting
        if isinstance(op, ast.Add) and self._strlike(l) and self._strlike(r):
            if isinstance(l, PConst) and isinstance(r, PConst): return [(st, PConst(l.obj + r.obj))]
            return [(st, ZV('str', Concat(self.as_str(st, l), self.as_str(st, r))))]
        if isinstance(op, ast.Mod) and self._strlike(l): return [(st, ZV('str', fresh('fmt', StringSort())))]
        if isinstance(op, ast.Add) and (self._strlike(l) or self._strlike(r)) and any(isinstance(x, ZV) and x.kind == 'val' for x in (l, r)):
            other = r if self._strlike(l) else l
            outs = []
            for s1, ss in self.fork(st, Val.is_S(other.z), f'L{ln}.str'):
                outs.append((s1, ZV('str', Concat(self.as_str(s1, l), self.as_str(s1, r))) if ss else self.raise_(s1, 'TypeError', where='operator')))
            return outs
        if isinstance(op, (ast.BitOr, ast.Sub)) and isinstance(l, PSet) and isinstance(r, PSet) and not l.arr.sort().eq(r.arr.sort()):
            # `set()` has no element type of its own: it takes the one of the other operand
            def empty(v): return z3.is_K(v.arr) and z3.is_false(v.arr.arg(0))
            if empty(l): l = PSet(K(r.arr.sort().domain(), BoolVal(False)), r.ekind)
            elif empty(r): r = PSet(K(l.arr.sort().domain(), BoolVal(False)), l.ekind)
            else: raise Unsupported(f'set operation between sets of different element kinds (line {ln})')
        if isinstance(op, ast.BitOr) and isinstance(l, PSet) and isinstance(r, PSet):
            x = fresh('x', l.arr.sort().domain())
            return [(st, PSet(z3.Lambda([x], Or(l.arr[x], r.arr[x])), l.ekind))]
        if isinstance(op, ast.Sub) and isinstance(l, PSet) and isinstance(r, PSet):
            x = fresh('x', l.arr.sort().domain())
            return [(st, PSet(z3.Lambda([x], And(l.arr[x], Not(r.arr[x]))), l.ekind))]
        lk, rk = self._numkind(l), self._numkind(r)
        if lk is None or rk is None:
            if lk == 'val' or rk == 'val':
                # one side statically not a number: TypeError unless the val side is e.g. a str (+) -> fork below
                pass
            else:
                raise Unsupported(f'binary {type(op).__name__} on {l!r}, {r!r} (line {ln})')
        if lk in ('int', 'real') and rk in ('int', 'real'):
            return self._arith_typed(st, op, l, lk, r, rk, ln)
        # at least one universal value: split on the dynamic kinds
        lv, rv = to_val(l, st), to_val(r, st)
        outs = []
        both_num = And(is_num(lv), is_num(rv))
        for s1, isn in self.fork(st, both_num, f'L{ln}.num'):
            if not isn:
                if isinstance(op, ast.Add):
                    for s2, ss in self.fork(s1, And(Val.is_S(lv), Val.is_S(rv)), f'L{ln}.str'):
                        outs.append((s2, ZV('str', Concat(Val.s(lv), Val.s(rv))) if ss else self.raise_(s2, 'TypeError', where='operator')))
                else:
                    outs.append((s1, self.raise_(s1, 'TypeError', where='operator')))
                continue
            for s2, ii in self.fork(s1, And(is_int(lv), is_int(rv)), f'L{ln}.int'):
                if ii: outs.extend(self._arith_typed(s2, op, ZV('int', intval(lv)), 'int', ZV('int', intval(rv)), 'int', ln))
                else: outs.extend(self._arith_typed(s2, op, ZV('real', num(lv)), 'real', ZV('real', num(rv)), 'real', ln))
        return outs

    @staticmethod
    def _strlike(v):
        return (isinstance(v, PConst) and isinstance(v.obj, str)) or (isinstance(v, ZV) and v.kind == 'str')

    def _arith_typed(self, st, op, l, lk, r, rk, ln):
        if isinstance(l, PConst) and isinstance(r, PConst) and not isinstance(op, (ast.Div, ast.FloorDiv, ast.Mod)):
            f = {ast.Add: lambda a, b: a + b, ast.Sub: lambda a, b: a - b, ast.Mult: lambda a, b: a * b}.get(type(op))
            if f: return [(st, PConst(f(l.obj, r.obj)))]
        real = lk == 'real' or rk == 'real' or isinstance(op, ast.Div)
        kind = REAL if real else INT
        a, b = as_kind(l if not (isinstance(l, ZV) and l.kind == 'bool') else ZV('int', If(l.z, 1, 0)), kind, st), \
               as_kind(r if not (isinstance(r, ZV) and r.kind == 'bool') else ZV('int', If(r.z, 1, 0)), kind, st)
        tag = 'real' if real else 'int'
        if isinstance(op, ast.Add): return [(st, ZV(tag, a + b))]
        if isinstance(op, ast.Sub): return [(st, ZV(tag, a - b))]
        if isinstance(op, ast.Mult): return [(st, ZV(tag, a * b))]
        outs = []
        for s1, nz in self.fork(st, b != 0, f'L{ln}.nonzero'):
            if not nz: outs.append((s1, self.raise_(s1, 'ZeroDivisionError', where='operator'))); continue
            if isinstance(op, ast.Div): outs.append((s1, ZV('real', a / b)))
            elif not real and isinstance(op, ast.Mod):
                m = floormod_int(a, b)
                # instances of the definition of the floor modulo for a positive divisor (help for the solver, no new facts)
                s1.assume(Implies(b > 0, And(0 <= m, m < b)), Implies(And(b > 0, 0 <= a, a < b), m == a), Implies(And(b > 0, a == b), m == 0))
                outs.append((s1, ZV('int', m)))
            elif not real and isinstance(op, ast.FloorDiv): outs.append((s1, ZV('int', floordiv_int(a, b))))
            elif isinstance(op, (ast.Mod, ast.FloorDiv)):
                # float floor division / modulo over the reals: q = floor(a/b), m = a - b*q   ("real-arith")
                s1.assume(*floorq_axioms(a, b))
                self.spec.note_assumption('real-arith: float % and // are the mathematical floor modulo/division over the reals')
                outs.append((s1, ZV('real', real_floormod(a, b)) if isinstance(op, ast.Mod) else ZV('real', ToReal(floorq(a, b)))))
            else: raise Unsupported(f'operator {type(op).__name__}')
        return outs

    # ------------------------------------------------------------------ comparisons
    def ev_Compare(self, e, st):
        outs = []
        operands = [e.left] + e.comparators
        cur = self.ev(operands[0], st)
        cur = [(s, v, None) for s, v in cur]
        for idx, op in enumerate(e.ops):
            nxt = []
            for s1, lv, acc in cur:
                if isinstance(lv, Raise): outs.append((s1, lv)); continue
                for s2, rv in self.ev(operands[idx + 1], s1):
                    if isinstance(rv, Raise): outs.append((s2, rv)); continue
                    for s3, res in self.compare(s2, op, lv, rv, e):
                        if isinstance(res, Raise): outs.append((s3, res)); continue
                        if idx == len(e.ops) - 1:
                            outs.append((s3, res if acc is None else ZV('bool', And(acc, truth(res, s3)))))
                        else:
                            # chained: a op b op c  ==  (a op b) and (b op c), b evaluated once
                            for s4, side in self.fork(s3, truth(res, s3), f'L{e.lineno}.chain{idx}'):
                                if side: nxt.append((s4, rv, BoolVal(True) if acc is None else acc))
                                else: outs.append((s4, P_FALSE))
            cur = nxt
        return outs

    def _type_identity(self, st, l, r, ln):
        """`type(a) is type(b)` / `type(a) is SomeClass`: identity of the exact classes"""
        from .sorts import type_tag
        from . import calls
        def tag(v):
            if isinstance(v, PType):
                if isinstance(v.of, PExc): raise Unsupported(f'type() of an exception compared (line {ln})')
                return type_tag(to_val(v.of, st))
            if isinstance(v, PConst) and isinstance(v.obj, type):
                from .sorts import PRIMITIVE_TYPE_TAGS
                if v.obj in PRIMITIVE_TYPE_TAGS: return IntVal(PRIMITIVE_TYPE_TAGS[v.obj])
                return 1000 + 2 * calls.class_id(v.obj)
            raise Unsupported(f'`is` between a type and a non-type (line {ln})')
        return tag(l) == tag(r)

    def compare(self, st, op, l, r, node=None):
        ln = getattr(node, 'lineno', '?')
        neg = isinstance(op, (ast.IsNot, ast.NotEq, ast.NotIn))
        def res(c): return ZV('bool', Not(c) if neg else c)
        if isinstance(op, (ast.Is, ast.IsNot)):
            if isinstance(l, PConst) and isinstance(r, PConst):
                return [(st, PConst((l.obj is r.obj) != neg))]
            if isinstance(l, PType) or isinstance(r, PType):
                c = self._type_identity(st, l, r, ln)
                return [(st, res(c))]
            single = lambda v: isinstance(v, PConst) and (v.obj is None or v.obj is UNDEF or isinstance(v.obj, bool) or isinstance(v.obj, SentinelStub))
            if not (single(l) or single(r) or self._refy(l) and self._refy(r)):
                raise Unsupported(f'`is` between non-singletons (line {ln})')
            for a, b in ((l, r), (r, l)):
                if isinstance(b, PConst) and isinstance(b.obj, SentinelStub):
                    return [(st, res(b.obj.is_(self, st, a)))]
            if isinstance(l, (PDict, PTuple, PSeq, PSet, PMap, PBound, PClosure)) or isinstance(r, (PDict, PTuple, PSeq, PSet, PMap, PBound, PClosure)):
                return [(st, PConst(neg))]          # a container is never None/UNDEF/True/False
            return [(st, res(to_val(l, st) == to_val(r, st)))]
        if isinstance(op, (ast.Eq, ast.NotEq)):
            if isinstance(l, PConst) and isinstance(r, PConst) and not isinstance(l.obj, PyObjStub) and not isinstance(r.obj, PyObjStub):
                return [(st, PConst((l.obj == r.obj) != neg))]
            if isinstance(l, PBound) and isinstance(r, PBound):
                return [(st, res(And(to_val(l.recv, st) == to_val(r.recv, st), BoolVal(l.name == r.name))))]
            h = self.spec.eq_hook
            if h is not None:
                c = h(self, st, l, r)
                if c is not None: return [(st, res(c))]
            return [(st, res(py_eq(to_val(l, st), to_val(r, st))))]
        if isinstance(op, (ast.In, ast.NotIn)):
            return [(s2, v if isinstance(v, Raise) else res(v)) for s2, v in self.contains(st, r, l, ln)]
        # ordering
        f = {ast.Lt: lambda a, b: a < b, ast.LtE: lambda a, b: a <= b, ast.Gt: lambda a, b: a > b, ast.GtE: lambda a, b: a >= b}[type(op)]
        lk, rk = self._numkind(l), self._numkind(r)
        if lk in ('int', 'real') and rk in ('int', 'real'):
            if isinstance(l, PConst) and isinstance(r, PConst): return [(st, PConst(f(l.obj, r.obj)))]
            k = REAL if 'real' in (lk, rk) else INT
            return [(st, ZV('bool', f(as_kind(self._b2i(l), k, st), as_kind(self._b2i(r), k, st))))]
        h = self.spec.order_hook
        if h is not None:
            out = h(self, st, op, l, r)
            if out is not None: return out
        lv, rv = to_val(l, st), to_val(r, st)
        outs = []
        for s1, isn in self.fork(st, And(is_num(lv), is_num(rv)), f'L{ln}.cmpnum'):
            if isn: outs.append((s1, ZV('bool', f(num(lv), num(rv)))))
            else:
                for s2, ss in self.fork(s1, And(Val.is_S(lv), Val.is_S(rv)), f'L{ln}.cmpstr'):
                    if ss:
                        a, b = Val.s(lv), Val.s(rv)
                        c = {ast.Lt: a < b, ast.LtE: a <= b, ast.Gt: b < a, ast.GtE: b <= a}[type(op)]
                        outs.append((s2, ZV('bool', c)))
                    else: outs.append((s2, self.raise_(s2, 'TypeError', where='operator')))
        return outs

    @staticmethod
    def _b2i(v):
        if isinstance(v, ZV) and v.kind == 'bool': return ZV('int', If(v.z, IntVal(1), IntVal(0)))
        if isinstance(v, PConst) and isinstance(v.obj, bool): return PConst(int(v.obj))
        return v

    @staticmethod
    def _refy(v):
        return isinstance(v, ZV) and v.kind in ('ref', 'val')

    def contains(self, st, container, item, ln='?'):
        """-> [(state, z3 Bool | Raise)] for `item in container`"""
        c = container
        if self.spec.contains_hook is not None:
            r = self.spec.contains_hook(self, st, container, item)
            if r is not None: return r
        if isinstance(c, PDict): return [(st, Opt.is_Some(c.arr[self.as_str(st, item)]))]
        if isinstance(c, PMap):
            O = OptOf(c.vkind.sort()); return [(st, O.is_Some(c.arr[as_kind(item, c.kkind, st)]))]
        if isinstance(c, PSet):
            if c.ekind == 'ref': return [(st, c.arr[as_kind(item, Ref(), st)])]
            if c.ekind == 'str': return [(st, c.arr[self.as_str(st, item)])]
            iv = to_val(item, st); outs = []
            for s1, h in self.fork(st, hashable(iv), f'L{ln}.hashable'):
                outs.append((s1, c.arr[norm_key(iv)] if h else self.raise_(s1, 'TypeError', where='operator')))
            return outs
        if isinstance(c, PConst) and isinstance(c.obj, (tuple, frozenset, set, list, dict, str)):
            if isinstance(item, PConst): return [(st, BoolVal(item.obj in c.obj))]
            if isinstance(c.obj, str): raise Unsupported('substring test with symbolic needle')
            iv = to_val(item, st)
            return [(st, Or(*[py_eq(iv, const_to_val(x)) for x in c.obj]) if len(c.obj) else BoolVal(False))]
        if isinstance(c, PTuple):
            iv = to_val(item, st)
            return [(st, Or(*[py_eq(iv, to_val(x, st)) for x in c.items]) if c.items else BoolVal(False))]
        if self.spec.heap_dicts and isinstance(c, ZV) and c.kind == 'val':
            return [(st, Opt.is_Some(self.as_dict(st, c)[self.as_str(st, item)]))]
        if isinstance(c, ZV) and c.kind == 'val':
            outs = []
            if isinstance(item, PConst) and isinstance(item.obj, str) or (isinstance(item, ZV) and item.kind == 'str'):
                # `needle in x` with a string needle: substring test when x is a string
                done = []
                for s0, isstr in self.fork(st, Val.is_S(c.z), f'L{ln}.in_str'):
                    if isstr: outs.append((s0, z3.Contains(Val.s(c.z), self.as_str(s0, item))))
                    else: done.append(s0)
                if not done: return outs
                st = done[0]
            for s1, isfs in self.fork(st, Val.is_FS(c.z), f'L{ln}.in_set'):
                if isfs: outs.extend(self.contains(s1, PSet(fs_c(Val.fk(c.z)), 'val'), item, ln))
                else: outs.extend(self.contains(s1, PSeq(*seq_of(c, s1)), item, ln))
            return outs
        if isinstance(c, PSeq):
            arr, n = seq_of(c, st); iv = to_val(item, st)
            return [(st, seq_has(arr, n, iv))]
        if isinstance(c, ZV) and c.kind == 'str' and isinstance(item, PConst) and isinstance(item.obj, str):
            return [(st, z3.Contains(c.z, StringVal(item.obj)))]
        raise Unsupported(f'`in` on {c!r}')

    # ================================================================== calls
    def ev_Call(self, e, st):
        from . import calls
        return calls.ev_call(self, e, st)

    # ================================================================== statements
    def run_block(self, stmts, st):
        """-> list of (state, flow); flow: NEXT | ('return', PV) | ('raise', PExc) | ('break',) | ('continue',)"""
        states = [(st, NEXT)]
        for s in stmts:
            nxt = []
            for s1, fl in states:
                if fl is NEXT: nxt.extend(self.run(s, s1))
                else: nxt.append((s1, fl))
            states = nxt
            if len(states) > self.MAX_PATHS:
                raise Unsupported(f'path explosion (> {self.MAX_PATHS}) in {self.spec.qual}')
        return states

    def run(self, s, st):
        m = getattr(self, 'st_' + type(s).__name__, None)
        if m is None: raise Unsupported(f'statement {type(s).__name__} at line {s.lineno} in {self.spec.qual}')
        return m(s, st)

    def _exprflow(self, outs, then):
        """helper: for each (state, value) apply `then(state, value)` -> flows; Raise becomes a raise flow"""
        res = []
        for s1, v in outs:
            if isinstance(v, Raise): res.append((s1, ('raise', v.exc)))
            else: res.extend(then(s1, v))
        return res

    def st_Expr(self, s, st):
        if isinstance(s.value, ast.Constant): return [(st, NEXT)]            # docstring
        if isinstance(s.value, ast.Call) and _is_log_call(s.value): return [(st, NEXT)]   # logging dropped (L1)
        return self._exprflow(self.ev(s.value, st), lambda s1, v: [(s1, NEXT)])

    def st_Pass(self, s, st): return [(st, NEXT)]
    def st_Global(self, s, st): return [(st, NEXT)]
    def st_Nonlocal(self, s, st): return [(st, NEXT)]
    def st_Break(self, s, st): return [(st, ('break',))]
    def st_Continue(self, s, st): return [(st, ('continue',))]

    def st_FunctionDef(self, s, st):
        st = st.copy(); st.env[s.name] = PClosure(s, f'{self.spec.qual}.<locals>.{s.name}')
        return [(st, NEXT)]

    def st_Return(self, s, st):
        if s.value is None: return [(st, ('return', P_NONE))]
        return self._exprflow(self.ev(s.value, st), lambda s1, v: [(s1, ('return', v))])

    def st_Assert(self, s, st):
        def then(s1, t):
            outs = []
            for s2, side in self.fork(s1, truth(t, s1), f'L{s.lineno}.assert'):
                outs.append((s2, NEXT) if side else (s2, ('raise', PExc('AssertionError', val=Val.Obj(fresh('exc', IntSort()))))))
            return outs
        return self._exprflow(self.ev(s.test, st), then)

    def st_AnnAssign(self, s, st):
        if s.value is None: return [(st, NEXT)]
        return self._exprflow(self.ev(s.value, st), lambda s1, v: self.assign(s1, s.target, v))

    def st_Assign(self, s, st):
        def then(s1, v):
            flows = [(s1, NEXT)]
            for t in s.targets:
                nxt = []
                for s2, fl in flows:
                    nxt.extend(self.assign(s2, t, v) if fl is NEXT else [(s2, fl)])
                flows = nxt
            return flows
        return self._exprflow(self.ev(s.value, st), then)

    def assign(self, st, target, v):
        """-> flows"""
        if isinstance(target, ast.Name):
            st = st.copy(); st.env[target.id] = v; return [(st, NEXT)]
        if isinstance(target, (ast.Tuple, ast.List)):
            items = None
            if isinstance(v, PTuple): items = v.items
            elif isinstance(v, PConst) and isinstance(v.obj, tuple): items = [PConst(x) for x in v.obj]
            starred = [i for i, t in enumerate(target.elts) if isinstance(t, ast.Starred)]
            if items is None and starred:
                # `a, *rest = seq` (the starred target last): the leading items and the remaining slice
                if starred != [len(target.elts) - 1]: raise Unsupported('starred unpack of a symbolic sequence (star not last)')
                arr, n = seq_of(v, st); outs = []
                lead = len(target.elts) - 1
                for s1, ok in self.fork(st, n >= lead, f'L{target.lineno}.unpack'):
                    if not ok: outs.append((s1, ('raise', PExc('ValueError', val=Val.Obj(fresh('exc', IntSort())), where='unpack')))); continue
                    fl = [(s1, NEXT)]
                    for i, t in enumerate(target.elts[:-1]):
                        fl = [x for s2, f2 in fl for x in (self.assign(s2, t, ZV('val', asel(arr, IntVal(i)))) if f2 is NEXT else [(s2, f2)])]
                    j = fresh('j', IntSort())
                    rest = PSeq(z3.Lambda([j], asel(arr, j + lead)), n - lead, 'val', True)
                    fl = [x for s2, f2 in fl for x in (self.assign(s2, target.elts[-1].value, rest) if f2 is NEXT else [(s2, f2)])]
                    outs.extend(fl)
                return outs
            if items is None:
                arr, n = seq_of(v, st); outs = []
                for s1, ok in self.fork(st, n == len(target.elts), f'L{target.lineno}.unpack'):
                    if not ok: outs.append((s1, ('raise', PExc('ValueError', val=Val.Obj(fresh('exc', IntSort())), where='unpack')))); continue
                    fl = [(s1, NEXT)]
                    for i, t in enumerate(target.elts):
                        fl = [x for s2, f2 in fl for x in (self.assign(s2, t, ZV('val', asel(arr, IntVal(i)))) if f2 is NEXT else [(s2, f2)])]
                    outs.extend(fl)
                return outs
            if starred:
                k = starred[0]; after = len(target.elts) - k - 1
                if len(items) < len(target.elts) - 1:
                    return [(st, ('raise', PExc('ValueError', val=Val.Obj(fresh('exc', IntSort())), where='unpack')))]
                parts = items[:k] + [PTuple(items[k:len(items) - after], True)] + items[len(items) - after:]
                tg = [t.value if isinstance(t, ast.Starred) else t for t in target.elts]
            else:
                if len(items) != len(target.elts):
                    return [(st, ('raise', PExc('ValueError', val=Val.Obj(fresh('exc', IntSort())), where='unpack')))]
                parts, tg = items, target.elts
            fl = [(st, NEXT)]
            for t, p in zip(tg, parts):
                fl = [x for s2, f2 in fl for x in (self.assign(s2, t, p) if f2 is NEXT else [(s2, f2)])]
            return fl
        if isinstance(target, ast.Attribute):
            def then(s1, o):
                if isinstance(o, PExc) and target.attr == '__cause__':
                    s1 = s1.copy(); s1.write('__cause__', Val.ref(o.val), v); return [(s1, NEXT)]
                if isinstance(o, ZV) and o.kind == 'val': o = ZV('ref', Val.ref(o.z))
                if not (isinstance(o, ZV) and o.kind == 'ref'): raise Unsupported(f'attribute store on {o!r}')
                s1 = s1.copy(); self.spec.on_field_write(self, s1, target.attr, o.z)
                s1.write(target.attr, o.z, v); return [(s1, NEXT)]
            return self._exprflow(self.ev(target.value, st), then)
        if isinstance(target, ast.Subscript):
            def then(s1, vals):
                c, i = vals
                if self.spec.heap_dicts and isinstance(c, ZV) and c.kind == 'val':
                    s1 = s1.copy(); r = Val.ref(c.z)
                    s1.write('st_items', r, PDict(Store(s1.readz('st_items', r), self.as_str(s1, i), Opt.Some(to_val(v, s1)))))
                    return [(s1, NEXT)]
                return self.store_back(s1, target.value, self.setitem(s1, c, i, v))
            return self._exprflow(self.evs([target.value, target.slice], st), then)
        raise Unsupported(f'assignment target {type(target).__name__}')

    def setitem(self, st, c, i, v):
        """new container value after c[i] = v"""
        if isinstance(c, PDict): return PDict(Store(c.arr, self.as_str(st, i), Opt.Some(to_val(v, st))))
        if isinstance(c, PMap):
            O = OptOf(c.vkind.sort())
            return PMap(Store(c.arr, as_kind(i, c.kkind, st), O.Some(as_kind(v, c.vkind, st))), c.kkind, c.vkind)
        if isinstance(c, ZV) and c.kind == 'val':      # a dict passed as a plain value
            return PDict(Store(dict_c(Val.dk(c.z)), self.as_str(st, i), Opt.Some(to_val(v, st))))
        raise Unsupported(f'item store on {c!r}')

    def store_back(self, st, lv, newval):
        """write a (functionally updated) container back through the lvalue expression it was read from"""
        if isinstance(lv, ast.Name):
            st = st.copy()
            if lv.id not in st.env: raise Unsupported(f'mutation of non-local container {lv.id}')
            st.env[lv.id] = newval; return [(st, NEXT)]
        if isinstance(lv, ast.Attribute): return self.assign(st, lv, newval)
        if isinstance(lv, ast.Subscript):
            def then(s1, vals):
                c, i = vals
                return self.store_back(s1, lv.value, self.setitem(s1, c, i, newval))
            return self._exprflow(self.evs([lv.value, lv.slice], st), then)
        raise Unsupported(f'cannot write container back through {ast.unparse(lv)}')

    def st_AugAssign(self, s, st):
        load = ast.copy_location(ast.fix_missing_locations(eval_copy(s.target)), s.target)
        def then(s1, vals):
            cur, v = vals
            outs = []
            for s2, r in self.binop(s1, s.op, cur, v, s):
                if isinstance(r, Raise): outs.append((s2, ('raise', r.exc)))
                else: outs.extend(self.assign(s2, s.target, r))
            return outs
        return self._exprflow(self.evs([load, s.value], st), then)

    def st_Delete(self, s, st):
        flows = [(st, NEXT)]
        for t in s.targets:
            if not isinstance(t, ast.Subscript): raise Unsupported('del of a non-subscript')
            nxt = []
            for s0, fl in flows:
                if fl is not NEXT: nxt.append((s0, fl)); continue
                def then(s1, vals, t=t):
                    c, i = vals; outs = []
                    for s2, present in self.contains(s1, c, i, t.lineno):
                        for s3, side in self.fork(s2, present, f'L{t.lineno}.del'):
                            if side and self.spec.heap_dicts and isinstance(c, ZV) and c.kind == 'val':
                                s3 = s3.copy(); r = Val.ref(c.z)
                                s3.write('st_items', r, PDict(Store(s3.readz('st_items', r), self.as_str(s3, i), Opt.Absent)))
                                outs.append((s3, NEXT))
                            elif side: outs.extend(self.store_back(s3, t.value, self.delitem(s3, c, i)))
                            else: outs.append((s3, ('raise', PExc('KeyError', val=Val.Obj(fresh('exc', IntSort())), where='del'))))
                    return outs
                nxt.extend(self._exprflow(self.evs([t.value, t.slice], s0), then))
            flows = nxt
        return flows

    def delitem(self, st, c, i):
        if isinstance(c, PDict): return PDict(Store(c.arr, self.as_str(st, i), Opt.Absent))
        if isinstance(c, PMap):
            return PMap(Store(c.arr, as_kind(i, c.kkind, st), OptOf(c.vkind.sort()).Absent), c.kkind, c.vkind)
        if isinstance(c, ZV) and c.kind == 'val': return PDict(Store(dict_c(Val.dk(c.z)), self.as_str(st, i), Opt.Absent))
        raise Unsupported(f'del item on {c!r}')

    def st_If(self, s, st):
        def then(s1, t):
            outs = []
            for s2, side in self.fork(s1, truth(t, s1), f'L{s.lineno}.if'):
                outs.extend(self.run_block(s.body if side else s.orelse, s2))
            return outs
        return self._exprflow(self.ev(s.test, st), then)

    def st_Raise(self, s, st):
        if s.exc is None:
            if not st.handled: raise Unsupported('bare raise outside a handler')
            return [(st, ('raise', st.handled[-1]))]
        call = s.exc
        cause = None
        if isinstance(call, ast.Call):
            cls = call.func
            outs = []
            for s1, c in self.ev(cls, st):
                if isinstance(c, Raise): outs.append((s1, ('raise', c.exc))); continue
                if not (isinstance(c, PConst) and isinstance(c.obj, type) and issubclass(c.obj, BaseException)):
                    raise Unsupported(f'raise of non-class {ast.unparse(cls)}')
                # constructor arguments are message text: not evaluated (DESIGN 2.2)
                from . import calls as _calls
                r = fresh('exc', IntSort()); s1 = s1.copy()
                s1.assume(_calls.inst_of(r, c.obj), _calls.inst_of(r, BaseException))
                exc = PExc(c.obj.__name__, val=Val.Obj(r), where='raise')
                if s.cause is not None and not (isinstance(s.cause, ast.Constant) and s.cause.value is None):
                    for s2, cv in self.ev(s.cause, s1): exc.cause = cv
                outs.append((s1, ('raise', exc)))
            return outs
        def then(s1, v):
            if isinstance(v, PExc): return [(s1, ('raise', v))]
            if isinstance(v, PConst) and isinstance(v.obj, type) and issubclass(v.obj, BaseException):
                return [(s1, ('raise', PExc(v.obj.__name__, val=Val.Obj(fresh('exc', IntSort())), where='raise')))]
            # `raise <stored exception object>`: its class is symbolic; split by what an `except` clause can tell apart
            import asyncio as _aio
            from . import calls as _calls
            z = to_val(v, s1)
            outs = []
            isexc = And(Val.is_Obj(z), _calls.inst_of(Val.ref(z), BaseException))
            r = Val.ref(z)
            ca, ex_ = _calls.inst_of(r, _aio.CancelledError), _calls.inst_of(r, Exception)
            cases = (('not_an_exception', Not(isexc)), ('CancelledError', And(isexc, ca)), ('StoredException', And(isexc, Not(ca), ex_)),
                     ('StoredBaseException', And(isexc, Not(ca), Not(ex_))))
            for (cls, cond), ok in zip(cases, self.feasible_sides(s1, [c for _, c in cases])):
                if not ok: continue
                s2 = s1.copy(); s2.assume(cond); s2.label(f'L{s.lineno}.raise:{cls}')
                if cls == 'not_an_exception':
                    outs.append((s2, ('raise', PExc('TypeError', val=Val.Obj(fresh('exc', IntSort())), where='raise'))))
                else:
                    outs.append((s2, ('raise', PExc(cls, val=z, where='raise-value'))))
            return outs
        return self._exprflow(self.ev(call, st), then)

    # ------------------------------------------------------------------ try / with
    def exc_matches(self, exc, handler_type):
        """static: does exception `exc` match the handler's class expression (ast)? -> True/False"""
        from . import contract
        if handler_type is None: return True
        names = handler_type.elts if isinstance(handler_type, ast.Tuple) else [handler_type]
        hcls = []
        for n in names:
            out = self.ev(n, State())
            c = out[0][1]
            if not (isinstance(c, PConst) and isinstance(c.obj, type)): raise Unsupported(f'handler class {ast.unparse(n)}')
            hcls.append(c.obj)
        if exc.cls is None:
            raise Unsupported('matching an exception value of unknown class against a handler')
        if exc.cls in ('StoredException', 'StoredBaseException'):
            import asyncio as _aio
            for h in hcls:
                if h not in (Exception, BaseException) and not issubclass(h, _aio.CancelledError):
                    raise Unsupported(f'matching a stored exception of unknown class against `except {h.__name__}`')
        return any(contract.exc_issubclass(exc.cls, h) for h in hcls)

    def _assume_exc_class(self, st, exc):
        """the caught exception object is an instance of its (pseudo) class' real bases"""
        from . import contract, calls as _calls
        if exc.val is None or exc.cls is None: return
        bases = contract.PSEUDO_EXC.get(exc.cls)
        if bases is None:
            c = contract.exc_class(exc.cls); bases = (c,) if c is not None else ()
        for b in bases:
            st.assume(Val.is_Obj(exc.val), _calls.inst_of(Val.ref(exc.val), b))

    def st_Try(self, s, st):
        results = []
        after_handlers = []
        for s1, fl in self.run_block(s.body, st):
            if fl is NEXT:
                after_handlers.extend(self.run_block(s.orelse, s1) if s.orelse else [(s1, NEXT)])
            elif fl[0] == 'raise':
                exc = fl[1]
                for h in s.handlers:
                    if self.exc_matches(exc, h.type):
                        s2 = s1.copy(); s2.handled = s2.handled + [exc]
                        if h.name:
                            s2.env[h.name] = exc
                            self._assume_exc_class(s2, exc)
                        s2.label(f'L{h.lineno}.except')
                        for s3, f3 in self.run_block(h.body, s2):
                            s3 = s3.copy(); s3.handled = s3.handled[:-1]
                            if h.name: s3.env.pop(h.name, None)
                            after_handlers.append((s3, f3))
                        break
                else:
                    after_handlers.append((s1, fl))
            else:
                after_handlers.append((s1, fl))
        if not s.finalbody: return after_handlers
        for s1, fl in after_handlers:
            for s2, f2 in self.run_block(s.finalbody, s1):
                results.append((s2, fl if f2 is NEXT else f2))      # a flow out of finally replaces the pending one
        return results

    def st_With(self, s, st):
        if len(s.items) != 1: raise Unsupported('with: multiple items')
        item = s.items[0]
        def then(s1, cm):
            h = self.spec.with_hook
            if h is None: raise Unsupported(f'with {ast.unparse(item.context_expr)}: no context manager contract')
            outs = []
            for s2, token in h(self, s1, cm, 'enter', None, item):
                if isinstance(token, Raise): outs.append((s2, ('raise', token.exc))); continue
                if item.optional_vars is not None:
                    ff = self.assign(s2, item.optional_vars, token[1]); s2 = ff[0][0]
                for s3, fl in self.run_block(s.body, s2):
                    for s4, r in h(self, s3, cm, 'exit', token, item):
                        outs.append((s4, ('raise', r.exc)) if isinstance(r, Raise) else (s4, fl))
            return outs
        return self._exprflow(self.ev(item.context_expr, st), then)

    # ------------------------------------------------------------------ loops
    def st_For(self, s, st):
        from . import loops
        return loops.run_for(self, s, st)

    def st_While(self, s, st):
        from . import loops
        return loops.run_while(self, s, st)


def eval_copy(target):
    """a Load-context copy of an assignment target"""
    import copy
    t = copy.deepcopy(target)
    for n in ast.walk(t):
        if hasattr(n, 'ctx'): n.ctx = ast.Load()
    return t


class PyObjStub:
    """executor-side stand-in for a Python object with special attribute behaviour"""
    def getattr(self, ex, st, attr): raise Unsupported(f'{type(self).__name__}.{attr}')


class SentinelStub(PyObjStub):
    """class-level sentinel object compared with `is` (e.g. DataEdit.REJECT)"""
    def __init__(self, name, val): self.name, self.val = name, val
    def is_(self, ex, st, other): return to_val(other, st) == self.val


class TBStub(PyObjStub):
    """err.__traceback__: only `.tb_next is None` is observable: None iff the exception was raised at the
    call itself (no callee frame was entered) -- DESIGN C09"""
    def __init__(self, exc): self.exc = exc
    def getattr(self, ex, st, attr):
        if attr == 'tb_next':
            return [(st, P_NONE if self.exc.where == 'call' else PConst(TBStub(self.exc)))]
        raise Unsupported(f'traceback attribute {attr}')
