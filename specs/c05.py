"""C05 - after start-up every block has a valid output, taken from the documented sources.  DESIGN section 3, C05."""
from pyvc.sorts import *
from pyvc import scan
from specs.common import *
from specs import startup, event_entry, lifecycle, simulate


def build(run):
    startup.verify_startup(run)
    lifecycle.verify_init_async(run)
    startup.verify_initasync(run)          # InitAsync's regular routine: only when nothing else can initialise the block
    startup.verify_async_init_addon(run)
    startup.verify_valuepoll(run)          # ValuePoll: the acquired value becomes the output (which releases init_async)   # AddonAsyncInit (ValuePoll): init_async returns only when the block has an output
    lifecycle.verify_api(run)
    lifecycle.verify_run_forever(run)      # order of the start-up steps; invariant J at its suspension points
    simulate.verify_simulate(run)          # invariant J at the idle point: every block has an output
    lifecycle.lifecycle_scans(run)
    for ob in ('Circuit.wait_init/post:the_simulation_is_running', 'Circuit.wait_init/post:every_block_has_an_output'):
        run.replayer(ob, lambda run_, ob_, model: open('/verif/specs/replay_c05.py').read())
    event_entry.verify_event(run)          # the early-initialisation clause of SBlock.event
    # ---- lemmas: the progress automaton 0 -> -1 -> 1 -> -2 -> 2 gives "each routine at most once" -------------------------------------
    s, full = Int('s'), Const('full', BoolSort())
    first, second = s == 0, Or(s == 1, And(s == 0, full))
    final = If(second, 2, If(first, 1, s))
    run.lemma('at_most_once/first_step_only_from_zero', [final == 1], s <= 1)
    run.lemma('at_most_once/completed_blocks_are_left_alone', [s == 2], And(Not(first), Not(second), final == 2))
    run.lemma('at_most_once/a_failed_step_is_never_retried', [s < 0], And(Not(first), Not(second)))
    w = scan.attr_writers('init_steps_completed')
    run.scan('writers_of_init_steps_completed', w == ['edzed/block.py:SBlock.__init__', 'edzed/simulator.py:Circuit.init_sblock'], f'{w}')
    callers = scan.method_callers('init_sblock')
    run.scan('init_sblock_callers', callers == ['edzed/block.py:SBlock.event', 'edzed/simulator.py:Circuit._init_sblocks_sync_1',
                                                'edzed/simulator.py:Circuit._init_sblocks_sync_2'], f'{callers}')
    callers = scan.method_callers('_init_sblocks_async')
    run.scan('async_init_runs_once', callers == ['edzed/simulator.py:Circuit.run_forever'], f'{callers}')
    run.unclaim("'whether start-up succeeds does not depend on the order in which the blocks were created': every obligation here holds for an "
                "arbitrary iteration order of the block set, but order-independence of success is a confluence statement about whole start-ups")
    run.assume('initialisation routines are user/library code behind an interface contract; A-C02')
    run.assume('A-cancel: only Circuit.abort cancels the simulation task (scan), from outside it is cancelled at most while no error is recorded; '
               'A-caller: the task awaiting wait_init() is not cancelled meanwhile; A-undef-eq: no user value compares equal to UNDEF')
    run.trust('asyncio: a coroutine awaited directly runs without suspension up to its first real suspension point; Event.wait() returns only '
              'after set(); wait(FIRST_COMPLETED) returns when one task is finished; wait_for cancels and awaits the task on timeout/cancellation')
