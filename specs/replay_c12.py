import sys, asyncio, edzed
results = []
class Collect(edzed.SBlock):
    def init_regular(self): self.set_output(0)
    def _event(self, etype, data):
        results.append((etype, {k: v for k, v in data.items() if k in ('trigger', 'put')}))
        return None
async def work(value):
    return value
edzed.reset_circuit()
col = Collect('collect')
out = edzed.OutputAsync('out', coro=work, mode='wait',
                        on_success=edzed.Event(col, 'ok'), on_error=edzed.Event(col, 'err'), on_cancel=edzed.Event(col, 'cancel'))
circ = edzed.get_circuit()
async def main():
    t = asyncio.create_task(circ.run_forever())
    await circ.wait_init()
    accepted = True
    try:
        out.event('put', level=3)            # no 'value' item
    except Exception as err:
        accepted = False; print('put rejected:', repr(err))
    await asyncio.sleep(0.1)
    print('put accepted:', accepted, '; result events:', results, '; simulation error:', repr(circ.error))
    try: await circ.shutdown()
    except BaseException: pass
    return 1 if accepted and not results else 0
sys.exit(asyncio.run(main()))
