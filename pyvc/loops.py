"""Loops (DESIGN 2.6): constant-length iterables are unrolled (complete, not a bound); loops over tuples of
symbolic length, over sets, and `while` loops are cut at the head by the invariant the contract supplies."""
import ast
import z3
from .sorts import *
from .values import *
from .state import *
from .engine import NEXT, Raise


def loop_key(ex, node):
    """static identity of a loop: header text + source-order ordinal among loops with the same header"""
    if getattr(node, '_comp_key', None): return node._comp_key
    hdr = header_text(node)
    same = [n for n in ast.walk(ex.spec.node) if isinstance(n, (ast.For, ast.While)) and header_text(n) == hdr]
    same.sort(key=lambda n: (n.lineno, n.col_offset))
    k = same.index(node)
    return hdr if k == 0 else f'{hdr}#{k}'


def header_text(node):
    if isinstance(node, ast.For): return f'for {ast.unparse(node.target)} in {ast.unparse(node.iter)}'
    return f'while {ast.unparse(node.test)}'


def assigned_names(body):
    names = set()
    for stmt in body:
        for n in ast.walk(stmt):
            if isinstance(n, ast.Name) and isinstance(n.ctx, ast.Store): names.add(n.id)
            elif isinstance(n, ast.NamedExpr): names.add(n.target.id)
            elif isinstance(n, ast.ExceptHandler) and n.name: names.add(n.name)
    return names


MUTATING_METHODS = {'add', 'discard', 'remove', 'pop', 'popitem', 'clear', 'update', 'setdefault', 'append', 'extend', 'insert',
                    'sort', 'reverse', 'difference_update', 'intersection_update'}


def mutated_names(body):
    """locals whose container value is updated in place (x.add(..), x[k] = .., x |= ..)"""
    names = set()
    for stmt in body:
        for n in ast.walk(stmt):
            if (isinstance(n, ast.Call) and isinstance(n.func, ast.Attribute) and isinstance(n.func.value, ast.Name)
                    and n.func.attr in MUTATING_METHODS):
                names.add(n.func.value.id)
            if isinstance(n, (ast.Subscript,)) and isinstance(n.ctx, (ast.Store, ast.Del)) and isinstance(n.value, ast.Name):
                names.add(n.value.id)
            if isinstance(n, ast.AugAssign) and isinstance(n.target, ast.Name): names.add(n.target.id)
    return names


def stored_fields(body):
    fs = set()
    for stmt in body:
        for n in ast.walk(stmt):
            if isinstance(n, ast.Attribute) and isinstance(n.ctx, (ast.Store, ast.Del)): fs.add(n.attr)
            if isinstance(n, ast.Subscript) and isinstance(n.ctx, (ast.Store, ast.Del)) and isinstance(n.value, ast.Attribute):
                fs.add(n.value.attr)
    return fs


class LoopCtx:
    """what an invariant may talk about"""
    def __init__(self, key, entry, st, pre, **kw):
        self.key, self.entry, self.st, self.pre = key, View(entry), View(st), pre
        self.__dict__.update(kw)
    def local(self, name): return self.st.st.env.get(name)
    def entry_local(self, name): return self.entry.st.env.get(name)


def havoc_loop(ex, st, body, extra_names=(), bind=None):
    """forget everything an arbitrary number of iterations may have changed.  The set of heap components (and
    whether the trace) can change is found by a fixpoint: havoc W, run the body once from there (obligations
    discarded), add whatever differs afterwards, repeat until stable.  `bind(state)` prepares one iteration
    (loop variable) and returns the states in which the body starts."""
    names = assigned_names(body) | mutated_names(body) | set(extra_names)
    W = set()        # found by the fixpoint below (what the body really changes), not guessed from the syntax
    trace = False
    G = set()         # ghost variables (z3-valued) that the body changes
    for _round in range(6):
        h = _havoc(st, names, W, trace, G)
        n_ob = len(ex.obligations)
        saved = (ex.unreachable, ex.feas_checks)
        ex.discovery = getattr(ex, 'discovery', 0) + 1
        try:
            starts = bind(h.copy()) if bind else [h.copy()]
            ends = []
            for s0 in starts:
                ends.extend(s for s, fl in ex.run_block(body, s0))
        finally:
            ex.discovery -= 1
            del ex.obligations[n_ob:]
        W2, trace2, G2 = set(W), trace, set(G)
        for e in ends:
            for gname, gval in e.ghost.items():
                hv = h.ghost.get(gname)
                if is_expr(gval) and (hv is None or not (is_expr(hv) and gval.eq(hv))): G2.add(gname)
            for comp, arr in e.heap.items():
                base = h.heap.get(comp)
                if base is None: base = Const('H_' + comp, arr.sort())      # component first read inside the body
                if not arr.eq(base): W2.add(comp.split('#')[0])
            if not (e.tr.eq(h.tr) and e.tn.eq(h.tn)): trace2 = True
        if W2 == W and trace2 == trace and G2 == G: break
        W, trace, G = W2, trace2, G2
    else:
        raise Unsupported('loop frame discovery did not converge')
    return _havoc(st, names, W, trace, G)


def _havoc(st, names, fields, trace, ghosts=()):
    h = st.copy()
    for g in sorted(ghosts):
        cur = h.ghost.get(g)
        if is_expr(cur): h.ghost[g] = fresh('ghost_' + g, cur.sort())
    for name in names:
        v = h.env.get(name)
        if v is None:
            # a local first assigned inside the loop: at the loop head it is either unbound or holds the value of an
            # earlier iteration; it is modelled as an arbitrary value (an UnboundLocalError is outside the model)
            if not name.startswith('$'): h.env[name] = ZV('val', fresh(name, Val))
            continue
        h.env[name] = refresh(v, name)
    for f in sorted(fields):
        if f in FIELDS: h.havoc_field(f)
    if trace: h.havoc_trace()
    return h


def refresh(v, name):
    if isinstance(v, ZV): return ZV(v.kind, fresh(name, v.z.sort()), v.cls)
    if isinstance(v, PDict): return PDict(fresh(name, DictS))
    if isinstance(v, PSet): return PSet(fresh(name, v.arr.sort()), v.ekind)
    if isinstance(v, PMap): return PMap(fresh(name, v.arr.sort()), v.kkind, v.vkind)
    if isinstance(v, PSeq): return PSeq(fresh(name, SeqArr), fresh(name + '_len', IntSort()), v.elem, v.is_list)
    if isinstance(v, PConst):
        o = v.obj
        if o is None or o is UNDEF: return ZV('val', fresh(name, Val))
        if isinstance(o, bool): return ZV('bool', fresh(name, BoolSort()))
        if isinstance(o, int): return ZV('int', fresh(name, IntSort()))
        if isinstance(o, float): return ZV('real', fresh(name, RealSort()))
        if isinstance(o, str): return ZV('str', fresh(name, StringSort()))
    if isinstance(v, PTuple) and v.is_list:
        # a list built up by the loop: stays a sequence (its length is whatever the invariant says)
        return PSeq(fresh(name, SeqArr), fresh(name + '_len', IntSort()), 'val', True)
    if isinstance(v, (PTuple, PExc)): return ZV('val', fresh(name, Val))
    raise Unsupported(f'cannot havoc local {name} = {v!r} at a loop head')


def _inv(ex, key):
    inv = ex.spec.invariants.get(key)
    if inv is None:
        # a loop the contract does not know (new code): cut with the weakest invariant `True`.  This is sound (everything
        # the loop may touch is forgotten); whatever the proof needed about it is then simply not available.
        ex.spec.note_assumption(f'loop `{key}` has no invariant in the contract: cut with the trivial invariant')
        def trivial(lc):
            # every state that has passed the head of this loop is marked: what the solver refutes on such a path may be an
            # artefact of the forgotten state, so it is reported as undecided, never as a violation (pyvc.main)
            if f'loop[{key}].noinv' not in lc.st.st.labels: lc.st.st.label(f'loop[{key}].noinv')
            return []
        return trivial
    return inv


def _oblige_inv(ex, key, what, st, lc, inv):
    # entries labelled 'assume:...' are generator-side instances of definitional axioms / proved lemmas at the
    # current loop index: they are hypotheses at the loop head, never obligations
    entries = inv(lc)
    hyp = [f for label, f in entries if label.startswith('assume:')]
    if hyp:
        st = st.copy(); st.assume(*hyp)
    for label, f in entries:
        if label.startswith('assume:'): continue
        if label.startswith('own:'):
            # a clause about a few ghost/local variables only: proved from the hypotheses that speak about nothing else
            # (a subset of the hypotheses: sound; keeps the query small, so that its proof does not depend on solver luck)
            from .solve import _symbols
            gs = _symbols(f)
            slim = st.copy(); slim.pc = [h for h in st.pc if _symbols(h) <= gs]
            ex.oblige(f'loop[{key}]/{what}:{label[4:]}', slim, f, kind='loop')
            continue
        if label.startswith('qf:'):
            # quantifier-free instance of an invariant clause: decided from the quantifier-free path facts alone (see Exec.emit)
            from .engine import _has_quant_cached
            slim = st.copy(); slim.pc = [h for h in st.pc if not _has_quant_cached(h)]
            ex.oblige(f'loop[{key}]/{what}:{label[3:]}', slim, f, kind='loop')
            continue
        ex.oblige(f'loop[{key}]/{what}:{label}', st, f, kind='loop')


def _assume_inv(st, lc, inv):
    for label, f in inv(lc): st.assume(f)


# ---------------------------------------------------------------------------------------- for
def run_for(ex, s, st):
    outs = []
    custom = ex.spec.calls.get('for:' + loop_key(ex, s))
    if custom is not None and getattr(custom, 'no_iter', False):
        return custom(ex, s, st, None)          # the handler gives the iterated sequence itself (the expression is not evaluated)
    for s1, it in ex.ev(s.iter, st):
        if isinstance(it, Raise): outs.append((s1, ('raise', it.exc))); continue
        items = static_items(ex, it)
        if custom is not None: outs.extend(custom(ex, s, s1, it))
        elif items is not None: outs.extend(unrolled(ex, s, s1, items))
        elif isinstance(it, (PSeq,)) or (isinstance(it, ZV) and it.kind == 'val'): outs.extend(for_seq(ex, s, s1, it))
        elif isinstance(it, PSet): outs.extend(for_set(ex, s, s1, it))
        elif type(it).__name__ == 'PRange':
            # for i in range(n): the index loop over 0..n-1 (items are the indices themselves)
            jj = fresh('j', IntSort())
            outs.extend(for_seq(ex, s, s1, PSeq(z3.Lambda([jj], Val.I(jj)), z3.If(it.n < 0, IntVal(0), it.n), 'val')))
        elif type(it).__name__ == 'PItems':
            d = it.d
            def pair(x, d=d): return PTuple([ZV('str', x), ZV('val', Opt.v(d.arr[x]))])
            ks = fresh('k', StringSort())
            outs.extend(for_set(ex, s, s1, PSet(z3.Lambda([ks], Opt.is_Some(d.arr[ks])), 'str'), item_of=pair))
        elif isinstance(it, PDict):
            ks = fresh('k', StringSort())
            outs.extend(for_set(ex, s, s1, PSet(z3.Lambda([ks], Opt.is_Some(it.arr[ks])), 'str')))
        else:
            raise Unsupported(f'for-loop over {it!r} in {ex.spec.qual} (line {s.lineno})')
    return outs


def static_items(ex, it):
    if isinstance(it, PTuple): return list(it.items)
    if isinstance(it, PConst) and isinstance(it.obj, (tuple, list, range)): return [ex.lift_const(x) for x in it.obj]
    if isinstance(it, PConst) and isinstance(it.obj, StaticIter): return it.obj.items
    if isinstance(it, PTuple): return list(it.items)
    return None


class StaticIter:
    """result of enumerate/zip/reversed over static sequences"""
    def __init__(self, items): self.items = items


def unrolled(ex, s, st, items):
    """complete unrolling of a loop over a sequence of statically known length"""
    cur, done = [(st, NEXT)], []
    for it in items:
        nxt = []
        for s1, fl in cur:
            for s2, f2 in ex.assign(s1, s.target, it):
                if f2 is not NEXT: done.append((s2, f2)); continue
                for s3, f3 in ex.run_block(s.body, s2):
                    if f3 is NEXT or f3[0] == 'continue': nxt.append((s3, NEXT))
                    elif f3[0] == 'break': done.append((s3, ('brk',)))
                    else: done.append((s3, f3))
        cur = nxt
    res = []
    for s1, fl in cur:       # exhausted normally -> else clause
        res.extend(ex.run_block(s.orelse, s1) if s.orelse else [(s1, NEXT)])
    for s1, fl in done:
        res.append((s1, NEXT) if fl == ('brk',) else (s1, fl))
    return res


UNROLL_UNKNOWN = 3      # a loop the contracts do not know is executed completely for sequences of up to this many items
UNROLL_SETS = False     # the same for loops over sets and for comprehensions run as loops: tried and switched off.  Two behaviour-preserving
                        # restructurings (DESIGN 8.8) were refuted on such exactly executed paths, because the new code relied on a fact the
                        # contract's precondition does not state (a class invariant) or on ghost bookkeeping attached to the old shape: a failed
                        # proof, not a violation.  Those loops are cut trivially and stay 'undecided'.


def for_seq(ex, s, st, it, item_of=None, index_values=None):
    """for x in <tuple of symbolic length>: index loop cut by the invariant"""
    key = loop_key(ex, s)
    if ex.spec.invariants.get(key) is None and index_values is None and not getattr(ex, 'discovery', 0) and (UNROLL_SETS or not getattr(s, '_comp_key', None)):
        # no invariant for this loop (code the contracts were not written for).  Sequences of 0..UNROLL_UNKNOWN items: the loop is unrolled
        # completely -- on those paths nothing is forgotten, a counter-model is a genuine one (bounded refutation; it proves nothing by
        # itself).  Longer sequences: cut with the trivial invariant (paths marked .noinv: a counter-model there is 'undecided').
        arr, n = seq_of(it, st)
        elem = it.elem if isinstance(it, PSeq) else 'val'
        def item(k):
            if item_of: return item_of(IntVal(k))
            return ZV('ref', Val.ref(asel(arr, IntVal(k))), elem[4:]) if elem.startswith('ref:') else ZV('val', asel(arr, IntVal(k)))
        outs = []
        for m in range(UNROLL_UNKNOWN + 1):
            sm = st.copy(); sm.assume(n == m); sm.label(f'loop[{key}].unrolled{m}')
            if ex.feasible(sm): outs.extend(unrolled(ex, s, sm, [item(k) for k in range(m)]))
        rest = st.copy(); rest.assume(n > UNROLL_UNKNOWN)
        if ex.feasible(rest): outs.extend(_for_seq_cut(ex, s, rest, it, item_of, index_values))
        ex.spec.note_assumption(f'loop `{key}` has no invariant in the contract: unrolled for up to {UNROLL_UNKNOWN} items (bounded), cut trivially beyond')
        return outs
    return _for_seq_cut(ex, s, st, it, item_of, index_values)


def _for_seq_cut(ex, s, st, it, item_of=None, index_values=None):
    key = loop_key(ex, s); inv = _inv(ex, key)
    arr, n = seq_of(it, st)
    elem = it.elem if isinstance(it, PSeq) else 'val'
    pre = ex.spec.pre_view
    _oblige_inv(ex, key, 'establish', st, LoopCtx(key, st, st, pre, i=IntVal(0), n=n, arr=arr), inv)
    elem0 = it.elem if isinstance(it, PSeq) else 'val'
    def bind(h0):
        i0 = fresh('i', IntSort()); h0.assume(0 <= i0, i0 < n)
        _assume_inv(h0, LoopCtx(key, st, h0, pre, i=i0, n=n, arr=arr), inv)
        item0 = item_of(i0) if item_of else ZV('ref', Val.ref(asel(arr, i0)), elem0[4:]) if elem0.startswith('ref:') else ZV('val', asel(arr, i0))
        return [s2 for s2, f2 in ex.assign(h0, s.target, item0) if f2 is NEXT]
    h = havoc_loop(ex, st, s.body, extra_names=_target_names(s.target), bind=bind)
    res = []
    # one arbitrary iteration -- or, for a sequence of known length, one inductive step per concrete index
    # (complete as well, and it keeps index-dependent arithmetic linear)
    indices = index_values if index_values is not None else [None]
    for k in indices:
        hk = h.copy()
        if k is None:
            i = fresh('i', IntSort()); hk.assume(0 <= i, i <= n)
        else:
            i = IntVal(k)
        _assume_inv(hk, LoopCtx(key, st, hk, pre, i=i, n=n, arr=arr), inv)
        b = hk.copy(); b.assume(i < n); b.label(f'loop[{key}].body' + ('' if k is None else f'@{k}'))
        if ex.feasible(b):
            item = item_of(i) if item_of else ZV('ref', Val.ref(asel(arr, i)), elem[4:]) if elem.startswith('ref:') else ZV('val', asel(arr, i))
            for s2, f2 in ex.assign(b, s.target, item):
                if f2 is not NEXT: res.append((s2, f2)); continue          # binding the loop target failed (an item that cannot be unpacked)
                for s3, f3 in ex.run_block(s.body, s2):
                    if f3 is NEXT or f3[0] == 'continue':
                        _oblige_inv(ex, key, 'preserve', s3, LoopCtx(key, st, s3, pre, i=i + 1, n=n, arr=arr), inv)
                    elif f3[0] == 'break': res.append((s3, NEXT))
                    else: res.append((s3, f3))
    # exit
    x = h.copy()
    i = fresh('i', IntSort()); x.assume(i == n)
    _assume_inv(x, LoopCtx(key, st, x, pre, i=i, n=n, arr=arr), inv)
    x.label(f'loop[{key}].exit')
    if ex.feasible(x):
        res.extend(ex.run_block(s.orelse, x) if s.orelse else [(x, NEXT)])
    return res


def _target_names(t):
    return {n.id for n in ast.walk(t) if isinstance(n, ast.Name)}


def for_set(ex, s, st, it, item_of=None):
    """for x in <set>: arbitrary iteration order; ghost `done` = elements already visited"""
    key = loop_key(ex, s)
    if UNROLL_SETS and ex.spec.invariants.get(key) is None and not getattr(ex, 'discovery', 0):
        # (switched off, see UNROLL_SETS) a loop over a set that the contracts do not know: sets of 0..UNROLL_UNKNOWN elements are enumerated ({x1..xm}, pairwise distinct,
        # visited in this order -- which is an arbitrary order, the names being arbitrary) and the loop is unrolled completely on those paths
        # (a counter-model there is genuine); larger sets: cut with the trivial invariant (.noinv)
        ex.spec.note_assumption(f'loop `{key}` has no invariant in the contract: unrolled for sets of up to {UNROLL_UNKNOWN} elements (bounded), cut trivially beyond')
        dom = it.arr.sort().domain()
        def wrap(x): return item_of(x) if item_of else ZV('ref', x) if it.ekind == 'ref' else ZV('val', x) if it.ekind == 'val' else ZV('str', x)
        outs = []
        e = fresh('e', dom)
        for m in range(UNROLL_UNKNOWN + 1):
            xs = [fresh(f'x{k}', dom) for k in range(m)]
            sm = st.copy()
            sm.assume(ForAll([e], it.arr[e] == (Or(*[e == x for x in xs]) if xs else BoolVal(False))), *[it.arr[x] for x in xs])
            if m > 1: sm.assume(z3.Distinct(*xs))
            sm.label(f'loop[{key}].unrolled{m}')
            if ex.feasible(sm): outs.extend(unrolled(ex, s, sm, [wrap(x) for x in xs]))
        ys = [fresh(f'y{k}', dom) for k in range(UNROLL_UNKNOWN + 1)]
        rest = st.copy(); rest.assume(z3.Distinct(*ys), *[it.arr[y] for y in ys])
        if ex.feasible(rest): outs.extend(_for_set_cut(ex, s, rest, it, item_of))
        return outs
    return _for_set_cut(ex, s, st, it, item_of)


def _for_set_cut(ex, s, st, it, item_of=None):
    key = loop_key(ex, s); inv = _inv(ex, key)
    pre = ex.spec.pre_view
    dom = it.arr.sort().domain()
    _oblige_inv(ex, key, 'establish', st, LoopCtx(key, st, st, pre, done=K(dom, BoolVal(False)), S=it.arr), inv)
    def bind(h0):
        x0 = fresh('x', dom); h0.assume(it.arr[x0])
        d0 = fresh('done', it.arr.sort())
        _assume_inv(h0, LoopCtx(key, st, h0, pre, done=d0, S=it.arr), inv)
        item0 = item_of(x0) if item_of else ZV('ref', x0) if it.ekind == 'ref' else ZV('val', x0) if it.ekind == 'val' else ZV('str', x0)
        return [s2 for s2, f2 in ex.assign(h0, s.target, item0) if f2 is NEXT]
    h = havoc_loop(ex, st, s.body, extra_names=_target_names(s.target), bind=bind)
    done = fresh('done', it.arr.sort())
    e = fresh('e', dom)
    h.assume(ForAll([e], Implies(done[e], it.arr[e])))
    _assume_inv(h, LoopCtx(key, st, h, pre, done=done, S=it.arr), inv)
    res = []
    b = h.copy(); x = fresh('x', dom); b.assume(it.arr[x], Not(done[x])); b.label(f'loop[{key}].body')
    if ex.feasible(b):
        item = item_of(x) if item_of else ZV('ref', x) if it.ekind == 'ref' else ZV('val', x) if it.ekind == 'val' else ZV('str', x)
        for s2, f2 in ex.assign(b, s.target, item):
            if f2 is not NEXT: res.append((s2, f2)); continue          # binding the loop target failed (an item that cannot be unpacked)
            for s3, f3 in ex.run_block(s.body, s2):
                if f3 is NEXT or f3[0] == 'continue':
                    _oblige_inv(ex, key, 'preserve', s3, LoopCtx(key, st, s3, pre, done=Store(done, x, BoolVal(True)), S=it.arr), inv)
                elif f3[0] == 'break': res.append((s3, NEXT))
                else: res.append((s3, f3))
    xs = h.copy(); xs.assume(ForAll([e], done[e] == it.arr[e])); xs.label(f'loop[{key}].exit')
    res.extend(ex.run_block(s.orelse, xs) if s.orelse else [(xs, NEXT)])
    return res


# ---------------------------------------------------------------------------------------- while
def bind_loop_locals(st, body):
    """locals first assigned inside the loop exist (with an arbitrary value) from the loop entry on -- see _havoc"""
    missing = [n for n in sorted(assigned_names(body)) if n not in st.env and not n.startswith('$')]
    if not missing: return st
    st = st.copy()
    for n in missing: st.env[n] = ZV('val', fresh(n, Val))
    return st


def run_while(ex, s, st):
    key = loop_key(ex, s)
    always = isinstance(s.test, ast.Constant) and s.test.value is True
    if ex.spec.invariants.get(key) is None and not always and not getattr(ex, 'discovery', 0):
        # a `while` loop the contracts do not know: its first UNROLL_UNKNOWN iterations are executed as they stand (nothing is forgotten on the
        # paths that leave the loop within them: a counter-model there is genuine); a path that is still inside afterwards is cut trivially (.noinv)
        ex.spec.note_assumption(f'loop `{key}` has no invariant in the contract: {UNROLL_UNKNOWN} iterations unrolled (bounded), cut trivially beyond')
        st = bind_loop_locals(st, s.body)
        outs, cur = [], [st]
        for m in range(UNROLL_UNKNOWN + 1):
            nxt = []
            for s0 in cur:
                for s1, t in ex.ev(s.test, s0):
                    if isinstance(t, Raise): outs.append((s1, ('raise', t.exc))); continue
                    for s2, side in ex.fork(s1, truth(t, s1), f'loop[{key}].unrolled{m}'):
                        if not side:
                            outs.extend(ex.run_block(s.orelse, s2) if s.orelse else [(s2, NEXT)]); continue
                        if m == UNROLL_UNKNOWN:
                            outs.extend(_run_while_cut(ex, s, s2)); continue
                        for s3, f3 in ex.run_block(s.body, s2):
                            if f3 is NEXT or f3[0] == 'continue': nxt.append(s3)
                            elif f3[0] == 'break': outs.append((s3, NEXT))
                            else: outs.append((s3, f3))
            cur = nxt
        return outs
    return _run_while_cut(ex, s, st)


def _run_while_cut(ex, s, st):
    key = loop_key(ex, s); inv = _inv(ex, key)
    st = bind_loop_locals(st, s.body)
    pre = ex.spec.pre_view
    _oblige_inv(ex, key, 'establish', st, LoopCtx(key, st, st, pre), inv)
    def bind_w(h0):
        # the discovery runs start from loop-head states too: they satisfy the invariant
        _assume_inv(h0, LoopCtx(key, st, h0, pre), inv)
        return [h0]
    h = havoc_loop(ex, st, s.body, bind=bind_w)
    _assume_inv(h, LoopCtx(key, st, h, pre), inv)
    res = []
    always = isinstance(s.test, ast.Constant) and s.test.value is True
    tests = [(h, P_TRUE)] if always else ex.ev(s.test, h)
    for s1, t in tests:
        if isinstance(t, Raise): res.append((s1, ('raise', t.exc))); continue
        for s2, side in ex.fork(s1, truth(t, s1), f'loop[{key}].test'):
            if not side:
                res.extend(ex.run_block(s.orelse, s2) if s.orelse else [(s2, NEXT)]); continue
            s2.label(f'loop[{key}].body')
            for s3, f3 in ex.run_block(s.body, s2):
                if f3 is NEXT or f3[0] == 'continue':
                    _oblige_inv(ex, key, 'preserve', s3, LoopCtx(key, st, s3, pre), inv)
                elif f3[0] == 'break': res.append((s3, NEXT))
                else: res.append((s3, f3))
    return res
